//! `rvh` — the Rust side of the correspondence check: calls the real raft-rs code in-process and
//! writes a trace in the line protocol that the Lean driver `rvm` re-executes on the model.
mod gen_cluster;
mod gen_confchange;
mod gen_inflights;
mod gen_memstorage;
mod gen_quorum;
mod gen_rawnode;
mod gen_raftnode;
mod gen_raftlog;
mod rng;

use std::io::{BufWriter, Write};

fn arg<T: std::str::FromStr>(args: &[String], name: &str, default: T) -> T {
    args.iter()
        .position(|a| a == name)
        .and_then(|i| args.get(i + 1))
        .and_then(|v| v.parse().ok())
        .unwrap_or(default)
}

/// re-executes the commands of a trace / replay file on the real code (observations are recomputed,
/// whatever the file says after `->` is ignored)
fn replay(path: &str, out: &mut dyn Write) -> u64 {
    let text = std::fs::read_to_string(path).expect("read replay file");
    let mut inf = gen_inflights::Exec::default();
    let mut quo = gen_quorum::Exec::default();
    let mut cc = gen_confchange::Exec::default();
    let mut rl = gen_raftlog::Exec::default();
    let mut ms = gen_memstorage::Exec::default();
    let mut rw = gen_rawnode::Exec::default();
    let mut rnx = gen_raftnode::Exec::default();
    gen_raftnode::start_watchdog();
    let mut n = 0;
    for line in text.lines() {
        let lhs = line.split(" -> ").next().unwrap_or("");
        let toks: Vec<&str> = lhs.split_whitespace().collect();
        if toks.is_empty() || toks[0].starts_with('#') {
            continue;
        }
        if toks[0] == "rn" {
            // the line itself is rewritten: the rnd token depends on what the call did
            // flushed line by line: the hang watchdog of gen_raftnode writes to the descriptor directly
            out.flush().unwrap();
            writeln!(out, "rn {}", rnx.exec_line(&toks[1..])).unwrap();
            out.flush().unwrap();
            n += 1;
            continue;
        }
        if toks[0] == "rw" {
            // the raft effect after `;` is recomputed from the real node
            let (lhs2, obs) = rw.exec(&toks[1..]);
            writeln!(out, "rw {} -> {}", lhs2, obs).unwrap();
            n += 1;
            continue;
        }
        let obs = match toks[0] {
            "inf" => inf.exec(&toks[1..]),
            "q" => quo.exec(&toks[1..]),
            "cc" => cc.exec(&toks[1..]),
            "rl" => rl.exec(&toks[1..]),
            "ms" => ms.exec(&toks[1..]),
            _ => "bad-op".to_string(),
        };
        writeln!(out, "{} -> {}", lhs.trim(), obs).unwrap();
        n += 1;
    }
    n
}

/// `--testdata-dir DIR`, else `<path of the raft dependency in Cargo.toml>/src/confchange/testdata`
fn repo_testdata_dir(args: &[String]) -> String {
    if let Some(i) = args.iter().position(|a| a == "--testdata-dir") {
        return args[i + 1].clone();
    }
    let manifest = include_str!("../Cargo.toml");
    let line = manifest.lines().find(|l| l.starts_with("raft =")).expect("raft dependency");
    let path = line.split("path = \"").nth(1).and_then(|r| r.split('"').next()).expect("path");
    let p = std::path::Path::new(path);
    let p = if p.is_absolute() { p.to_path_buf() } else { std::path::Path::new(env!("CARGO_MANIFEST_DIR")).join(p) };
    p.join("src/confchange/testdata").to_string_lossy().into_owned()
}

fn json_str(s: &str) -> String {
    let mut o = String::from("\"");
    for c in s.chars() {
        match c {
            '"' => o.push_str("\\\""),
            '\\' => o.push_str("\\\\"),
            '\n' => o.push_str("\\n"),
            c if (c as u32) < 0x20 => o.push(' '),
            c => o.push(c),
        }
    }
    o.push('"');
    o
}

/// `rvh cluster --seed S --runs N --steps K [--reconfig] [--no-p] [--verbose] [--report FILE] [--voters V --learners L]`
/// P traces go to stdout, one JSON line per run to the report file.
fn cluster(args: &[String], seed: u64, out: &mut dyn Write) -> u64 {
    let runs: u64 = arg(args, "--runs", 20);
    let steps: u64 = arg(args, "--steps", 3000);
    let reconfig = args.iter().any(|a| a == "--reconfig");
    let emit_p = !args.iter().any(|a| a == "--no-p");
    let verbose = args.iter().any(|a| a == "--verbose");
    let voters: usize = arg(args, "--voters", 0);
    let learners: usize = arg(args, "--learners", 0);
    let report: String = arg(args, "--report", String::new());
    let run_seed: u64 = arg(args, "--run-seed", 0);
    let runs = if run_seed != 0 { 1 } else { runs };
    let mut rep = if report.is_empty() { None } else { Some(std::fs::File::create(&report).expect("report file")) };
    let mut lines = 0u64;
    let mut distinct: std::collections::HashSet<u64> = std::collections::HashSet::new();
    let mut kinds: std::collections::BTreeMap<String, u64> = std::collections::BTreeMap::new();
    for r in 0..runs {
        let params = gen_cluster::Params {
            seed: if run_seed != 0 { run_seed } else { seed.wrapping_mul(1_000_003).wrapping_add(r) },
            steps,
            reconfig,
            emit_p,
            verbose,
            shape: if voters > 0 { Some((voters, learners)) } else { None },
            lockstep: args.iter().any(|a| a == "--lockstep"),
            stabilise: args.iter().any(|a| a == "--stabilise"),
        };
        let res = gen_cluster::run_one(params, out);
        lines += res.p_lines as u64;
        for h in &res.ev_hashes {
            distinct.insert(*h);
        }
        for (k, v) in &res.ev_kinds {
            *kinds.entry(k.clone()).or_insert(0) += v;
        }
        if let Some(f) = rep.as_mut() {
            let viol: Vec<String> = res.violations.iter().map(|v| format!("{{\"prop\":{},\"text\":{},\"step\":{}}}", json_str(v.prop), json_str(&v.text), v.step)).collect();
            let stats: Vec<String> = res.stats.iter().map(|(k, v)| format!("{}:{}", json_str(k), v)).collect();
            let hist: Vec<String> = if res.violations.is_empty() { vec![json_str(&res.history[0])] } else { res.history.iter().map(|h| json_str(h)).collect() };
            writeln!(f, "{{\"seed\":{},\"p_lines\":{},\"p_end\":{},\"violations\":[{}],\"stats\":{{{}}},\"history\":[{}]}}",
                res.seed, res.p_lines, json_str(&res.p_end), viol.join(","), stats.join(","), hist.join(",")).unwrap();
        }
    }
    if let Some(f) = rep.as_mut() {
        let ks: Vec<String> = kinds.iter().map(|(k, v)| format!("{}:{}", json_str(k), v)).collect();
        writeln!(f, "{{\"summary\":true,\"p_lines\":{},\"distinct_events\":{},\"event_kinds\":{{{}}}}}", lines, distinct.len(), ks.join(",")).unwrap();
    }
    lines
}

static LAST_PANIC: std::sync::Mutex<String> = std::sync::Mutex::new(String::new());

fn main() {
    let r = std::panic::catch_unwind(real_main);
    if r.is_err() {
        eprintln!("rvh: harness panic: {}", LAST_PANIC.lock().unwrap());
        std::process::exit(3);
    }
}

fn real_main() {
    // library panics are caught per call (catch_unwind); keep their text for a diagnosis if one escapes
    std::panic::set_hook(Box::new(|info| {
        *LAST_PANIC.lock().unwrap() = format!("{}", info);
        if std::env::var("RVH_SHOW_PANIC").is_ok() {
            eprintln!("rvh: caught panic: {}", info);
        }
    }));
    let args: Vec<String> = std::env::args().collect();
    let cmd = args.get(1).map(|s| s.as_str()).unwrap_or("");
    let seed: u64 = arg(&args, "--seed", 1);
    let stdout = std::io::stdout();
    let mut out = BufWriter::with_capacity(1 << 20, stdout.lock());
    let lines = match cmd {
        "inflights" => {
            if args.iter().any(|a| a == "--exhaustive") {
                gen_inflights::exhaustive(arg(&args, "--max-cap", 3), arg(&args, "--len", 5), &mut out)
            } else {
                gen_inflights::random(seed, arg(&args, "--cases", 5000), arg(&args, "--len", 40), &mut out)
            }
        }
        "quorum" => {
            if args.iter().any(|a| a == "--testdata") {
                gen_quorum::testdata(&mut out)
            } else if args.iter().any(|a| a == "--exhaustive") {
                gen_quorum::exhaustive(arg(&args, "--ids", 3), arg(&args, "--max-idx", 2), arg(&args, "--max-grp", 2), &mut out)
            } else {
                gen_quorum::random(seed, arg(&args, "--cases", 20000), arg(&args, "--max-ids", 9), &mut out)
            }
        }
        "confchange" => {
            if args.iter().any(|a| a == "--testdata") {
                gen_confchange::testdata(&repo_testdata_dir(&args), &mut out)
            } else if args.iter().any(|a| a == "--exhaustive") {
                gen_confchange::exhaustive(arg(&args, "--ids", 3), arg(&args, "--len", 2), arg(&args, "--depth", 2), &mut out)
            } else {
                gen_confchange::random(seed, arg(&args, "--cases", 3000), arg(&args, "--len", 12), &mut out)
            }
        }
        "raftlog" => {
            if args.iter().any(|a| a == "--exhaustive") {
                gen_raftlog::exhaustive(arg(&args, "--len", 3), &mut out)
            } else {
                gen_raftlog::random(seed, arg(&args, "--cases", 5000), arg(&args, "--len", 40), &mut out)
            }
        }
        "memstorage" => {
            if args.iter().any(|a| a == "--exhaustive") {
                gen_memstorage::exhaustive(arg(&args, "--max-log", 4), arg(&args, "--len", 3), arg(&args, "--prefixes", 3), &mut out)
            } else {
                gen_memstorage::random(seed ^ (arg::<u64>(&args, "--stream", 0) << 32), arg(&args, "--cases", 3000), arg(&args, "--len", 25), &mut out)
            }
        }
        "rawnode" => gen_rawnode::random(seed, arg(&args, "--cases", 300), arg(&args, "--len", 120), &mut out),
        "raftnode" => gen_raftnode::generate(
            seed,
            arg(&args, "--offset", 0),
            arg(&args, "--runs", 20),
            arg(&args, "--steps", 1500),
            args.iter().any(|a| a == "--malformed"),
            &arg(&args, "--coverage", String::new()),
            &mut out,
        ),
        "cluster" => cluster(&args, seed, &mut out),
        "replay" => replay(args.get(2).expect("replay <file>"), &mut out),
        _ => {
            eprintln!("usage: rvh <inflights|...> [--seed N] [--cases N] [--len N] [--exhaustive]");
            std::process::exit(2);
        }
    };
    out.flush().unwrap();
    eprintln!("rvh {}: {} lines", cmd, lines);
}
