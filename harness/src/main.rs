//! `rvh` — the Rust side of the correspondence check: calls the real raft-rs code in-process and
//! writes a trace in the line protocol that the Lean driver `rvm` re-executes on the model.
mod gen_inflights;
mod rng;

use std::io::{BufWriter, Write};

fn arg<T: std::str::FromStr>(args: &[String], name: &str, default: T) -> T {
    args.iter()
        .position(|a| a == name)
        .and_then(|i| args.get(i + 1))
        .and_then(|v| v.parse().ok())
        .unwrap_or(default)
}

/// re-executes the commands of a trace / replay file on the real code (observations are recomputed,
/// whatever the file says after `->` is ignored)
fn replay(path: &str, out: &mut dyn Write) -> u64 {
    let text = std::fs::read_to_string(path).expect("read replay file");
    let mut inf = gen_inflights::Exec::default();
    let mut n = 0;
    for line in text.lines() {
        let lhs = line.split(" -> ").next().unwrap_or("");
        let toks: Vec<&str> = lhs.split_whitespace().collect();
        if toks.is_empty() || toks[0].starts_with('#') {
            continue;
        }
        let obs = match toks[0] {
            "inf" => inf.exec(&toks[1..]),
            _ => "bad-op".to_string(),
        };
        writeln!(out, "{} -> {}", lhs.trim(), obs).unwrap();
        n += 1;
    }
    n
}

fn main() {
    std::panic::set_hook(Box::new(|_| {}));
    let args: Vec<String> = std::env::args().collect();
    let cmd = args.get(1).map(|s| s.as_str()).unwrap_or("");
    let seed: u64 = arg(&args, "--seed", 1);
    let stdout = std::io::stdout();
    let mut out = BufWriter::with_capacity(1 << 20, stdout.lock());
    let lines = match cmd {
        "inflights" => {
            if args.iter().any(|a| a == "--exhaustive") {
                gen_inflights::exhaustive(arg(&args, "--max-cap", 3), arg(&args, "--len", 5), &mut out)
            } else {
                gen_inflights::random(seed, arg(&args, "--cases", 5000), arg(&args, "--len", 40), &mut out)
            }
        }
        "replay" => replay(args.get(2).expect("replay <file>"), &mut out),
        _ => {
            eprintln!("usage: rvh <inflights|...> [--seed N] [--cases N] [--len N] [--exhaustive]");
            std::process::exit(2);
        }
    };
    out.flush().unwrap();
    eprintln!("rvh {}: {} lines", cmd, lines);
}
