//! C19: drives the real `raft::storage::MemStorage` through histories of mutations
//! (`set_hardstate`, `set_conf_state`, `commit_to`, `apply_snapshot`, `compact`, `append`, the two
//! triggers) and, after every mutation, prints what the `Storage` trait lets a caller observe:
//! `first_index`, `last_index`, `initial_state` (hard state + conf state) and `term(idx)` for every
//! idx in `[first-2, last+2]`.  `entries(low, high, max_size, ctx)`, `snapshot(request_index)` and
//! `term(idx)` at arbitrary points are separate query lines (the first two take the write lock, so
//! a panic inside them poisons it and ends the history, like a panicking mutation).
//!
//! Line protocol (component `ms`):
//!   ms new                                   -> ok <state>
//!   ms set_hardstate T V C                   -> ok <state>
//!   ms set_conf_state <cs>                   -> ok <state>
//!   ms commit_to I                           -> ok <state> | panic
//!   ms apply_snapshot I T <cs>               -> ok <state> | err snapshot_out_of_date <state>
//!   ms compact I                             -> ok <state> | panic
//!   ms append N e1 .. eN                     -> ok <state> | panic
//!   ms trigger_snap_unavailable              -> ok <state>
//!   ms trigger_log_unavailable 0|1           -> ok <state>
//!   ms entries LOW HIGH none|MAX 0|1         -> ok N e1 .. eN | err <e> | panic
//!   ms term I                                -> ok T | err <e>
//!   ms snapshot REQ                          -> ok I T <cs> <datahex> | err <e> | panic
//! <state> = fi F li L hs T V C cs <cs> terms LO N r1 .. rN   (ri = term | c | u)
//! <cs>    = nv v.. nl l.. no o.. nn n.. autoleave            (four counted lists and a flag)
//! entry   = type:term:index:datahex:ctxhex:sync              (`-` for empty bytes)
use crate::rng::Rng;

/// `rng.range` that tolerates an empty interval (possible only when the code under test misbehaves)
fn rr(rng: &mut Rng, lo: u64, hi: u64) -> u64 {
    if hi < lo { lo } else { rng.range(lo, hi) }
}

use raft::eraftpb::{ConfState, Entry, EntryType, HardState, Snapshot};
use raft::storage::MemStorage;
use raft::{Error, GetEntriesContext, Storage, StorageError};
use std::fmt::Write as _;
use std::io::Write;
use std::panic::{catch_unwind, AssertUnwindSafe};

fn hex(b: &[u8]) -> String {
    if b.is_empty() {
        return "-".into();
    }
    let mut s = String::with_capacity(b.len() * 2);
    for x in b {
        write!(s, "{:02x}", x).unwrap();
    }
    s
}

fn unhex(s: &str) -> Vec<u8> {
    if s == "-" {
        return vec![];
    }
    (0..s.len() / 2).map(|i| u8::from_str_radix(&s[2 * i..2 * i + 2], 16).unwrap_or(0)).collect()
}

pub fn fmt_entry(e: &Entry) -> String {
    format!(
        "{}:{}:{}:{}:{}:{}",
        e.get_entry_type() as i32,
        e.term,
        e.index,
        hex(&e.data),
        hex(&e.context),
        e.sync_log as u8
    )
}

fn parse_entry(tok: &str) -> Entry {
    let f: Vec<&str> = tok.split(':').collect();
    let n = |i: usize| -> u64 { f.get(i).and_then(|s| s.parse().ok()).unwrap_or(0) };
    let mut e = Entry::default();
    e.set_entry_type(match n(0) {
        1 => EntryType::EntryConfChange,
        2 => EntryType::EntryConfChangeV2,
        _ => EntryType::EntryNormal,
    });
    e.term = n(1);
    e.index = n(2);
    e.data = unhex(f.get(3).copied().unwrap_or("-")).into();
    e.context = unhex(f.get(4).copied().unwrap_or("-")).into();
    e.sync_log = n(5) != 0;
    e
}

fn fmt_list(out: &mut String, l: &[u64]) {
    write!(out, "{}", l.len()).unwrap();
    for x in l {
        write!(out, " {}", x).unwrap();
    }
}

pub fn fmt_cs(cs: &ConfState) -> String {
    let mut s = String::new();
    fmt_list(&mut s, &cs.voters);
    s.push(' ');
    fmt_list(&mut s, &cs.learners);
    s.push(' ');
    fmt_list(&mut s, &cs.voters_outgoing);
    s.push(' ');
    fmt_list(&mut s, &cs.learners_next);
    write!(s, " {}", cs.auto_leave as u8).unwrap();
    s
}

/// parses `<cs>` starting at `cmd[*i]`, advancing `*i`
fn parse_cs(cmd: &[&str], i: &mut usize) -> ConfState {
    let list = |i: &mut usize| -> Vec<u64> {
        let n: usize = cmd.get(*i).and_then(|s| s.parse().ok()).unwrap_or(0);
        *i += 1;
        let v = (0..n).map(|k| cmd.get(*i + k).and_then(|s| s.parse().ok()).unwrap_or(0)).collect();
        *i += n;
        v
    };
    let mut cs = ConfState::default();
    cs.voters = list(i);
    cs.learners = list(i);
    cs.voters_outgoing = list(i);
    cs.learners_next = list(i);
    cs.auto_leave = cmd.get(*i).map_or(false, |s| *s == "1");
    *i += 1;
    cs
}

fn err_name(e: &Error) -> &'static str {
    match e {
        Error::Store(StorageError::Compacted) => "compacted",
        Error::Store(StorageError::Unavailable) => "unavailable",
        Error::Store(StorageError::LogTemporarilyUnavailable) => "log_temporarily_unavailable",
        Error::Store(StorageError::SnapshotOutOfDate) => "snapshot_out_of_date",
        Error::Store(StorageError::SnapshotTemporarilyUnavailable) => "snapshot_temporarily_unavailable",
        _ => "other",
    }
}

/// everything the read-only part of the `Storage` trait shows
fn observe(st: &MemStorage) -> String {
    let fi = st.first_index().unwrap();
    let li = st.last_index().unwrap();
    let rs = st.initial_state().unwrap();
    let hs = &rs.hard_state;
    let lo = fi.saturating_sub(2);
    let hi = li + 2;
    let n = if hi >= lo { hi - lo + 1 } else { 0 };
    let mut s = format!(
        "fi {} li {} hs {} {} {} cs {} terms {} {}",
        fi,
        li,
        hs.term,
        hs.vote,
        hs.commit,
        fmt_cs(&rs.conf_state),
        lo,
        n
    );
    for idx in lo..lo + n {
        match st.term(idx) {
            Ok(t) => write!(s, " {}", t).unwrap(),
            Err(Error::Store(StorageError::Compacted)) => s.push_str(" c"),
            Err(Error::Store(StorageError::Unavailable)) => s.push_str(" u"),
            Err(_) => s.push_str(" other"),
        }
    }
    s
}

/// Executes protocol commands on the real code; used by the generators and by `rvh replay`.
#[derive(Default)]
pub struct Exec {
    pub st: Option<MemStorage>,
}

impl Exec {
    pub fn exec(&mut self, cmd: &[&str]) -> String {
        let num = |i: usize| -> u64 { cmd.get(i).and_then(|s| s.parse().ok()).unwrap_or(0) };
        if cmd.first() == Some(&"new") {
            let st = MemStorage::new();
            let o = format!("ok {}", observe(&st));
            self.st = Some(st);
            return o;
        }
        let Some(st) = self.st.as_ref() else { return "skip".into() };
        let r = catch_unwind(AssertUnwindSafe(|| -> String {
            let done = |r: raft::Result<()>| -> String {
                match r {
                    Ok(()) => format!("ok {}", observe(st)),
                    Err(e) => format!("err {} {}", err_name(&e), observe(st)),
                }
            };
            match cmd[0] {
                "set_hardstate" => {
                    let mut hs = HardState::default();
                    hs.term = num(1);
                    hs.vote = num(2);
                    hs.commit = num(3);
                    st.wl().set_hardstate(hs);
                    done(Ok(()))
                }
                "set_conf_state" => {
                    let mut i = 1;
                    let cs = parse_cs(cmd, &mut i);
                    st.wl().set_conf_state(cs);
                    done(Ok(()))
                }
                "commit_to" => {
                    let r = st.wl().commit_to(num(1));
                    done(r)
                }
                "apply_snapshot" => {
                    let mut snap = Snapshot::default();
                    snap.mut_metadata().index = num(1);
                    snap.mut_metadata().term = num(2);
                    let mut i = 3;
                    let cs = parse_cs(cmd, &mut i);
                    snap.mut_metadata().set_conf_state(cs);
                    let r = st.wl().apply_snapshot(snap);
                    done(r)
                }
                "compact" => {
                    let r = st.wl().compact(num(1));
                    done(r)
                }
                "append" => {
                    let n = num(1) as usize;
                    let ents: Vec<Entry> = (0..n).map(|k| parse_entry(cmd.get(2 + k).copied().unwrap_or(""))).collect();
                    let r = st.wl().append(&ents);
                    done(r)
                }
                "trigger_snap_unavailable" => {
                    st.wl().trigger_snap_unavailable();
                    done(Ok(()))
                }
                "trigger_log_unavailable" => {
                    st.wl().trigger_log_unavailable(num(1) != 0);
                    done(Ok(()))
                }
                "entries" => {
                    let max: Option<u64> = if cmd.get(3) == Some(&"none") { None } else { Some(num(3)) };
                    match st.entries(num(1), num(2), max, GetEntriesContext::empty(num(4) != 0)) {
                        Ok(v) => {
                            let mut s = format!("ok {}", v.len());
                            for e in &v {
                                s.push(' ');
                                s.push_str(&fmt_entry(e));
                            }
                            s
                        }
                        Err(e) => format!("err {}", err_name(&e)),
                    }
                }
                "term" => match st.term(num(1)) {
                    Ok(t) => format!("ok {}", t),
                    Err(e) => format!("err {}", err_name(&e)),
                },
                "snapshot" => match st.snapshot(num(1), 0) {
                    Ok(s) => {
                        let m = s.get_metadata();
                        format!("ok {} {} {} {}", m.index, m.term, fmt_cs(m.get_conf_state()), hex(&s.data))
                    }
                    Err(e) => format!("err {}", err_name(&e)),
                },
                _ => "bad-op".to_string(),
            }
        }));
        match r {
            Ok(o) => o,
            Err(_) => {
                self.st = None;
                "panic".into()
            }
        }
    }
}

pub struct Runner<'a> {
    pub out: &'a mut dyn Write,
    pub lines: u64,
    pub ex: Exec,
    /// whether the last line's observation started with `ok`
    pub last_ok: bool,
}

impl<'a> Runner<'a> {
    /// runs one command; false when the history is over (panic)
    pub fn line(&mut self, cmd: &str) -> bool {
        if self.ex.st.is_none() && cmd != "new" {
            return false;
        }
        let toks: Vec<&str> = cmd.split_whitespace().collect();
        let obs = self.ex.exec(&toks);
        writeln!(self.out, "ms {} -> {}", cmd, obs).unwrap();
        self.lines += 1;
        self.last_ok = obs.starts_with("ok");
        obs != "panic"
    }
    // The generator reads the real storage to choose arguments.  These reads must never take the
    // generator down, whatever the code under test does: (first, last, commit) come from read-lock
    // calls under catch_unwind (0 when the history is over).
    fn flc(&self) -> (u64, u64, u64) {
        let Some(st) = self.ex.st.as_ref() else { return (1, 0, 0) };
        catch_unwind(AssertUnwindSafe(|| {
            (st.first_index().unwrap_or(1), st.last_index().unwrap_or(0),
             st.initial_state().map(|s| s.hard_state.commit).unwrap_or(0))
        })).unwrap_or((1, 0, 0))
    }
    fn first(&self) -> u64 {
        self.flc().0
    }
    fn last(&self) -> u64 {
        self.flc().1
    }
    fn commit(&self) -> u64 {
        self.flc().2
    }
    /// `compute_size` of the stored entries `[lo, hi)`, recomputed from what the `term`-window
    /// shows to exist: read through `entries` with no limit, under catch_unwind (a panic here would
    /// poison the lock, so the request is only made when the trait's own answers say it is legal)
    fn sizes(&mut self, lo: u64, hi: u64) -> Vec<u64> {
        use protobuf::Message;
        let (fi, li, _) = self.flc();
        if lo >= hi || lo < fi || hi > li.saturating_add(1) || li < fi {
            return vec![];
        }
        let Some(st) = self.ex.st.as_ref() else { return vec![] };
        let r = catch_unwind(AssertUnwindSafe(|| {
            match st.entries(lo, hi, None, GetEntriesContext::empty(false)) {
                Ok(v) => v.iter().map(|e| e.compute_size() as u64).collect(),
                Err(_) => vec![],
            }
        }));
        match r {
            Ok(v) => v,
            Err(_) => {
                // the real code panicked on a request its own first/last answers allow: make it
                // visible as a trace line so that the model gets to disagree
                let cmd = format!("entries {} {} none 0", lo, hi);
                writeln!(self.out, "ms {} -> panic", cmd).unwrap();
                self.lines += 1;
                self.ex.st = None;
                vec![]
            }
        }
    }
}

const SMALL_LENS: [usize; 8] = [0, 0, 1, 2, 3, 5, 10, 17];
const LARGE_LENS: [usize; 5] = [126, 127, 128, 129, 200];

fn gen_entry(rng: &mut Rng, index: u64, term: u64) -> String {
    let ty = if rng.chance(80) { 0 } else { 1 + rng.below(2) };
    // mostly small payloads; sometimes one whose length needs a 2-byte varint (>= 128)
    let dl = if rng.chance(88) { *rng.pick(&SMALL_LENS) } else { *rng.pick(&LARGE_LENS) };
    let cl = if rng.chance(75) { 0 } else if rng.chance(85) { 1 + rng.below(3) as usize } else { *rng.pick(&[127usize, 128]) };
    let data: Vec<u8> = (0..dl).map(|_| rng.below(256) as u8).collect();
    let ctx: Vec<u8> = (0..cl).map(|_| rng.below(256) as u8).collect();
    let sync = rng.chance(5) as u8;
    format!("{}:{}:{}:{}:{}:{}", ty, term, index, hex(&data), hex(&ctx), sync)
}

fn gen_cs(rng: &mut Rng) -> String {
    let mut cs = ConfState::default();
    let n = 1 + rng.below(4);
    cs.voters = (1..=n).collect();
    if rng.chance(30) {
        cs.learners = vec![n + 1];
    }
    if rng.chance(20) {
        cs.voters_outgoing = (1..=rng.range(1, n)).collect();
        cs.auto_leave = rng.chance(50);
        if rng.chance(30) {
            cs.learners_next = vec![1];
        }
    }
    fmt_cs(&cs)
}

/// the query lines issued after a mutation
fn queries(r: &mut Runner, rng: &mut Rng, snap_idx: u64, violate: bool) -> bool {
    let (fi, li) = (r.first(), r.last());
    let commit = r.commit();
    // term at the snapshot point (may lie far below first-2 after compaction) and somewhere else
    if !r.line(&format!("term {}", snap_idx)) {
        return false;
    }
    if rng.chance(30) {
        let i = rr(rng, fi.saturating_sub(4), li + 3);
        r.line(&format!("term {}", i));
    }
    // entries: whole log under limits around the real sizes, a random sub-range, boundaries
    let sz = r.sizes(fi, li + 1);
    let mut reqs: Vec<(u64, u64, String, u8)> = vec![];
    if !sz.is_empty() {
        let total: u64 = sz.iter().sum();
        let k = 1 + rng.below(sz.len() as u64) as usize;
        let pre: u64 = sz[..k].iter().sum();
        let mut limits = vec!["none".to_string(), u64::MAX.to_string(), "0".to_string(), "1".to_string(),
            total.to_string(), total.saturating_sub(1).to_string(), pre.to_string(), pre.saturating_sub(1).to_string(),
            (pre + 1).to_string(), sz[0].to_string(), sz[0].saturating_sub(1).to_string()];
        for _ in 0..3 {
            let m = limits.swap_remove(rng.below(limits.len() as u64) as usize);
            reqs.push((fi, li + 1, m, 0));
        }
        let lo = rr(rng, fi, li);
        let hi = rr(rng, lo, li + 1);
        let sub = r.sizes(lo, hi);
        let m = if sub.len() >= 2 && rng.chance(70) {
            let k = 1 + rng.below(sub.len() as u64) as usize;
            let p: u64 = sub[..k].iter().sum();
            (p + rng.below(3)).saturating_sub(1).to_string()
        } else if rng.chance(50) { "none".to_string() } else { rng.below(300).to_string() };
        reqs.push((lo, hi, m, rng.chance(30) as u8));
    }
    if violate || rng.chance(15) {
        // boundary requests; the panicking ones only in the violating stream
        let nonempty = li >= fi;
        match rng.below(6) {
            0 => reqs.push((fi.saturating_sub(1), li + 1, "none".into(), 0)), // compacted (or index 0)
            1 if nonempty || violate => reqs.push((fi, fi, "none".into(), 0)), // empty range (panics on an empty log)
            2 if nonempty || violate => reqs.push((li + 1, li + 1, "5".into(), 1)), // empty range at the end
            3 if violate && rng.chance(40) => reqs.push((fi, li + 2, "none".into(), 0)), // documented panic
            4 if violate && rng.chance(40) && li > fi => reqs.push((li, fi, "none".into(), 0)), // low > high
            _ => reqs.push((fi.saturating_sub(2), fi.saturating_sub(1), "0".into(), 1)),
        }
    }
    for (lo, hi, m, a) in reqs {
        if !r.line(&format!("entries {} {} {} {}", lo, hi, m, a)) {
            return false;
        }
    }
    // snapshot: safe when the commit index is the snapshot point or a stored entry
    let safe = commit == snap_idx || (fi <= commit && commit <= li);
    if (safe && rng.chance(60)) || (!safe && violate && rng.chance(30)) {
        let req = match rng.below(4) {
            0 => 0,
            1 => commit,
            2 => commit + 1 + rng.below(4),
            _ => rng.below(li + 3),
        };
        if !r.line(&format!("snapshot {}", req)) {
            return false;
        }
    }
    true
}

pub fn random(seed: u64, cases: u64, len: usize, out: &mut dyn Write) -> u64 {
    let mut rng = Rng::new(seed ^ 0x19);
    let mut r = Runner { out, lines: 0, ex: Exec::default(), last_ok: false };
    for _ in 0..cases {
        r.line("new");
        let mut snap_idx = 0u64;
        let mut term = 1 + rng.below(3);
        if rng.chance(70) {
            r.line(&format!("set_conf_state {}", gen_cs(&mut rng)));
        }
        if rng.chance(25) {
            // start from a snapshot, like a node that joined late
            let i = 1 + rng.below(300);
            r.line(&format!("apply_snapshot {} {} {}", i, term, gen_cs(&mut rng)));
            if r.last_ok {
                snap_idx = i;
            }
        }
        // half of the histories abide by every documented precondition (so they run to full length);
        // the other half violates a boundary in 40 % of the calls: 80 % abiding calls overall
        let violate_pct = if rng.chance(50) { 0 } else { 40 };
        for _ in 0..len {
            let (fi, li, commit) = (r.first(), r.last(), r.commit());
            let violate = rng.chance(violate_pct);
            let mut k = rng.below(100);
            if li < fi && !violate && (55..79).contains(&k) {
                k = 0; // nothing to commit to on an empty log: append instead
            }
            let cmd = if k < 40 {
                // append: fresh tail, or overwrite from somewhere inside (with a higher term)
                let start = if violate {
                    *rng.pick(&[fi.saturating_sub(1), li + 2, li + 1, fi, li + 3])
                } else if rng.chance(65) || li < fi { li + 1 } else { term += 1; rr(&mut rng, fi, li) };
                let n = if rng.chance(5) { 0 } else { 1 + rng.below(4) };
                let mut s = format!("append {}", n);
                let broken = violate && rng.chance(25); // a batch that is not contiguous
                for j in 0..n {
                    if rng.chance(15) { term += 1; }
                    let idx = if broken && j > 0 { start + j + 1 } else { start + j };
                    s.push(' ');
                    s.push_str(&gen_entry(&mut rng, idx, term));
                }
                s
            } else if k < 55 {
                let i = if violate { *rng.pick(&[li + 1, li + 2, fi.saturating_sub(1), li + 1]) }
                        else if commit >= fi && commit <= li && rng.chance(80) { rr(&mut rng, fi.saturating_sub(1), commit) }
                        else { rr(&mut rng, fi.saturating_sub(1), li) };
                format!("compact {}", i)
            } else if k < 67 {
                let i = if violate { *rng.pick(&[li + 1, fi.saturating_sub(1), snap_idx, 0]) } else { rr(&mut rng, fi, li.max(fi)) };
                format!("commit_to {}", i)
            } else if k < 79 {
                let c = if violate { *rng.pick(&[li + 1, li + 5, fi.saturating_sub(1), snap_idx.saturating_sub(1)]) }
                        else if li >= fi && rng.chance(85) { rr(&mut rng, fi, li) } else { snap_idx };
                format!("set_hardstate {} {} {}", term + rng.below(2), rng.below(4), c)
            } else if k < 89 {
                let i = if violate { *rng.pick(&[fi.saturating_sub(1), fi.saturating_sub(2), 0, fi]) }
                        else { let far = li + 1 + rng.below(200); *rng.pick(&[fi, commit.max(fi), li.max(fi), li + 1, far]) };
                format!("apply_snapshot {} {} {}", i, term + rng.below(2), gen_cs(&mut rng))
            } else if k < 93 {
                format!("set_conf_state {}", gen_cs(&mut rng))
            } else if k < 96 {
                "trigger_snap_unavailable".to_string()
            } else {
                format!("trigger_log_unavailable {}", rng.below(2))
            };
            let toks: Vec<&str> = cmd.split_whitespace().collect();
            let is_snap = toks[0] == "apply_snapshot";
            let snap_arg: u64 = if is_snap { toks[1].parse().unwrap() } else { 0 };
            if !r.line(&cmd) {
                break;
            }
            if is_snap && r.last_ok {
                snap_idx = snap_arg;
            }
            if !queries(&mut r, &mut rng, snap_idx, violate) {
                break;
            }
        }
    }
    r.lines
}

/// every history of length `len` over a symbolic alphabet; logs are kept at ≤ `max_log` entries
/// (an append that would exceed it overwrites the tail instead).  After every mutation the whole
/// log is read back under several limits.
pub fn exhaustive(max_log: u64, len: usize, prefixes: usize, out: &mut dyn Write) -> u64 {
    #[derive(Clone, Copy)]
    enum Sym {
        AppendNext, AppendTwo, OverwriteLast, OverwriteFirst, AppendGap, AppendCompacted, AppendEmpty,
        CompactMid, CompactLast, CompactAll, CompactBeyond, CompactNoop,
        CommitFirst, CommitLast, CommitBeyond,
        SnapOld, SnapAtCommit, SnapAhead,
        HsLast, HsBeyond, SnapshotQ0, SnapshotQHigh, TrigSnap, TrigLog,
    }
    use Sym::*;
    let alphabet = [AppendNext, AppendTwo, OverwriteLast, OverwriteFirst, AppendGap, AppendCompacted, AppendEmpty,
        CompactMid, CompactLast, CompactAll, CompactBeyond, CompactNoop, CommitFirst, CommitLast, CommitBeyond,
        SnapOld, SnapAtCommit, SnapAhead, HsLast, HsBeyond, SnapshotQ0, SnapshotQHigh, TrigSnap, TrigLog];
    let n = alphabet.len() as u64;
    let total = n.pow(len as u32);
    let mut r = Runner { out, lines: 0, ex: Exec::default(), last_ok: false };
    // entry payloads chosen so that sizes differ: 4, 6, 136 bytes, conf-change type, context
    let payload = |idx: u64, term: u64| -> String {
        match idx % 4 {
            0 => format!("0:{}:{}:-:-:0", term, idx),
            1 => format!("0:{}:{}:abcd:-:0", term, idx),
            2 => format!("1:{}:{}:{}:01:0", term, idx, "5a".repeat(128)),
            _ => format!("2:{}:{}:-:ff:1", term, idx),
        }
    };
    // starting points: the empty storage; a log 1..3; a log 7..8 behind a snapshot at 5 that was
    // compacted to 7 with commit 7 (snapshot point and first index apart)
    let starts: [&[&str]; 3] = [
        &[],
        &["append 3 0:1:1:abcd:-:0 1:1:2:-:01:0 0:1:3:-:-:0"],
        &["apply_snapshot 5 1 1 1 0 0 0 0", "append 3 0:1:6:-:-:0 2:1:7:-:ff:1 0:1:8:-:-:0", "commit_to 7", "compact 7"],
    ];
    for (start, code) in (0..prefixes.min(3)).flat_map(|p| (0..total).map(move |c| (p, c))) {
        let mut c = code;
        if !r.line("new") { continue; }
        r.line("set_conf_state 2 1 2 0 0 0 0");
        for l in starts[start] {
            r.line(l);
        }
        let mut term = 1u64;
        for _ in 0..len {
            let sym = alphabet[(c % n) as usize];
            c /= n;
            let (fi, li, commit) = (r.first(), r.last(), r.commit());
            let count = (li + 1).saturating_sub(fi);
            let mut is_query = false;
            let cmd = match sym {
                AppendNext => {
                    let at = if count >= max_log { li } else { li + 1 };
                    format!("append 1 {}", payload(at, term))
                }
                AppendTwo => {
                    let at = if count + 2 > max_log { (li + 1).saturating_sub(2).max(fi) } else { li + 1 };
                    format!("append 2 {} {}", payload(at, term), payload(at + 1, term))
                }
                OverwriteLast => { term += 1; format!("append 1 {}", payload(li.max(fi), term)) }
                OverwriteFirst => { term += 1; format!("append 1 {}", payload(fi, term)) }
                AppendGap => format!("append 1 {}", payload(li + 2, term)),
                AppendCompacted => format!("append 1 {}", payload(fi.saturating_sub(1), term)),
                AppendEmpty => "append 0".to_string(),
                CompactMid => format!("compact {}", fi + 1),
                CompactLast => format!("compact {}", li),
                CompactAll => format!("compact {}", li + 1),
                CompactBeyond => format!("compact {}", li + 2),
                CompactNoop => format!("compact {}", fi),
                CommitFirst => format!("commit_to {}", fi),
                CommitLast => format!("commit_to {}", li),
                CommitBeyond => format!("commit_to {}", li + 1),
                SnapOld => format!("apply_snapshot {} {} 1 7 0 0 0 0", fi.saturating_sub(1), term),
                SnapAtCommit => format!("apply_snapshot {} {} 1 8 1 9 0 0 0", commit, term + 1),
                SnapAhead => format!("apply_snapshot {} {} 3 1 2 3 0 2 1 2 1 3 1", li + 2, term),
                HsLast => format!("set_hardstate {} 1 {}", term, li),
                HsBeyond => format!("set_hardstate {} 2 {}", term, li + 1),
                SnapshotQ0 => { is_query = true; "snapshot 0".to_string() }
                SnapshotQHigh => { is_query = true; format!("snapshot {}", li + 1) }
                TrigSnap => "trigger_snap_unavailable".to_string(),
                TrigLog => "trigger_log_unavailable 1".to_string(),
            };
            if !r.line(&cmd) { break; }
            if is_query { continue; }
            let (fi, li) = (r.first(), r.last());
            let sz = r.sizes(fi, li + 1);
            let mut ok = true;
            if !sz.is_empty() {
                let two: u64 = sz.iter().take(2).sum();
                ok = ok && r.line(&format!("entries {} {} {} 0", fi, li + 1, two));
                ok = ok && r.line(&format!("entries {} {} {} 1", fi, li + 1, two.saturating_sub(1)));
                if sz.len() >= 2 {
                    ok = ok && r.line(&format!("entries {} {} none 0", fi + 1, li + 1));
                    ok = ok && r.line(&format!("entries {} {} 0 0", fi + 1, li));
                }
            }
            ok = ok && r.line(&format!("entries {} {} none 0", fi.saturating_sub(1), li + 1));
            if !ok { break; }
        }
    }
    r.lines
}
