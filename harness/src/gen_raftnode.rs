//! RN: free-running correspondence of ONE raft node (`Raft<MemStorage>` behind a `RawNode`) with the
//! Lean model `RaftModel.Raft*`.  A sequence is `rn new <config + storage>` followed by the calls
//! made on that node; after EVERY call the whole observable state is printed (result, the message
//! queue, term/vote/role/…/progress/votes/configuration, see `view`).
//!
//! Inputs come from a multi-node simulation: N real nodes exchange messages under a seeded random
//! scheduler (loss, duplication, reordering, isolation, delayed persistence / apply, compaction,
//! membership changes, transfers, read index, restarts from the node's own storage, knob changes);
//! each node records its own call sequence with the exact messages it received.  A second stream
//! injects malformed / out-of-contract messages.
//!
//! The node is driven through `RawNode`'s thin wrappers (`tick`, `step` with its filter, `propose`,
//! …) and, for persistence / apply, directly through `raft.raft_log` / `raft.on_persist_entries` /
//! `raft.commit_apply`, emulating a simple application (RawNode's Ready bookkeeping is out of scope).
use crate::rng::Rng;
use protobuf::Message as _;
use raft::eraftpb::{
    ConfChange, ConfChangeSingle, ConfChangeTransition, ConfChangeType, ConfChangeV2, ConfState, Entry, EntryType,
    HardState, Message, MessageType, Snapshot,
};
use raft::storage::MemStorage;
use raft::{Config, Error, GetEntriesContext, ProgressState, RawNode, ReadOnlyOption, SnapshotStatus, StateRole, Storage};
use std::collections::BTreeMap;
use std::fmt::Write as _;
use std::io::Write;
use std::panic::{catch_unwind, AssertUnwindSafe};
use std::sync::atomic::{AtomicU64, Ordering};
use std::sync::{Arc, Mutex};

type RN = RawNode<MemStorage>;

// ------------------------------------------------------------------------------------------------
// watchdog: a call of the real code that does not return (e.g. `send_append_aggressively` looping
// because a probe is never paused) must end up as an observation, not as a dead harness.  Every
// call registers itself here; a background thread notices that the call counter stopped moving,
// writes the node's sequence so far plus the pending call with the observation `hang` straight to
// file descriptor 1 and ends the process.

pub struct Pending {
    /// the sequence of the node so far (`None` in replay mode: already written)
    pub history: Option<Arc<Mutex<Vec<String>>>>,
    /// `rn <op> - <args>` of the call being executed
    pub call: String,
}

static CALLS: AtomicU64 = AtomicU64::new(0);
static PENDING: Mutex<Option<Pending>> = Mutex::new(None);
const HANG_MS: u64 = 1500;

fn enter_call(history: Option<Arc<Mutex<Vec<String>>>>, call: String) {
    *PENDING.lock().unwrap() = Some(Pending { history, call });
}

fn leave_call() {
    *PENDING.lock().unwrap() = None;
    CALLS.fetch_add(1, Ordering::Relaxed);
}

pub fn start_watchdog() {
    std::thread::spawn(|| {
        let mut last = CALLS.load(Ordering::Relaxed);
        let mut stuck_ms = 0u64;
        loop {
            std::thread::sleep(std::time::Duration::from_millis(100));
            let now = CALLS.load(Ordering::Relaxed);
            if now != last {
                last = now;
                stuck_ms = 0;
                continue;
            }
            stuck_ms += 100;
            if stuck_ms < HANG_MS {
                continue;
            }
            let p = PENDING.lock().unwrap();
            let Some(p) = p.as_ref() else {
                stuck_ms = 0;
                continue;
            };
            let mut text = String::new();
            if let Some(h) = &p.history {
                for l in h.lock().unwrap().iter() {
                    text.push_str(l);
                    text.push('\n');
                }
            }
            text.push_str(&p.call);
            text.push_str(" -> hang\n");
            // the main thread owns the locked, buffered stdout: write to the descriptor directly
            use std::os::unix::io::FromRawFd;
            let mut f = unsafe { std::fs::File::from_raw_fd(1) };
            let _ = f.write_all(text.as_bytes());
            let _ = f.flush();
            eprintln!("rvh: a call of the real code did not return within {} ms: {}", HANG_MS, &p.call[..p.call.len().min(200)]);
            std::process::exit(0);
        }
    });
}

// ------------------------------------------------------------------------------------------------
// canonical printing / parsing

fn hex(b: &[u8]) -> String {
    if b.is_empty() {
        return "-".into();
    }
    let mut s = String::with_capacity(b.len() * 2);
    for x in b {
        write!(s, "{:02x}", x).unwrap();
    }
    s
}

fn unhex(s: &str) -> Option<Vec<u8>> {
    if s == "-" {
        return Some(vec![]);
    }
    if s.len() % 2 != 0 {
        return None;
    }
    (0..s.len() / 2).map(|i| u8::from_str_radix(&s[2 * i..2 * i + 2], 16).ok()).collect()
}

fn ids(v: &[u64]) -> String {
    let mut v = v.to_vec();
    v.sort_unstable();
    let mut s = format!("{}", v.len());
    for x in v {
        write!(s, " {}", x).unwrap();
    }
    s
}

fn fmt_cs(cs: &ConfState) -> String {
    format!(
        "{} {} {} {} {}",
        ids(cs.get_voters()),
        ids(cs.get_learners()),
        ids(cs.get_voters_outgoing()),
        ids(cs.get_learners_next()),
        cs.auto_leave as u8
    )
}

fn fmt_entry(e: &Entry) -> String {
    format!("{}:{}:{}:{}:{}", e.get_entry_type() as u64, e.term, e.index, hex(&e.data), hex(&e.context))
}

fn fmt_entries(es: &[Entry]) -> String {
    let mut s = format!("{}", es.len());
    for e in es {
        s.push(' ');
        s.push_str(&fmt_entry(e));
    }
    s
}

fn fmt_snapshot(s: &Snapshot) -> String {
    let m = s.get_metadata();
    let cs = m.get_conf_state();
    // "unset" and "all fields default" are the same for every use the library makes of the field
    if s.get_data().is_empty() && m.index == 0 && m.term == 0 && cs.get_voters().is_empty() && cs.get_learners().is_empty()
        && cs.get_voters_outgoing().is_empty() && cs.get_learners_next().is_empty() && !cs.auto_leave
    {
        return "-".into();
    }
    format!("S {} {} {} {}", hex(s.get_data()), m.index, m.term, fmt_cs(m.get_conf_state()))
}

/// the 16 protobuf fields in field-number order
pub fn fmt_msg(m: &Message) -> String {
    format!(
        "{} {} {} {} {} {} {} {} {} {} {} {} {} {} {} {}",
        m.get_msg_type() as u64,
        m.to,
        m.from,
        m.term,
        m.log_term,
        m.index,
        fmt_entries(&m.entries),
        m.commit,
        fmt_snapshot(m.get_snapshot()),
        m.reject as u8,
        m.reject_hint,
        hex(&m.context),
        m.request_snapshot,
        m.deprecated_priority,
        m.commit_term,
        m.priority
    )
}

struct Toks<'a> {
    t: &'a [&'a str],
    i: usize,
}

impl<'a> Toks<'a> {
    fn next(&mut self) -> Option<&'a str> {
        let r = self.t.get(self.i).copied();
        self.i += 1;
        r
    }
    fn u64(&mut self) -> Option<u64> {
        self.next()?.parse().ok()
    }
    fn i64(&mut self) -> Option<i64> {
        self.next()?.parse().ok()
    }
    fn b(&mut self) -> Option<bool> {
        Some(self.next()? == "1")
    }
    fn bytes(&mut self) -> Option<Vec<u8>> {
        unhex(self.next()?)
    }
    fn ids(&mut self) -> Option<Vec<u64>> {
        let n = self.u64()?;
        (0..n).map(|_| self.u64()).collect()
    }
    fn cs(&mut self) -> Option<ConfState> {
        let mut cs = ConfState::default();
        cs.set_voters(self.ids()?);
        cs.set_learners(self.ids()?);
        cs.set_voters_outgoing(self.ids()?);
        cs.set_learners_next(self.ids()?);
        cs.auto_leave = self.b()?;
        Some(cs)
    }
    fn entry(&mut self) -> Option<Entry> {
        let p: Vec<&str> = self.next()?.split(':').collect();
        if p.len() != 5 {
            return None;
        }
        let mut e = Entry::default();
        e.set_entry_type(etype(p[0].parse().ok()?));
        e.term = p[1].parse().ok()?;
        e.index = p[2].parse().ok()?;
        e.data = unhex(p[3])?.into();
        e.context = unhex(p[4])?.into();
        Some(e)
    }
    fn entries(&mut self) -> Option<Vec<Entry>> {
        let n = self.u64()?;
        (0..n).map(|_| self.entry()).collect()
    }
    fn snapshot(&mut self) -> Option<Snapshot> {
        match self.next()? {
            "-" => Some(Snapshot::default()),
            "S" => {
                let mut s = Snapshot::default();
                s.set_data(self.bytes()?.into());
                let idx = self.u64()?;
                let term = self.u64()?;
                let cs = self.cs()?;
                let m = s.mut_metadata();
                m.index = idx;
                m.term = term;
                m.set_conf_state(cs);
                Some(s)
            }
            _ => None,
        }
    }
    fn msg(&mut self) -> Option<Message> {
        let mut m = Message::default();
        m.set_msg_type(mtype(self.u64()?)?);
        m.to = self.u64()?;
        m.from = self.u64()?;
        m.term = self.u64()?;
        m.log_term = self.u64()?;
        m.index = self.u64()?;
        m.set_entries(self.entries()?.into());
        m.commit = self.u64()?;
        let s = self.snapshot()?;
        if s != Snapshot::default() {
            m.set_snapshot(s);
        }
        m.reject = self.b()?;
        m.reject_hint = self.u64()?;
        m.context = self.bytes()?.into();
        m.request_snapshot = self.u64()?;
        m.deprecated_priority = self.u64()?;
        m.commit_term = self.u64()?;
        m.priority = self.i64()?;
        Some(m)
    }
    fn ccv2(&mut self) -> Option<ConfChangeV2> {
        let mut cc = ConfChangeV2::default();
        cc.set_transition(match self.u64()? {
            0 => ConfChangeTransition::Auto,
            1 => ConfChangeTransition::Implicit,
            _ => ConfChangeTransition::Explicit,
        });
        let n = self.u64()?;
        for _ in 0..n {
            let t = self.u64()?;
            let id = self.u64()?;
            cc.mut_changes().push(single(cctype(t), id));
        }
        Some(cc)
    }
}

fn etype(x: u64) -> EntryType {
    match x {
        1 => EntryType::EntryConfChange,
        2 => EntryType::EntryConfChangeV2,
        _ => EntryType::EntryNormal,
    }
}

fn cctype(x: u64) -> ConfChangeType {
    match x {
        1 => ConfChangeType::RemoveNode,
        2 => ConfChangeType::AddLearnerNode,
        _ => ConfChangeType::AddNode,
    }
}

fn single(t: ConfChangeType, id: u64) -> ConfChangeSingle {
    let mut s = ConfChangeSingle::default();
    s.set_change_type(t);
    s.node_id = id;
    s
}

const MTYPES: [MessageType; 19] = [
    MessageType::MsgHup,
    MessageType::MsgBeat,
    MessageType::MsgPropose,
    MessageType::MsgAppend,
    MessageType::MsgAppendResponse,
    MessageType::MsgRequestVote,
    MessageType::MsgRequestVoteResponse,
    MessageType::MsgSnapshot,
    MessageType::MsgHeartbeat,
    MessageType::MsgHeartbeatResponse,
    MessageType::MsgUnreachable,
    MessageType::MsgSnapStatus,
    MessageType::MsgCheckQuorum,
    MessageType::MsgTransferLeader,
    MessageType::MsgTimeoutNow,
    MessageType::MsgReadIndex,
    MessageType::MsgReadIndexResp,
    MessageType::MsgRequestPreVote,
    MessageType::MsgRequestPreVoteResponse,
];

fn mtype(x: u64) -> Option<MessageType> {
    MTYPES.get(x as usize).copied()
}

fn fmt_ccv2(cc: &ConfChangeV2) -> String {
    let mut s = format!("{} {}", cc.get_transition() as u64, cc.changes.len());
    for c in cc.get_changes() {
        write!(s, " {} {}", c.get_change_type() as u64, c.node_id).unwrap();
    }
    s
}

fn fmt_cfg(c: &Config) -> String {
    format!(
        "{} {} {} {} {} {} {} {} {} {} {} {} {} {} {} {} {} {}",
        c.id,
        c.election_tick,
        c.heartbeat_tick,
        c.applied,
        c.max_size_per_msg,
        c.max_inflight_msgs,
        c.check_quorum as u8,
        c.pre_vote as u8,
        c.min_election_tick,
        c.max_election_tick,
        (c.read_only_option == ReadOnlyOption::LeaseBased) as u8,
        c.skip_bcast_commit as u8,
        c.batch_append as u8,
        c.priority,
        c.max_uncommitted_size,
        c.max_committed_size_per_ready,
        c.max_apply_unpersisted_log_limit,
        c.disable_proposal_forwarding as u8
    )
}

fn parse_cfg(t: &mut Toks) -> Option<Config> {
    let mut c = Config::default();
    c.id = t.u64()?;
    c.election_tick = t.u64()? as usize;
    c.heartbeat_tick = t.u64()? as usize;
    c.applied = t.u64()?;
    c.max_size_per_msg = t.u64()?;
    c.max_inflight_msgs = t.u64()? as usize;
    c.check_quorum = t.b()?;
    c.pre_vote = t.b()?;
    c.min_election_tick = t.u64()? as usize;
    c.max_election_tick = t.u64()? as usize;
    c.read_only_option = if t.b()? { ReadOnlyOption::LeaseBased } else { ReadOnlyOption::Safe };
    c.skip_bcast_commit = t.b()?;
    c.batch_append = t.b()?;
    c.priority = t.i64()?;
    c.max_uncommitted_size = t.u64()?;
    c.max_committed_size_per_ready = t.u64()?;
    c.max_apply_unpersisted_log_limit = t.u64()?;
    c.disable_proposal_forwarding = t.b()?;
    Some(c)
}

// ------------------------------------------------------------------------------------------------
// the operations of the protocol

#[derive(Clone, Debug)]
pub enum Op {
    Tick,
    Step(Message),
    RStep(Message),
    Propose(Vec<u8>, Vec<u8>),
    ProposeCc(u64, Vec<u8>, Vec<u8>),
    ReadIndex(Vec<u8>),
    TransferLeader(u64),
    Campaign,
    Ping,
    RequestSnapshot,
    ReportUnreachable(u64),
    ReportSnapshot(u64, bool),
    ApplyConfChange(ConfChangeV2),
    Stabilize,
    OnPersistEntries(u64, u64),
    PersistSnap,
    CommitApply(u64),
    Compact(u64),
    Drain,
    TriggerSnap,
    TriggerLog(bool),
    SetPriority(i64),
    SetBatch(bool),
    SkipBcast(bool),
    SetCheckQuorum(bool),
    AdjustInflight(u64, u64),
    FreeInflight,
    GroupCommit(bool),
    AssignGroups(Vec<(u64, u64)>),
    ClearGroups,
    CheckGroupConsistent,
    SetApplyLimit(u64),
    SetCommittedSize(u64),
    /// `RawNode::on_entries_fetched` with a `GetEntriesFor::SendAppend { to, term, aggressively }` context
    OnEntriesFetched(u64, u64, bool),
}

impl Op {
    pub fn name(&self) -> &'static str {
        match self {
            Op::Tick => "tick",
            Op::Step(_) => "step",
            Op::RStep(_) => "rstep",
            Op::Propose(..) => "propose",
            Op::ProposeCc(..) => "propose_cc",
            Op::ReadIndex(_) => "read_index",
            Op::TransferLeader(_) => "transfer_leader",
            Op::Campaign => "campaign",
            Op::Ping => "ping",
            Op::OnEntriesFetched(..) => "on_entries_fetched",
            Op::RequestSnapshot => "request_snapshot",
            Op::ReportUnreachable(_) => "report_unreachable",
            Op::ReportSnapshot(..) => "report_snapshot",
            Op::ApplyConfChange(_) => "apply_conf_change",
            Op::Stabilize => "stabilize",
            Op::OnPersistEntries(..) => "on_persist_entries",
            Op::PersistSnap => "persist_snap",
            Op::CommitApply(_) => "commit_apply",
            Op::Compact(_) => "compact",
            Op::Drain => "drain",
            Op::TriggerSnap => "trigger_snap",
            Op::TriggerLog(_) => "trigger_log",
            Op::SetPriority(_) => "set_priority",
            Op::SetBatch(_) => "set_batch_append",
            Op::SkipBcast(_) => "skip_bcast_commit",
            Op::SetCheckQuorum(_) => "set_check_quorum",
            Op::AdjustInflight(..) => "adjust_max_inflight",
            Op::FreeInflight => "maybe_free_inflight_buffers",
            Op::GroupCommit(_) => "enable_group_commit",
            Op::AssignGroups(_) => "assign_commit_groups",
            Op::ClearGroups => "clear_commit_group",
            Op::CheckGroupConsistent => "check_group_commit_consistent",
            Op::SetApplyLimit(_) => "set_max_apply_unpersisted_log_limit",
            Op::SetCommittedSize(_) => "set_max_committed_size_per_ready",
        }
    }

    fn args(&self) -> String {
        match self {
            Op::Step(m) | Op::RStep(m) => fmt_msg(m),
            Op::Propose(c, d) => format!("{} {}", hex(c), hex(d)),
            Op::ProposeCc(t, c, d) => format!("{} {} {}", t, hex(c), hex(d)),
            Op::ReadIndex(c) => hex(c),
            Op::TransferLeader(x) | Op::ReportUnreachable(x) | Op::CommitApply(x) | Op::Compact(x) | Op::SetApplyLimit(x) | Op::SetCommittedSize(x) => format!("{}", x),
            Op::ReportSnapshot(x, b) => format!("{} {}", x, *b as u8),
            Op::OnEntriesFetched(to, term, a) => format!("{} {} {}", to, term, *a as u8),
            Op::ApplyConfChange(cc) => fmt_ccv2(cc),
            Op::OnPersistEntries(i, t) | Op::AdjustInflight(i, t) => format!("{} {}", i, t),
            Op::TriggerLog(b) | Op::SetBatch(b) | Op::SkipBcast(b) | Op::SetCheckQuorum(b) | Op::GroupCommit(b) => format!("{}", *b as u8),
            Op::SetPriority(p) => format!("{}", p),
            Op::AssignGroups(v) => {
                let mut s = format!("{}", v.len());
                for (a, b) in v {
                    write!(s, " {} {}", a, b).unwrap();
                }
                s
            }
            _ => String::new(),
        }
    }

    fn parse(name: &str, t: &mut Toks) -> Option<Op> {
        Some(match name {
            "tick" => Op::Tick,
            "step" => Op::Step(t.msg()?),
            "rstep" => Op::RStep(t.msg()?),
            "propose" => Op::Propose(t.bytes()?, t.bytes()?),
            "propose_cc" => Op::ProposeCc(t.u64()?, t.bytes()?, t.bytes()?),
            "read_index" => Op::ReadIndex(t.bytes()?),
            "transfer_leader" => Op::TransferLeader(t.u64()?),
            "campaign" => Op::Campaign,
            "ping" => Op::Ping,
            "on_entries_fetched" => Op::OnEntriesFetched(t.u64()?, t.u64()?, t.b()?),
            "request_snapshot" => Op::RequestSnapshot,
            "report_unreachable" => Op::ReportUnreachable(t.u64()?),
            "report_snapshot" => Op::ReportSnapshot(t.u64()?, t.b()?),
            "apply_conf_change" => Op::ApplyConfChange(t.ccv2()?),
            "stabilize" => Op::Stabilize,
            "on_persist_entries" => Op::OnPersistEntries(t.u64()?, t.u64()?),
            "persist_snap" => Op::PersistSnap,
            "commit_apply" => Op::CommitApply(t.u64()?),
            "compact" => Op::Compact(t.u64()?),
            "drain" => Op::Drain,
            "trigger_snap" => Op::TriggerSnap,
            "trigger_log" => Op::TriggerLog(t.b()?),
            "set_priority" => Op::SetPriority(t.i64()?),
            "set_batch_append" => Op::SetBatch(t.b()?),
            "skip_bcast_commit" => Op::SkipBcast(t.b()?),
            "set_check_quorum" => Op::SetCheckQuorum(t.b()?),
            "adjust_max_inflight" => Op::AdjustInflight(t.u64()?, t.u64()?),
            "maybe_free_inflight_buffers" => Op::FreeInflight,
            "enable_group_commit" => Op::GroupCommit(t.b()?),
            "assign_commit_groups" => {
                let n = t.u64()?;
                let mut v = vec![];
                for _ in 0..n {
                    v.push((t.u64()?, t.u64()?));
                }
                Op::AssignGroups(v)
            }
            "clear_commit_group" => Op::ClearGroups,
            "check_group_commit_consistent" => Op::CheckGroupConsistent,
            "set_max_apply_unpersisted_log_limit" => Op::SetApplyLimit(t.u64()?),
            "set_max_committed_size_per_ready" => Op::SetCommittedSize(t.u64()?),
            _ => return None,
        })
    }
}

fn err_kind(e: &Error) -> &'static str {
    match e {
        Error::ProposalDropped => "err proposal_dropped",
        Error::StepLocalMsg => "err step_local_msg",
        Error::StepPeerNotFound => "err step_peer_not_found",
        Error::RequestSnapshotDropped => "err request_snapshot_dropped",
        Error::ConfChangeError(_) => "err confchange",
        Error::ConfigInvalid(_) => "err config",
        Error::Store(raft::StorageError::SnapshotOutOfDate) => "err snapshot_out_of_date",
        _ => "err other",
    }
}

fn unit_res(r: raft::Result<()>) -> String {
    match r {
        Ok(()) => "ok".into(),
        Err(e) => err_kind(&e).into(),
    }
}

// ------------------------------------------------------------------------------------------------
// one node + the emulated application

pub struct NodeState {
    pub rn: RN,
    pub store: MemStorage,
    /// index / term of the snapshot the storage holds (its metadata is not readable through the API)
    pub snap: (u64, u64),
    /// the application's configuration after the last applied configuration change
    pub app_cs: ConfState,
    pub drained: Vec<Message>,
    /// first line (digits removed) of the message of the panic that ended the sequence
    pub last_panic: String,
    /// the election-timeout range is so small that a draw may equal the previous value, i.e. a
    /// reset can go unnoticed; a replay then trusts the recorded token
    pub small_range: bool,
}

fn role(s: StateRole) -> u64 {
    match s {
        StateRole::Follower => 0,
        StateRole::Candidate => 1,
        StateRole::Leader => 2,
        StateRole::PreCandidate => 3,
    }
}

fn pstate(s: ProgressState) -> u64 {
    match s {
        ProgressState::Probe => 0,
        ProgressState::Replicate => 1,
        ProgressState::Snapshot => 2,
    }
}

/// everything the correspondence compares after a call (all through the public API, plus the
/// cfg-gated `raft::verif::node::view` for two crate-private items)
pub fn view(n: &NodeState) -> String {
    let r = &n.rn.raft;
    let l = &r.raft_log;
    let mut s = String::with_capacity(512);
    write!(s, "M {}", r.msgs.len()).unwrap();
    let mut order: Vec<usize> = (0..r.msgs.len()).collect();
    order.sort_by_key(|&i| r.msgs[i].to); // stable
    for i in order {
        s.push(' ');
        s.push_str(&fmt_msg(&r.msgs[i]));
    }
    let lt = catch_unwind(AssertUnwindSafe(|| l.last_term())).map(|t| t.to_string()).unwrap_or_else(|_| "P".into());
    let usn = l.unstable.snapshot.as_ref().map(|s| format!("{}:{}", s.get_metadata().index, s.get_metadata().term)).unwrap_or_else(|| "-".into());
    write!(
        s,
        " | S t={} v={} r={} l={} c={} a={} p={} li={} lt={} fi={} pci={} lte={} ee={} he={} rt={} pr={} prs={} us={} lim={} prio={} uo={} ul={} usn={} sf={} sl={} shs={},{},{} gc={} {}",
        r.term,
        r.vote,
        role(r.state),
        r.leader_id,
        l.committed,
        l.applied,
        l.persisted,
        l.last_index(),
        lt,
        l.first_index(),
        r.pending_conf_index,
        r.lead_transferee.map(|x| x.to_string()).unwrap_or_else(|| "-".into()),
        r.election_elapsed,
        r.heartbeat_elapsed(),
        r.randomized_election_timeout(),
        r.promotable() as u8,
        r.pending_request_snapshot,
        r.uncommitted_size(),
        l.max_apply_unpersisted_log_limit,
        r.priority,
        l.unstable.offset,
        l.unstable.entries.len(),
        usn,
        n.store.first_index().unwrap(),
        n.store.last_index().unwrap(),
        n.store.rl().hard_state().term,
        n.store.rl().hard_state().vote,
        n.store.rl().hard_state().commit,
        r.group_commit() as u8,
        raft::verif::node::view(r)
    )
    .unwrap();
    write!(s, " | RS {}", r.read_states.len()).unwrap();
    for rs in &r.read_states {
        write!(s, " {}:{}", rs.index, hex(&rs.request_ctx)).unwrap();
    }
    let ro = &r.read_only;
    write!(s, " | RO {} {} {}", (ro.option == ReadOnlyOption::LeaseBased) as u8, ro.pending_read_index.len(), ro.read_index_queue.len()).unwrap();
    for ctx in &ro.read_index_queue {
        match ro.pending_read_index.get(ctx) {
            Some(st) => {
                let mut acks: Vec<u64> = st.acks.iter().cloned().collect();
                acks.sort_unstable();
                let a: Vec<String> = acks.iter().map(|x| x.to_string()).collect();
                write!(s, " {}:{}:{}:{}", hex(ctx), st.index, st.req.from, a.join(",")).unwrap();
            }
            None => write!(s, " {}:?", hex(ctx)).unwrap(),
        }
    }
    let mut prs: Vec<(u64, &raft::Progress)> = r.prs().iter().map(|(k, v)| (*k, v)).collect();
    prs.sort_by_key(|p| p.0);
    write!(s, " | P {}", prs.len()).unwrap();
    for (id, p) in prs {
        write!(
            s,
            " {}:{}:{}:{}:{}:{}:{}:{}:{}:{}:{}:{}",
            id,
            p.matched,
            p.next_idx,
            pstate(p.state),
            p.paused as u8,
            p.pending_snapshot,
            p.pending_request_snapshot,
            p.recent_active as u8,
            p.ins.count(),
            p.ins.full() as u8,
            p.commit_group_id,
            p.committed_index
        )
        .unwrap();
    }
    let mut votes: Vec<(u64, bool)> = r.prs().votes().iter().map(|(k, v)| (*k, *v)).collect();
    votes.sort_unstable();
    write!(s, " | V {}", votes.len()).unwrap();
    for (id, v) in votes {
        write!(s, " {}:{}", id, v as u8).unwrap();
    }
    write!(s, " | C {}", fmt_cs(&r.prs().conf().to_conf_state())).unwrap();
    s
}

fn logger() -> slog::Logger {
    slog::Logger::root(slog::Discard, slog::o!())
}

fn dump_storage(store: &MemStorage, snap: (u64, u64)) -> String {
    let st = store.initial_state().unwrap();
    let (fi, li) = (store.first_index().unwrap(), store.last_index().unwrap());
    let ents = if li + 1 > fi { store.entries(fi, li + 1, None, GetEntriesContext::empty(false)).unwrap() } else { vec![] };
    format!(
        "H {} {} {} C {} SN {} {} E {}",
        st.hard_state.term,
        st.hard_state.vote,
        st.hard_state.commit,
        fmt_cs(&st.conf_state),
        snap.0,
        snap.1,
        fmt_entries(&ents)
    )
}

/// builds a storage from the textual description of `rn new`
fn build_storage(hs: &HardState, cs: &ConfState, snap: (u64, u64), ents: &[Entry]) -> MemStorage {
    let store = MemStorage::new();
    if snap.0 > 0 {
        let mut s = Snapshot::default();
        s.mut_metadata().index = snap.0;
        s.mut_metadata().term = snap.1;
        s.mut_metadata().set_conf_state(cs.clone());
        store.wl().apply_snapshot(s).unwrap();
    }
    if let Some(first) = ents.first() {
        // a compacted log starts above the snapshot point: grow it from the snapshot point and compact
        let mut pre = vec![];
        for i in snap.0 + 1..first.index {
            let mut e = Entry::default();
            e.index = i;
            e.term = snap.1;
            pre.push(e);
        }
        store.wl().append(&pre).unwrap();
        store.wl().append(ents).unwrap();
        if first.index > snap.0 + 1 {
            store.wl().compact(first.index).unwrap();
        }
    }
    store.wl().set_hardstate(hs.clone());
    store.wl().set_conf_state(cs.clone());
    store
}

pub enum NewResult {
    Ok(NodeState),
    Other(String),
}

/// `rn new`: returns the node (if created) and the observation
pub fn new_node(cfg: &Config, store: MemStorage, snap: (u64, u64), pick: Option<usize>) -> (Option<NodeState>, String, String) {
    let app_cs = store.initial_state().unwrap().conf_state;
    let desc = format!("{} {}", fmt_cfg(cfg), dump_storage(&store, snap));
    let s2 = store.clone();
    let lg = logger();
    match catch_unwind(AssertUnwindSafe(|| RawNode::new(cfg, s2, &lg))) {
        Err(_) => (None, "-".into(), format!("{} -> panic", desc)),
        Ok(Err(e)) => (None, "-".into(), format!("{} -> {}", desc, err_kind(&e))),
        Ok(Ok(mut rn)) => {
            let tok = match pick {
                Some(p) => {
                    rn.raft.set_randomized_election_timeout(p);
                    p.to_string()
                }
                None => "-".into(),
            };
            let small_range = cfg.max_election_tick() - cfg.min_election_tick() < (1 << 20);
            let n = NodeState { rn, store, snap, app_cs, drained: vec![], last_panic: String::new(), small_range };
            let v = view(&n);
            (Some(n), tok, format!("{} -> ok | {}", desc, v))
        }
    }
}

impl NodeState {
    /// executes one operation; `pick` is the value the randomized election timeout is overridden
    /// with if the call reset it.  Returns (rnd token, observation, alive).
    pub fn exec(&mut self, op: &Op, pick: Option<usize>, replay: bool) -> (String, String, bool) {
        let before = self.rn.raft.randomized_election_timeout();
        let res = catch_unwind(AssertUnwindSafe(|| self.run(op)));
        match res {
            Err(e) => {
                let msg = e.downcast_ref::<String>().cloned().or_else(|| e.downcast_ref::<&str>().map(|s| s.to_string())).unwrap_or_default();
                self.last_panic = msg.lines().next().unwrap_or("").chars().filter(|c| !c.is_ascii_digit()).take(60).collect();
                ("-".into(), "panic".into(), false)
            }
            Ok(r) => {
                let mut tok = "-".to_string();
                if self.rn.raft.randomized_election_timeout() != before {
                    if let Some(p) = pick {
                        self.rn.raft.set_randomized_election_timeout(p);
                        tok = p.to_string();
                    } else {
                        // replay of a call whose original draw equalled the previous value
                        self.rn.raft.set_randomized_election_timeout(before);
                    }
                } else if replay && self.small_range {
                    if let Some(p) = pick {
                        // the recorded call did reset; this time the draw equalled the previous value
                        self.rn.raft.set_randomized_election_timeout(p);
                        tok = p.to_string();
                    }
                }
                let v = match catch_unwind(AssertUnwindSafe(|| view(self))) {
                    Ok(v) => v,
                    Err(_) => return (tok, "panic-in-view".into(), false),
                };
                (tok, format!("{} | {}", r, v), true)
            }
        }
    }

    fn run(&mut self, op: &Op) -> String {
        let rn = &mut self.rn;
        match op {
            Op::Tick => format!("ok {}", rn.tick() as u8),
            Op::Step(m) => unit_res(rn.step(m.clone())),
            Op::RStep(m) => unit_res(rn.raft.step(m.clone())),
            Op::Propose(c, d) => unit_res(rn.propose(c.clone(), d.clone())),
            Op::ProposeCc(t, c, d) => {
                // `RawNode::propose_conf_change` after the protobuf encoding of the change
                let mut m = Message::default();
                m.set_msg_type(MessageType::MsgPropose);
                let mut e = Entry::default();
                e.set_entry_type(etype(*t));
                e.data = d.clone().into();
                e.context = c.clone().into();
                m.set_entries(vec![e].into());
                unit_res(rn.raft.step(m))
            }
            Op::ReadIndex(c) => {
                rn.read_index(c.clone());
                "ok".into()
            }
            Op::TransferLeader(x) => {
                rn.transfer_leader(*x);
                "ok".into()
            }
            Op::Campaign => unit_res(rn.campaign()),
            Op::Ping => {
                rn.ping();
                "ok".into()
            }
            Op::OnEntriesFetched(to, term, a) => {
                // the context object is rebuilt from its three fields (cfg-gated constructor in raft::verif::node)
                rn.on_entries_fetched(raft::verif::node::send_append_context(*to, *term, *a));
                "ok".into()
            }
            Op::RequestSnapshot => unit_res(rn.request_snapshot()),
            Op::ReportUnreachable(x) => {
                rn.report_unreachable(*x);
                "ok".into()
            }
            Op::ReportSnapshot(x, fail) => {
                rn.report_snapshot(*x, if *fail { SnapshotStatus::Failure } else { SnapshotStatus::Finish });
                "ok".into()
            }
            Op::ApplyConfChange(cc) => match rn.apply_conf_change(cc) {
                Ok(cs) => {
                    let s = format!("ok {}", fmt_cs(&cs));
                    self.app_cs = cs;
                    s
                }
                Err(e) => err_kind(&e).into(),
            },
            Op::Stabilize => {
                let ents = rn.raft.raft_log.unstable_entries().to_vec();
                if let Some(last) = ents.last() {
                    self.store.wl().append(&ents).unwrap();
                    rn.raft.raft_log.stable_entries(last.index, last.term);
                }
                let mut hs = self.store.rl().hard_state().clone();
                hs.term = rn.raft.term;
                hs.vote = rn.raft.vote;
                self.store.wl().set_hardstate(hs);
                "ok".into()
            }
            Op::OnPersistEntries(i, t) => {
                rn.raft.on_persist_entries(*i, *t);
                "ok".into()
            }
            Op::PersistSnap => match rn.raft.raft_log.unstable_snapshot().clone() {
                None => "ok none".into(),
                Some(s) => {
                    let (idx, term) = (s.get_metadata().index, s.get_metadata().term);
                    let cs = s.get_metadata().get_conf_state().clone();
                    let r = self.store.wl().apply_snapshot(s);
                    match r {
                        Err(e) => err_kind(&e).into(),
                        Ok(()) => {
                            self.snap = (idx, term);
                            self.app_cs = cs;
                            rn.raft.raft_log.stable_snap(idx);
                            rn.raft.on_persist_snap(idx);
                            "ok".into()
                        }
                    }
                }
            },
            Op::CommitApply(k) => {
                let l = &rn.raft.raft_log;
                if *k > l.applied && *k <= l.committed {
                    if let Ok(ents) = l.slice(l.applied + 1, *k + 1, None, GetEntriesContext::empty(false)) {
                        rn.raft.reduce_uncommitted_size(&ents);
                    }
                }
                rn.raft.commit_apply(*k);
                let (fi, li) = (self.store.first_index().unwrap(), self.store.last_index().unwrap());
                if fi <= *k && *k <= li {
                    let mut w = self.store.wl();
                    w.mut_hard_state().commit = *k;
                    w.set_conf_state(self.app_cs.clone());
                }
                "ok".into()
            }
            Op::Compact(k) => match self.store.wl().compact(*k) {
                Ok(()) => "ok".into(),
                Err(e) => err_kind(&e).into(),
            },
            Op::Drain => {
                self.drained = rn.raft.msgs.drain(..).collect();
                rn.raft.read_states.clear();
                "ok".into()
            }
            Op::TriggerSnap => {
                self.store.wl().trigger_snap_unavailable();
                "ok".into()
            }
            Op::TriggerLog(b) => {
                self.store.wl().trigger_log_unavailable(*b);
                "ok".into()
            }
            Op::SetPriority(p) => {
                rn.set_priority(*p);
                "ok".into()
            }
            Op::SetBatch(b) => {
                rn.set_batch_append(*b);
                "ok".into()
            }
            Op::SkipBcast(b) => {
                rn.skip_bcast_commit(*b);
                "ok".into()
            }
            Op::SetCheckQuorum(b) => {
                rn.raft.set_check_quorum(*b);
                "ok".into()
            }
            Op::AdjustInflight(id, cap) => {
                rn.raft.adjust_max_inflight_msgs(*id, *cap as usize);
                "ok".into()
            }
            Op::FreeInflight => {
                rn.raft.maybe_free_inflight_buffers();
                "ok".into()
            }
            Op::GroupCommit(b) => {
                rn.raft.enable_group_commit(*b);
                "ok".into()
            }
            Op::AssignGroups(v) => {
                rn.raft.assign_commit_groups(v);
                "ok".into()
            }
            Op::ClearGroups => {
                rn.raft.clear_commit_group();
                "ok".into()
            }
            Op::CheckGroupConsistent => match rn.raft.check_group_commit_consistent() {
                None => "ok none".into(),
                Some(b) => format!("ok {}", b as u8),
            },
            Op::SetApplyLimit(x) => {
                rn.raft.set_max_apply_unpersisted_log_limit(*x);
                "ok".into()
            }
            Op::SetCommittedSize(x) => {
                rn.raft.set_max_committed_size_per_ready(*x);
                "ok".into()
            }
        }
    }
}

// ------------------------------------------------------------------------------------------------
// replay

#[derive(Default)]
pub struct Exec {
    node: Option<NodeState>,
}

impl Exec {
    /// `toks` = the tokens after the component token `rn`; returns the full rewritten line
    /// (`<op> <rnd> <args> -> <obs>` without the leading `rn`)
    pub fn exec_line(&mut self, toks: &[&str]) -> String {
        let mut t = Toks { t: toks, i: 0 };
        let Some(name) = t.next() else { return "bad-op".into() };
        let rnd_tok = t.next().unwrap_or("-");
        let pick: Option<usize> = rnd_tok.parse().ok();
        if name == "new" {
            let parsed = (|| {
                let cfg = parse_cfg(&mut t)?;
                if t.next()? != "H" {
                    return None;
                }
                let mut hs = HardState::default();
                hs.term = t.u64()?;
                hs.vote = t.u64()?;
                hs.commit = t.u64()?;
                if t.next()? != "C" {
                    return None;
                }
                let cs = t.cs()?;
                if t.next()? != "SN" {
                    return None;
                }
                let snap = (t.u64()?, t.u64()?);
                if t.next()? != "E" {
                    return None;
                }
                let ents = t.entries()?;
                Some((cfg, hs, cs, snap, ents))
            })();
            let Some((cfg, hs, cs, snap, ents)) = parsed else { return "bad-op".into() };
            let store = match catch_unwind(AssertUnwindSafe(|| build_storage(&hs, &cs, snap, &ents))) {
                Ok(s) => s,
                Err(_) => return "bad-op".into(),
            };
            let (node, tok, line) = new_node(&cfg, store, snap, pick);
            self.node = node;
            return format!("new {} {}", tok, line);
        }
        let Some(op) = Op::parse(name, &mut t) else { return "bad-op".into() };
        let Some(n) = self.node.as_mut() else { return format!("{} {} {} -> skip", name, rnd_tok, op.args()) };
        let a0 = op.args();
        enter_call(None, if a0.is_empty() { format!("rn {} -", name) } else { format!("rn {} - {}", name, a0) });
        let (tok, obs, alive) = n.exec(&op, pick, true);
        leave_call();
        if !alive {
            self.node = None;
        }
        let a = op.args();
        if a.is_empty() {
            format!("{} {} -> {}", name, tok, obs)
        } else {
            format!("{} {} {} -> {}", name, tok, a, obs)
        }
    }
}

// ------------------------------------------------------------------------------------------------
// the multi-node simulation that produces the call sequences

struct SimNode {
    id: u64,
    st: Option<NodeState>,
    cfg: Config,
    store: MemStorage,
    snap: (u64, u64),
    lines: Arc<Mutex<Vec<String>>>,
    /// (index, term) of stabilised entries whose persistence has not been reported yet
    unreported: Option<(u64, u64)>,
    /// notices sent earlier: some come again much later (a late completion of an old write, after the entries at
    /// that index may have been replaced)
    old_notices: Vec<(u64, u64)>,
    restarts: u32,
}

#[derive(Default)]
pub struct Coverage {
    pub delivered: BTreeMap<String, u64>,
    pub ops: BTreeMap<String, u64>,
    pub results: BTreeMap<String, u64>,
    pub emitted: BTreeMap<String, u64>,
    pub events: BTreeMap<String, u64>,
    pub panics: BTreeMap<String, u64>,
}

impl Coverage {
    fn bump(m: &mut BTreeMap<String, u64>, k: String) {
        *m.entry(k).or_insert(0) += 1;
    }
    pub fn report(&self) -> String {
        let mut s = String::new();
        for (name, m) in [("delivered(role.type)", &self.delivered), ("ops", &self.ops), ("results", &self.results), ("emitted", &self.emitted), ("events", &self.events), ("panics(op: message)", &self.panics)] {
            write!(s, "{}:", name).unwrap();
            for (k, v) in m {
                write!(s, " [{}]={}", k, v).unwrap();
            }
            s.push('\n');
        }
        s
    }
    pub fn json(&self) -> String {
        let mut parts = vec![];
        for (name, m) in [("delivered", &self.delivered), ("ops", &self.ops), ("results", &self.results), ("emitted", &self.emitted), ("events", &self.events), ("panics", &self.panics)] {
            let kv: Vec<String> = m.iter().map(|(k, v)| format!("\"{}\":{}", k.replace('\\', "/").replace('"', "'"), v)).collect();
            parts.push(format!("\"{}\":{{{}}}", name, kv.join(",")));
        }
        format!("{{{}}}", parts.join(","))
    }
}

pub struct Params {
    pub seed: u64,
    pub steps: u64,
    pub malformed: bool,
}

struct Sim<'a> {
    nodes: Vec<SimNode>,
    net: Vec<Message>,
    rng: Rng,
    cov: &'a mut Coverage,
    isolated: Vec<bool>,
    next_payload: u64,
    malformed: bool,
    et: usize,
    calls: u64,
    old_reads: Vec<Message>,
    read_dups_left: u32, // bounded: a re-delivered request may be forwarded and re-delivered again
    // directed faults from their own PRNG stream: one-way holds of a link (optionally of one message type only),
    // the lagging-acknowledgements scenario
    rng2: Rng,
    held: Vec<(u64, u64, Option<MessageType>)>,
    /// a node that became leader in the last call: the application may call anything right then (before the new
    /// leader's first entry is acknowledged or even persisted)
    fresh_leader: Option<usize>,
    /// asynchronous log fetches in progress: (node, to, term, aggressively) taken from the node's storage
    fetching: Vec<(usize, u64, u64, bool)>,
    /// nodes whose disk is slow: entries are written (readable through Storage) but the completion notice
    /// (on_persist_entries) stays away for a long time — a leader then commits on its followers' acknowledgements only
    slow_disk: Vec<bool>,
    /// nodes whose application is behind with applying (committed entries are handed out but not applied yet)
    apply_lag: Vec<bool>,
}

fn role_name(s: StateRole) -> &'static str {
    match s {
        StateRole::Follower => "F",
        StateRole::Candidate => "C",
        StateRole::Leader => "L",
        StateRole::PreCandidate => "P",
    }
}

impl<'a> Sim<'a> {
    fn pick(&mut self, i: usize) -> usize {
        let c = &self.nodes[i].cfg;
        let lo = c.min_election_tick();
        let hi = c.max_election_tick().min(lo + self.et);
        lo + self.rng.below((hi - lo) as u64) as usize
    }

    fn start(&mut self, i: usize) {
        let pick = self.pick(i);
        let n = &mut self.nodes[i];
        let (st, tok, line) = new_node(&n.cfg, n.store.clone(), n.snap, Some(pick));
        n.lines.lock().unwrap().push(format!("rn new {} {}", tok, line));
        n.st = st;
        n.unreported = None;
        self.calls += 1;
        Coverage::bump(&mut self.cov.ops, "new".into());
    }

    /// one recorded call on node `i`
    fn call(&mut self, i: usize, op: Op) -> bool {
        if self.nodes[i].st.is_none() {
            return false;
        }
        let pick = self.pick(i);
        let n = &mut self.nodes[i];
        let st = n.st.as_mut().unwrap();
        let pre_role = st.rn.raft.state;
        let pre_msgs = st.rn.raft.msgs.len();
        let pre_prs: Vec<(u64, ProgressState, usize)> = st.rn.raft.prs().iter().map(|(k, p)| (*k, p.state, p.ins.count())).collect();
        let pre = {
            let r = &st.rn.raft;
            (r.term, r.raft_log.committed, r.raft_log.last_index(), r.read_states.len(), r.lead_transferee, r.raft_log.unstable.snapshot.is_some(), r.pending_read_count(), r.uncommitted_size(), r.vote)
        };
        let pre_queue: Vec<usize> = st.rn.raft.msgs.iter().map(|m| m.entries.len()).collect();
        if let Op::Step(m) | Op::RStep(m) = &op {
            Coverage::bump(&mut self.cov.delivered, format!("{}.{:?}", role_name(pre_role), m.get_msg_type()));
        }
        let a = op.args();
        enter_call(Some(n.lines.clone()), if a.is_empty() { format!("rn {} -", op.name()) } else { format!("rn {} - {}", op.name(), a) });
        let (tok, obs, alive) = st.exec(&op, Some(pick), false);
        leave_call();
        if a.is_empty() {
            n.lines.lock().unwrap().push(format!("rn {} {} -> {}", op.name(), tok, obs));
        } else {
            n.lines.lock().unwrap().push(format!("rn {} {} {} -> {}", op.name(), tok, a, obs));
        }
        self.calls += 1;
        Coverage::bump(&mut self.cov.ops, op.name().into());
        let rk = obs.split(" | ").next().unwrap_or("").to_string();
        let rk = if rk.starts_with("ok") { "ok".to_string() } else { rk };
        Coverage::bump(&mut self.cov.results, format!("{}:{}", op.name(), rk));
        if !alive {
            let why = st.last_panic.clone();
            n.st = None;
            Coverage::bump(&mut self.cov.events, "sequence_ended_by_panic".into());
            Coverage::bump(&mut self.cov.panics, format!("{}: {}", op.name(), why));
            return false;
        }
        let st = n.st.as_ref().unwrap();
        let r = &st.rn.raft;
        if r.state != pre_role {
            Coverage::bump(&mut self.cov.events, format!("role {}->{}", role_name(pre_role), role_name(r.state)));
            if r.state == StateRole::Leader {
                self.fresh_leader = Some(i);
            }
        }
        if !matches!(op, Op::Drain) {
            for m in r.msgs.iter().skip(pre_msgs) {
                let mut k = format!("{}.{:?}", role_name(r.state), m.get_msg_type());
                if m.reject {
                    k.push_str(".reject");
                }
                if m.request_snapshot != 0 {
                    k.push_str(".reqsnap");
                }
                if m.get_msg_type() == MessageType::MsgAppend && m.entries.is_empty() {
                    k.push_str(".empty");
                }
                if !m.context.is_empty() && m.get_msg_type() != MessageType::MsgPropose {
                    k.push_str(".ctx");
                }
                Coverage::bump(&mut self.cov.emitted, k);
            }
        }
        for (id, p) in r.prs().iter() {
            if let Some((_, old, cnt)) = pre_prs.iter().find(|(k, _, _)| k == id) {
                if *old != p.state {
                    Coverage::bump(&mut self.cov.events, format!("progress {:?}->{:?}", old, p.state));
                }
                if let Op::Step(m) = &op {
                    if m.get_msg_type() == MessageType::MsgHeartbeatResponse && m.from == *id && p.ins.count() < *cnt {
                        Coverage::bump(&mut self.cov.events, "heartbeat_response_freed_inflight".into());
                    }
                }
            }
        }
        {
            let ev = &mut self.cov.events;
            let (pterm, pcommit, plast, prs_n, plte, psnap, ppending, pus, pvote) = pre;
            let on = op.name();
            if let Op::Step(m) | Op::RStep(m) = &op {
                let t = m.get_msg_type();
                let votereq = t == MessageType::MsgRequestVote || t == MessageType::MsgRequestPreVote;
                if votereq && m.term > pterm && r.term == pterm && r.msgs.len() == pre_msgs {
                    Coverage::bump(ev, "vote_request_ignored_by_lease".into());
                }
                if votereq && r.vote != pvote && r.vote == m.from {
                    Coverage::bump(ev, "vote_granted".into());
                }
                if r.raft_log.committed > pcommit {
                    Coverage::bump(ev, format!("commit_advanced_by.{:?}", t));
                }
                if t == MessageType::MsgSnapshot {
                    let k = if r.raft_log.unstable.snapshot.is_some() && !psnap { "snapshot_restored" } else if r.raft_log.committed > pcommit { "snapshot_fast_forward" } else { "snapshot_ignored" };
                    Coverage::bump(ev, k.into());
                }
                if t == MessageType::MsgPropose && pre_role == StateRole::Leader && obs.starts_with("err") {
                    let k = if plte.is_some() { "proposal_dropped_transferring" } else if r.uncommitted_size() == pus && pus > 0 { "proposal_dropped_uncommitted_limit_or_other" } else { "proposal_dropped_other" };
                    Coverage::bump(ev, k.into());
                }
            }
            if matches!(op, Op::Propose(..) | Op::ProposeCc(..)) && pre_role == StateRole::Leader && obs.starts_with("err") {
                let k = if plte.is_some() { "proposal_dropped_transferring" } else if pus > 0 { "proposal_dropped_uncommitted_limit_or_undecodable" } else { "proposal_dropped_other" };
                Coverage::bump(ev, k.into());
            }
            if let Op::ProposeCc(..) = &op {
                if obs.starts_with("ok") && pre_role == StateRole::Leader {
                    let e = r.raft_log.unstable_entries().last();
                    let k = match e.map(|e| e.get_entry_type()) {
                        Some(EntryType::EntryNormal) => "conf_proposal_replaced_by_empty_entry",
                        _ => "conf_proposal_accepted",
                    };
                    Coverage::bump(ev, k.into());
                }
            }
            if r.read_states.len() > prs_n {
                Coverage::bump(ev, format!("read_state_produced.{}.{}", role_name(r.state), on));
            }
            if r.pending_read_count() > ppending {
                Coverage::bump(ev, "read_request_queued".into());
            }
            if plte.is_some() && r.lead_transferee.is_none() && r.state == StateRole::Leader {
                Coverage::bump(ev, format!("transfer_aborted_by.{}", on));
            }
            if plte.is_none() && r.lead_transferee.is_some() {
                Coverage::bump(ev, "transfer_started".into());
            }
            if on == "commit_apply" && r.raft_log.last_index() > plast {
                Coverage::bump(ev, "auto_leave_entry_appended".into());
            }
            if on == "on_persist_entries" && r.raft_log.committed > pcommit {
                Coverage::bump(ev, "commit_advanced_by.on_persist_entries".into());
            }
            if on == "apply_conf_change" && r.raft_log.committed > pcommit {
                Coverage::bump(ev, "commit_advanced_by.apply_conf_change".into());
            }
            if on == "tick" && pre_role == StateRole::Leader && r.state == StateRole::Follower {
                Coverage::bump(ev, "check_quorum_step_down".into());
            }
            for (k, m) in r.msgs.iter().enumerate() {
                if k < pre_queue.len() && k < pre_msgs && m.entries.len() > pre_queue[k] {
                    Coverage::bump(ev, "append_batched_into_queued_message".into());
                }
            }
            if let Op::ApplyConfChange(cc) = &op {
                let k = if cc.leave_joint() { "leave_joint" } else if cc.enter_joint().is_some() { "enter_joint" } else { "simple" };
                Coverage::bump(ev, format!("apply_conf_change.{}.{}", k, if obs.starts_with("ok") { "ok" } else { "err" }));
            }
            if let Op::CheckGroupConsistent = &op {
                Coverage::bump(ev, format!("check_group_commit_consistent.{}", obs.split(" | ").next().unwrap_or("")));
            }
        }
        if tok != "-" {
            Coverage::bump(&mut self.cov.events, "timeout_reset".into());
        }
        true
    }

    fn decode_cc(e: &Entry) -> Option<ConfChangeV2> {
        match e.get_entry_type() {
            EntryType::EntryConfChange => {
                let mut c = ConfChange::default();
                c.merge_from_bytes(&e.data).ok()?;
                Some(raft_proto::ConfChangeI::into_v2(c))
            }
            EntryType::EntryConfChangeV2 => {
                let mut c = ConfChangeV2::default();
                c.merge_from_bytes(&e.data).ok()?;
                Some(c)
            }
            _ => None,
        }
    }

    /// what a Ready/advance round does, as separate recorded calls: persist the pending snapshot,
    /// move unstable entries to the storage, report persistence, apply, hand the messages out
    fn housekeeping(&mut self, i: usize, full: bool) {
        if self.nodes[i].st.is_none() {
            return;
        }
        // snapshot
        let has_snap = self.nodes[i].st.as_ref().unwrap().rn.raft.raft_log.unstable_snapshot().is_some();
        if has_snap {
            let idx = self.nodes[i].st.as_ref().unwrap().rn.raft.raft_log.unstable_snapshot().as_ref().unwrap().get_metadata().index;
            if !self.call(i, Op::PersistSnap) {
                return;
            }
            let st = self.nodes[i].st.as_ref().unwrap();
            self.nodes[i].snap = st.snap;
            let st = self.nodes[i].st.as_ref().unwrap();
            if st.rn.raft.raft_log.applied < idx && idx <= st.rn.raft.raft_log.committed {
                if !self.call(i, Op::CommitApply(idx)) {
                    return;
                }
            }
        }
        // entries
        let last = self.nodes[i].st.as_ref().unwrap().rn.raft.raft_log.unstable_entries().last().map(|e| (e.index, e.term));
        let hs_stale = {
            let st = self.nodes[i].st.as_ref().unwrap();
            let hs = st.store.rl().hard_state().clone();
            hs.term != st.rn.raft.term || hs.vote != st.rn.raft.vote
        };
        if (last.is_some() || hs_stale || self.rng.chance(2)) && !self.call(i, Op::Stabilize) {
            return;
        }
        if let Some(l) = last {
            self.nodes[i].unreported = Some(l);
        }
        if let Some((uidx, _)) = self.nodes[i].unreported {
            // entries are written but not yet reported: the moment at which a LATE notice of an older write (same
            // index range, possibly another term) is most telling
            if self.rng2.chance(20) {
                // prefer notices about indexes that are written but unreported now and whose entry has been replaced
                // since (another term): exactly what RaftLog::maybe_persist's term check exists for
                let persisted = self.nodes[i].st.as_ref().unwrap().rn.raft.raft_log.persisted;
                let stale: Vec<(u64, u64)> = {
                    let st = self.nodes[i].st.as_ref().unwrap();
                    self.nodes[i].old_notices.iter().cloned()
                        .filter(|(k, t)| *k > persisted && *k <= uidx && st.rn.raft.raft_log.term(*k).map_or(false, |x| x != *t))
                        .collect()
                };
                let cand: Vec<(u64, u64)> = if !stale.is_empty() { stale } else { self.nodes[i].old_notices.iter().cloned().filter(|(k, _)| *k <= uidx).collect() };
                if !cand.is_empty() {
                    let (k, t) = cand[self.rng2.below(cand.len() as u64) as usize];
                    if !self.call(i, Op::OnPersistEntries(k, t)) {
                        return;
                    }
                    Coverage::bump(&mut self.cov.events, "late_persist_notice_before_report".into());
                }
            }
        }
        if let Some((idx, term)) = self.nodes[i].unreported {
            let held = self.slow_disk[i] && !self.rng2.chance(4);
            if !held && (full || self.rng.chance(85)) {
                if self.rng.chance(10) && idx > 1 {
                    // a stale / partial notice first
                    let k = 1 + self.rng.below(idx);
                    let t = self.nodes[i].st.as_ref().unwrap().rn.raft.raft_log.term(k).unwrap_or(term);
                    if !self.call(i, Op::OnPersistEntries(k, t)) {
                        return;
                    }
                }
                if !self.call(i, Op::OnPersistEntries(idx, term)) {
                    return;
                }
                self.nodes[i].unreported = None;
                if self.nodes[i].old_notices.len() >= 64 {
                    self.nodes[i].old_notices.remove(0);
                }
                self.nodes[i].old_notices.push((idx, term));
            }
        }
        // apply
        if !self.apply_lag[i] && (full || self.rng.chance(85)) {
            self.apply(i);
        }
        if self.nodes[i].st.is_none() {
            return;
        }
        // hand messages out: a non-leader only once everything it promised is persisted
        let st = self.nodes[i].st.as_ref().unwrap();
        let r = &st.rn.raft;
        let persisted_all = r.raft_log.unstable_entries().is_empty() && r.raft_log.persisted == r.raft_log.last_index() && r.raft_log.unstable_snapshot().is_none();
        let may = r.state == StateRole::Leader || persisted_all || self.rng.chance(2);
        if !r.msgs.is_empty() || !r.read_states.is_empty() {
            if may && (full || self.rng.chance(90)) {
                if !self.call(i, Op::Drain) {
                    return;
                }
                let msgs = std::mem::take(&mut self.nodes[i].st.as_mut().unwrap().drained);
                self.net.extend(msgs);
            }
        }
    }

    fn apply(&mut self, i: usize) {
        loop {
            let Some(st) = self.nodes[i].st.as_ref() else { return };
            let l = &st.rn.raft.raft_log;
            let limit = l.max_apply_unpersisted_log_limit;
            let upper = l.committed.min(l.persisted.saturating_add(limit));
            if upper <= l.applied {
                return;
            }
            // sometimes in two steps
            let upper = if self.rng.chance(15) { l.applied + 1 + self.rng.below(upper - l.applied) } else { upper };
            let Ok(ents) = l.slice(l.applied + 1, upper + 1, None, GetEntriesContext::empty(false)) else { return };
            for e in &ents {
                if e.get_entry_type() != EntryType::EntryNormal {
                    if let Some(cc) = Self::decode_cc(e) {
                        if !self.call(i, Op::ApplyConfChange(cc)) {
                            return;
                        }
                    }
                }
            }
            if !self.call(i, Op::CommitApply(upper)) {
                return;
            }
        }
    }

    fn deliver(&mut self, k: usize, dup: bool) {
        let m = if dup { self.net[k].clone() } else { self.net.swap_remove(k) };
        let to = m.to as usize;
        if to < 1 || to > self.nodes.len() {
            return;
        }
        let from = m.from as usize;
        if self.isolated[to - 1] || (from >= 1 && from <= self.nodes.len() && self.isolated[from - 1]) {
            Coverage::bump(&mut self.cov.events, "dropped_isolated".into());
            return;
        }
        let is_read = m.get_msg_type() == MessageType::MsgReadIndex;
        if is_read {
            // forwarded read requests are kept and re-delivered later as stale duplicates (A, B, A patterns)
            if self.old_reads.len() >= 8 {
                self.old_reads.remove(0);
            }
            self.old_reads.push(m.clone());
        }
        if self.call(to - 1, Op::Step(m)) {
            let full = self.rng.chance(75);
            if full || self.rng.chance(50) {
                self.housekeeping(to - 1, full);
            }
        }
        if !self.old_reads.is_empty() && self.read_dups_left > 0 && self.rng.chance(if is_read { 35 } else { 4 }) {
            self.read_dups_left -= 1;
            let k = self.rng.below(self.old_reads.len() as u64) as usize;
            let m2 = self.old_reads[k].clone();
            let t2 = m2.to as usize;
            if t2 >= 1 && t2 <= self.nodes.len() && !self.isolated[t2 - 1] && self.call(t2 - 1, Op::Step(m2)) && self.rng.chance(60) {
                self.housekeeping(t2 - 1, true);
            }
        }
    }

    fn leader(&self) -> Option<usize> {
        let mut best: Option<(u64, usize)> = None;
        for (i, n) in self.nodes.iter().enumerate() {
            if let Some(st) = &n.st {
                if st.rn.raft.state == StateRole::Leader && best.map_or(true, |(t, _)| st.rn.raft.term > t) {
                    best = Some((st.rn.raft.term, i));
                }
            }
        }
        best.map(|b| b.1)
    }

    fn payload(&mut self) -> Vec<u8> {
        let p = self.next_payload;
        self.next_payload += 1;
        let len = match self.rng.below(12) {
            0 => 0,
            1 => 30 + self.rng.below(60) as usize,
            2 => 120 + self.rng.below(30) as usize,
            _ => 1 + self.rng.below(10) as usize,
        };
        let mut d = format!("p{}", p).into_bytes();
        if len == 0 {
            d.clear();
        } else {
            d.resize(len.max(d.len()), b'.');
        }
        d
    }

    fn random_cc(&mut self) -> (u64, Vec<u8>) {
        let n = self.nodes.len() as u64;
        let ty = |r: &mut Rng| match r.below(3) {
            0 => ConfChangeType::AddNode,
            1 => ConfChangeType::RemoveNode,
            _ => ConfChangeType::AddLearnerNode,
        };
        if self.rng.chance(35) {
            let mut cc = ConfChange::default();
            cc.set_change_type(ty(&mut self.rng));
            cc.node_id = 1 + self.rng.below(n);
            if self.rng.chance(20) {
                cc.id = self.rng.below(1000);
            }
            if self.rng.chance(20) {
                cc.context = b"ctx".to_vec().into();
            }
            (1, cc.write_to_bytes().unwrap())
        } else {
            let mut cc = ConfChangeV2::default();
            let k = match self.rng.below(10) {
                0 | 1 => 0,
                2..=6 => 1,
                7 | 8 => 2,
                _ => 3,
            };
            for _ in 0..k {
                let t = ty(&mut self.rng);
                let id = 1 + self.rng.below(n);
                cc.mut_changes().push(single(t, id));
            }
            cc.set_transition(match self.rng.below(4) {
                0 => ConfChangeTransition::Implicit,
                1 => ConfChangeTransition::Explicit,
                _ => ConfChangeTransition::Auto,
            });
            if self.rng.chance(15) {
                cc.context = b"c2".to_vec().into();
            }
            (2, cc.write_to_bytes().unwrap())
        }
    }

    fn junk_bytes(&mut self) -> Vec<u8> {
        // a valid encoding damaged in one place, or plain noise
        let (_, mut d) = self.random_cc();
        match self.rng.below(5) {
            0 => {
                if !d.is_empty() {
                    let k = self.rng.below(d.len() as u64) as usize;
                    d.truncate(k);
                }
            }
            1 => {
                if !d.is_empty() {
                    let k = self.rng.below(d.len() as u64) as usize;
                    d[k] = self.rng.below(256) as u8;
                }
            }
            2 => {
                let extra = 1 + self.rng.below(4);
                for _ in 0..extra {
                    d.push(self.rng.below(256) as u8);
                }
            }
            3 => {
                let k = self.rng.below(d.len() as u64 + 1) as usize;
                d.insert(k, self.rng.below(256) as u8);
            }
            _ => {
                let len = self.rng.below(12);
                d = (0..len).map(|_| self.rng.below(256) as u8).collect();
            }
        }
        d
    }

    /// a message nobody sent: any type, unknown senders, wrong terms, indexes around the log bounds
    fn junk_msg(&mut self, i: usize) -> Message {
        let st = self.nodes[i].st.take().unwrap();
        let m = self.junk_msg_for(i, &st);
        self.nodes[i].st = Some(st);
        m
    }

    fn junk_msg_for(&mut self, i: usize, st: &NodeState) -> Message {
        let r = &st.rn.raft;
        let (term, last, committed) = (r.term, r.raft_log.last_index(), r.raft_log.committed);
        let n = self.nodes.len() as u64;
        let mut m = Message::default();
        m.set_msg_type(MTYPES[self.rng.below(19) as usize]);
        m.to = self.nodes[i].id;
        m.from = match self.rng.below(10) {
            0 => 0,
            1 => n + 1 + self.rng.below(3),
            2 => self.nodes[i].id,
            _ => 1 + self.rng.below(n),
        };
        m.term = match self.rng.below(10) {
            0 | 1 => 0,
            2 => term.saturating_sub(1),
            3 | 4 => term.saturating_add(1),
            5 => term.saturating_add(1 + self.rng.below(3)),
            6 if self.rng.chance(5) => u64::MAX,
            _ => term,
        };
        let near = |r: &mut Rng, x: u64| x.saturating_add(r.below(4)).saturating_sub(r.below(4));
        let base = if self.rng.chance(50) { last } else { committed };
        m.index = near(&mut self.rng, base);
        m.log_term = match self.rng.below(4) {
            0 => 0,
            1 => term,
            _ => r.raft_log.term(m.index).unwrap_or(term),
        };
        m.commit = near(&mut self.rng, committed);
        m.commit_term = if self.rng.chance(50) { r.raft_log.term(m.commit).unwrap_or(0) } else { self.rng.below(term.saturating_add(2)) };
        m.reject = self.rng.chance(30);
        m.reject_hint = if self.rng.chance(3) { u64::MAX } else { near(&mut self.rng, last) };
        m.request_snapshot = if self.rng.chance(15) { near(&mut self.rng, last) } else { 0 };
        if self.rng.chance(25) {
            m.context = match self.rng.below(3) {
                0 => b"CampaignTransfer".to_vec().into(),
                1 => b"r1".to_vec().into(),
                _ => b"x".to_vec().into(),
            };
        }
        if self.rng.chance(20) {
            m.priority = self.rng.below(5) as i64 - 2;
        }
        if self.rng.chance(10) {
            m.deprecated_priority = if self.rng.chance(30) { u64::MAX } else { self.rng.below(4) };
        }
        let ne = match self.rng.below(6) {
            0 | 1 | 2 => 0,
            3 | 4 => 1,
            _ => 2,
        };
        let mut es = vec![];
        for k in 0..ne {
            let mut e = Entry::default();
            e.index = m.index.saturating_add(1 + k);
            e.term = if self.rng.chance(70) { m.term.max(1).min(term.saturating_add(3)) } else { self.rng.below(term.saturating_add(2)) };
            match self.rng.below(8) {
                0 => {
                    e.set_entry_type(EntryType::EntryConfChange);
                    e.data = self.junk_bytes().into();
                }
                1 => {
                    e.set_entry_type(EntryType::EntryConfChangeV2);
                    e.data = self.junk_bytes().into();
                }
                2 => {
                    let (t, d) = self.random_cc();
                    e.set_entry_type(etype(t));
                    e.data = d.into();
                }
                _ => e.data = self.payload().into(),
            }
            es.push(e);
        }
        m.set_entries(es.into());
        if m.get_msg_type() == MessageType::MsgSnapshot || self.rng.chance(3) {
            let mut s = Snapshot::default();
            let md = s.mut_metadata();
            md.index = near(&mut self.rng, committed.max(1));
            md.term = if self.rng.chance(60) { r.raft_log.term(md.index).unwrap_or(term) } else { term };
            let mut cs = r.prs().conf().to_conf_state();
            let mut v = cs.take_voters();
            v.sort_unstable();
            if self.rng.chance(30) && !v.is_empty() {
                v.remove(self.rng.below(v.len() as u64) as usize);
            }
            if self.rng.chance(20) {
                v.push(n + 1);
            }
            cs.set_voters(v);
            let mut l = cs.take_learners();
            l.sort_unstable();
            cs.set_learners(l);
            let mut o = cs.take_voters_outgoing();
            o.sort_unstable();
            cs.set_voters_outgoing(o);
            let mut ln = cs.take_learners_next();
            ln.sort_unstable();
            cs.set_learners_next(ln);
            md.set_conf_state(cs);
            m.set_snapshot(s);
        }
        m
    }

    fn random_action(&mut self, i: usize) {
        let n = self.nodes.len() as u64;
        let k = self.rng.below(100);
        let ok = match k {
            0..=24 => {
                let d = self.payload();
                let c = if self.rng.chance(10) { b"k".to_vec() } else { vec![] };
                self.call(i, Op::Propose(c, d))
            }
            25..=33 => {
                let (t, d) = self.random_cc();
                self.call(i, Op::ProposeCc(t, vec![], d))
            }
            34..=36 => {
                // one MsgPropose with several entries, membership changes among them (a forwarded batch)
                let mut m = Message::default();
                m.set_msg_type(MessageType::MsgPropose);
                m.from = self.nodes[i].id;
                let k = 2 + self.rng.below(2);
                let mut ents = vec![];
                for _ in 0..k {
                    let mut e = Entry::default();
                    if self.rng.chance(60) {
                        let (t, d) = self.random_cc();
                        e.set_entry_type(etype(t));
                        e.data = d.into();
                    } else {
                        e.data = self.payload().into();
                    }
                    ents.push(e);
                }
                m.set_entries(ents.into());
                self.call(i, Op::Step(m))
            }
            37..=48 => {
                let mut c = format!("r{}", self.next_payload).into_bytes();
                self.next_payload += 1;
                if self.rng2.chance(6) {
                    // the empty context: the one ordinary heartbeats carry
                    c.clear();
                }
                self.call(i, Op::ReadIndex(c))
            }
            49..=54 => {
                let t = 1 + self.rng.below(n);
                self.call(i, Op::TransferLeader(t))
            }
            55..=57 => self.call(i, Op::Campaign),
            58..=60 => self.call(i, Op::Ping),
            61..=66 => self.call(i, Op::RequestSnapshot),
            67..=70 => {
                let t = 1 + self.rng.below(n);
                self.call(i, Op::ReportUnreachable(t))
            }
            71..=76 => {
                let t = 1 + self.rng.below(n);
                let f = self.rng.chance(40);
                self.call(i, Op::ReportSnapshot(t, f))
            }
            77..=84 => {
                // compaction up to the applied index
                let st = self.nodes[i].st.as_ref().unwrap();
                let (fi, li) = (st.store.first_index().unwrap(), st.store.last_index().unwrap());
                let a = st.rn.raft.raft_log.applied.min(li).min(st.store.rl().hard_state().commit);
                if a > fi {
                    let k = fi + 1 + self.rng.below(a - fi);
                    self.call(i, Op::Compact(k))
                } else {
                    true
                }
            }
            85..=93 => {
                let op = match self.rng.below(14) {
                    0 => Op::SetPriority(self.rng.below(4) as i64 - 1),
                    1 => Op::SetBatch(self.rng.chance(50)),
                    2 => Op::SkipBcast(self.rng.chance(50)),
                    3 => Op::SetCheckQuorum(self.rng.chance(60)),
                    4 => Op::AdjustInflight(1 + self.rng.below(n), self.rng.below(5)),
                    5 => Op::FreeInflight,
                    6 => Op::GroupCommit(self.rng.chance(50)),
                    7 => {
                        let mut v = vec![];
                        for id in 1..=n {
                            if self.rng.chance(70) {
                                v.push((id, 1 + self.rng.below(2)));
                            }
                        }
                        Op::AssignGroups(v)
                    }
                    8 => Op::ClearGroups,
                    9 => Op::CheckGroupConsistent,
                    10 => Op::SetApplyLimit(match self.rng.below(3) {
                        0 => 0,
                        1 => 1 + self.rng.below(3),
                        _ => u64::MAX,
                    }),
                    11 => Op::SetCommittedSize(match self.rng.below(3) {
                        0 => u64::MAX,
                        1 => 20 + self.rng.below(60),
                        _ => 0,
                    }),
                    12 => {
                        // only with a single peer: which peer meets the trigger would depend on hash order
                        let single_peer = self.nodes[i].st.as_ref().unwrap().rn.raft.prs().iter().count() == 2;
                        if single_peer { Op::TriggerSnap } else { Op::FreeInflight }
                    }
                    _ => Op::TriggerLog(self.rng.chance(50)),
                };
                self.call(i, op)
            }
            _ => {
                self.housekeeping(i, true);
                true
            }
        };
        if ok && self.rng.chance(80) {
            let full = self.rng.chance(80);
            self.housekeeping(i, full);
        }
    }

    fn restart(&mut self, i: usize) {
        // the storage object is the node's disk: unstable entries and volatile state are lost
        let n = &mut self.nodes[i];
        if n.st.is_none() && n.restarts > 3 {
            return;
        }
        if let Some(st) = n.st.take() {
            n.snap = st.snap;
        }
        n.restarts += 1;
        // a panic inside the storage poisons its lock: such a node stays down; a pending
        // "snapshot unavailable" trigger is consumed so that the dumped storage is the whole state
        let store = n.store.clone();
        if catch_unwind(AssertUnwindSafe(|| {
            let _ = store.rl().hard_state().clone();
            let _ = store.snapshot(0, 0);
        }))
        .is_err()
        {
            n.restarts = 99;
            return;
        }
        let hs = n.store.rl().hard_state().clone();
        let fi = n.store.first_index().unwrap();
        n.cfg.applied = if hs.commit >= fi.saturating_sub(1) { hs.commit } else { 0 };
        if self.rng.chance(10) {
            n.cfg.applied = 0;
        }
        n.store.wl().trigger_log_unavailable(false);
        Coverage::bump(&mut self.cov.events, "restart".into());
        self.start(i);
    }

    fn is_held(&self, m: &Message) -> bool {
        self.held.iter().any(|(f, t, ty)| *f == m.from && *t == m.to && ty.map_or(true, |x| x == m.get_msg_type()))
    }

    fn deliver_all_unheld(&mut self) {
        let msgs: Vec<Message> = self.net.drain(..).collect();
        let mut kept = vec![];
        for m in msgs {
            if self.is_held(&m) {
                kept.push(m);
                continue;
            }
            self.net.push(m);
            let k = self.net.len() - 1;
            self.deliver(k, false);
        }
        self.net.extend(kept);
    }

    /// API calls on a node that has just become leader, before anything else happens to it
    fn fresh_leader_calls(&mut self, i: usize) {
        let n = self.nodes.len() as u64;
        let k = 1 + self.rng2.below(3);
        for _ in 0..k {
            if self.nodes[i].st.is_none() {
                return;
            }
            let groups = |rng: &mut Rng| {
                let mut v = vec![];
                for id in 1..=n {
                    if rng.chance(75) {
                        v.push((id, 1 + rng.below(2)));
                    }
                }
                v
            };
            let op = match self.rng2.below(12) {
                0 | 1 => {
                    if !self.call(i, Op::GroupCommit(true)) {
                        return;
                    }
                    Op::AssignGroups(groups(&mut self.rng2))
                }
                2 => Op::AssignGroups(groups(&mut self.rng2)),
                3 => {
                    let c = format!("r{}", self.next_payload).into_bytes();
                    self.next_payload += 1;
                    Op::ReadIndex(c)
                }
                4 => Op::TransferLeader(1 + self.rng2.below(n)),
                5 => Op::Propose(vec![], vec![b'f', b'l']),
                6 => Op::Ping,
                7 => Op::SetApplyLimit(if self.rng2.chance(50) { u64::MAX } else { 1 + self.rng2.below(3) }),
                8 => Op::ReportUnreachable(1 + self.rng2.below(n)),
                9 => Op::ReportSnapshot(1 + self.rng2.below(n), self.rng2.chance(40)),
                10 => Op::CheckGroupConsistent,
                _ => Op::RequestSnapshot,
            };
            if !self.call(i, op) {
                return;
            }
        }
        Coverage::bump(&mut self.cov.events, "fresh_leader_calls".into());
    }

    /// asynchronous log fetch: the application notices that `Storage::entries` refused a `send_append`
    /// (LogTemporarilyUnavailable, context kept by MemStorage), fetches the entries — which takes a while, during
    /// which terms, roles and the membership may change — and calls `on_entries_fetched` with that context
    fn async_fetch(&mut self) {
        for i in 0..self.nodes.len() {
            let Some(st) = self.nodes[i].st.as_ref() else { continue };
            if let Some(ctx) = st.store.wl().take_get_entries_context() {
                if let Some((to, term, a)) = raft::verif::node::send_append_context_fields(&ctx) {
                    self.fetching.push((i, to, term, a));
                    Coverage::bump(&mut self.cov.events, "async_fetch_started".into());
                }
            }
        }
        if self.rng2.below(1000) < 8 {
            // the leader's storage starts answering `send_append` reads asynchronously
            if let Some(l) = self.leader() {
                self.call(l, Op::TriggerLog(true));
            }
        }
        if !self.fetching.is_empty() && self.rng2.chance(4) {
            let k = self.rng2.below(self.fetching.len() as u64) as usize;
            let (i, to, term, a) = self.fetching.swap_remove(k);
            if self.nodes[i].st.is_some() {
                // most of the time the entries are available again when the fetch completes
                if self.rng2.chance(70) && self.call(i, Op::TriggerLog(false)) {}
                if self.nodes[i].st.is_some() && self.call(i, Op::OnEntriesFetched(to, term, a)) {
                    Coverage::bump(&mut self.cov.events, "async_fetch_completed".into());
                    self.housekeeping(i, true);
                }
            }
        }
    }

    /// scenario: a leader proposes its own removal (or demotion); the change commits but the leader's application is slow to
    /// apply it; meanwhile more entries are proposed and acknowledged by the followers while the leader's own disk is slow
    /// (its own acknowledgement stays behind); then the leader applies its removal
    fn self_removal(&mut self) {
        let Some(l) = self.leader() else { return };
        let lid = self.nodes[l].id;
        let n = self.nodes.len();
        Coverage::bump(&mut self.cov.events, "scenario_self_removal".into());
        self.apply_lag[l] = true;
        let mut cc = ConfChangeV2::default();
        let ty = if self.rng2.chance(70) { ConfChangeType::RemoveNode } else { ConfChangeType::AddLearnerNode };
        cc.mut_changes().push(single(ty, lid));
        if !self.call(l, Op::ProposeCc(2, vec![], cc.write_to_bytes().unwrap())) {
            self.apply_lag[l] = false;
            return;
        }
        for _ in 0..4 {
            for k in 0..n {
                self.housekeeping(k, true);
            }
            self.deliver_all_unheld();
        }
        self.slow_disk[l] = true;
        let extra = 1 + self.rng2.below(3);
        for _ in 0..extra {
            if self.nodes[l].st.is_none() {
                break;
            }
            let d = self.payload();
            self.call(l, Op::Propose(vec![], d));
            for _ in 0..2 {
                for k in 0..n {
                    self.housekeeping(k, true);
                }
                self.deliver_all_unheld();
            }
        }
        self.apply_lag[l] = false;
        if self.rng2.chance(50) {
            self.slow_disk[l] = false;
        }
        self.housekeeping(l, true);
        for _ in 0..2 {
            for k in 0..n {
                self.housekeeping(k, true);
            }
            self.deliver_all_unheld();
        }
        self.slow_disk[l] = false;
    }

    fn extra_faults(&mut self) {
        self.async_fetch();
        if self.rng2.below(1000) < 3 {
            self.self_removal();
        }
        {
            let x = self.rng2.below(1000);
            if x < 6 {
                // a disk becomes slow — most of the time the leader's
                let n = self.nodes.len();
                let i = match (self.leader(), self.rng2.chance(70)) { (Some(l), true) => l, _ => self.rng2.below(n as u64) as usize };
                self.slow_disk[i] = true;
                Coverage::bump(&mut self.cov.events, "slow_disk".into());
            } else if x < 20 {
                for f in self.slow_disk.iter_mut() {
                    *f = false;
                }
            }
        }
        if self.rng2.below(1000) < 15 {
            // a late duplicate of an old persistence notice (the entries at that index may have been replaced since)
            let i = self.rng2.below(self.nodes.len() as u64) as usize;
            if self.nodes[i].st.is_some() && !self.nodes[i].old_notices.is_empty() {
                let k = self.rng2.below(self.nodes[i].old_notices.len() as u64) as usize;
                let (idx, term) = self.nodes[i].old_notices[k];
                if self.call(i, Op::OnPersistEntries(idx, term)) {
                    Coverage::bump(&mut self.cov.events, "late_persist_notice".into());
                }
            }
        }
        if let Some(i) = self.fresh_leader.take() {
            if self.rng2.chance(40) {
                self.fresh_leader_calls(i);
            }
        }
        if self.net.len() > 3000 {
            self.net.drain(..1000);
        }
        let x = self.rng2.below(1000);
        if x < 6 {
            if self.held.is_empty() {
                let n = self.nodes.len() as u64;
                if n < 2 {
                    return;
                }
                let l = self.leader().map(|k| self.nodes[k].id);
                let a = if let (Some(l), true) = (l, self.rng2.chance(75)) { l } else { 1 + self.rng2.below(n) };
                let mut b = 1 + self.rng2.below(n);
                if b == a {
                    b = 1 + (b % n);
                }
                let (f, t) = if self.rng2.chance(60) { (b, a) } else { (a, b) };
                let ty = match self.rng2.below(6) {
                    0 => Some(MessageType::MsgAppendResponse),
                    1 => Some(MessageType::MsgHeartbeatResponse),
                    2 => Some(MessageType::MsgAppend),
                    3 => Some(MessageType::MsgSnapshot),
                    _ => None,
                };
                self.held.push((f, t, ty));
                Coverage::bump(&mut self.cov.events, "hold".into());
            } else {
                self.held.clear();
                Coverage::bump(&mut self.cov.events, "release".into());
            }
        } else if x < 9 {
            self.lagging_acks();
        }
    }

    /// scenario: a follower keeps receiving entries while its acknowledgements are held back; the others commit
    /// without it; the leader applies, compacts past what it knows the follower to hold and is told the follower is
    /// unreachable; heartbeats go through (the leader falls back to a snapshot, which stays in flight); then the old
    /// acknowledgements arrive one by one, then everything else
    fn lagging_acks(&mut self) {
        let Some(l) = self.leader() else { return };
        let lid = self.nodes[l].id;
        let peers: Vec<u64> = self.nodes[l].st.as_ref().unwrap().rn.raft.prs().iter().map(|(id, _)| *id).filter(|id| *id != lid).collect();
        if peers.is_empty() {
            return;
        }
        let f = peers[self.rng2.below(peers.len() as u64) as usize];
        Coverage::bump(&mut self.cov.events, "scenario_lagging_acks".into());
        let saved = std::mem::take(&mut self.held);
        self.held.push((f, lid, Some(MessageType::MsgAppendResponse)));
        let n = self.nodes.len();
        let rounds = 3 + self.rng2.below(5);
        for r in 0..rounds {
            if self.nodes[l].st.is_none() {
                break;
            }
            let d = self.payload();
            if self.call(l, Op::Propose(vec![], d)) {
                self.housekeeping(l, true);
            }
            for _ in 0..3 {
                for k in 0..n {
                    self.housekeeping(k, true);
                }
                self.deliver_all_unheld();
            }
            if r + 2 == rounds {
                self.held.push((lid, f, Some(MessageType::MsgAppend)));
            }
        }
        if self.nodes[l].st.is_none() {
            self.held = saved;
            return;
        }
        {
            let st = self.nodes[l].st.as_ref().unwrap();
            let (fi, li) = (st.store.first_index().unwrap(), st.store.last_index().unwrap());
            let a = st.rn.raft.raft_log.applied.min(li).min(st.store.rl().hard_state().commit);
            if a > fi {
                let k = if self.rng2.chance(60) { a } else { fi + 1 + self.rng2.below(a - fi) };
                self.call(l, Op::Compact(k));
            }
        }
        if self.rng2.chance(80) && self.nodes[l].st.is_some() {
            self.call(l, Op::ReportUnreachable(f));
        }
        self.net.retain(|m| !(m.from == lid && m.to == f && m.get_msg_type() == MessageType::MsgAppend));
        self.held.retain(|h| h.2 != Some(MessageType::MsgAppend));
        self.held.push((lid, f, Some(MessageType::MsgSnapshot)));
        for _ in 0..2 {
            if self.nodes[l].st.is_some() && self.call(l, Op::Ping) {
                self.housekeeping(l, true);
            }
            for _ in 0..2 {
                for k in 0..n {
                    self.housekeeping(k, true);
                }
                self.deliver_all_unheld();
            }
        }
        self.held.retain(|h| h.2 != Some(MessageType::MsgAppendResponse));
        let mut late = vec![];
        let mut k = 0;
        while k < self.net.len() {
            if self.net[k].from == f && self.net[k].to == lid && self.net[k].get_msg_type() == MessageType::MsgAppendResponse {
                late.push(self.net.remove(k));
            } else {
                k += 1;
            }
        }
        for m in late {
            self.net.push(m);
            let k = self.net.len() - 1;
            self.deliver(k, false);
        }
        if self.nodes[l].st.is_some() {
            let d = self.payload();
            if self.call(l, Op::Propose(vec![], d)) {
                self.housekeeping(l, true);
            }
        }
        for _ in 0..2 {
            for k in 0..n {
                self.housekeeping(k, true);
            }
            self.deliver_all_unheld();
        }
        self.held = saved;
    }

    fn burst(&mut self) {
        let n = self.nodes.len();
        let rounds = 4 + self.rng.below(20);
        for _ in 0..rounds {
            for k in 0..n {
                self.housekeeping(k, true);
            }
            self.deliver_all_unheld();
            if self.rng.chance(50) {
                for k in 0..n {
                    if self.call(k, Op::Tick) {
                        self.housekeeping(k, true);
                    }
                }
            }
            if self.rng.chance(40) {
                if let Some(l) = self.leader() {
                    let d = self.payload();
                    if self.call(l, Op::Propose(vec![], d)) {
                        self.housekeeping(l, true);
                    }
                }
            }
        }
        Coverage::bump(&mut self.cov.events, "burst".into());
    }

    fn run(&mut self, steps: u64) {
        let n = self.nodes.len();
        for _ in 0..steps {
            if self.nodes.iter().all(|x| x.st.is_none() && x.restarts > 3) {
                break;
            }
            self.extra_faults();
            let i = self.rng.below(n as u64) as usize;
            let op = self.rng.below(1000);
            match op {
                0..=299 => {
                    if self.call(i, Op::Tick) && self.rng.chance(85) {
                        let full = self.rng.chance(80);
                        self.housekeeping(i, full);
                    }
                }
                300..=619 => {
                    if !self.net.is_empty() {
                        let k = self.rng.below(self.net.len() as u64) as usize;
                        let dup = self.rng.chance(8);
                        if self.is_held(&self.net[k]) {
                            Coverage::bump(&mut self.cov.events, "held_back".into());
                        } else {
                            self.deliver(k, dup);
                        }
                    }
                }
                620..=649 => {
                    if !self.net.is_empty() {
                        let k = self.rng.below(self.net.len() as u64) as usize;
                        self.net.swap_remove(k);
                        Coverage::bump(&mut self.cov.events, "dropped".into());
                    }
                }
                650..=729 => {
                    let full = self.rng.chance(85);
                    self.housekeeping(i, full)
                }
                730..=829 => {
                    // requests go to the leader most of the time
                    let t = if self.rng.chance(65) { self.leader().unwrap_or(i) } else { i };
                    if self.nodes[t].st.is_some() {
                        self.random_action(t);
                    }
                }
                830..=849 => {
                    self.isolated[i] = !self.isolated[i];
                    if self.isolated.iter().filter(|x| **x).count() > n / 2 {
                        for x in self.isolated.iter_mut() {
                            *x = false;
                        }
                    }
                }
                850..=861 => self.restart(i),
                862..=899 if self.malformed => {
                    if self.nodes[i].st.is_some() {
                        let m = self.junk_msg(i);
                        let ok = if self.rng.chance(65) { self.call(i, Op::Step(m)) } else { self.call(i, Op::RStep(m)) };
                        if ok && self.rng.chance(70) {
                            self.housekeeping(i, true);
                        }
                    }
                }
                900..=949 if self.malformed => {
                    // undecodable / damaged configuration-change payloads offered to the leader
                    let t = self.leader().unwrap_or(i);
                    let pending_target = self.nodes[t].st.as_ref().and_then(|st| st.rn.raft.lead_transferee);
                    if let (Some(x), true) = (pending_target, self.rng.chance(40)) {
                        // a membership change that demotes / removes the target of a pending leader transfer is
                        // applied (directly: the correspondence is per node) while the transfer is pending
                        let mut cc = ConfChangeV2::default();
                        let ty = if self.rng.chance(50) { ConfChangeType::AddLearnerNode } else { ConfChangeType::RemoveNode };
                        cc.mut_changes().push(single(ty, x));
                        if self.call(t, Op::ApplyConfChange(cc)) {
                            self.housekeeping(t, true);
                        }
                    } else if self.nodes[t].st.is_some() {
                        let d = self.junk_bytes();
                        let ty = 1 + self.rng.below(2);
                        if self.call(t, Op::ProposeCc(ty, vec![], d)) {
                            self.housekeeping(t, true);
                        }
                    }
                }
                950..=989 => self.burst(),
                _ => {
                    if self.call(i, Op::Tick) {
                        self.housekeeping(i, true);
                    }
                }
            }
        }
    }
}

fn cluster(seed: u64, malformed: bool, cov: &mut Coverage) -> Sim<'_> {
    let mut rng = Rng::new(seed);
    let nv = match rng.below(10) {
        0 => 1,
        1 | 2 => 2,
        3..=6 => 3,
        7 => 4,
        _ => 5,
    } as u64;
    let nl = match rng.below(5) {
        0 | 1 | 2 => 0,
        3 => 1,
        _ => 2,
    } as u64;
    let mut nspare = rng.below(3);
    // large groups (a separate generator, so that the other draws of a seed stay what they were): more than seven voters
    // in one majority set (quorum/majority.rs leaves its stack buffer), nine or more distinct voters over both halves of
    // a joint configuration (the vote-request loop of `campaign`), even sizes
    let mut rngx = Rng::new(seed ^ 0xB16_6E0);
    let large = match rngx.below(25) {
        0 => 1,
        1 => 2,
        _ => 0,
    };
    let (nv, nl) = match large {
        1 => (7 + rngx.below(5), nl.min(1)),
        2 => (4 + rngx.below(3), nl.min(1)),
        _ => (nv, nl),
    };
    if large == 2 {
        nspare = 4 + rngx.below(2);
    }
    let total = nv + nl + nspare;
    let voters: Vec<u64> = (1..=nv).collect();
    let learners: Vec<u64> = (nv + 1..=nv + nl).collect();
    let mut cs = ConfState::default();
    cs.set_voters(voters.clone());
    cs.set_learners(learners.clone());
    if large == 2 {
        // a membership swap in progress: the outgoing half keeps one or two of the incoming voters, the rest are others
        let mut out: Vec<u64> = voters.iter().cloned().take(1 + rngx.below(2) as usize).collect();
        out.extend(nv + nl + 1..=nv + nl + nspare);
        cs.set_voters_outgoing(out);
        cs.auto_leave = rngx.chance(50);
    } else if large == 1 && rngx.chance(30) {
        let mut out = voters.clone();
        out.truncate(out.len() - rngx.below(3) as usize);
        cs.set_voters_outgoing(out);
        cs.auto_leave = rngx.chance(50);
    } else
    // sometimes the cluster starts inside a joint configuration
    if nv >= 2 && rng.chance(15) {
        let mut out = voters.clone();
        if rng.chance(50) {
            out.pop();
        }
        if nspare > 0 && rng.chance(50) {
            out.push(nv + nl + 1);
        }
        cs.set_voters_outgoing(out.clone());
        cs.auto_leave = rng.chance(50);
        // an outgoing voter that is not an incoming voter may be a learner-to-be
        for id in out {
            if !voters.contains(&id) && rng.chance(50) {
                cs.mut_learners_next().push(id);
            }
        }
    }
    let et = 5 + rng.below(6) as usize;
    let max_size_per_msg = match rng.below(4) {
        0 => u64::MAX,
        1 => 0,
        _ => 20 + rng.below(80),
    };
    let check_quorum = rng.chance(50);
    let base = Config {
        election_tick: et,
        heartbeat_tick: 1 + rng.below(2) as usize,
        max_inflight_msgs: match rng.below(3) {
            0 => 256,
            _ => 1 + rng.below(4) as usize,
        },
        max_size_per_msg,
        check_quorum,
        pre_vote: rng.chance(50),
        batch_append: rng.chance(35),
        skip_bcast_commit: rng.chance(25),
        read_only_option: if check_quorum && rng.chance(40) { ReadOnlyOption::LeaseBased } else { ReadOnlyOption::Safe },
        // 0 is a legal bound when max_size_per_msg is 0 too (Config::validate): every non-empty proposal but the first is refused
        max_uncommitted_size: if max_size_per_msg == 0 && rng.chance(35) { 0 } else if rng.chance(55) { u64::MAX } else { max_size_per_msg.min(1 << 40).max(1) + rng.below(200) },
        max_committed_size_per_ready: if rng.chance(60) { u64::MAX } else { 30 + rng.below(100) },
        max_apply_unpersisted_log_limit: if rng.chance(80) { 0 } else { 1 + rng.below(4) },
        disable_proposal_forwarding: rng.chance(10),
        // a huge upper bound makes a draw of the real generator differ from the value the harness
        // installed before, so that a reset is always noticed; the harness then overrides the draw
        min_election_tick: if rng.chance(30) { et + rng.below(3) as usize } else { 0 },
        max_election_tick: if rng.chance(95) { et + (1usize << 40) } else { 0 },
        ..Default::default()
    };
    // a common log prefix (optionally behind a snapshot point) that every member starts with
    let snap = if rng.chance(30) { (1 + rng.below(5), 1 + rng.below(2)) } else { (0, 0) };
    let nents = if rng.chance(50) { rng.below(6) } else { 0 };
    let mut ents = vec![];
    let mut term = snap.1.max(1);
    for k in 0..nents {
        if rng.chance(25) {
            term += 1;
        }
        let mut e = Entry::default();
        e.index = snap.0 + 1 + k;
        e.term = term;
        e.data = format!("i{}", k).into_bytes().into();
        ents.push(e);
    }
    let mut nodes = vec![];
    for id in 1..=total {
        let mut cfg = base.clone();
        cfg.id = id;
        if rng.chance(25) {
            cfg.priority = rng.below(4) as i64 - 1;
        }
        // members may lack a suffix of the common prefix
        let keep = if rng.chance(70) { ents.len() } else { rng.below(ents.len() as u64 + 1) as usize };
        let mine = &ents[..keep];
        let mut hs = HardState::default();
        let last_term = mine.last().map(|e| e.term).unwrap_or(snap.1);
        if snap.0 > 0 || !mine.is_empty() {
            hs.term = last_term + rng.below(2);
            hs.commit = snap.0 + rng.below(mine.len() as u64 + 1);
            hs.vote = if rng.chance(30) { 1 + rng.below(nv) } else { 0 };
        }
        cfg.applied = if rng.chance(60) { hs.commit } else { snap.0 };
        let store = build_storage(&hs, &cs, snap, mine);
        nodes.push(SimNode { id, st: None, cfg, store, snap, lines: Arc::new(Mutex::new(vec![])), unreported: None, old_notices: vec![], restarts: 0 });
    }
    Sim { nodes, net: vec![], rng, cov, isolated: vec![false; total as usize], next_payload: 1, malformed, et, calls: 0, old_reads: vec![], read_dups_left: 150, rng2: Rng::new(seed ^ 0x5EED_FA17), held: vec![], fresh_leader: None, fetching: vec![], slow_disk: vec![false; total as usize], apply_lag: vec![false; total as usize] }
}

/// `rn new` lines with damaged configurations / storages: `Config::validate`, the restore of the
/// initial ConfState (errors and the `invalid restore` fatal), `load_state` out of range
fn config_stream(seed: u64, n: u64, cov: &mut Coverage, out: &mut dyn Write) -> u64 {
    let mut rng = Rng::new(seed ^ 0xC0F1_6000);
    let mut lines = 0;
    for _ in 0..n {
        let et = 5 + rng.below(6) as usize;
        let mut c = Config {
            id: 1 + rng.below(3),
            election_tick: et,
            heartbeat_tick: 1 + rng.below(3) as usize,
            max_inflight_msgs: 1 + rng.below(4) as usize,
            max_size_per_msg: [0, 10, u64::MAX][rng.below(3) as usize],
            check_quorum: rng.chance(50),
            max_election_tick: et + (1usize << 40),
            ..Default::default()
        };
        match rng.below(14) {
            0 => c.id = 0,
            1 => c.heartbeat_tick = 0,
            2 => c.election_tick = c.heartbeat_tick,
            3 => c.election_tick = c.heartbeat_tick.saturating_sub(1),
            4 => c.min_election_tick = c.election_tick - 1,
            5 => {
                c.min_election_tick = c.election_tick + 3;
                c.max_election_tick = c.election_tick + 3;
            }
            6 => c.max_election_tick = c.election_tick,
            7 => c.max_inflight_msgs = 0,
            8 => {
                c.read_only_option = ReadOnlyOption::LeaseBased;
                c.check_quorum = false;
            }
            9 => {
                c.max_size_per_msg = 100;
                c.max_uncommitted_size = 99;
            }
            10 => {
                c.min_election_tick = c.election_tick;
                c.max_election_tick = c.election_tick + 1;
            }
            _ => {}
        }
        let pick_ids = |r: &mut Rng, p: u64| -> Vec<u64> { (1..=4).filter(|_| r.chance(p)).collect() };
        let mut cs = ConfState::default();
        cs.set_voters(pick_ids(&mut rng, 60));
        cs.set_learners(pick_ids(&mut rng, 20));
        if rng.chance(30) {
            cs.set_voters_outgoing(pick_ids(&mut rng, 50));
            cs.set_learners_next(pick_ids(&mut rng, 20));
            cs.auto_leave = rng.chance(50);
        }
        let snap = if rng.chance(30) { (1 + rng.below(3), 1) } else { (0, 0) };
        let mut ents = vec![];
        for k in 0..rng.below(4) {
            let mut e = Entry::default();
            e.index = snap.0 + 1 + k;
            e.term = 1 + k / 2;
            ents.push(e);
        }
        let mut hs = HardState::default();
        if rng.chance(60) {
            hs.term = 1 + rng.below(3);
            hs.vote = rng.below(4);
            hs.commit = (snap.0 + rng.below(ents.len() as u64 + 3)).saturating_sub(rng.below(2));
        }
        c.applied = if rng.chance(50) { hs.commit } else { rng.below(6) };
        let store = build_storage(&hs, &cs, snap, &ents);
        let pick = c.min_election_tick().max(1);
        let (_, tok, line) = new_node(&c, store, snap, Some(pick));
        writeln!(out, "rn new {} {}", tok, line).unwrap();
        let res = line.split(" -> ").nth(1).unwrap_or("").split(" | ").next().unwrap_or("").to_string();
        Coverage::bump(&mut cov.results, format!("new(config stream):{}", res));
        lines += 1;
    }
    lines
}

/// directed stream for `Raft::hup`: a node restarted from a snapshot point plus a log whose first
/// entries may be membership changes, with the commit / applied indexes at every position relative to
/// them, is asked to campaign (explicitly, by MsgHup, by MsgTimeoutNow and by election timeouts); the
/// scan for committed-but-unapplied membership changes and its bounds decide
fn hup_stream(seed: u64, n: u64, cov: &mut Coverage, out: &mut dyn Write) -> u64 {
    let mut rng = Rng::new(seed ^ 0x4855_5000);
    let mut lines = 0;
    for _ in 0..n {
        let et = 5 + rng.below(4) as usize;
        let id = 1 + rng.below(3);
        let c0 = Config {
            id,
            election_tick: et,
            heartbeat_tick: 1,
            max_inflight_msgs: 4,
            max_size_per_msg: [0, 10, u64::MAX][rng.below(3) as usize],
            check_quorum: rng.chance(50),
            pre_vote: rng.chance(50),
            max_election_tick: et + (1usize << 40),
            // the page size of the scan for unapplied membership changes (has_unapplied_conf_changes)
            max_committed_size_per_ready: [u64::MAX, u64::MAX, 0, 1, 12, 40][rng.below(6) as usize],
            ..Default::default()
        };
        let mut cs = ConfState::default();
        let mut voters: Vec<u64> = vec![1, 2, 3];
        if rng.chance(15) {
            voters.retain(|v| *v != id);
        }
        // configurations in which the node's own vote decides alone or almost: single voter, the joint
        // configuration {id} && {id}, {id} && {id, x}, two voters
        let shape = rng.below(10);
        match shape {
            0 => voters = vec![id],
            1 => {
                voters = vec![id];
                cs.set_voters_outgoing(vec![id]);
            }
            2 => {
                voters = vec![id];
                cs.set_voters_outgoing(vec![id, 1 + id % 3]);
            }
            3 => voters = vec![id, 1 + id % 3],
            4 => {
                cs.set_voters_outgoing(vec![id]);
            }
            _ => {}
        }
        if !cs.get_voters_outgoing().is_empty() && rng.chance(50) {
            cs.set_auto_leave(true);
        }
        cs.set_voters(voters);
        if rng.chance(20) {
            cs.set_learners(vec![4]);
        }
        let s = rng.below(4);
        let snap = if s > 0 { (s, 1) } else { (0, 0) };
        let kmax = if rng.chance(30) { 9 } else { 5 };
        let k = 1 + rng.below(kmax);
        let mut ents = vec![];
        for j in 0..k {
            let mut e = Entry::default();
            e.index = snap.0 + 1 + j;
            e.term = 1;
            if rng.chance(if j == 0 { 55 } else { 30 }) {
                if rng.chance(50) {
                    let mut cc = ConfChange::default();
                    cc.set_change_type(if rng.chance(50) { ConfChangeType::AddLearnerNode } else { ConfChangeType::AddNode });
                    cc.node_id = 4 + rng.below(2);
                    e.set_entry_type(EntryType::EntryConfChange);
                    e.data = cc.write_to_bytes().unwrap().into();
                } else {
                    let mut cc = ConfChangeV2::default();
                    if rng.chance(70) {
                        cc.mut_changes().push(single(ConfChangeType::AddNode, 4 + rng.below(2)));
                    }
                    e.set_entry_type(EntryType::EntryConfChangeV2);
                    e.data = cc.write_to_bytes().unwrap().into();
                }
            } else {
                e.data = if rng.chance(25) { vec![b'H'; 10 + rng.below(30) as usize].into() } else { vec![b'h', j as u8].into() };
            }
            ents.push(e);
        }
        let mut hs = HardState::default();
        hs.term = 1;
        hs.commit = snap.0 + rng.below(k + 1);
        let mut c = c0.clone();
        c.applied = match rng.below(4) {
            0 => snap.0,
            1 => hs.commit,
            2 => hs.commit.saturating_sub(1).max(snap.0),
            _ => snap.0 + rng.below(hs.commit - snap.0 + 1),
        };
        let store = build_storage(&hs, &cs, snap, &ents);
        let pick = c.min_election_tick().max(1);
        let (st, tok, line) = new_node(&c, store, snap, Some(pick));
        writeln!(out, "rn new {} {}", tok, line).unwrap();
        lines += 1;
        let Some(mut st) = st else { continue };
        let mut ops: Vec<Op> = vec![];
        if rng.chance(40) {
            // an append from the leader of the stored term whose commit index covers its (possibly
            // membership-changing) entries: committed but neither persisted nor applied when the node campaigns
            let last = snap.0 + k;
            let mut m = Message::default();
            m.set_msg_type(MessageType::MsgAppend);
            m.from = if id == 1 { 2 } else { 1 };
            m.to = id;
            m.term = 1;
            m.index = last;
            m.log_term = 1;
            let extra = 1 + rng.below(2);
            let mut es = vec![];
            for j in 0..extra {
                let mut e = Entry::default();
                e.index = last + 1 + j;
                e.term = 1;
                if rng.chance(60) {
                    let mut cc = ConfChangeV2::default();
                    cc.mut_changes().push(single(ConfChangeType::AddNode, 4 + rng.below(2)));
                    e.set_entry_type(EntryType::EntryConfChangeV2);
                    e.data = cc.write_to_bytes().unwrap().into();
                } else {
                    e.data = vec![b'a', j as u8].into();
                }
                es.push(e);
            }
            m.commit = last + rng.below(extra + 1);
            m.set_entries(es.into());
            ops.push(Op::Step(m));
        }
        match rng.below(4) {
            0 => ops.push(Op::Campaign),
            1 => {
                let mut m = Message::default();
                m.set_msg_type(MessageType::MsgTimeoutNow);
                m.from = if id == 1 { 2 } else { 1 };
                m.to = id;
                m.term = 1;
                ops.push(Op::Step(m));
            }
            2 => {
                for _ in 0..(2 * et + 2) {
                    ops.push(Op::Tick);
                }
            }
            _ => {
                let mut m = Message::default();
                m.set_msg_type(MessageType::MsgHup);
                ops.push(Op::RStep(m));
            }
        }
        ops.push(Op::Campaign);
        if rng.chance(45) {
            // template: the node leads (or tries to), appends without persisting, is deposed by a vote request of a
            // later term (from a member or from a node that is not a member any more), and its election timer fires
            // while its tail is still unpersisted — or after it has been persisted
            let persist_first = rng.chance(30);
            if rng.chance(60) {
                ops.push(Op::Propose(vec![], vec![b'q']));
            }
            if persist_first {
                ops.push(Op::Stabilize);
            }
            let mut m = Message::default();
            m.set_msg_type(if rng.chance(70) { MessageType::MsgRequestVote } else { MessageType::MsgRequestPreVote });
            m.from = [2u64, 3, 4, 9][rng.below(4) as usize];
            if m.from == id {
                m.from = 9;
            }
            m.to = id;
            m.term = 3 + rng.below(3);
            m.index = if rng.chance(50) { 100 } else { 0 };
            m.log_term = if m.index > 0 { 2 } else { 0 };
            ops.push(Op::Step(m));
            if rng.chance(30) {
                ops.push(Op::Stabilize);
            }
            for _ in 0..(2 * et + 2) {
                ops.push(Op::Tick);
            }
            ops.push(Op::Campaign);
        }
        for op in ops {
            let a = op.args();
            let (tok, obs, alive) = st.exec(&op, Some(pick), false);
            if a.is_empty() {
                writeln!(out, "rn {} {} -> {}", op.name(), tok, obs).unwrap();
            } else {
                writeln!(out, "rn {} {} {} -> {}", op.name(), tok, a, obs).unwrap();
            }
            lines += 1;
            Coverage::bump(&mut cov.ops, op.name().into());
            let rk = obs.split(" | ").next().unwrap_or("").to_string();
            Coverage::bump(&mut cov.results, format!("hup-stream {}:{}", op.name(), if rk.starts_with("ok") { "ok".to_string() } else { rk }));
            if !alive {
                break;
            }
        }
    }
    lines
}

/// directed stream for the check-quorum lease: a follower that has just heard from its leader is sent vote and
/// pre-vote requests of a later term — forced (the transfer context) or not, from a voter, a learner, an outgoing
/// voter or a node it does not know — at every point of its election timeout
fn lease_stream(seed: u64, n: u64, cov: &mut Coverage, out: &mut dyn Write) -> u64 {
    let mut rng = Rng::new(seed ^ 0x1EA5_E000);
    let mut lines = 0;
    for _ in 0..n {
        let et = 4 + rng.below(5) as usize;
        let id = 1 + rng.below(3);
        let c = Config {
            id,
            election_tick: et,
            heartbeat_tick: 1,
            max_inflight_msgs: 4,
            check_quorum: !rng.chance(15),
            pre_vote: rng.chance(50),
            max_election_tick: et + (1usize << 40),
            ..Default::default()
        };
        let mut cs = ConfState::default();
        cs.set_voters(vec![1, 2, 3]);
        match rng.below(4) {
            0 => cs.set_learners(vec![4]),
            1 => {
                cs.set_voters_outgoing(vec![1, 2, 5]);
                cs.set_learners_next(vec![5]);
            }
            2 => cs.set_voters(vec![1, 2, 3, 4]),
            _ => {}
        }
        let k = 1 + rng.below(3);
        let mut ents = vec![];
        for j in 0..k {
            let mut e = Entry::default();
            e.index = 1 + j;
            e.term = 1;
            ents.push(e);
        }
        let mut hs = HardState::default();
        hs.term = 1;
        hs.commit = rng.below(k + 1);
        let store = build_storage(&hs, &cs, (0, 0), &ents);
        let pick = c.min_election_tick().max(1);
        let (st, tok, line) = new_node(&c, store, (0, 0), Some(pick));
        writeln!(out, "rn new {} {}", tok, line).unwrap();
        lines += 1;
        let Some(mut st) = st else { continue };
        let leader = if id == 1 { 2 } else { 1 };
        let mut ops: Vec<Op> = vec![];
        let mut hb = Message::default();
        hb.set_msg_type(MessageType::MsgHeartbeat);
        hb.from = leader;
        hb.to = id;
        hb.term = 1;
        hb.commit = hs.commit;
        if !rng.chance(10) {
            ops.push(Op::Step(hb));
        }
        let mut term = 1;
        for _ in 0..(1 + rng.below(3)) {
            for _ in 0..rng.below(et as u64 + 2) {
                ops.push(Op::Tick);
            }
            let mut m = Message::default();
            m.set_msg_type(if rng.chance(60) { MessageType::MsgRequestVote } else { MessageType::MsgRequestPreVote });
            m.from = [3u64, 3, 4, 5, 9, leader][rng.below(6) as usize];
            if m.from == id {
                m.from = 4;
            }
            m.to = id;
            term += 1 + rng.below(2);
            m.term = term;
            m.index = if rng.chance(75) { k } else { k.saturating_sub(1) };
            m.log_term = if m.index > 0 { 1 } else { 0 };
            if rng.chance(65) {
                m.context = b"CampaignTransfer".to_vec().into();
            }
            ops.push(Op::Step(m));
        }
        for op in ops {
            let a = op.args();
            let (tok, obs, alive) = st.exec(&op, Some(pick), false);
            if a.is_empty() {
                writeln!(out, "rn {} {} -> {}", op.name(), tok, obs).unwrap();
            } else {
                writeln!(out, "rn {} {} {} -> {}", op.name(), tok, a, obs).unwrap();
            }
            lines += 1;
            Coverage::bump(&mut cov.ops, op.name().into());
            let rk = obs.split(" | ").next().unwrap_or("").to_string();
            Coverage::bump(&mut cov.results, format!("lease-stream {}:{}", op.name(), if rk.starts_with("ok") { "ok".to_string() } else { rk }));
            if !alive {
                break;
            }
        }
    }
    lines
}

/// `rvh raftnode --seed S [--offset O] --runs N --steps K [--malformed] [--coverage FILE]`
pub fn generate(seed: u64, offset: u64, runs: u64, steps: u64, malformed: bool, coverage_file: &str, out: &mut dyn Write) -> u64 {
    let mut cov = Coverage::default();
    let mut lines = 0u64;
    start_watchdog();
    for r in 0..runs {
        let run_seed = seed.wrapping_mul(1_000_003).wrapping_add(r).wrapping_add(offset.wrapping_mul(100_000)).wrapping_add(if malformed { 0x5151_0000 } else { 0 });
        if malformed {
            lines += config_stream(run_seed, 12, &mut cov, out);
        }
        lines += hup_stream(run_seed, 10, &mut cov, out);
        lines += lease_stream(run_seed, 6, &mut cov, out);
        let all: Vec<Vec<String>> = {
            let mut sim = cluster(run_seed, malformed, &mut cov);
            for i in 0..sim.nodes.len() {
                sim.start(i);
            }
            sim.run(steps);
            sim.nodes.iter_mut().map(|n| std::mem::take(&mut *n.lines.lock().unwrap())).collect()
        };
        for node_lines in all {
            for l in node_lines {
                writeln!(out, "{}", l).unwrap();
                lines += 1;
            }
        }
        // nothing may sit in the buffer when the watchdog has to write (see `start_watchdog`)
        out.flush().unwrap();
    }
    eprint!("{}", cov.report());
    if !coverage_file.is_empty() {
        std::fs::write(coverage_file, cov.json()).ok();
    }
    lines
}
