//! C18: drives the real `raft::Inflights` through operation sequences and prints, after every
//! operation, what can be observed through the public API only (so the check is independent of the
//! ring representation): count(), full(), buffer_is_allocated() and the window contents, recovered
//! by probing clones with free_to.
use crate::rng::Rng;
use raft::Inflights;
use std::fmt::Write as _;
use std::io::Write;
use std::panic::{catch_unwind, AssertUnwindSafe};

#[derive(Clone, Copy, Debug)]
pub enum Op {
    Add(u64),
    FreeTo(u64),
    FreeFirstOne,
    Reset,
    SetCap(usize),
    MaybeFreeBuffer,
}

/// window contents through the public API: `added` is every index ever added (strictly increasing)
fn contents(ins: &Inflights, added: &[u64]) -> Vec<u64> {
    let mut out = vec![];
    let mut prev = ins.count();
    for &v in added {
        let mut c = ins.clone();
        c.free_to(v);
        let after = c.count();
        if after < prev {
            out.push(v);
        }
        prev = after;
        if after == 0 {
            break;
        }
    }
    out
}

fn observe(ins: &Inflights, added: &[u64]) -> String {
    let w = contents(ins, added);
    let mut s = format!("ok {} {} {}", ins.count(), ins.full() as u8, w.len());
    for x in w {
        write!(s, " {}", x).unwrap();
    }
    s
}

/// Executes protocol commands (`new c`, `add x`, …) on the real code; used both by the generators
/// and by `rvh replay`.
#[derive(Default)]
pub struct Exec {
    ins: Option<Inflights>,
    added: Vec<u64>,
}

impl Exec {
    pub fn exec(&mut self, cmd: &[&str]) -> String {
        let num = |i: usize| -> u64 { cmd.get(i).and_then(|s| s.parse().ok()).unwrap_or(0) };
        if cmd.first() == Some(&"new") {
            self.ins = Some(Inflights::new(num(1) as usize));
            self.added.clear();
            return observe(self.ins.as_ref().unwrap(), &self.added);
        }
        let Some(ins) = self.ins.as_mut() else { return "skip".into() };
        let added = &mut self.added;
        let r = catch_unwind(AssertUnwindSafe(|| {
            match cmd[0] {
                "add" => { ins.add(num(1)); added.push(num(1)); }
                "free_to" => ins.free_to(num(1)),
                "free_first_one" => ins.free_first_one(),
                "reset" => ins.reset(),
                "set_cap" => ins.set_cap(num(1) as usize),
                "maybe_free_buffer" => ins.maybe_free_buffer(),
                _ => return "bad-op".to_string(),
            }
            observe(ins, added)
        }));
        match r {
            Ok(o) => o,
            Err(_) => { self.ins = None; "panic".into() }
        }
    }
}

pub struct Runner<'a> {
    pub out: &'a mut dyn Write,
    pub lines: u64,
}

impl<'a> Runner<'a> {
    pub fn run(&mut self, cap: usize, ops: &[Op]) {
        let mut ex = Exec::default();
        let mut line = |out: &mut dyn Write, cmd: String| -> bool {
            let toks: Vec<&str> = cmd.split_whitespace().collect();
            let obs = ex.exec(&toks);
            writeln!(out, "inf {} -> {}", cmd, obs).unwrap();
            obs != "panic"
        };
        line(self.out, format!("new {}", cap));
        self.lines += 1;
        for op in ops {
            let cmd = match op {
                Op::Add(x) => format!("add {}", x),
                Op::FreeTo(x) => format!("free_to {}", x),
                Op::FreeFirstOne => "free_first_one".to_string(),
                Op::Reset => "reset".to_string(),
                Op::SetCap(n) => format!("set_cap {}", n),
                Op::MaybeFreeBuffer => "maybe_free_buffer".to_string(),
            };
            self.lines += 1;
            if !line(self.out, cmd) {
                return;
            }
        }
    }
}

pub fn random(seed: u64, cases: u64, len: usize, out: &mut dyn Write) -> u64 {
    let mut rng = Rng::new(seed ^ 0x18);
    let mut r = Runner { out, lines: 0 };
    for _ in 0..cases {
        let cap = rng.below(13) as usize;
        // simulate the window to bias choices (mostly-valid stream); the simulation is only a
        // generator heuristic, never an oracle
        let mut next = 1 + rng.below(5);
        let mut ops = vec![];
        let mut live: Vec<u64> = vec![];
        let mut cur_cap = cap;
        let mut pending: Option<usize> = None;
        for _ in 0..len {
            let full = live.len() >= cur_cap || pending.map_or(false, |p| live.len() >= p);
            let k = rng.below(100);
            let op = if k < 45 {
                if full && !rng.chance(4) {
                    // avoid most adds on a full window (they end the sequence with a panic)
                    if live.is_empty() { Op::SetCap(rng.below(15) as usize) } else { Op::FreeTo(*rng.pick(&live)) }
                } else {
                    let x = next;
                    next += 1 + rng.below(3);
                    Op::Add(x)
                }
            } else if k < 65 {
                let lo = live.first().copied().unwrap_or(1).saturating_sub(1);
                let hi = live.last().copied().unwrap_or(next) + 1;
                Op::FreeTo(rng.range(lo, hi))
            } else if k < 75 {
                Op::FreeFirstOne
            } else if k < 80 {
                Op::Reset
            } else if k < 95 {
                Op::SetCap(rng.below(15) as usize)
            } else {
                Op::MaybeFreeBuffer
            };
            // generator-side bookkeeping
            match op {
                Op::Add(x) => live.push(x),
                Op::FreeTo(t) => live.retain(|&v| v > t),
                Op::FreeFirstOne => { if !live.is_empty() { live.remove(0); } }
                Op::Reset => { live.clear(); if let Some(p) = pending.take() { cur_cap = p; } }
                Op::SetCap(n) => {
                    if n >= cur_cap || live.is_empty() { cur_cap = n; pending = None; } else { pending = Some(n); }
                }
                Op::MaybeFreeBuffer => {}
            }
            if live.is_empty() { if let Some(p) = pending.take() { cur_cap = p; } }
            ops.push(op);
        }
        r.run(cap, &ops);
    }
    r.lines
}

/// every sequence of length `len` over a small alphabet, for every initial capacity 0..=max_cap
pub fn exhaustive(max_cap: usize, len: usize, out: &mut dyn Write) -> u64 {
    let mut r = Runner { out, lines: 0 };
    // alphabet entries are *symbolic*: adds take the next fresh index, frees are relative
    #[derive(Clone, Copy)]
    enum Sym { Add, FreeBelow, FreeFirst, FreeMid, FreeAll, FreeFirstOne, Reset, SetCap(usize), MaybeFree }
    let mut alphabet = vec![Sym::Add, Sym::FreeBelow, Sym::FreeFirst, Sym::FreeMid, Sym::FreeAll, Sym::FreeFirstOne, Sym::Reset, Sym::MaybeFree];
    for c in 0..=max_cap + 1 { alphabet.push(Sym::SetCap(c)); }
    let n = alphabet.len();
    let total = (n as u64).pow(len as u32);
    for cap in 0..=max_cap {
        for code in 0..total {
            let mut c = code;
            let mut ops = vec![];
            let mut live: Vec<u64> = vec![];
            let mut next = 1u64;
            for _ in 0..len {
                let sym = alphabet[(c % n as u64) as usize];
                c /= n as u64;
                let op = match sym {
                    Sym::Add => { let x = next; next += 1; Op::Add(x) }
                    Sym::FreeBelow => Op::FreeTo(live.first().copied().unwrap_or(1) - 1),
                    Sym::FreeFirst => Op::FreeTo(live.first().copied().unwrap_or(0)),
                    Sym::FreeMid => Op::FreeTo(live.get(live.len() / 2).copied().unwrap_or(0)),
                    Sym::FreeAll => Op::FreeTo(next),
                    Sym::FreeFirstOne => Op::FreeFirstOne,
                    Sym::Reset => Op::Reset,
                    Sym::SetCap(k) => Op::SetCap(k),
                    Sym::MaybeFree => Op::MaybeFreeBuffer,
                };
                match op {
                    Op::Add(x) => live.push(x),
                    Op::FreeTo(t) => live.retain(|&v| v > t),
                    Op::FreeFirstOne => { if !live.is_empty() { live.remove(0); } }
                    Op::Reset => live.clear(),
                    _ => {}
                }
                ops.push(op);
            }
            r.run(cap, &ops);
        }
    }
    r.lines
}
