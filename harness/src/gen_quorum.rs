//! C11: drives the real quorum arithmetic — `raft::majority`, `MajorityConfig::{committed_index,
//! vote_result}`, `JointConfig::{committed_index, vote_result}` and
//! `ProgressTracker::{maximal_committed_index, tally_votes, has_quorum}` — on self-contained lines.
//!
//! Line protocol (every line is independent, there is no `new`):
//!   q majority <n>                          -> <n/2+1>
//!   q mcommit <cfg> <acks> <gc>             -> <index> <flag>      MajorityConfig
//!   q commit  <cfg> <cfg> <acks> <gc>       -> <index> <flag>      JointConfig (incoming, outgoing)
//!   q tcommit <cfg> <cfg> <acks> <gc>       -> <index> <flag>      ProgressTracker
//!   q mvote   <cfg> <votes>                 -> won|lost|pending
//!   q vote    <cfg> <cfg> <votes>           -> won|lost|pending
//!   q tally   <cfg> <cfg> <votes>           -> <granted> <rejected> won|lost|pending
//!   q hasq    <cfg> <cfg> <cfg>             -> 0|1                 (third list: the potential quorum)
//! with <cfg> = `n id₁ … idₙ` (a set, printed in arbitrary order), <acks> = `k (id index group)ᵏ`
//! (ids not listed have no entry in the AckedIndexer), <votes> = `k (id 0|1)ᵏ`, <gc> = 0|1.
use crate::rng::Rng;
use raft::verif::quorum::{joint_committed_index, joint_from_majorities, majority_committed_index, tracker_with};
use raft::{JointConfig, MajorityConfig};
use std::collections::{HashMap, HashSet};
use std::fmt::Write as _;
use std::io::Write;
use std::panic::{catch_unwind, AssertUnwindSafe};

struct Toks<'a> {
    t: &'a [&'a str],
    p: usize,
}

impl<'a> Toks<'a> {
    fn num(&mut self) -> Option<u64> {
        let v = self.t.get(self.p)?.parse().ok()?;
        self.p += 1;
        Some(v)
    }
    fn list(&mut self) -> Option<Vec<u64>> {
        let n = self.num()?;
        (0..n).map(|_| self.num()).collect()
    }
    fn acks(&mut self) -> Option<Vec<(u64, u64, u64)>> {
        let n = self.num()?;
        (0..n).map(|_| Some((self.num()?, self.num()?, self.num()?))).collect()
    }
    fn votes(&mut self) -> Option<Vec<(u64, bool)>> {
        let n = self.num()?;
        (0..n).map(|_| Some((self.num()?, self.num()? != 0))).collect()
    }
    fn done(&self) -> bool {
        self.p == self.t.len()
    }
}

/// `VoteResult` lives in a private module; it is observed through its `Debug` form
fn vr(r: impl std::fmt::Debug) -> &'static str {
    match format!("{:?}", r).as_str() {
        "Won" => "won",
        "Lost" => "lost",
        "Pending" => "pending",
        _ => "unknown-vote-result",
    }
}

fn majority_cfg(ids: &[u64]) -> MajorityConfig {
    MajorityConfig::new(ids.iter().cloned().collect())
}

fn joint_cfg(i: &[u64], o: &[u64]) -> JointConfig {
    joint_from_majorities(majority_cfg(i), majority_cfg(o))
}

#[derive(Default)]
pub struct Exec;

impl Exec {
    fn run(cmd: &[&str]) -> Option<String> {
        let mut t = Toks { t: cmd, p: 1 };
        let out = match *cmd.first()? {
            "majority" => {
                let n = t.num()?;
                format!("{}", raft::majority(n as usize))
            }
            "mcommit" => {
                let (c, a, gc) = (t.list()?, t.acks()?, t.num()? != 0);
                let (i, f) = majority_committed_index(&majority_cfg(&c), &a, gc);
                format!("{} {}", i, f as u8)
            }
            "commit" => {
                let (ci, co, a, gc) = (t.list()?, t.list()?, t.acks()?, t.num()? != 0);
                let (i, f) = joint_committed_index(&joint_cfg(&ci, &co), &a, gc);
                format!("{} {}", i, f as u8)
            }
            "tcommit" => {
                let (ci, co, a, gc) = (t.list()?, t.list()?, t.acks()?, t.num()? != 0);
                let (i, f) = tracker_with(&ci, &co, &a, &[], gc).maximal_committed_index();
                format!("{} {}", i, f as u8)
            }
            "mvote" => {
                let (c, v) = (t.list()?, t.votes()?);
                let m: HashMap<u64, bool> = v.into_iter().collect();
                vr(majority_cfg(&c).vote_result(|id| m.get(&id).cloned())).to_string()
            }
            "vote" => {
                let (ci, co, v) = (t.list()?, t.list()?, t.votes()?);
                let m: HashMap<u64, bool> = v.into_iter().collect();
                vr(joint_cfg(&ci, &co).vote_result(|id| m.get(&id).cloned())).to_string()
            }
            "tally" => {
                let (ci, co, v) = (t.list()?, t.list()?, t.votes()?);
                let (g, r, res) = tracker_with(&ci, &co, &[], &v, false).tally_votes();
                format!("{} {} {}", g, r, vr(res))
            }
            "hasq" => {
                let (ci, co, s) = (t.list()?, t.list()?, t.list()?);
                let set = s.iter().cloned().collect();
                format!("{}", tracker_with(&ci, &co, &[], &[], false).has_quorum(&set) as u8)
            }
            _ => return None,
        };
        if t.done() { Some(out) } else { None }
    }

    pub fn exec(&mut self, cmd: &[&str]) -> String {
        match catch_unwind(AssertUnwindSafe(|| Exec::run(cmd))) {
            Ok(Some(o)) => o,
            Ok(None) => "bad-op".into(),
            Err(_) => "panic".into(),
        }
    }
}

pub struct Runner<'a> {
    pub out: &'a mut dyn Write,
    pub lines: u64,
    ex: Exec,
}

fn fmt_list(s: &mut String, l: &[u64]) {
    write!(s, " {}", l.len()).unwrap();
    for x in l {
        write!(s, " {}", x).unwrap();
    }
}

fn fmt_acks(s: &mut String, a: &[(u64, u64, u64)]) {
    write!(s, " {}", a.len()).unwrap();
    for (id, i, g) in a {
        write!(s, " {} {} {}", id, i, g).unwrap();
    }
}

fn fmt_votes(s: &mut String, v: &[(u64, bool)]) {
    write!(s, " {}", v.len()).unwrap();
    for (id, b) in v {
        write!(s, " {} {}", id, *b as u8).unwrap();
    }
}

impl<'a> Runner<'a> {
    pub fn new(out: &'a mut dyn Write) -> Runner<'a> {
        Runner { out, lines: 0, ex: Exec }
    }
    fn line(&mut self, cmd: String) {
        let toks: Vec<&str> = cmd.split_whitespace().collect();
        let obs = self.ex.exec(&toks);
        writeln!(self.out, "q {} -> {}", cmd, obs).unwrap();
        self.lines += 1;
    }
    pub fn majority(&mut self, n: u64) {
        self.line(format!("majority {}", n));
    }
    pub fn mcommit(&mut self, c: &[u64], a: &[(u64, u64, u64)], gc: bool) {
        let mut s = "mcommit".to_string();
        fmt_list(&mut s, c);
        fmt_acks(&mut s, a);
        write!(s, " {}", gc as u8).unwrap();
        self.line(s);
    }
    pub fn commit(&mut self, op: &str, ci: &[u64], co: &[u64], a: &[(u64, u64, u64)], gc: bool) {
        let mut s = op.to_string();
        fmt_list(&mut s, ci);
        fmt_list(&mut s, co);
        fmt_acks(&mut s, a);
        write!(s, " {}", gc as u8).unwrap();
        self.line(s);
    }
    pub fn mvote(&mut self, c: &[u64], v: &[(u64, bool)]) {
        let mut s = "mvote".to_string();
        fmt_list(&mut s, c);
        fmt_votes(&mut s, v);
        self.line(s);
    }
    pub fn vote(&mut self, op: &str, ci: &[u64], co: &[u64], v: &[(u64, bool)]) {
        let mut s = op.to_string();
        fmt_list(&mut s, ci);
        fmt_list(&mut s, co);
        fmt_votes(&mut s, v);
        self.line(s);
    }
    pub fn hasq(&mut self, ci: &[u64], co: &[u64], set: &[u64]) {
        let mut s = "hasq".to_string();
        fmt_list(&mut s, ci);
        fmt_list(&mut s, co);
        fmt_list(&mut s, set);
        self.line(s);
    }
}

fn shuffle<T>(rng: &mut Rng, v: &mut [T]) {
    for i in (1..v.len()).rev() {
        v.swap(i, rng.below(i as u64 + 1) as usize);
    }
}

/// `k` distinct elements of `pool`, in random order
fn subset(rng: &mut Rng, pool: &[u64], k: usize) -> Vec<u64> {
    let mut p = pool.to_vec();
    shuffle(rng, &mut p);
    p.truncate(k.min(pool.len()));
    p
}

/// random cases: 0..=max_ids ids per half (overlapping halves, the outgoing half often empty), ack
/// indexes with many ties, missing voters, entries of non-voters, groups including 0, extreme values
pub fn random(seed: u64, cases: u64, max_ids: u64, out: &mut dyn Write) -> u64 {
    let mut rng = Rng::new(seed ^ 0x11);
    let mut r = Runner::new(out);
    for n in 0..=40 {
        r.majority(n);
    }
    r.majority(u32::MAX as u64);
    for case in 0..cases {
        // the pool of ids: small consecutive ids, or arbitrary u64 (different hash iteration orders)
        let pool_n = (max_ids + 3) as usize;
        let pool: Vec<u64> = match rng.below(3) {
            0 => (1..=pool_n as u64).collect(),
            1 => {
                let base = rng.below(1000);
                (0..pool_n as u64).map(|i| base + i * (1 + case % 7)).collect()
            }
            _ => {
                let mut s = HashSet::new();
                while s.len() < pool_n {
                    s.insert(if rng.chance(10) { u64::MAX - rng.below(4) } else { rng.next() >> rng.below(60) });
                }
                s.into_iter().collect()
            }
        };
        let ni = rng.below(max_ids + 1) as usize;
        let no = if rng.chance(35) { 0 } else { rng.below(max_ids + 1) as usize };
        let ci = subset(&mut rng, &pool, ni);
        let co = if rng.chance(10) { let mut c = ci.clone(); shuffle(&mut rng, &mut c); c } else { subset(&mut rng, &pool, no) };
        // acks
        let idx_hi = *rng.pick(&[1u64, 2, 3, 5, 10, 1000]);
        let idx_base = if rng.chance(8) { u64::MAX - idx_hi } else if rng.chance(50) { 0 } else { rng.below(1 << 40) };
        let gmode = rng.below(5); // 0: all 0, 1: all one group, 2: all non-zero, 3,4: mixed
        let gmax = rng.range(2, 4);
        let missing_pct = *rng.pick(&[0u64, 0, 10, 30, 60]);
        let mut acks = vec![];
        let mut order = pool.clone();
        shuffle(&mut rng, &mut order);
        for &id in &order {
            let voter = ci.contains(&id) || co.contains(&id);
            if voter && rng.chance(missing_pct) { continue; }
            if !voter && rng.chance(60) { continue; }
            let idx = idx_base + rng.below(idx_hi + 1);
            let g = match gmode {
                0 => 0,
                1 => 7,
                2 => 1 + rng.below(gmax),
                _ => if rng.chance(30) { 0 } else { 1 + rng.below(gmax) },
            };
            acks.push((id, idx, g));
        }
        let gc = rng.chance(60);
        r.commit("commit", &ci, &co, &acks, gc);
        r.commit("commit", &ci, &co, &acks, !gc);
        r.commit("tcommit", &ci, &co, &acks, gc);
        r.mcommit(&ci, &acks, gc);
        if rng.chance(30) { r.mcommit(&co, &acks, !gc); }
        // votes
        let yes_pct = *rng.pick(&[20u64, 50, 50, 80]);
        let vmiss = *rng.pick(&[0u64, 20, 40, 70]);
        let mut votes = vec![];
        for &id in &order {
            let voter = ci.contains(&id) || co.contains(&id);
            if voter && rng.chance(vmiss) { continue; }
            if !voter && rng.chance(60) { continue; }
            votes.push((id, rng.chance(yes_pct)));
        }
        r.vote("vote", &ci, &co, &votes);
        r.vote("tally", &ci, &co, &votes);
        r.mvote(&ci, &votes);
        let set: Vec<u64> = votes.iter().filter(|(_, b)| *b).map(|(id, _)| *id).collect();
        r.hasq(&ci, &co, &set);
    }
    r.lines
}

/// exhaustive small scope: both halves range over all subsets of {1..=n}; every assignment of
/// (index ∈ 0..=max_idx, group ∈ 0..=max_grp) to the voters with group commit, every assignment of
/// indexes without, every assignment of {yes, no, missing} votes, every potential quorum
pub fn exhaustive(n: u64, max_idx: u64, max_grp: u64, out: &mut dyn Write) -> u64 {
    let mut r = Runner::new(out);
    let subsets: Vec<Vec<u64>> = (0..(1u64 << n))
        .map(|m| (1..=n).filter(|i| m >> (i - 1) & 1 == 1).collect())
        .collect();
    for ci in &subsets {
        for co in &subsets {
            let mut un: Vec<u64> = ci.clone();
            for x in co { if !un.contains(x) { un.push(*x); } }
            let k = un.len() as u32;
            // group commit: (index, group) per voter
            let per = (max_idx + 1) * (max_grp + 1);
            for code in 0..per.pow(k) {
                let mut c = code;
                let mut acks = vec![];
                let mut all_zero_grp = true;
                for &id in &un {
                    let d = c % per;
                    c /= per;
                    let (idx, g) = (d / (max_grp + 1), d % (max_grp + 1));
                    all_zero_grp &= g == 0;
                    acks.push((id, idx, g));
                }
                r.commit("commit", ci, co, &acks, true);
                if all_zero_grp {
                    r.commit("commit", ci, co, &acks, false);
                    r.commit("tcommit", ci, co, &acks, code % 2 == 0);
                }
                if co.is_empty() { r.mcommit(ci, &acks, true); }
            }
            // votes
            for code in 0..3u64.pow(k) {
                let mut c = code;
                let mut votes = vec![];
                for &id in &un {
                    match c % 3 { 0 => {} 1 => votes.push((id, false)), _ => votes.push((id, true)) }
                    c /= 3;
                }
                r.vote("vote", ci, co, &votes);
                r.vote("tally", ci, co, &votes);
                if co.is_empty() { r.mvote(ci, &votes); }
            }
            for m in 0..(1u64 << k) {
                let set: Vec<u64> = un.iter().enumerate().filter(|(i, _)| m >> i & 1 == 1).map(|(_, x)| *x).collect();
                r.hasq(ci, co, &set);
            }
        }
    }
    r.lines
}

/// location of the raft-rs checkout this harness was built against (the `raft = { path = … }` line
/// of the harness manifest)
fn repo_dir() -> Option<std::path::PathBuf> {
    let manifest = include_str!("../Cargo.toml");
    let line = manifest.lines().find(|l| l.trim_start().starts_with("raft ") || l.trim_start().starts_with("raft="))?;
    let rest = &line[line.find("path")?..];
    let a = rest.find('"')? + 1;
    let b = a + rest[a..].find('"')?;
    let p = std::path::Path::new(&rest[a..b]);
    Some(if p.is_absolute() { p.to_path_buf() } else { std::path::Path::new(env!("CARGO_MANIFEST_DIR")).join(p) })
}

/// the repo's own data-driven cases (`src/quorum/testdata/*.txt`) as inputs, with the semantics of
/// `src/quorum/datadriven_test.rs` (`_` = no entry; values are assigned to cfg ++ cfgj in order,
/// without repetition)
pub fn testdata(out: &mut dyn Write) -> u64 {
    let mut r = Runner::new(out);
    let Some(dir) = repo_dir().map(|d| d.join("src/quorum/testdata")) else { return 0 };
    let mut files: Vec<_> = match std::fs::read_dir(&dir) {
        Ok(rd) => rd.filter_map(|e| e.ok()).map(|e| e.path()).filter(|p| p.extension().map_or(false, |e| e == "txt")).collect(),
        Err(_) => return 0,
    };
    files.sort();
    for f in files {
        let text = std::fs::read_to_string(&f).unwrap_or_default();
        for line in text.lines() {
            let mut it = line.split_whitespace();
            let cmd = match it.next() {
                Some(c @ ("committed" | "group_committed" | "vote")) => c,
                _ => continue,
            };
            let (mut ids, mut idsj, mut idx, mut gid, mut votes): (Vec<u64>, Vec<u64>, Vec<u64>, Vec<u64>, Vec<u64>) = Default::default();
            let mut joint = false;
            for arg in it {
                let Some((k, v)) = arg.split_once('=') else { continue };
                let vals: Vec<&str> = v.trim_matches(|c| c == '(' || c == ')').split(',').filter(|s| !s.is_empty()).collect();
                for val in vals {
                    let num = |s: &str| if s == "_" { 0 } else { s.parse().unwrap_or(0) };
                    match k {
                        "cfg" => ids.push(num(val)),
                        "cfgj" => { joint = true; if val != "zero" { idsj.push(num(val)) } }
                        "idx" => idx.push(num(val)),
                        "gid" => gid.push(num(val)),
                        "votes" => votes.push(match val { "y" => 2, "n" => 1, _ => 0 }),
                        _ => {}
                    }
                }
            }
            let mut un: Vec<u64> = vec![];
            for id in ids.iter().chain(idsj.iter()) { if !un.contains(id) { un.push(*id); } }
            let dedup = |v: &[u64]| { let mut o: Vec<u64> = vec![]; for x in v { if !o.contains(x) { o.push(*x); } } o };
            let (ci, co) = (dedup(&ids), dedup(&idsj));
            if cmd == "vote" {
                let v: Vec<(u64, bool)> = un.iter().zip(votes.iter()).filter(|(_, v)| **v > 0).map(|(id, v)| (*id, *v == 2)).collect();
                if joint { r.vote("vote", &ci, &co, &v); r.vote("vote", &co, &ci, &v); } else { r.mvote(&ci, &v); }
                r.vote("tally", &ci, &co, &v);
                let set: Vec<u64> = v.iter().filter(|(_, b)| *b).map(|(id, _)| *id).collect();
                r.hasq(&ci, &co, &set);
            } else {
                let acks: Vec<(u64, u64, u64)> = un.iter().enumerate()
                    .filter_map(|(i, id)| idx.get(i).map(|x| (*id, *x, gid.get(i).copied().unwrap_or(0))))
                    .filter(|(_, x, _)| *x > 0).collect();
                for gc in [cmd == "group_committed", cmd != "group_committed"] {
                    r.commit("commit", &ci, &co, &acks, gc);
                    r.commit("commit", &co, &ci, &acks, gc);
                    r.commit("tcommit", &ci, &co, &acks, gc);
                    r.mcommit(&ci, &acks, gc);
                    r.commit("commit", &ci, &ci, &acks, gc);
                }
            }
        }
    }
    r.lines
}
