//! C12: drives the real configuration-change code — `raft::Changer::{simple, enter_joint,
//! leave_joint}`, `ProgressTracker::apply_conf`, `Configuration::to_conf_state`,
//! `confchange::restore` (crate-private, through `raft::verif::verif_export`), the dispatch of
//! `Raft::apply_conf_change`, and the proto-level classification `ConfChangeV2::{enter_joint,
//! leave_joint}`, `ConfChange::into_v2`, `conf_state_eq` — and prints after every operation the
//! result kind and the whole configuration (sets sorted) + the ids that have a `Progress`.
use crate::rng::Rng;
use raft::eraftpb::{
    ConfChange, ConfChangeSingle, ConfChangeTransition, ConfChangeType, ConfChangeV2, ConfState,
};
use raft::storage::MemStorage;
use raft::verif::verif_export::{make_tracker, restore};
use raft::{Changer, Config, ProgressTracker, Raft};
use raft_proto::{conf_state_eq, ConfChangeI};
use std::collections::HashSet;
use std::fmt::Write as _;
use std::io::Write;
use std::panic::{catch_unwind, AssertUnwindSafe};

fn nat_list(mut v: Vec<u64>) -> String {
    v.sort_unstable();
    let mut s = format!("{}", v.len());
    for x in v {
        write!(s, " {}", x).unwrap();
    }
    s
}

fn observe(tr: &ProgressTracker) -> String {
    let conf = tr.conf();
    let cs = conf.to_conf_state();
    let learners: Vec<u64> = conf.learners().iter().cloned().collect();
    let learners_next: Vec<u64> = conf.learners_next().iter().cloned().collect();
    // incoming / outgoing are only reachable through to_conf_state() and the JointConfig queries
    let mut ids: Vec<u64> = tr.iter().map(|(id, _)| *id).collect();
    ids.sort_unstable();
    let mut p = format!("{}", ids.len());
    for id in ids {
        write!(p, " {}:{}", id, if conf.learners().contains(&id) { "L" } else { "V" }).unwrap();
    }
    format!(
        "i {} o {} l {} n {} al {} p {} cs {} {} {} {} {}",
        nat_list(cs.voters.clone()),
        nat_list(cs.voters_outgoing.clone()),
        nat_list(learners),
        nat_list(learners_next),
        *conf.auto_leave() as u8,
        p,
        nat_list(cs.voters.clone()),
        nat_list(cs.voters_outgoing.clone()),
        nat_list(cs.learners.clone()),
        nat_list(cs.learners_next.clone()),
        cs.auto_leave as u8
    )
}

fn err_kind(e: &raft::Error) -> &'static str {
    let msg = match e {
        raft::Error::ConfChangeError(m) => m.as_str(),
        _ => return "other",
    };
    if msg == "config is already joint" {
        "already_joint"
    } else if msg == "can't make a zero-voter config joint" {
        "zero_voter_joint"
    } else if msg == "can't leave a non-joint config" {
        "not_joint"
    } else if msg.starts_with("configuration is not joint") {
        "not_joint_copy"
    } else if msg == "can't apply simple config change in joint config" {
        "simple_in_joint"
    } else if msg == "more than one voter changed without entering joint config" {
        "multi_voter"
    } else if msg == "removed all voters" {
        "removed_all"
    } else if msg.starts_with("no progress for")
        || msg.contains("is in learners")
        || msg.contains("must be empty when not joint")
        || msg.contains("must be false when not joint")
    {
        "invariant"
    } else {
        "other"
    }
}

fn parse_ccs(toks: &[&str]) -> Option<Vec<ConfChangeSingle>> {
    let mut out = vec![];
    for t in toks {
        let (k, id) = t.split_at(1.min(t.len()));
        let ty = match k {
            "v" => ConfChangeType::AddNode,
            "l" => ConfChangeType::AddLearnerNode,
            "r" => ConfChangeType::RemoveNode,
            _ => return None,
        };
        let mut cc = ConfChangeSingle::default();
        cc.set_change_type(ty);
        cc.node_id = id.parse().ok()?;
        out.push(cc);
    }
    Some(out)
}

fn take_list<'a>(toks: &'a [&'a str]) -> Option<(Vec<u64>, &'a [&'a str])> {
    let n: usize = toks.first()?.parse().ok()?;
    if toks.len() < 1 + n {
        return None;
    }
    let mut v = vec![];
    for t in &toks[1..1 + n] {
        v.push(t.parse().ok()?);
    }
    Some((v, &toks[1 + n..]))
}

fn parse_cs<'a>(toks: &'a [&'a str]) -> Option<(ConfState, &'a [&'a str])> {
    let (v, r) = take_list(toks)?;
    let (o, r) = take_list(r)?;
    let (l, r) = take_list(r)?;
    let (n, r) = take_list(r)?;
    let al = match *r.first()? {
        "0" => false,
        "1" => true,
        _ => return None,
    };
    let mut cs = ConfState::default();
    cs.set_voters(v);
    cs.set_voters_outgoing(o);
    cs.set_learners(l);
    cs.set_learners_next(n);
    cs.auto_leave = al;
    Some((cs, &r[1..]))
}

fn transition(t: &str) -> Option<ConfChangeTransition> {
    Some(match t {
        "0" => ConfChangeTransition::Auto,
        "1" => ConfChangeTransition::Implicit,
        "2" => ConfChangeTransition::Explicit,
        _ => return None,
    })
}

fn v2(tr: ConfChangeTransition, ccs: Vec<ConfChangeSingle>) -> ConfChangeV2 {
    let mut cc = ConfChangeV2::default();
    cc.set_transition(tr);
    cc.set_changes(ccs.into());
    cc
}

fn obs_classify(cc: &ConfChangeV2) -> String {
    let e = match cc.enter_joint() {
        None => "none",
        Some(true) => "auto",
        Some(false) => "explicit",
    };
    // the order in which Raft::apply_conf_change consults the two predicates
    let k = if cc.leave_joint() {
        "leave"
    } else {
        match cc.enter_joint() {
            Some(true) => "enter_auto",
            Some(false) => "enter_explicit",
            None => "simple",
        }
    };
    format!("leave {} enter {} kind {}", cc.leave_joint() as u8, e, k)
}

fn new_raft() -> Raft<MemStorage> {
    let logger = slog::Logger::root(slog::Discard, slog::o!());
    let cfg = Config { id: 1, ..Default::default() };
    let st = MemStorage::new_with_conf_state((vec![1], vec![]));
    Raft::new(&cfg, st, &logger).expect("raft")
}

pub struct Exec {
    tr: Option<ProgressTracker>,
    /// a follower whose tracker is swapped in to run the real `Raft::apply_conf_change` dispatch
    raft: Option<Raft<MemStorage>>,
}

impl Default for Exec {
    fn default() -> Self {
        Exec { tr: None, raft: None }
    }
}

impl Exec {
    pub fn tracker(&self) -> Option<&ProgressTracker> {
        self.tr.as_ref()
    }
    pub fn set_tracker(&mut self, tr: ProgressTracker) {
        self.tr = Some(tr);
    }

    fn change(&mut self, commit: bool, cmd: &[&str]) -> String {
        let Some(tr) = self.tr.as_ref() else { return "skip".into() };
        let res: Result<ProgressTracker, raft::Error> = match cmd.first().copied() {
            Some("simple") => {
                let Some(ccs) = parse_ccs(&cmd[1..]) else { return "bad-op".into() };
                Changer::new(tr).simple(&ccs).map(|(cfg, ch)| {
                    let mut t = tr.clone();
                    t.apply_conf(cfg, ch, 1);
                    t
                })
            }
            Some("enter") if cmd.len() >= 2 => {
                let al = cmd[1] == "1";
                let Some(ccs) = parse_ccs(&cmd[2..]) else { return "bad-op".into() };
                Changer::new(tr).enter_joint(al, &ccs).map(|(cfg, ch)| {
                    let mut t = tr.clone();
                    t.apply_conf(cfg, ch, 1);
                    t
                })
            }
            Some("leave") if cmd.len() == 1 => Changer::new(tr).leave_joint().map(|(cfg, ch)| {
                let mut t = tr.clone();
                t.apply_conf(cfg, ch, 1);
                t
            }),
            Some("applyv2") if cmd.len() >= 2 => {
                let Some(trn) = transition(cmd[1]) else { return "bad-op".into() };
                let Some(ccs) = parse_ccs(&cmd[2..]) else { return "bad-op".into() };
                let cc = v2(trn, ccs);
                let raft = self.raft.get_or_insert_with(new_raft);
                *raft.mut_prs() = tr.clone();
                raft.apply_conf_change(&cc).map(|_| raft.prs().clone())
            }
            _ => return "bad-op".into(),
        };
        match res {
            Ok(t) => {
                let o = format!("ok {}", observe(&t));
                if commit {
                    self.tr = Some(t);
                }
                o
            }
            Err(e) => format!("err {} {}", err_kind(&e), observe(self.tr.as_ref().unwrap())),
        }
    }

    fn exec_inner(&mut self, cmd: &[&str]) -> String {
        match cmd.first().copied() {
            Some("new") => {
                self.tr = None;
                let Some((cs, rest)) = parse_cs(&cmd[1..]) else { return "bad-op".into() };
                if !rest.is_empty() {
                    return "bad-op".into();
                }
                let mut tr = ProgressTracker::new(10);
                match restore(&mut tr, 1, &cs) {
                    Ok(()) => {
                        let o = format!("ok {}", observe(&tr));
                        self.tr = Some(tr);
                        o
                    }
                    Err(e) => format!("err {}", err_kind(&e)),
                }
            }
            Some("raw") => {
                self.tr = None;
                let Some((cs, rest)) = parse_cs(&cmd[1..]) else { return "bad-op".into() };
                let Some((p, rest)) = take_list(rest) else { return "bad-op".into() };
                if !rest.is_empty() {
                    return "bad-op".into();
                }
                let tr = make_tracker(&cs.voters, &cs.voters_outgoing, &cs.learners, &cs.learners_next, cs.auto_leave, &p);
                let o = format!("ok {}", observe(&tr));
                self.tr = Some(tr);
                o
            }
            Some("classify") if cmd.len() >= 2 => {
                let Some(trn) = transition(cmd[1]) else { return "bad-op".into() };
                let Some(ccs) = parse_ccs(&cmd[2..]) else { return "bad-op".into() };
                obs_classify(&v2(trn, ccs))
            }
            Some("v1") if cmd.len() == 3 => {
                let ty = match cmd[1] {
                    "0" => ConfChangeType::AddNode,
                    "1" => ConfChangeType::RemoveNode,
                    "2" => ConfChangeType::AddLearnerNode,
                    _ => return "bad-op".into(),
                };
                let Ok(id) = cmd[2].parse::<u64>() else { return "bad-op".into() };
                let mut cc = ConfChange::default();
                cc.set_change_type(ty);
                cc.node_id = id;
                cc.id = 77;
                let cc2 = cc.into_v2();
                let mut s = format!("v2 {} {}", cc2.get_transition() as i32, cc2.get_changes().len());
                for c in cc2.get_changes() {
                    let k = match c.get_change_type() {
                        ConfChangeType::AddNode => "v",
                        ConfChangeType::AddLearnerNode => "l",
                        ConfChangeType::RemoveNode => "r",
                    };
                    write!(s, " {}{}", k, c.node_id).unwrap();
                }
                format!("{} {}", s, obs_classify(&cc2))
            }
            Some("cseq") if cmd.len() == 3 => {
                let a: Vec<&str> = cmd[1].split(',').collect();
                let b: Vec<&str> = cmd[2].split(',').collect();
                let (Some((x, _)), Some((y, _))) = (parse_cs(&a), parse_cs(&b)) else { return "bad-op".into() };
                format!("eq {}", conf_state_eq(&x, &y) as u8)
            }
            Some("try") => self.change(false, &cmd[1..]),
            Some("roundtrip") => {
                let Some(tr) = self.tr.as_ref() else { return "skip".into() };
                let cs = tr.conf().to_conf_state();
                let mut fresh = ProgressTracker::new(10);
                match restore(&mut fresh, 1, &cs) {
                    Ok(()) => {
                        let ids = |t: &ProgressTracker| -> HashSet<u64> { t.iter().map(|(id, _)| *id).collect() };
                        let same = conf_state_eq(&fresh.conf().to_conf_state(), &cs)
                            && fresh.conf() == tr.conf()
                            && ids(&fresh) == ids(tr);
                        format!("ok same {} {}", same as u8, observe(&fresh))
                    }
                    Err(e) => format!("err {}", err_kind(&e)),
                }
            }
            _ => self.change(true, cmd),
        }
    }

    pub fn exec(&mut self, cmd: &[&str]) -> String {
        match catch_unwind(AssertUnwindSafe(|| self.exec_inner(cmd))) {
            Ok(o) => o,
            Err(_) => {
                self.tr = None;
                self.raft = None;
                "panic".into()
            }
        }
    }
}

pub struct Runner<'a> {
    pub out: &'a mut dyn Write,
    pub lines: u64,
    pub ex: Exec,
}

impl<'a> Runner<'a> {
    pub fn new(out: &'a mut dyn Write) -> Self {
        Runner { out, lines: 0, ex: Exec::default() }
    }
    pub fn line(&mut self, cmd: &str) -> String {
        let toks: Vec<&str> = cmd.split_whitespace().collect();
        let obs = self.ex.exec(&toks);
        writeln!(self.out, "cc {} -> {}", cmd, obs).unwrap();
        self.lines += 1;
        obs
    }
}

fn cs_text(v: &[u64], o: &[u64], l: &[u64], n: &[u64], al: bool, sep: &str) -> String {
    let f = |x: &[u64]| {
        let mut s = format!("{}", x.len());
        for i in x {
            write!(s, "{}{}", sep, i).unwrap();
        }
        s
    };
    format!("{}{sep}{}{sep}{}{sep}{}{sep}{}", f(v), f(o), f(l), f(n), al as u8)
}

fn tracker_cs_text(tr: &ProgressTracker, rng: Option<&mut Rng>) -> String {
    let cs = tr.conf().to_conf_state();
    let (mut v, mut o, mut l, mut n) = (cs.voters.clone(), cs.voters_outgoing.clone(), cs.learners.clone(), cs.learners_next.clone());
    if let Some(rng) = rng {
        for x in [&mut v, &mut o, &mut l, &mut n] {
            shuffle(rng, x);
            // conf_state_eq has set semantics: duplicates are allowed
            if !x.is_empty() && rng.chance(15) {
                let d = *rng.pick(x);
                x.push(d);
            }
        }
    }
    cs_text(&v, &o, &l, &n, cs.auto_leave, " ")
}

fn shuffle(rng: &mut Rng, v: &mut Vec<u64>) {
    for i in (1..v.len()).rev() {
        let j = rng.below(i as u64 + 1) as usize;
        v.swap(i, j);
    }
}

/// the repo's own data-driven cases (`src/confchange/testdata/*.txt`): only the commands are used
/// (the expected outputs are the business of the repo's test); each file starts from an empty tracker
pub fn testdata(dir: &str, out: &mut dyn Write) -> u64 {
    let mut r = Runner::new(out);
    let mut files: Vec<_> = std::fs::read_dir(dir)
        .unwrap_or_else(|e| panic!("testdata dir {}: {}", dir, e))
        .filter_map(|e| e.ok().map(|e| e.path()))
        .filter(|p| p.extension().map_or(false, |x| x == "txt"))
        .collect();
    files.sort();
    for f in files {
        let text = std::fs::read_to_string(&f).unwrap();
        r.line("new 0 0 0 0 0");
        let lines: Vec<&str> = text.lines().collect();
        let mut i = 0;
        while i < lines.len() {
            let l = lines[i].trim();
            if l.is_empty() || l.starts_with('#') {
                i += 1;
                continue;
            }
            // command line, input lines up to `----`, expected output up to the next blank line
            let cmdline = l;
            let mut input = vec![];
            i += 1;
            while i < lines.len() && lines[i].trim() != "----" {
                input.push(lines[i].trim());
                i += 1;
            }
            i += 1;
            while i < lines.len() && !lines[i].trim().is_empty() {
                i += 1;
            }
            let mut parts = cmdline.split_whitespace();
            let cmd = parts.next().unwrap();
            let args: Vec<&str> = parts.collect();
            let ccs = input.join(" ");
            let line = match cmd {
                "simple" => format!("simple {}", ccs),
                "enter-joint" => {
                    let al = args.iter().any(|a| *a == "autoleave=true");
                    format!("enter {} {}", al as u8, ccs)
                }
                "leave-joint" => "leave".to_string(),
                other => panic!("unknown testdata command {}", other),
            };
            r.line(line.trim());
            r.line("roundtrip");
        }
    }
    r.lines
}

fn random_ccs(rng: &mut Rng, max_len: u64, max_id: u64) -> String {
    let n = rng.below(max_len + 1);
    let mut s = String::new();
    for _ in 0..n {
        let k = ["v", "l", "r"][rng.below(3) as usize];
        write!(s, " {}{}", k, rng.below(max_id + 1)).unwrap();
    }
    s
}

fn random_subset(rng: &mut Rng, max_id: u64, pct: u64) -> Vec<u64> {
    (0..=max_id).filter(|_| rng.chance(pct)).collect()
}

/// random sequences: `new <confstate>` (empty, or a random — not necessarily consistent — one),
/// then change operations with ids 0..=6 (0 and ids unknown to the configuration included), all
/// three change types, duplicates and empty lists, interleaved with round trips, dry runs, the
/// `Raft::apply_conf_change` dispatch and the stateless proto-level queries.
pub fn random(seed: u64, cases: u64, len: usize, out: &mut dyn Write) -> u64 {
    let mut rng = Rng::new(seed ^ 0x12);
    let mut r = Runner::new(out);
    for _ in 0..cases {
        let k = rng.below(100);
        let start = if k < 30 {
            "new 0 0 0 0 0".to_string()
        } else if k < 60 {
            // consistent non-joint or joint start
            let v: Vec<u64> = random_subset(&mut rng, 6, 45).into_iter().filter(|x| *x != 0).collect();
            let l: Vec<u64> = (1..=6).filter(|x| !v.contains(x) && rng.chance(25)).collect();
            if rng.chance(50) {
                format!("new {}", cs_text(&v, &[], &l, &[], false, " "))
            } else {
                let o: Vec<u64> = (1..=6).filter(|x| !l.contains(x) && rng.chance(45)).collect();
                let n: Vec<u64> = o.iter().cloned().filter(|x| !v.contains(x) && rng.chance(40)).collect();
                format!("new {}", cs_text(&v, &o, &l, &n, rng.chance(50), " "))
            }
        } else if k < 80 {
            // arbitrary ConfState (overlaps, id 0, duplicates)
            let mut f = |rng: &mut Rng, pct| {
                let mut x = random_subset(rng, 6, pct);
                if !x.is_empty() && rng.chance(20) {
                    let d = *rng.pick(&x);
                    x.push(d);
                }
                shuffle(rng, &mut x);
                x
            };
            let v = f(&mut rng, 40);
            let o = if rng.chance(50) { vec![] } else { f(&mut rng, 35) };
            let l = f(&mut rng, 20);
            let n = f(&mut rng, 15);
            format!("new {}", cs_text(&v, &o, &l, &n, rng.chance(40), " "))
        } else {
            // a tracker the public API cannot build: drives check_invariants from any state
            let v = random_subset(&mut rng, 5, 40);
            let o = if rng.chance(50) { vec![] } else { random_subset(&mut rng, 5, 35) };
            let l = random_subset(&mut rng, 5, 20);
            let n = random_subset(&mut rng, 5, 15);
            let mut p: Vec<u64> = vec![];
            for x in v.iter().chain(&o).chain(&l).chain(&n) {
                if !p.contains(x) && !rng.chance(8) {
                    p.push(*x);
                }
            }
            if rng.chance(15) {
                p.push(rng.below(7));
            }
            p.sort_unstable();
            p.dedup();
            let pt = {
                let mut s = format!("{}", p.len());
                for i in &p {
                    write!(s, " {}", i).unwrap();
                }
                s
            };
            format!("raw {} {}", cs_text(&v, &o, &l, &n, rng.chance(30), " "), pt)
        };
        let obs = r.line(&start);
        if !obs.starts_with("ok") {
            continue;
        }
        // an inconsistent `raw` tracker refuses everything: a few operations suffice
        let len = if start.starts_with("raw") { len.min(5) } else { len };
        for _ in 0..len {
            let k = rng.below(100);
            let joint = r.ex.tracker().map_or(false, |t| !t.conf().to_conf_state().voters_outgoing.is_empty());
            let pre = if rng.chance(15) { "try " } else { "" };
            let empty = r.ex.tracker().map_or(true, |t| t.conf().to_conf_state().voters.is_empty());
            let cmd = if empty && !joint && rng.chance(75) {
                // bootstrap: the only changes an empty configuration accepts add a voter
                format!("simple v{}{}", rng.range(1, 6), if rng.chance(20) { random_ccs(&mut rng, 2, 6) } else { String::new() })
            } else if joint && k < 30 && !rng.chance(15) {
                // simple is refused while joint: mostly do something useful instead
                if rng.chance(60) { format!("{}leave", pre) } else { format!("{}applyv2 0", pre) }
            } else if k < 30 {
                // simple: mostly one change (the valid shape), sometimes more
                let n = if rng.chance(70) { 1 } else { 3 };
                format!("{}simple{}", pre, random_ccs(&mut rng, n, 6))
            } else if k < 50 {
                if joint && !rng.chance(20) {
                    format!("{}leave", pre)
                } else {
                    format!("{}enter {}{}", pre, rng.below(2), random_ccs(&mut rng, 4, 6))
                }
            } else if k < 60 {
                format!("{}leave", pre)
            } else if k < 75 {
                let tr = rng.below(3);
                let ccs = if joint && tr == 0 && rng.chance(60) { String::new() } else { random_ccs(&mut rng, 3, 6) };
                format!("{}applyv2 {}{}", pre, tr, ccs)
            } else if k < 83 {
                "roundtrip".to_string()
            } else if k < 88 {
                // restoring a permuted / duplicated rendering of the current ConfState
                let t = r.ex.tracker().unwrap().clone();
                format!("new {}", tracker_cs_text(&t, Some(&mut rng)))
            } else if k < 93 {
                format!("classify {}{}", rng.below(3), random_ccs(&mut rng, 3, 6))
            } else if k < 96 {
                format!("v1 {} {}", rng.below(3), rng.below(7))
            } else {
                let t = r.ex.tracker().unwrap().clone();
                let cs = t.conf().to_conf_state();
                let a = cs_text(&cs.voters, &cs.voters_outgoing, &cs.learners, &cs.learners_next, cs.auto_leave, ",");
                let mut v = cs.voters.clone();
                shuffle(&mut rng, &mut v);
                match rng.below(4) {
                    0 => v.push(rng.below(7)),
                    1 => { v.pop(); }
                    2 => { if !v.is_empty() { let d = v[0]; v.push(d); } }
                    _ => {}
                }
                let mut l = cs.learners.clone();
                if rng.chance(20) { l.push(rng.below(7)); }
                let b = cs_text(&v, &cs.voters_outgoing, &l, &cs.learners_next, cs.auto_leave ^ rng.chance(10), ",");
                if rng.chance(50) { format!("cseq {} {}", a, b) } else { format!("cseq {} {}", b, a) }
            };
            let obs = r.line(&cmd);
            if obs == "panic" || (cmd.starts_with("new") && !obs.starts_with("ok")) {
                break;
            }
        }
    }
    r.lines
}

fn all_lists(ids: u64, max_len: usize) -> Vec<String> {
    let mut singles = vec![];
    for k in ["v", "l", "r"] {
        for id in 1..=ids {
            singles.push(format!("{}{}", k, id));
        }
    }
    let mut out = vec![String::new()];
    let mut layer = vec![String::new()];
    for _ in 0..max_len {
        let mut next = vec![];
        for p in &layer {
            for s in &singles {
                next.push(format!("{} {}", p, s));
            }
        }
        out.extend(next.iter().cloned());
        layer = next;
    }
    out
}

/// exhaustive small scope: every configuration reachable from the empty tracker in ≤ `depth`
/// successful changes (each: simple / enter-joint auto_leave on, off / leave-joint with a change list
/// of ≤ `max_len` over ids 1..=`ids`); from each of them every such change as a dry run (`try`), plus
/// the restore round trip.
pub fn exhaustive(ids: u64, max_len: usize, depth: usize, out: &mut dyn Write) -> u64 {
    let lists = all_lists(ids, max_len);
    let mut ops: Vec<String> = vec!["leave".to_string()];
    for l in &lists {
        ops.push(format!("simple{}", l));
        ops.push(format!("enter 0{}", l));
        ops.push(format!("enter 1{}", l));
    }
    let mut r = Runner::new(out);
    let mut seen: HashSet<String> = HashSet::new();
    let empty = ProgressTracker::new(10);
    seen.insert(observe(&empty));
    let mut frontier = vec![empty];
    for d in 0..=depth {
        let mut next = vec![];
        for tr in &frontier {
            let o = r.line(&format!("new {}", tracker_cs_text(tr, None)));
            if o != format!("ok {}", observe(tr)) {
                // restore(to_conf_state(c)) did not reproduce the reachable configuration c
                r.line("restore_did_not_reproduce_reachable_configuration");
                r.ex.set_tracker(tr.clone());
            }
            r.line("roundtrip");
            for op in &ops {
                let obs = r.line(&format!("try {}", op));
                if d < depth && obs.starts_with("ok ") && !seen.contains(&obs[3..]) {
                    // materialise the successor on the real code
                    let mut ex = Exec::default();
                    ex.set_tracker(tr.clone());
                    let toks: Vec<&str> = op.split_whitespace().collect();
                    let o2 = ex.exec(&toks);
                    assert_eq!(o2, obs);
                    seen.insert(obs[3..].to_string());
                    next.push(ex.tracker().unwrap().clone());
                }
            }
        }
        frontier = next;
    }
    r.lines
}
