//! C07: drives a REAL `raft::RawNode<MemStorage>` (node 1 of a small group whose other members are
//! simulated by hand-crafted incoming messages) through Ready-contract-abiding call sequences with
//! heavy async batching, and prints after every call the observable the property talks about: the
//! full Ready / LightReady, `has_ready()`, the log cursors and (through the cfg-gated hook
//! `raft::verif::rawnode::view`) the private bookkeeping.
//!
//! Line format: `rw <real call and arguments> ; <raft effect> -> <result> | <view>`.
//! The part before `;` is what is executed on the real code (and re-executed by `rvh replay`);
//! the part after `;` is what the `Raft` layer underneath did during that call, observed on the
//! real node (the model takes it as input, see lean/RaftModel/RawNode.lean):
//!   env-type calls (step, tick, propose, campaign, read_index, set_limit):
//!     `<term> <vote> <role> <leader> <limit> M <k> <msg payloads> R <k> <read-state indexes> <log ops>`
//!     log ops: `S <idx> <term>` (restore), `A <k> <entries>` (truncating append), `C <idx>` (commit_to)
//!   RawNode calls with callbacks: `<commit> <k> <new msg payloads> <k> <appended entries>` per callback.
use crate::gen_raftlog::{mk_entry, show_entries};
use crate::rng::Rng;
use raft::eraftpb::{ConfState, Entry, HardState, Message, MessageType, Snapshot};
use raft::storage::MemStorage;
use raft::{Config, LightReady, RawNode, Ready, StateRole, Storage};
use protobuf::ProtobufEnum;
use std::fmt::Write as _;
use std::io::Write;
use std::panic::{catch_unwind, AssertUnwindSafe};

type RN = RawNode<MemStorage>;

fn logger() -> slog::Logger {
    slog::Logger::root(slog::Discard, slog::o!())
}

fn payload(m: &Message) -> u64 {
    let mut h: u64 = 1469598103934665603;
    for x in [
        m.get_msg_type() as u64,
        m.to,
        m.term,
        m.log_term,
        m.index,
        m.commit,
        m.reject as u64,
        m.entries.len() as u64,
        m.get_snapshot().get_metadata().index,
    ] {
        h = (h ^ x).wrapping_mul(1099511628211);
    }
    // keep the message type readable in traces
    (m.get_msg_type() as u64) * 1_000_000 + h % 1_000_000
}

fn nat_list(v: &[u64]) -> String {
    let mut s = format!("{}", v.len());
    for x in v {
        write!(s, " {}", x).unwrap();
    }
    s
}

fn parse_entry(tok: &str) -> Option<Entry> {
    let p: Vec<u64> = tok.split(':').filter_map(|x| x.parse().ok()).collect();
    if p.len() != 5 {
        return None;
    }
    Some(mk_entry(p[0], p[1], p[2], p[3] as usize, p[4] as usize))
}

fn take_entries(toks: &[&str]) -> Option<(Vec<Entry>, usize)> {
    let n: usize = toks.first()?.parse().ok()?;
    if toks.len() < 1 + n {
        return None;
    }
    let mut v = vec![];
    for t in &toks[1..1 + n] {
        v.push(parse_entry(t)?);
    }
    Some((v, 1 + n))
}

fn take_nats(toks: &[&str]) -> Option<(Vec<u64>, usize)> {
    let n: usize = toks.first()?.parse().ok()?;
    if toks.len() < 1 + n {
        return None;
    }
    let mut v = vec![];
    for t in &toks[1..1 + n] {
        v.push(t.parse().ok()?);
    }
    Some((v, 1 + n))
}

/// what the harness remembers of the `Raft` layer before a call, to compute the raft effect
struct Pre {
    msgs_len: usize,
    last_index: u64,
    offset: u64,
    ents: Vec<(u64, u64)>,
    snap: Option<(u64, u64)>,
    committed: u64,
}

#[derive(Default)]
pub struct Exec {
    rn: Option<RN>,
    store: Option<MemStorage>,
    pending: Option<Ready>,
    voters: Vec<u64>,
    limit: u64,
    maxc: u64,
    pre_vote: bool,
}

fn show_hs(hs: &HardState) -> String {
    format!("{},{},{}", hs.term, hs.vote, hs.commit)
}

fn show_light(l: &LightReady) -> String {
    let ci = match l.commit_index() {
        Some(c) => format!("{}", c),
        None => "-".into(),
    };
    let msgs: Vec<u64> = l.messages().iter().map(payload).collect();
    format!("lrd ci={} ce={} msgs={}", ci, show_entries(l.committed_entries()), nat_list(&msgs))
}

fn show_ready(rd: &Ready) -> String {
    let ss = match rd.ss() {
        Some(s) => format!("{},{}", s.leader_id, s.raft_state as u64),
        None => "-".into(),
    };
    let hs = match rd.hs() {
        Some(h) => show_hs(h),
        None => "-".into(),
    };
    let rs: Vec<u64> = rd.read_states().iter().map(|r| r.index).collect();
    let sn = rd.snapshot();
    let snap = if sn.get_metadata().index == 0 && sn.get_metadata().term == 0 && sn.get_data().is_empty() {
        "-".to_string()
    } else {
        format!("{}:{}", sn.get_metadata().index, sn.get_metadata().term)
    };
    let msgs: Vec<u64> = rd.messages().iter().map(payload).collect();
    let pmsgs: Vec<u64> = rd.persisted_messages().iter().map(payload).collect();
    format!(
        "rd n={} ss={} hs={} rs={} ents={} snap={} ce={} msgs={} pmsgs={} ms={}",
        rd.number(),
        ss,
        hs,
        nat_list(&rs),
        show_entries(rd.entries()),
        snap,
        show_entries(rd.committed_entries()),
        nat_list(&msgs),
        nat_list(&pmsgs),
        rd.must_sync() as u8
    )
}

impl Exec {
    fn pre(&self) -> Pre {
        let rn = self.rn.as_ref().unwrap();
        let l = &rn.raft.raft_log;
        Pre {
            msgs_len: rn.raft.msgs.len(),
            last_index: l.last_index(),
            offset: l.unstable.offset,
            ents: l.unstable.entries.iter().map(|e| (e.index, e.term)).collect(),
            snap: l.unstable.snapshot.as_ref().map(|s| (s.get_metadata().index, s.get_metadata().term)),
            committed: l.committed,
        }
    }

    /// `<commit> <new msgs> <appended entries>`: effect of a callback, `extra` are messages the call
    /// already handed out (LightReady of advance_append)
    fn cb_effect(&self, pre: &Pre, handed: &[u64], with_commit: bool, with_append: bool) -> String {
        let rn = self.rn.as_ref().unwrap();
        let l = &rn.raft.raft_log;
        let mut all: Vec<u64> = handed.to_vec();
        all.extend(rn.raft.msgs.iter().map(payload));
        let new_msgs: Vec<u64> = if with_commit && all.len() >= pre.msgs_len { all[pre.msgs_len..].to_vec() } else { vec![] };
        let app: Vec<Entry> = if with_append {
            l.unstable.entries.iter().filter(|e| e.index > pre.last_index).cloned().collect()
        } else {
            vec![]
        };
        format!("{} {} {}", if with_commit { l.committed } else { 0 }, nat_list(&new_msgs), show_entries(&app))
    }

    fn env_effect(&self, pre: &Pre) -> String {
        let rn = self.rn.as_ref().unwrap();
        let r = &rn.raft;
        let l = &r.raft_log;
        let msgs: Vec<u64> = r.msgs.iter().map(payload).collect();
        let rs: Vec<u64> = r.read_states.iter().map(|x| x.index).collect();
        let mut s = format!(
            "{} {} {} {} {} M {} R {}",
            r.term,
            r.vote,
            r.state as u64,
            r.leader_id,
            l.max_apply_unpersisted_log_limit,
            nat_list(&msgs),
            nat_list(&rs)
        );
        // log ops
        let snap_now = l.unstable.snapshot.as_ref().map(|s| (s.get_metadata().index, s.get_metadata().term));
        let (mut off0, mut ents0) = (pre.offset, pre.ents.clone());
        if snap_now.is_some() && snap_now != pre.snap {
            let (i, t) = snap_now.unwrap();
            write!(s, " S {} {}", i, t).unwrap();
            off0 = i + 1;
            ents0.clear();
        }
        let ents1 = &l.unstable.entries;
        let off1 = l.unstable.offset;
        // first raft index at which the unstable parts differ
        let mut from: Option<usize> = None; // position in ents1
        if off1 < off0 {
            from = Some(0);
        } else {
            // off1 == off0 (env calls never stabilise)
            for (k, e) in ents1.iter().enumerate() {
                match ents0.get(k) {
                    Some(&(i, t)) if i == e.index && t == e.term => {}
                    _ => {
                        from = Some(k);
                        break;
                    }
                }
            }
        }
        if let Some(k) = from {
            if k < ents1.len() {
                write!(s, " A {}", show_entries(&ents1[k..])).unwrap();
            }
        }
        if l.committed != pre.committed || snap_now != pre.snap {
            write!(s, " C {}", l.committed).unwrap();
        }
        s
    }

    fn view(&self) -> String {
        let rn = self.rn.as_ref().unwrap();
        let l = &rn.raft.raft_log;
        let us = match l.unstable.snapshot.as_ref() {
            Some(s) => format!("{}:{}", s.get_metadata().index, s.get_metadata().term),
            None => "-".into(),
        };
        let st = self.store.as_ref().unwrap();
        let shs = st.initial_state().map(|s| show_hs(&s.hard_state)).unwrap_or_else(|_| "?".into());
        let hr = catch_unwind(AssertUnwindSafe(|| rn.has_ready()));
        format!(
            "{} | c={} p={} a={} lim={} uo={} ue={} us={} sf={} sl={} shs={} | hr={}",
            raft::verif::rawnode::view(rn),
            l.committed,
            l.persisted,
            l.applied,
            l.max_apply_unpersisted_log_limit,
            l.unstable.offset,
            show_entries(&l.unstable.entries),
            us,
            st.first_index().unwrap_or(0),
            st.last_index().unwrap_or(0),
            shs,
            match hr {
                Ok(b) => format!("{}", b as u8),
                Err(_) => "P".into(),
            }
        )
    }

    fn config(&self, applied: u64) -> Config {
        Config {
            id: 1,
            election_tick: 10,
            heartbeat_tick: 3,
            applied,
            max_committed_size_per_ready: self.maxc,
            max_apply_unpersisted_log_limit: self.limit,
            pre_vote: self.pre_vote,
            max_size_per_msg: 1 << 20,
            max_inflight_msgs: 256,
            ..Default::default()
        }
    }

    fn build_msg(toks: &[&str]) -> Option<Message> {
        // <type> <from> <term> <logterm> <index> <commit> <reject> <k entries…> [<snapidx> <snapterm> <v voters…>]
        if toks.len() < 8 {
            return None;
        }
        let n: Vec<u64> = toks[..7].iter().filter_map(|x| x.parse().ok()).collect();
        if n.len() != 7 {
            return None;
        }
        let (ents, used) = take_entries(&toks[7..])?;
        let mut m = Message::default();
        m.set_msg_type(MessageType::from_i32(n[0] as i32)?);
        m.from = n[1];
        m.to = 1;
        m.term = n[2];
        m.log_term = n[3];
        m.index = n[4];
        m.commit = n[5];
        m.reject = n[6] != 0;
        m.set_entries(ents.into());
        let rest = &toks[7 + used..];
        if rest.len() >= 2 {
            let si: u64 = rest[0].parse().ok()?;
            let stm: u64 = rest[1].parse().ok()?;
            let (vs, _) = take_nats(&rest[2..])?;
            let mut sn = Snapshot::default();
            sn.mut_metadata().index = si;
            sn.mut_metadata().term = stm;
            let mut cs = ConfState::default();
            cs.voters = vs;
            *sn.mut_metadata().mut_conf_state() = cs;
            m.set_snapshot(sn);
        }
        Some(m)
    }

    /// executes the real part of a line; returns (canonical lhs without the component token, obs)
    pub fn exec(&mut self, toks: &[&str]) -> (String, String) {
        let real: Vec<&str> = toks.iter().take_while(|t| **t != ";").cloned().collect();
        let lhs = real.join(" ");
        if real.is_empty() {
            return (lhs, "bad-op".into());
        }
        if real[0] == "new" {
            return self.exec_new(&real, lhs);
        }
        if self.rn.is_none() {
            return (lhs, "skip".into());
        }
        let is_env = matches!(real[0], "step" | "tick" | "propose" | "campaign" | "read_index" | "set_limit");
        // protocol discipline shared with the Lean driver
        let needs_pending = matches!(real[0], "write" | "advance" | "advance_append" | "advance_append_async");
        if (needs_pending && self.pending.is_none()) || ((is_env || real[0] == "ready" || real[0] == "restart") && self.pending.is_some()) {
            return (lhs, "invalid".into());
        }
        let pre = self.pre();
        let r = catch_unwind(AssertUnwindSafe(|| self.exec_call(&real, &pre)));
        match r {
            Ok(Some((eff, res))) => {
                let v = catch_unwind(AssertUnwindSafe(|| self.view()));
                match v {
                    Ok(v) => (if eff.is_empty() { lhs } else { format!("{} ; {}", lhs, eff) }, format!("{} | {}", res, v)),
                    Err(_) => {
                        self.rn = None;
                        (lhs, "panic".into())
                    }
                }
            }
            Ok(None) => (lhs, "bad-op".into()),
            Err(_) => {
                // the effect of a panicking call is whatever the node shows now (not compared: the
                // model must panic as well, whatever the effect)
                // (a panic inside `Raft::step` & co. is outside the RawNode layer: effect `P`)
                let eff = if is_env { "P".to_string() } else { self.panic_eff(real[0]) };
                self.rn = None;
                self.pending = None;
                (if eff.is_empty() { lhs } else { format!("{} ; {}", lhs, eff) }, "panic".into())
            }
        }
    }

    fn panic_eff(&self, op: &str) -> String {
        match op {
            "advance" => "0 0 0 0 0 0".into(),
            "on_persist_ready" | "advance_append" | "advance_apply" | "advance_apply_to" => "0 0 0".into(),
            _ => String::new(),
        }
    }

    fn exec_new(&mut self, real: &[&str], lhs: String) -> (String, String) {
        // new <prevote> <limit> <maxc> <applied> <snapidx> <snapterm> <hsterm> <hsvote> <hscommit> <v voters…> <k entries…>
        let nums: Vec<u64> = real[1..].iter().take(9).filter_map(|x| x.parse().ok()).collect();
        if nums.len() != 9 {
            return (lhs, "bad-op".into());
        }
        let (voters, used) = match take_nats(&real[10..]) {
            Some(x) => x,
            None => return (lhs, "bad-op".into()),
        };
        let (ents, _) = match take_entries(&real[10 + used..]) {
            Some(x) => x,
            None => return (lhs, "bad-op".into()),
        };
        self.pre_vote = nums[0] != 0;
        self.limit = nums[1];
        self.maxc = nums[2];
        self.voters = voters.clone();
        self.pending = None;
        self.rn = None;
        let store = MemStorage::new_with_conf_state((voters.clone(), vec![]));
        let applied = nums[3];
        let r = catch_unwind(AssertUnwindSafe(|| {
            if nums[4] > 0 {
                let mut sn = Snapshot::default();
                sn.mut_metadata().index = nums[4];
                sn.mut_metadata().term = nums[5];
                sn.mut_metadata().mut_conf_state().voters = voters.clone();
                store.wl().apply_snapshot(sn).unwrap();
            }
            store.wl().append(&ents).unwrap();
            let mut hs = HardState::default();
            hs.term = nums[6];
            hs.vote = nums[7];
            hs.commit = nums[8];
            store.wl().set_hardstate(hs);
            RawNode::new(&self.config(applied), store.clone(), &logger()).unwrap()
        }));
        match r {
            Ok(rn) => {
                self.rn = Some(rn);
                self.store = Some(store);
                (lhs, format!("ok | {}", self.view()))
            }
            Err(_) => (lhs, "panic".into()),
        }
    }

    fn exec_call(&mut self, real: &[&str], pre: &Pre) -> Option<(String, String)> {
        let num = |k: usize| -> Option<u64> { real.get(k)?.parse().ok() };
        match real[0] {
            "step" => {
                let m = Self::build_msg(&real[1..])?;
                let r = self.rn.as_mut().unwrap().step(m);
                { let _ = r; Some((self.env_effect(pre), "env".into())) }
            }
            "tick" => {
                self.rn.as_mut().unwrap().tick();
                Some((self.env_effect(pre), "env".into()))
            }
            "propose" => {
                let r = self.rn.as_mut().unwrap().propose(vec![], vec![0u8; num(1)? as usize]);
                { let _ = r; Some((self.env_effect(pre), "env".into())) }
            }
            "campaign" => {
                let r = self.rn.as_mut().unwrap().campaign();
                { let _ = r; Some((self.env_effect(pre), "env".into())) }
            }
            "read_index" => {
                self.rn.as_mut().unwrap().read_index(vec![num(1)? as u8]);
                Some((self.env_effect(pre), "env".into()))
            }
            "set_limit" => {
                self.rn.as_mut().unwrap().raft.set_max_apply_unpersisted_log_limit(num(1)?);
                Some((self.env_effect(pre), "env".into()))
            }
            "has_ready" => Some((String::new(), "ok".into())),
            "ready" => {
                let rd = self.rn.as_mut().unwrap().ready();
                let s = show_ready(&rd);
                self.pending = Some(rd);
                Some((String::new(), s))
            }
            "write" => {
                // `write take`: an application that MOVES the entries out of the Ready (Ready::take_entries, a public
                // accessor like entries()) before it persists them and hands the Ready back to advance*()
                let take = real.get(1) == Some(&"take");
                let rd = self.pending.as_mut().unwrap();
                let st = self.store.as_ref().unwrap();
                let mut res = "ok";
                if *rd.snapshot() != Snapshot::default() {
                    if st.wl().apply_snapshot(rd.snapshot().clone()).is_err() {
                        res = "err";
                    }
                }
                if res == "ok" {
                    if take {
                        let ents = rd.take_entries();
                        st.wl().append(&ents).unwrap();
                    } else {
                        st.wl().append(rd.entries()).unwrap();
                    }
                    if let Some(hs) = rd.hs() {
                        st.wl().set_hardstate(hs.clone());
                    }
                }
                Some((String::new(), res.into()))
            }
            "advance_append_async" => {
                let rd = self.pending.take().unwrap();
                self.rn.as_mut().unwrap().advance_append_async(rd);
                Some((String::new(), "ok".into()))
            }
            "advance_append" | "advance" => {
                let rd = self.pending.take().unwrap();
                let full = real[0] == "advance";
                let light = if full { self.rn.as_mut().unwrap().advance(rd) } else { self.rn.as_mut().unwrap().advance_append(rd) };
                let handed: Vec<u64> = light.messages().iter().map(payload).collect();
                let mut eff = self.cb_effect(pre, &handed, true, false);
                if full {
                    // the append of commit_apply happens after commit_ready cleared the unstable entries
                    write!(eff, " {}", self.cb_effect(pre, &[], false, true)).unwrap();
                }
                // `nosave`: an application that does not store the commit index of a LightReady
                if let (Some(c), false) = (light.commit_index(), real.get(1) == Some(&"nosave")) {
                    self.store.as_ref().unwrap().wl().mut_hard_state().commit = c;
                }
                Some((eff, show_light(&light)))
            }
            "on_persist_ready" => {
                self.rn.as_mut().unwrap().on_persist_ready(num(1)?);
                Some((self.cb_effect(pre, &[], true, false), "ok".into()))
            }
            "advance_apply" => {
                self.rn.as_mut().unwrap().advance_apply();
                Some((self.cb_effect(pre, &[], false, true), "ok".into()))
            }
            "advance_apply_to" => {
                self.rn.as_mut().unwrap().advance_apply_to(num(1)?);
                Some((self.cb_effect(pre, &[], false, true), "ok".into()))
            }
            "compact" => {
                let r = self.store.as_ref().unwrap().wl().compact(num(1)?);
                Some((String::new(), if r.is_ok() { "ok".into() } else { "err".into() }))
            }
            "restart" => {
                let applied = num(1)?;
                let store = self.store.as_ref().unwrap().clone();
                self.rn = None;
                let rn = RawNode::new(&self.config(applied), store, &logger()).unwrap();
                self.rn = Some(rn);
                Some((String::new(), "ok".into()))
            }
            _ => None,
        }
    }
}

// ------------------------------------------------------------------------------------------------
// generator

struct Gen<'a> {
    /// the application of this sequence does not store the commit index of a LightReady
    lazy_commit: bool,
    /// the application of this sequence moves the entries out of a Ready (take_entries) instead of borrowing them
    take_mode: bool,
    ex: Exec,
    rng: Rng,
    out: &'a mut dyn Write,
    lines: u64,
    handed_last: u64,
    violate: bool,
    alive: bool,
}

impl<'a> Gen<'a> {
    fn rg(&mut self, lo: u64, hi: u64) -> u64 {
        if hi <= lo { lo } else { self.rng.range(lo, hi) }
    }

    fn run(&mut self, cmd: String) -> String {
        let toks: Vec<&str> = cmd.split_whitespace().collect();
        let (lhs, obs) = self.ex.exec(&toks);
        writeln!(self.out, "rw {} -> {}", lhs, obs).unwrap();
        self.lines += 1;
        if obs == "panic" || obs.starts_with("bad") {
            if std::env::var("RW_DEBUG").is_ok() {
                eprintln!("rw {} -> {} :: {}", lhs, obs, crate::LAST_PANIC.lock().unwrap());
            }
            self.alive = false;
        }
        obs
    }

    fn rn(&self) -> &RN {
        self.ex.rn.as_ref().unwrap()
    }

    fn term_at(&self, idx: u64) -> u64 {
        self.rn().raft.raft_log.term(idx).unwrap_or(0)
    }

    fn new_entries(&mut self, from: u64, term: u64, k: u64) -> String {
        let mut s = format!("{}", k);
        for j in 0..k {
            let d = *self.rng.pick(&[0u64, 1, 5, 20, 120, 130]);
            write!(s, " {}:{}:0:{}:0", from + j, term, d).unwrap();
        }
        s
    }

    fn note_handed(&mut self, obs: &str) {
        // committed entries: `ce=<k> i:t:… …`; snapshot: `snap=i:t`
        if let Some(p) = obs.find(" snap=") {
            let tok = obs[p + 6..].split(' ').next().unwrap_or("-");
            if tok != "-" {
                if let Some(i) = tok.split(':').next().and_then(|x| x.parse::<u64>().ok()) {
                    self.handed_last = self.handed_last.max(i);
                }
            }
        }
        if let Some(p) = obs.find(" ce=") {
            let rest: Vec<&str> = obs[p + 4..].split(' ').collect();
            if let Ok(k) = rest[0].parse::<usize>() {
                if k > 0 && rest.len() > k {
                    if let Some(i) = rest[k].split(':').next().and_then(|x| x.parse::<u64>().ok()) {
                        self.handed_last = self.handed_last.max(i);
                    }
                }
            }
        }
    }

    /// one incoming message or local input, chosen by the node's current role
    fn env_step(&mut self) {
        let (term, role, last, committed, leader) = {
            let r = &self.rn().raft;
            (r.term, r.state, r.raft_log.last_index(), r.raft_log.committed, r.leader_id)
        };
        let peers: Vec<u64> = self.ex.voters.iter().cloned().filter(|x| *x != 1).collect();
        let peer = if peers.is_empty() { 2 } else { *self.rng.pick(&peers) };
        let c = self.rng.below(100);
        let first = self.rn().raft.raft_log.first_index();
        match role {
            StateRole::Leader => {
                if c < 35 {
                    let d = *self.rng.pick(&[0u64, 1, 7, 40, 126, 200]);
                    self.run(format!("propose {}", d));
                } else if c < 65 && !peers.is_empty() {
                    // MsgAppendResponse acknowledging up to some index
                    let idx = self.rg(committed.min(last), last);
                    self.run(format!("step 4 {} {} 0 {} 0 0 0", peer, term, idx));
                } else if c < 72 && !peers.is_empty() {
                    self.run(format!("step 9 {} {} 0 0 0 0 0", peer, term)); // heartbeat response
                } else if c < 78 {
                    let x = self.rng.below(200);
                    self.run(format!("read_index {}", x));
                } else if c < 86 {
                    self.run("tick".into());
                } else if c < 93 {
                    let l = *self.rng.pick(&[0u64, 1, 3, 1000, u64::MAX]);
                    self.run(format!("set_limit {}", l));
                } else if !peers.is_empty() {
                    // a new leader with a higher term overwrites the uncommitted suffix
                    let t = term + 1 + self.rng.below(2);
                    self.append_from(peer, t, committed, last, first);
                } else {
                    self.run("tick".into());
                }
            }
            StateRole::Candidate | StateRole::PreCandidate => {
                // a response can only follow a released (= persisted) request
                let released = {
                    let l = &self.rn().raft.raft_log;
                    l.persisted == l.last_index() && raft::verif::rawnode::view(self.rn()).contains(" rec=0") && !self.rn().has_ready()
                };
                if c < 55 && !peers.is_empty() && (released || (self.violate && self.rng.chance(10))) {
                    let ty = if role == StateRole::PreCandidate { 18 } else { 6 };
                    let t = if role == StateRole::PreCandidate { term + 1 } else { term };
                    let rej = if self.rng.chance(20) { 1 } else { 0 };
                    self.run(format!("step {} {} {} 0 0 0 {} 0", ty, peer, t, rej));
                } else if c < 75 && !peers.is_empty() {
                    let t = term + self.rng.below(2);
                    self.append_from(peer, t, committed, last, first);
                } else if c < 90 {
                    self.run("tick".into());
                } else {
                    self.run("campaign".into());
                }
            }
            StateRole::Follower => {
                let lead = if leader != 0 && leader != 1 { leader } else { peer };
                if peers.is_empty() {
                    if c < 60 {
                        self.run("campaign".into());
                    } else {
                        self.run("tick".into());
                    }
                } else if c < 45 {
                    let t = if self.rng.chance(12) { term + 1 } else { term.max(1) };
                    self.append_from(lead, t, committed, last, first);
                } else if c < 55 {
                    // heartbeat carrying a commit index
                    let cm = self.rg(committed, last);
                    self.run(format!("step 8 {} {} 0 0 {} 0 0", lead, term.max(1), cm));
                } else if c < 63 {
                    // snapshot beyond the commit index
                    let si = committed + 1 + self.rng.below(4);
                    let st = self.term_at(last).max(1) + self.rng.below(2);
                    let t = term.max(st);
                    let vs = nat_list(&self.ex.voters.clone());
                    self.run(format!("step 7 {} {} 0 0 0 0 0 {} {} {}", lead, t, si, st, vs));
                } else if c < 70 {
                    // vote request from a peer with a higher term and an up-to-date log
                    // (same term: a vote-only change of the hard state; stale log: a rejection that
                    // still moves the term)
                    let lt = if self.rng.chance(25) { 0 } else { self.term_at(last) + 1 };
                    let t = if term >= 1 && self.rng.chance(50) { term } else { term + 1 };
                    self.run(format!("step 5 {} {} {} {} 0 0 0", peer, t, lt, last + 1));
                } else if c < 85 {
                    self.run("campaign".into());
                } else if c < 86 {
                    // (a follower with apply-before-persist enabled: allowed by the API, reset by
                    // the next become_follower)
                    let l = *self.rng.pick(&[0u64, 2, u64::MAX]);
                    self.run(format!("set_limit {}", l));
                } else {
                    self.run("tick".into());
                }
            }
        }
    }

    /// MsgAppend from `from` at `term`: consistent prev point in [committed, last], new entries of
    /// the sender's term (a conflict = truncation when they land on entries of a lower term)
    fn append_from(&mut self, from: u64, term: u64, committed: u64, last: u64, first: u64) {
        let lo = committed.max(first.saturating_sub(1));
        let prev = if self.rng.chance(55) { last } else { self.rg(lo.min(last), last) };
        let pt = self.term_at(prev);
        let k = self.rng.below(4);
        let ents = self.new_entries(prev + 1, term, k);
        let cm = self.rg(committed, prev + k);
        self.run(format!("step 3 {} {} {} {} {} 0 {}", from, term, pt, prev, cm, ents));
    }

    fn ready_cycle(&mut self) {
        let obs = self.run("ready".into());
        if !self.alive {
            return;
        }
        self.note_handed(&obs);
        let snap_ready = !obs.contains(" snap=- ");
        if !(self.violate && self.rng.chance(3)) {
            self.run(if self.take_mode { "write take".into() } else { "write".into() });
            if !self.alive {
                return;
            }
        }
        let c = self.rng.below(100);
        let obs = if c < 50 {
            self.run("advance_append_async".into())
        } else if c < 80 {
            self.run(if self.lazy_commit { "advance_append nosave".into() } else { "advance_append".into() })
        } else {
            self.run(if self.lazy_commit { "advance nosave".into() } else { "advance".into() })
        };
        if self.alive {
            self.note_handed(&obs);
            // the application installs a snapshot at once and reports it applied
            if snap_ready && c < 80 && !(self.violate && self.rng.chance(30)) {
                self.run("advance_apply".into());
            }
        }
    }

    fn one(&mut self) {
        let (hr, applied, persisted, maxn, nrec) = {
            let rn = self.rn();
            let v = raft::verif::rawnode::view(rn);
            let mn: u64 = v.split(' ').find_map(|t| t.strip_prefix("mn=")).and_then(|x| x.parse().ok()).unwrap_or(0);
            let nr: u64 = v.split(' ').find_map(|t| t.strip_prefix("rec=")).and_then(|x| x.parse().ok()).unwrap_or(0);
            (rn.has_ready(), rn.raft.raft_log.applied, rn.raft.raft_log.persisted, mn, nr)
        };
        let c = self.rng.below(100);
        if c < 30 && (hr || self.rng.chance(6)) {
            self.ready_cycle();
        } else if c < 42 && (nrec > 0 || (maxn > 0 && self.rng.chance(15))) {
            // persistence notice for a random issued number (any batching)
            let lo = maxn + 1 - nrec.min(maxn);
            let mut n = if self.violate && self.rng.chance(5) { maxn + 1 + self.rng.below(2) } else if nrec == 0 { self.rg(1, maxn) } else { self.rg(lo.max(1), maxn) };
            if lo > 1 && nrec > 0 && self.rng.chance(20) {
                // a late or repeated notice, or the truthful notice for a Ready whose record the node discarded when it
                // became leader: a number below the oldest outstanding record
                n = self.rg(1, lo - 1);
            }
            self.run(format!("on_persist_ready {}", n));
        } else if c < 52 && self.handed_last > applied {
            if self.rng.chance(30) {
                self.run("advance_apply".into());
            } else {
                let k = self.rg(applied + 1, self.handed_last);
                self.run(format!("advance_apply_to {}", k));
            }
        } else if c < 54 && self.violate && self.rng.chance(30) {
            let k = self.handed_last + 1 + self.rng.below(3);
            self.run(format!("advance_apply_to {}", k));
        } else if c < 57 {
            let st_first = self.ex.store.as_ref().unwrap().first_index().unwrap_or(1);
            let mut hi = applied.min(persisted);
            if self.lazy_commit {
                // an application that does not store every commit index must still not compact beyond the stored one
                // (RaftLog::new + load_state reject a storage whose first index lies beyond hard_state.commit + 1)
                let hsc = self.ex.store.as_ref().unwrap().initial_state().map(|s| s.hard_state.commit).unwrap_or(0);
                hi = hi.min(hsc);
            }
            if hi > st_first {
                let k = self.rg(st_first, hi);
                self.run(format!("compact {}", k));
            }
        } else if c < 58 && self.rng.chance(40) {
            // crash + restart: volatile state is lost, the application resumes from what it applied
            let st = self.ex.store.as_ref().unwrap().clone();
            let hs_commit = st.initial_state().map(|s| s.hard_state.commit).unwrap_or(0);
            let snap_idx = st.first_index().unwrap_or(1) - 1;
            let hi = self.handed_last.min(hs_commit).max(snap_idx);
            let mut a = if self.rng.chance(50) { hi } else { self.rg(applied.min(hi).max(snap_idx), hi) };
            // an application that does not store the commit index of a LightReady ("not required to save it to stable
            // storage", raw_node.rs): it resumes from its own applied index, which then lies beyond the stored commit
            // index (the restart window `applied > committed` that Raft::new provides for)
            let st_last = st.last_index().unwrap_or(0);
            if self.handed_last > hs_commit && self.handed_last <= st_last && self.rng.chance(60) {
                a = self.handed_last;
            }
            self.run(format!("restart {}", a));
            self.handed_last = a;
        } else {
            self.env_step();
        }
    }
}

fn initial(rng: &mut Rng) -> (String, u64) {
    let voters: &[u64] = match rng.below(10) {
        0 | 1 => &[1],
        2 => &[1, 2],
        _ => &[1, 2, 3],
    };
    let prevote = rng.chance(25) as u64;
    let limit = *rng.pick(&[0u64, 0, 1, 4, u64::MAX]);
    let maxc = *rng.pick(&[0u64, 1, 20, 60, 150, u64::MAX, u64::MAX]);
    let (mut si, mut st) = (0u64, 0u64);
    if rng.chance(40) {
        si = rng.range(1, 6);
        st = rng.range(1, 3);
    }
    let k = rng.below(6);
    let mut ents = format!("{}", k);
    let mut t = st.max(1);
    for j in 0..k {
        if rng.chance(30) {
            t += 1;
        }
        let d = *rng.pick(&[0u64, 3, 30, 125]);
        write!(ents, " {}:{}:0:{}:0", si + 1 + j, t, d).unwrap();
    }
    let last = si + k;
    let commit = rng.range(si, last);
    let applied = if rng.chance(50) { si } else { rng.range(si, commit) };
    let (hst, hsv) = if commit == 0 && k == 0 && rng.chance(50) { (0, 0) } else { (t + rng.below(2), *rng.pick(&[0u64, 1, 2])) };
    let hsc = if hst == 0 { 0 } else { commit };
    let applied = if hst == 0 { 0 } else { applied };
    (
        format!("new {} {} {} {} {} {} {} {} {} {} {}", prevote, limit, maxc, applied, si, st, hst, hsv, hsc, nat_list(voters), ents),
        applied,
    )
}

/// `cases` sequences of up to `len` driver steps each (a step is one env call, one notice or a whole
/// ready/write/advance cycle); every tenth sequence also violates the contract now and then
pub fn random(seed: u64, cases: u64, len: u64, out: &mut dyn Write) -> u64 {
    let mut lines = 0;
    for case in 0..cases {
        let mut rng = Rng::new(seed.wrapping_mul(0x9E37_79B9).wrapping_add(case));
        let (newcmd, applied) = initial(&mut rng);
        let mut g = Gen { ex: Exec::default(), rng, out, lines: 0, handed_last: applied, violate: case % 10 == 9, alive: true, lazy_commit: case % 4 == 2, take_mode: case % 3 == 1 };
        g.run(newcmd);
        let mut k = 0;
        while g.alive && k < len {
            g.one();
            k += 1;
        }
        // drain: persist everything, hand everything out
        let mut d = 0;
        while g.alive && d < 6 {
            if g.ex.rn.as_ref().map(|r| r.has_ready()).unwrap_or(false) {
                g.ready_cycle();
            }
            if g.alive {
                let v = raft::verif::rawnode::view(g.rn());
                let mn: u64 = v.split(' ').find_map(|t| t.strip_prefix("mn=")).and_then(|x| x.parse().ok()).unwrap_or(0);
                g.run(format!("on_persist_ready {}", mn));
            }
            d += 1;
        }
        lines += g.lines;
    }
    lines
}
