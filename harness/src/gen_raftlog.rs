//! C14: drives the real `raft::RaftLog<MemStorage>` (storage + unstable + pending snapshot) through
//! operation histories and prints, after every mutating operation, a dump made of public queries
//! (first_index, last_index, term(i) over the whole range and one beyond on each side, all
//! entries, has_next_entries / next_entries) plus the public cursor fields; pure queries with
//! explicit arguments are separate lines.  Entries travel as `index:term:type:datalen:ctxlen`.
use crate::rng::Rng;
use protobuf::Message as _;
use raft::eraftpb::{Entry, EntryType, Snapshot};
use raft::storage::MemStorage;
use raft::{Config, Error, GetEntriesContext, RaftLog, Storage, StorageError};
use std::fmt::Write as _;
use std::io::Write;
use std::panic::{catch_unwind, AssertUnwindSafe};

type RL = RaftLog<MemStorage>;

pub fn mk_entry(index: u64, term: u64, ty: u64, dlen: usize, clen: usize) -> Entry {
    let mut e = Entry::default();
    e.set_index(index);
    e.set_term(term);
    e.set_entry_type(match ty {
        1 => EntryType::EntryConfChange,
        2 => EntryType::EntryConfChangeV2,
        _ => EntryType::EntryNormal,
    });
    e.set_data(vec![0u8; dlen].into());
    e.set_context(vec![0u8; clen].into());
    e
}

fn parse_entry(tok: &str) -> Option<Entry> {
    let p: Vec<u64> = tok.split(':').filter_map(|x| x.parse().ok()).collect();
    if p.len() != 5 {
        return None;
    }
    Some(mk_entry(p[0], p[1], p[2], p[3] as usize, p[4] as usize))
}

pub fn show_entry(e: &Entry) -> String {
    format!("{}:{}:{}:{}:{}", e.index, e.term, e.get_entry_type() as u64, e.data.len(), e.context.len())
}

pub fn show_entries(es: &[Entry]) -> String {
    let mut s = format!("{}", es.len());
    for e in es {
        write!(s, " {}", show_entry(e)).unwrap();
    }
    s
}

fn take_entries(toks: &[&str]) -> Option<(Vec<Entry>, usize)> {
    let n: usize = toks.first()?.parse().ok()?;
    if toks.len() < 1 + n {
        return None;
    }
    let mut v = vec![];
    for t in &toks[1..1 + n] {
        v.push(parse_entry(t)?);
    }
    Some((v, 1 + n))
}

fn mk_snap(idx: u64, term: u64) -> Snapshot {
    let mut s = Snapshot::default();
    s.mut_metadata().index = idx;
    s.mut_metadata().term = term;
    s
}

fn show_err(e: &Error) -> String {
    match e {
        Error::Store(StorageError::Compacted) => "err compacted".into(),
        Error::Store(StorageError::Unavailable) => "err unavailable".into(),
        Error::Store(StorageError::LogTemporarilyUnavailable) => "err log_unavailable".into(),
        Error::Store(StorageError::SnapshotOutOfDate) => "err snapshot_out_of_date".into(),
        Error::Store(StorageError::SnapshotTemporarilyUnavailable) => "err snap_unavailable".into(),
        _ => "err other".into(),
    }
}

fn guard<F: FnOnce() -> String>(f: F) -> String {
    catch_unwind(AssertUnwindSafe(f)).unwrap_or_else(|_| "panic".into())
}

fn parse_max(t: &str) -> Option<u64> {
    if t == "-" { None } else { t.parse().ok() }
}

pub fn dump(l: &RL) -> String {
    let fi = l.first_index();
    let la = l.last_index();
    let (sf, sl) = (l.store.first_index().unwrap(), l.store.last_index().unwrap());
    let lo = fi.saturating_sub(1);
    let hi = if (la + 1).saturating_sub(lo) > 64 { lo + 64 } else { la + 1 };
    let mut terms = String::new();
    let mut i = lo;
    while i <= hi {
        let t = guard(|| match l.term(i) {
            Ok(t) => format!("{}", t),
            Err(Error::Store(StorageError::Compacted)) => "ec".into(),
            Err(Error::Store(StorageError::Unavailable)) => "eu".into(),
            Err(_) => "e?".into(),
        });
        terms.push(' ');
        terms.push_str(if t == "panic" { "P" } else { &t });
        i += 1;
    }
    let us = match &l.unstable.snapshot {
        Some(s) => format!("{}:{}", s.get_metadata().index, s.get_metadata().term),
        None => "-".into(),
    };
    let has_next = guard(|| format!("{}", l.has_next_entries() as u8));
    let has_next = if has_next == "panic" { "P".to_string() } else { has_next };
    let ents = guard(|| match l.entries(fi, None, GetEntriesContext::empty(false)) {
        Ok(es) => format!("ok {}", show_entries(&es)),
        Err(e) => show_err(&e),
    });
    let next = guard(|| match l.next_entries(None) {
        None => "none".into(),
        Some(es) => format!("some {}", show_entries(&es)),
    });
    // a panic inside `MemStorage::entries` poisons the storage lock: nothing can be asked afterwards
    let next = if next == "panic" || ents == "panic" { "P".to_string() } else { next };
    format!(
        "fi={} la={} c={} p={} a={} lim={} uo={} ul={} us={} usz={} sf={} sl={} T{} H {} E {} N {}",
        fi, la, l.committed, l.persisted, l.applied, l.max_apply_unpersisted_log_limit,
        l.unstable.offset, l.unstable.entries.len(), us, l.unstable.entries_size, sf, sl, terms, has_next, ents, next
    )
}

fn logger() -> slog::Logger {
    slog::Logger::root(slog::Discard, slog::o!())
}

#[derive(Default)]
pub struct Exec {
    pub rl: Option<RL>,
}

impl Exec {
    /// executes one protocol command on the real code and returns the observation
    pub fn exec(&mut self, cmd: &[&str]) -> String {
        let num = |i: usize| -> u64 { cmd.get(i).and_then(|s| s.parse().ok()).unwrap_or(0) };
        if cmd.first() == Some(&"new") {
            self.rl = None;
            let Some((ents, _)) = take_entries(&cmd[4..]) else { return "bad-op".into() };
            let (lim, si, st) = (num(1), num(2), num(3));
            let r = catch_unwind(AssertUnwindSafe(|| {
                let store = MemStorage::new();
                if si != 0 {
                    store.wl().apply_snapshot(mk_snap(si, st)).unwrap();
                }
                store.wl().append(&ents).unwrap();
                let cfg = Config { max_apply_unpersisted_log_limit: lim, ..Default::default() };
                RaftLog::new(store, logger(), &cfg)
            }));
            return match r {
                Ok(l) => {
                    let o = format!("ok | {}", dump(&l));
                    if !(o.contains(" E panic ") || o.ends_with(" N P")) { self.rl = Some(l); }
                    o
                }
                Err(_) => "panic".into(),
            };
        }
        let Some(l) = self.rl.as_mut() else { return "skip".into() };
        let r = catch_unwind(AssertUnwindSafe(|| -> String {
            let with_dump = |res: String, l: &RL| format!("{} | {}", res, dump(l));
            let store_res = |r: raft::Result<()>, l: &RL| match r {
                Ok(()) => format!("ok | {}", dump(l)),
                Err(e) => format!("{} | {}", show_err(&e), dump(l)),
            };
            let ents_res = |r: raft::Result<Vec<Entry>>| match r {
                Ok(es) => format!("ok {}", show_entries(&es)),
                Err(e) => show_err(&e),
            };
            match cmd[0] {
                "append" => {
                    let Some((ents, _)) = take_entries(&cmd[1..]) else { return "bad-op".into() };
                    let last = l.append(&ents);
                    with_dump(format!("ok {}", last), l)
                }
                "maybe_append" => {
                    let Some((ents, _)) = take_entries(&cmd[4..]) else { return "bad-op".into() };
                    match l.maybe_append(num(1), num(2), num(3), &ents) {
                        None => with_dump("none".into(), l),
                        Some((c, la)) => with_dump(format!("some {} {}", c, la), l),
                    }
                }
                "commit_to" => { l.commit_to(num(1)); with_dump("ok".into(), l) }
                "maybe_commit" => { let b = l.maybe_commit(num(1), num(2)); with_dump(format!("{}", b as u8), l) }
                "applied_to" => {
                    #[allow(deprecated)]
                    l.applied_to(num(1));
                    with_dump("ok".into(), l)
                }
                "set_applied" => { l.applied = num(1); with_dump("ok".into(), l) }
                "set_limit" => { l.max_apply_unpersisted_log_limit = num(1); with_dump("ok".into(), l) }
                "store_append" => {
                    let Some((ents, _)) = take_entries(&cmd[1..]) else { return "bad-op".into() };
                    let r = l.store.wl().append(&ents);
                    store_res(r, l)
                }
                "store_append_unstable" => {
                    let ents = l.unstable.entries.clone();
                    let r = l.store.wl().append(&ents);
                    store_res(r, l)
                }
                "stable_entries" => { l.stable_entries(num(1), num(2)); with_dump("ok".into(), l) }
                "store_apply_snapshot" => {
                    let r = l.store.wl().apply_snapshot(mk_snap(num(1), num(2)));
                    store_res(r, l)
                }
                "stable_snap" => { l.stable_snap(num(1)); with_dump("ok".into(), l) }
                "maybe_persist" => { let b = l.maybe_persist(num(1), num(2)); with_dump(format!("{}", b as u8), l) }
                "maybe_persist_snap" => { let b = l.maybe_persist_snap(num(1)); with_dump(format!("{}", b as u8), l) }
                "store_compact" => { let r = l.store.wl().compact(num(1)); store_res(r, l) }
                "restore" => { l.restore(mk_snap(num(1), num(2))); with_dump("ok".into(), l) }
                "store_trigger_log" => { l.store.wl().trigger_log_unavailable(num(1) == 1); with_dump("ok".into(), l) }
                "store_trigger_snap" => { l.store.wl().trigger_snap_unavailable(); with_dump("ok".into(), l) }
                // pure queries
                "term" => match l.term(num(1)) { Ok(t) => format!("ok {}", t), Err(e) => show_err(&e) },
                "last_term" => format!("ok {}", l.last_term()),
                "match_term" => format!("{}", l.match_term(num(1), num(2)) as u8),
                "find_conflict" => {
                    let Some((ents, _)) = take_entries(&cmd[1..]) else { return "bad-op".into() };
                    format!("{}", l.find_conflict(&ents))
                }
                "fcbt" => {
                    let (i, t) = l.find_conflict_by_term(num(1), num(2));
                    match t { Some(t) => format!("{} {}", i, t), None => format!("{} -", i) }
                }
                "up_to_date" => format!("{}", l.is_up_to_date(num(1), num(2)) as u8),
                "slice" => ents_res(l.slice(num(1), num(2), parse_max(cmd[3]), GetEntriesContext::empty(cmd[4] == "1"))),
                "entries" => ents_res(l.entries(num(1), parse_max(cmd[2]), GetEntriesContext::empty(cmd[3] == "1"))),
                "next_since" => match l.next_entries_since(num(1), parse_max(cmd[2])) {
                    None => "none".into(),
                    Some(es) => format!("some {}", show_entries(&es)),
                },
                "has_next_since" => format!("{}", l.has_next_entries_since(num(1)) as u8),
                "commit_info" => { let (c, t) = l.commit_info(); format!("{} {}", c, t) }
                "snapshot" => match l.snapshot(num(1), 0) {
                    Ok(s) => format!("ok {} {}", s.get_metadata().index, s.get_metadata().term),
                    Err(e) => show_err(&e),
                },
                _ => "bad-op".into(),
            }
        }));
        match r {
            Ok(o) => {
                if o.contains(" E panic ") || o.ends_with(" N P") { self.rl = None; }
                o
            }
            Err(_) => { self.rl = None; "panic".into() }
        }
    }
}

pub struct Runner<'a> {
    pub out: &'a mut dyn Write,
    pub ex: Exec,
    pub lines: u64,
}

impl<'a> Runner<'a> {
    /// runs one command; false when the sequence is over (panic)
    pub fn cmd(&mut self, cmd: String) -> bool {
        let toks: Vec<&str> = cmd.split_whitespace().collect();
        let obs = self.ex.exec(&toks);
        writeln!(self.out, "rl {} -> {}", cmd, obs).unwrap();
        self.lines += 1;
        self.ex.rl.is_some()
    }
    fn rl(&self) -> &RL { self.ex.rl.as_ref().unwrap() }
}

fn rg(rng: &mut Rng, lo: u64, hi: u64) -> u64 {
    if hi <= lo { lo } else { rng.range(lo, hi) }
}

const SIZES: [usize; 10] = [0, 1, 3, 10, 40, 100, 126, 127, 128, 200];

struct Gen {
    term_now: u64,
    pending_persist: Vec<(u64, u64)>,
}

fn term_of(l: &RL, i: u64) -> u64 {
    catch_unwind(AssertUnwindSafe(|| l.term(i).unwrap_or(0))).unwrap_or(0)
}

fn rand_entry(rng: &mut Rng, index: u64, term: u64) -> Entry {
    let d = *rng.pick(&SIZES);
    let c = if rng.chance(10) { rng.below(5) as usize } else { 0 };
    let ty = if rng.chance(8) { 1 + rng.below(2) } else { 0 };
    mk_entry(index, term, ty, d, c)
}

/// an index near one of the boundaries the property talks about
fn pick_index(rng: &mut Rng, l: &RL) -> u64 {
    let fi = l.first_index();
    let la = l.last_index();
    let uo = l.unstable.offset;
    let c = [
        0, fi.saturating_sub(2), fi.saturating_sub(1), fi, fi + 1, uo.saturating_sub(1), uo, uo + 1,
        l.persisted, l.persisted + 1, l.committed, l.committed + 1, l.applied, la.saturating_sub(1), la, la + 1, la + 2,
    ];
    if rng.chance(25) { rg(rng, fi.saturating_sub(1), la + 1) } else { *rng.pick(&c) }
}

fn pick_max(rng: &mut Rng, l: &RL, lo: u64) -> String {
    let k = rng.below(10);
    if k < 2 { return "-".into(); }
    if k == 2 { return "0".into(); }
    if k == 3 { return format!("{}", u64::MAX); }
    // exact prefix sums of the real entries from `lo`, ± 1
    let es = catch_unwind(AssertUnwindSafe(|| l.entries(lo, None, GetEntriesContext::empty(false)).unwrap_or_default())).unwrap_or_default();
    if es.is_empty() || k == 4 { return format!("{}", rng.below(400)); }
    let n = 1 + rng.below(es.len() as u64) as usize;
    let sum: u64 = es[..n].iter().map(|e| u64::from(e.compute_size())).sum();
    let adj = rng.below(3);
    format!("{}", (sum + adj).saturating_sub(1))
}

/// entries starting at `idx+1` that agree with the log up to (excluding) `diverge_at`
fn probe_entries(rng: &mut Rng, g: &Gen, l: &RL, idx: u64, n: u64, diverge_at: u64) -> Vec<Entry> {
    let la = l.last_index();
    let mut v = vec![];
    let mut prev = term_of(l, idx);
    let newterm = g.term_now + rng.below(2);
    for k in 0..n {
        let j = idx + 1 + k;
        let t = if j < diverge_at && j <= la { term_of(l, j) } else { prev.max(newterm) };
        prev = t;
        let mut e = rand_entry(rng, j, t);
        if rng.chance(1) && rng.chance(50) { e.set_index(j + 1 + rng.below(2)); } // malformed: non-contiguous batch
        v.push(e);
    }
    v
}

fn queries(r: &mut Runner, rng: &mut Rng, g: &Gen, k: u64) -> bool {
    for _ in 0..k {
        let l = r.rl();
        let la = l.last_index();
        let q = rng.below(100);
        let cmd = if q < 10 {
            format!("term {}", pick_index(rng, l))
        } else if q < 18 {
            let i = pick_index(rng, l);
            let t = term_of(l, i) + if rng.chance(30) { 1 } else { 0 };
            format!("match_term {} {}", i, t)
        } else if q < 30 {
            let idx = pick_index(rng, l).min(la + 1);
            let n = rng.below(5);
            let d = pick_index(rng, l);
            let es = probe_entries(rng, g, l, idx, n, d);
            format!("find_conflict {}", show_entries(&es))
        } else if q < 42 {
            format!("fcbt {} {}", pick_index(rng, l), rng.below(g.term_now + 2))
        } else if q < 50 {
            let i = pick_index(rng, l);
            let lt = term_of(l, la);
            let t = if rng.chance(50) { lt } else { rng.below(g.term_now + 2) };
            format!("up_to_date {} {}", i, t)
        } else if q < 68 {
            let fi = l.first_index();
            let (lo, hi) = if rng.chance(96) {
                let back = rng.below(2);
                let lo = rg(rng, fi.saturating_sub(back), la + 1);
                (lo, if rng.chance(50) { la + 1 } else { rg(rng, lo, la + 1) })
            } else { (pick_index(rng, l), pick_index(rng, l)) };
            format!("slice {} {} {} {}", lo, hi, pick_max(rng, l, lo), rng.chance(30) as u8)
        } else if q < 78 {
            let i = pick_index(rng, l);
            format!("entries {} {} {}", i, pick_max(rng, l, i), rng.chance(30) as u8)
        } else if q < 88 {
            let i = if rng.chance(3) { u64::MAX - rng.below(2) } else { pick_index(rng, l) };
            format!("next_since {} {}", i, pick_max(rng, l, i.saturating_add(1)))
        } else if q < 92 {
            let i = if rng.chance(3) { u64::MAX } else { pick_index(rng, l) };
            format!("has_next_since {}", i)
        } else if q < 95 {
            "commit_info".to_string()
        } else if q < 98 {
            "last_term".to_string()
        } else {
            format!("snapshot {}", pick_index(rng, l))
        };
        if !r.cmd(cmd) { return false; }
    }
    true
}

fn initial(rng: &mut Rng, g: &mut Gen) -> String {
    let lim = match rng.below(20) {
        0 => if rng.chance(30) { u64::MAX - rng.below(4) } else { 2 },
        1..=6 => 1 + rng.below(5),
        _ => 0,
    };
    let (si, st) = if rng.chance(50) { (0, 0) } else { let i = 1 + rng.below(8); (i, 1 + rng.below(3)) };
    let n = rng.below(7);
    let mut t = st.max(1);
    let mut es = vec![];
    for k in 0..n {
        if rng.chance(25) { t += 1; }
        es.push(rand_entry(rng, si + 1 + k, t));
    }
    g.term_now = t;
    format!("new {} {} {} {}", lim, si, st, show_entries(&es))
}

/// one random mutating step (possibly a short flow of several commands); false = sequence over
fn step(r: &mut Runner, rng: &mut Rng, g: &mut Gen) -> bool {
    let l = r.rl();
    let fi = l.first_index();
    let la = l.last_index();
    let c = l.committed;
    let k = rng.below(100);
    if rng.chance(4) { g.term_now += 1; }
    if k < 18 {
        // append
        let mode = rng.below(100);
        let start = if mode < 88 { la + 1 }
            else if mode < 98 { rg(rng, c + 1, (la + 1).max(c + 1)) }
            else if mode < 99 { rg(rng, fi.saturating_sub(1), c.max(1)) }
            else { la + 2 + rng.below(2) };
        // now and then a long burst, so that later conflicts fall strictly inside a long unstable tail
        let n = if rng.chance(5) { 0 } else if rng.chance(4) { 30 + rng.below(50) } else { 1 + rng.below(4) };
        let mut t = if start == la + 1 { term_of(l, la).max(g.term_now) } else { g.term_now };
        let mut es = vec![];
        for j in 0..n {
            if rng.chance(15) { t += 1; }
            es.push(rand_entry(rng, start + j, t));
        }
        g.term_now = g.term_now.max(t);
        r.cmd(format!("append {}", show_entries(&es)))
    } else if k < 40 {
        // maybe_append with the conflict placed anywhere
        let idx = if rng.chance(85) { rg(rng, fi.saturating_sub(1), la) } else { pick_index(rng, l) };
        let t = term_of(l, idx) + if rng.chance(8) { 1 } else { 0 };
        let n = rng.below(6);
        let d = if rng.chance(30) { u64::MAX } else if rng.chance(85) { rg(rng, c + 1, la + 1) } else { pick_index(rng, l) };
        let es = probe_entries(rng, g, l, idx, n, d);
        g.term_now = es.iter().map(|e| e.term).max().unwrap_or(0).max(g.term_now);
        let cm = rng.below(la + 4);
        r.cmd(format!("maybe_append {} {} {} {}", idx, t, cm, show_entries(&es)))
    } else if k < 47 {
        let to = if rng.chance(92) { rg(rng, c.min(la), la) } else { pick_index(rng, l) };
        r.cmd(format!("commit_to {}", to))
    } else if k < 53 {
        let i = if rng.chance(90) { rg(rng, c, la) } else { pick_index(rng, l) };
        let t = term_of(l, i) + if rng.chance(20) { 1 } else { 0 };
        r.cmd(format!("maybe_commit {} {}", i, t))
    } else if k < 68 {
        // ready-style stabilise: storage append + stable_entries (+ persistence notice now or later)
        if l.unstable.snapshot.is_some() && !rng.chance(10) {
            return snap_flow(r, rng);
        }
        let Some(last) = l.unstable.entries.last().cloned() else {
            return r.cmd("store_append_unstable".into());
        };
        if !r.cmd("store_append_unstable".into()) { return false; }
        let (i, t) = if rng.chance(95) { (last.index, last.term) } else { (last.index + rng.below(2), last.term + rng.below(2)) };
        if !r.cmd(format!("stable_entries {} {}", i, t)) { return false; }
        if rng.chance(60) { r.cmd(format!("maybe_persist {} {}", last.index, last.term)) }
        else { g.pending_persist.push((last.index, last.term)); true }
    } else if k < 74 {
        // persistence notice (possibly stale)
        if !g.pending_persist.is_empty() && rng.chance(70) {
            let (i, t) = g.pending_persist.remove(0);
            r.cmd(format!("maybe_persist {} {}", i, t))
        } else {
            let i = pick_index(rng, l);
            let t = term_of(l, i) + if rng.chance(20) { 1 } else { 0 };
            r.cmd(format!("maybe_persist {} {}", i, t))
        }
    } else if k < 80 {
        // restore(snapshot)
        let i = if rng.chance(90) { rg(rng, c, la + 3) } else { pick_index(rng, l) };
        let t = if i <= la && rng.chance(50) { term_of(l, i) } else { g.term_now };
        r.cmd(format!("restore {} {}", i, t.max(1)))
    } else if k < 84 {
        if l.unstable.snapshot.is_some() || rng.chance(12) { snap_flow(r, rng) } else { r.cmd(format!("commit_to {}", rg(rng, c.min(la), la))) }
    } else if k < 90 {
        let a = l.applied;
        let sf = l.store.first_index().unwrap();
        let i = if rng.chance(93) { rg(rng, sf.min(a), a.max(sf.min(a))) } else { pick_index(rng, l) };
        r.cmd(format!("store_compact {}", i))
    } else if k < 96 {
        let ub = c.min(l.persisted.saturating_add(l.max_apply_unpersisted_log_limit));
        let i = if rng.chance(95) { rg(rng, l.applied.min(ub), ub.max(l.applied.min(ub))) } else { pick_index(rng, l) };
        r.cmd(format!("applied_to {}", i))
    } else if k < 97 {
        let v = if rng.chance(10) { u64::MAX - rng.below(3) } else { *rng.pick(&[0u64, 1, 3, 7]) };
        r.cmd(format!("set_limit {}", v))
    } else if k < 98 {
        r.cmd(format!("store_trigger_log {}", rng.below(2)))
    } else if k < 99 {
        r.cmd("store_trigger_snap".into())
    } else {
        // the restart window: applied ahead of committed
        r.cmd(format!("set_applied {}", rg(rng, l.applied, la.max(l.applied))))
    }
}

fn snap_flow(r: &mut Runner, rng: &mut Rng) -> bool {
    let l = r.rl();
    let (i, t) = match &l.unstable.snapshot {
        Some(s) => (s.get_metadata().index, s.get_metadata().term),
        None => {
            // no pending snapshot: a stray call (boundary-violating stream)
            let i = pick_index(rng, l);
            return match rng.below(3) {
                0 => r.cmd(format!("stable_snap {}", i)),
                1 => r.cmd(format!("maybe_persist_snap {}", i)),
                _ => r.cmd(format!("store_apply_snapshot {} {}", i, 1 + rng.below(3))),
            };
        }
    };
    if rng.chance(92) && !r.cmd(format!("store_apply_snapshot {} {}", i, t)) { return false; }
    let si = if rng.chance(95) { i } else { i + 1 };
    if !r.cmd(format!("stable_snap {}", si)) { return false; }
    if rng.chance(85) { r.cmd(format!("maybe_persist_snap {}", i)) } else { true }
}

pub fn random(seed: u64, cases: u64, len: usize, out: &mut dyn Write) -> u64 {
    let mut rng = Rng::new(seed ^ 0x14);
    let mut r = Runner { out, ex: Exec::default(), lines: 0 };
    for _ in 0..cases {
        let mut g = Gen { term_now: 1, pending_persist: vec![] };
        let init = initial(&mut rng, &mut g);
        if !r.cmd(init) { continue; }
        let nq = 1 + rng.below(4);
        if !queries(&mut r, &mut rng, &g, nq) { continue; }
        for _ in 0..len {
            if !step(&mut r, &mut rng, &mut g) { break; }
            let nq = rng.below(4);
            if !queries(&mut r, &mut rng, &g, nq) { break; }
        }
    }
    r.lines
}

/// every sequence of `len` symbolic steps from a few tiny initial logs; after every step a fixed
/// battery of queries (all boundaries are in the dump; size-limited reads with the three
/// interesting limits)
pub fn exhaustive(len: usize, out: &mut dyn Write) -> u64 {
    #[derive(Clone, Copy, Debug)]
    enum Sym { AppendSame, AppendNewTerm, AppendTrunc, MaMatch, MaConflictAbove, MaConflictAtCommit, MaExtend,
        CommitAll, CommitOne, Stabilise, Persist, Applied, Restore, RestoreMatch, PersistSnap, Compact }
    let alphabet = [Sym::AppendSame, Sym::AppendNewTerm, Sym::AppendTrunc, Sym::MaMatch, Sym::MaConflictAbove,
        Sym::MaConflictAtCommit, Sym::MaExtend, Sym::CommitAll, Sym::CommitOne, Sym::Stabilise, Sym::Persist,
        Sym::Applied, Sym::Restore, Sym::RestoreMatch, Sym::PersistSnap, Sym::Compact];
    let inits = ["new 0 0 0 0", "new 0 0 0 2 1:1:0:3:0 2:1:0:200:0", "new 1 2 1 1 3:2:0:10:0", "new 18446744073709551615 0 0 1 1:1:0:0:0"];
    let n = alphabet.len() as u64;
    let total = n.pow(len as u32);
    let mut r = Runner { out, ex: Exec::default(), lines: 0 };
    for init in inits {
        for code in 0..total {
            if !r.cmd(init.to_string()) { continue; }
            let mut c = code;
            let mut last_stable: Option<(u64, u64)> = None;
            let mut alive = true;
            for _ in 0..len {
                let sym = alphabet[(c % n) as usize];
                c /= n;
                let l = r.rl();
                let (fi, la, cm) = (l.first_index(), l.last_index(), l.committed);
                let lt = term_of(l, la);
                let sz = [3usize, 200, 0, 127][(la % 4) as usize];
                let cmds: Vec<String> = match sym {
                    Sym::AppendSame => vec![format!("append 1 {}:{}:0:{}:0", la + 1, lt.max(1), sz)],
                    Sym::AppendNewTerm => vec![format!("append 2 {}:{}:0:{}:0 {}:{}:0:1:0", la + 1, lt + 1, sz, la + 2, lt + 1)],
                    Sym::AppendTrunc => vec![format!("append 1 {}:{}:0:{}:0", cm + 1, lt + 1, sz)],
                    Sym::MaMatch => {
                        let idx = fi.saturating_sub(1).max(la.saturating_sub(2));
                        let es: Vec<Entry> = (idx + 1..=la).map(|j| mk_entry(j, term_of(l, j), 0, 1, 0)).collect();
                        vec![format!("maybe_append {} {} {} {}", idx, term_of(l, idx), la, show_entries(&es))]
                    }
                    Sym::MaConflictAbove => {
                        // agree up to the commit index, conflict right above it
                        let idx = cm;
                        vec![format!("maybe_append {} {} {} 2 {}:{}:0:{}:0 {}:{}:0:5:0", idx, term_of(l, idx), cm + 1, cm + 1, lt + 1, sz, cm + 2, lt + 1)]
                    }
                    Sym::MaConflictAtCommit => {
                        let idx = cm.saturating_sub(1).max(fi.saturating_sub(1));
                        vec![format!("maybe_append {} {} {} 1 {}:{}:0:1:0", idx, term_of(l, idx), cm, idx + 1, lt + 1)]
                    }
                    Sym::MaExtend => vec![format!("maybe_append {} {} {} 1 {}:{}:0:{}:0", la, lt, la + 1, la + 1, lt.max(1), sz)],
                    Sym::CommitAll => vec![format!("commit_to {}", la)],
                    Sym::CommitOne => vec![format!("maybe_commit {} {}", cm + 1, term_of(l, cm + 1))],
                    Sym::Stabilise => match l.unstable.entries.last() {
                        Some(e) => { last_stable = Some((e.index, e.term));
                            vec!["store_append_unstable".into(), format!("stable_entries {} {}", e.index, e.term)] }
                        None => vec!["store_append_unstable".into()],
                    },
                    Sym::Persist => match last_stable {
                        Some((i, t)) => vec![format!("maybe_persist {} {}", i, t)],
                        None => vec![format!("maybe_persist {} {}", la, lt)],
                    },
                    Sym::Applied => {
                        let ub = cm.min(l.persisted.saturating_add(l.max_apply_unpersisted_log_limit));
                        vec![format!("applied_to {}", ub)]
                    }
                    Sym::Restore => vec![format!("restore {} {}", la + 2, lt + 1)],
                    Sym::RestoreMatch => vec![format!("restore {} {}", cm + 1, term_of(l, cm + 1).max(1))],
                    Sym::PersistSnap => match &l.unstable.snapshot {
                        Some(s) => { let (i, t) = (s.get_metadata().index, s.get_metadata().term);
                            vec![format!("store_apply_snapshot {} {}", i, t), format!("stable_snap {}", i), format!("maybe_persist_snap {}", i)] }
                        None => vec![format!("maybe_persist_snap {}", cm)],
                    },
                    Sym::Compact => vec![format!("store_compact {}", l.applied)],
                };
                for cmd in cmds {
                    if !r.cmd(cmd) { alive = false; break; }
                }
                if !alive { break; }
                let l = r.rl();
                let (fi, la) = (l.first_index(), l.last_index());
                let es = l.entries(fi, None, GetEntriesContext::empty(false)).unwrap_or_default();
                let s1: u64 = es.iter().take(1).map(|e| u64::from(e.compute_size())).sum();
                let s2: u64 = es.iter().take(2).map(|e| u64::from(e.compute_size())).sum();
                let lt = term_of(l, la);
                let qs = [
                    format!("slice {} {} {} 0", fi, la + 1, s2),
                    format!("entries {} {} 0", fi, (s1 + s2) / 2),
                    format!("fcbt {} {}", la, lt.saturating_sub(1)),
                    format!("up_to_date {} {}", la, lt),
                    format!("next_since {} {}", l.applied, s2.saturating_sub(1)),
                ];
                for q in qs {
                    if !r.cmd(q) { alive = false; break; }
                }
                if !alive { break; }
            }
        }
    }
    r.lines
}
