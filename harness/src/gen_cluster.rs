//! Cluster simulator: N `RawNode`s of the real library, a contract-abiding application (DESIGN §4.3,
//! assumptions A1–A6) with synchronous and asynchronous persistence, durable images, crash/restart,
//! snapshots/compaction, and an adversarial seeded scheduler (loss, duplication, delay, reordering,
//! partitions by dropping).  Two outputs:
//!   * the **P trace** (`p new`, `p ev …`, `p view …` lines): each library call of the real code is
//!     decomposed into events of the abstract protocol P (lean/RaftModel/Proto.lean); the Lean
//!     driver validates every event and compares the P state with the implementation's view;
//!   * **monitors**: the direct statements of the properties on the observed history, so that a
//!     real violation comes with a concrete history (reported through `Sim::violations`).
//! Every random choice comes from one PRNG, so (seed, parameters) replays exactly.
use crate::rng::Rng;
use protobuf::Message as _;
use raft::{prelude::*, storage::MemStorage, GetEntriesContext, ProgressState, RaftState, StateRole, Storage};
use slog::{o, Discard, Logger};
use std::collections::{BTreeMap, BTreeSet, HashMap, VecDeque};
use std::fmt::Write as _;
use std::panic::{catch_unwind, AssertUnwindSafe};
use std::sync::{Arc, Mutex};

// ------------------------------------------------------------------------------------------------
// application state carried in snapshots

#[derive(Clone, Debug, Default, PartialEq)]
pub struct AppRec {
    pub index: u64,
    pub term: u64,
    pub cs: ConfState,
    pub digest: u64,
}

fn mix(d: u64, x: u64) -> u64 {
    let mut h = d ^ x.wrapping_mul(0x9E37_79B9_7F4A_7C15);
    h ^= h >> 29;
    h = h.wrapping_mul(0xBF58_476D_1CE4_E5B9);
    h ^ (h >> 32)
}

pub fn bytes_digest(data: &[u8], ctx: &[u8]) -> u64 {
    let mut h: u64 = 0xcbf2_9ce4_8422_2325;
    for b in data.iter().chain([0xffu8].iter()).chain(ctx.iter()) {
        h ^= *b as u64;
        h = h.wrapping_mul(0x1000_0000_01b3);
    }
    h & 0xffff_ffff
}

fn entry_digest(d: u64, e: &Entry) -> u64 {
    mix(mix(mix(d, e.index), e.term), bytes_digest(&e.data, &e.context) ^ ((e.get_entry_type() as u64) << 40))
}

/// `Storage` over a `MemStorage` cache; snapshots are built by the application at its applied index
/// (A5): index/term/configuration of that index and the application state.
#[derive(Clone)]
pub struct SimStore {
    pub mem: MemStorage,
    pub app: Arc<Mutex<AppRec>>,
    pub snap_unavailable: Arc<Mutex<bool>>,
}

impl Storage for SimStore {
    fn initial_state(&self) -> raft::Result<RaftState> {
        self.mem.initial_state()
    }
    fn entries(&self, low: u64, high: u64, max_size: impl Into<Option<u64>>, context: GetEntriesContext) -> raft::Result<Vec<Entry>> {
        self.mem.entries(low, high, max_size, context)
    }
    fn term(&self, idx: u64) -> raft::Result<u64> {
        self.mem.term(idx)
    }
    fn first_index(&self) -> raft::Result<u64> {
        self.mem.first_index()
    }
    fn last_index(&self) -> raft::Result<u64> {
        self.mem.last_index()
    }
    fn snapshot(&self, request_index: u64, _to: u64) -> raft::Result<Snapshot> {
        let mut un = self.snap_unavailable.lock().unwrap();
        if *un {
            *un = false;
            return Err(raft::Error::Store(raft::StorageError::SnapshotTemporarilyUnavailable));
        }
        let app = self.app.lock().unwrap();
        if app.index < request_index || app.index == 0 {
            return Err(raft::Error::Store(raft::StorageError::SnapshotTemporarilyUnavailable));
        }
        let mut s = Snapshot::default();
        s.set_data(app.digest.to_le_bytes().to_vec().into());
        let m = s.mut_metadata();
        m.index = app.index;
        m.term = app.term;
        m.set_conf_state(app.cs.clone());
        Ok(s)
    }
}

// ------------------------------------------------------------------------------------------------

#[derive(Clone, Default)]
struct Writes {
    snapshot: Option<Snapshot>,
    entries: Vec<Entry>,
    hs: Option<HardState>,
    commit: Option<u64>,
}

#[derive(Clone, Default)]
pub struct Durable {
    pub hs: HardState,
    pub snap: AppRec, // snapshot point (index 0 = none): entries start at snap.index + 1
    pub entries: Vec<Entry>,
    pub applied: AppRec, // durable application progress (A4); applied.index >= snap.index
}

impl Durable {
    fn apply(&mut self, w: &Writes) {
        if let Some(s) = &w.snapshot {
            let m = s.get_metadata();
            let mut d = [0u8; 8];
            d.copy_from_slice(&s.get_data()[..8]);
            let rec = AppRec { index: m.index, term: m.term, cs: m.get_conf_state().clone(), digest: u64::from_le_bytes(d) };
            self.snap = rec.clone();
            self.applied = rec;
            self.entries.clear();
        }
        if let Some(first) = w.entries.first() {
            let keep = self.entries.iter().take_while(|e| e.index < first.index).count();
            self.entries.truncate(keep);
            self.entries.extend(w.entries.iter().cloned());
        }
        if let Some(hs) = &w.hs {
            self.hs = hs.clone();
        }
        if let Some(c) = w.commit {
            if c > self.hs.commit {
                self.hs.commit = c;
            }
        }
    }
    fn last(&self) -> u64 {
        self.entries.last().map(|e| e.index).unwrap_or(self.snap.index)
    }
}

struct Pending {
    number: u64,
    msgs: Vec<Message>,
    writes: Writes,
}

#[derive(Clone)]
struct View {
    term: u64,
    vote: u64,
    state: StateRole,
    commit: u64,
    first: u64,
    entries: Vec<(u64, u64, u64)>, // (term, kind, digest) from `first`
    nmsgs: usize,
    ro: Vec<(u64, u64)>,      // read requests registered by the leader: (request id, read index)
    rstates: Vec<(u64, u64)>, // read states not yet handed out: (request id, index)
    transferee: Option<u64>,
    prs: Vec<(u64, ProgressState, u64)>, // per peer: progress state, pending snapshot index
}

/// numeric id of a read request context ("r<N>")
fn rid_of(ctx: &[u8]) -> u64 {
    std::str::from_utf8(ctx).ok().and_then(|s| s.strip_prefix('r')).and_then(|s| s.parse().ok()).unwrap_or(0)
}

pub struct Node {
    pub id: u64,
    pub rn: Option<RawNode<SimStore>>,
    store: SimStore,
    pub durable: Durable,
    pending: Vec<Pending>,
    p_pending: usize, // images pushed to P's pending list and not yet persisted
    img_selfack: Vec<Option<(u64, u64)>>, // per pending P image: the leader's self-acknowledgement (term, index) generated right before it
    app: AppRec,      // volatile application state
    app_hist: VecDeque<AppRec>,
    incarnation: u64,
    cfg: Config,
    member: bool,
    granted: BTreeSet<u64>,
    granted_term: u64,
    deferred: Option<Vec<String>>,
    released_req_term: u64,
    self_grant: Option<u64>, // term of a campaign of this incarnation whose self-vote is not yet released in P
    handed: u64, // last index handed out for apply in this incarnation
    last_tv: (u64, u64), // (term, vote) of the last hard state handed out in a Ready of this incarnation (initially the stored one)
    applied_emitted: u64, // PD: the applied index last reported to the model for this incarnation
    conf_applied: u64, // index up to which the node's configuration reflects the log (membership change being applied / snapshot restored), beyond `app.index`
}

pub struct Violation {
    pub prop: &'static str,
    pub text: String,
    pub step: u64,
}

#[derive(Clone, Debug)]
pub struct Params {
    pub seed: u64,
    pub steps: u64,
    pub reconfig: bool,
    pub emit_p: bool,
    pub verbose: bool,
    pub shape: Option<(usize, usize)>,
    pub lockstep: bool,
    pub stabilise: bool,
}

pub struct Sim {
    // directed faults, drawn from their own PRNG stream: one-way holds of a link (optionally of one message type
    // only: selective reordering), the lagging-acknowledgements scenario, one read request with an empty context
    rng2: Rng,
    held: Vec<(u64, u64, Option<MessageType>)>,
    empty_read_done: bool,
    stash_seen: u64,
    replaying_stash: bool,
    stash: Vec<Message>, // lock-step mode: copies of the (pre-)vote traffic seen so far, re-delivered later as stale duplicates
    transfer_ticks: HashMap<u64, u64>, // leader id -> ticks seen with the same pending transfer
    cur_what: String,                   // description of the library call being made
    pub nodes: Vec<Node>,
    net: Vec<Message>,
    rng: Rng,
    logger: Logger,
    pub history: Vec<String>,
    pub ptrace: Vec<String>,
    p_active: bool,
    pub p_end_reason: String,
    pub violations: Vec<Violation>,
    pub stats: BTreeMap<String, u64>,
    step_no: u64,
    params: Params,
    async_mode: bool,
    next_payload: u64,
    // monitors
    leaders: HashMap<u64, u64>,                       // term -> effective leader id
    committed: BTreeMap<u64, (u64, u64, u64)>,        // index -> (term, kind, digest) reported committed
    leader_committed: BTreeMap<u64, (u64, u64, u64)>, // index -> entry, recorded when a *leader* advanced its commit index over it
    leader_committed_in: BTreeMap<u64, u64>,          // index -> term of the leader that first committed it
    ref_app: BTreeMap<u64, (u64, ConfState)>,         // index -> (digest, cs) of the application state
    released_as_leader: HashMap<(u64, u64), u64>,     // (term, id) -> incarnation
    reads: HashMap<Vec<u8>, (u64, u64)>,              // ctx -> (issuing node, max commit at issue)
    max_commit: u64,
    seen_commit: HashMap<u64, u64>,
    last_conf: HashMap<u64, ConfState>,
}

fn ekey(e: &Entry) -> (u64, u64, u64) {
    (e.term, e.get_entry_type() as u64, bytes_digest(&e.data, &e.context))
}

fn fmt_entries(es: &[(u64, u64, u64)]) -> String {
    let mut s = format!("{}", es.len());
    for (t, k, d) in es {
        write!(s, " {} {} {}", t, k, d).unwrap();
    }
    s
}

fn fmt_ids(v: &[u64]) -> String {
    let mut v: Vec<u64> = v.to_vec();
    v.sort();
    let mut s = format!("{}", v.len());
    for x in v {
        write!(s, " {}", x).unwrap();
    }
    s
}

fn fmt_cfg(cs: &ConfState) -> String {
    format!("{} {}", fmt_ids(cs.get_voters()), fmt_ids(cs.get_voters_outgoing()))
}

fn det_timeout(seed: u64, id: u64, term: u64, role: StateRole) -> usize {
    6 + (mix(mix(mix(seed, id), term), role_p(role) + 17 * (role == StateRole::PreCandidate) as u64) % 6) as usize
}

fn pre_last_index(v: &View) -> u64 {
    v.first + v.entries.len() as u64 - 1
}

fn role_p(s: StateRole) -> u64 {
    match s {
        StateRole::Leader => 2,
        StateRole::Candidate => 1,
        _ => 0,
    }
}

fn mk_store(d: &Durable, cs0: &ConfState) -> SimStore {
    let mem = MemStorage::new();
    if d.snap.index > 0 {
        let mut s = Snapshot::default();
        let m = s.mut_metadata();
        m.index = d.snap.index;
        m.term = d.snap.term;
        m.set_conf_state(d.snap.cs.clone());
        mem.wl().apply_snapshot(s).unwrap();
    }
    if !d.entries.is_empty() {
        mem.wl().append(&d.entries).unwrap();
    }
    mem.wl().set_hardstate(d.hs.clone());
    // the configuration stored with the applied index (A4)
    let cs = if d.applied.index > 0 || d.snap.index > 0 { d.applied.cs.clone() } else { cs0.clone() };
    mem.wl().set_conf_state(cs);
    SimStore { mem, app: Arc::new(Mutex::new(d.applied.clone())), snap_unavailable: Arc::new(Mutex::new(false)) }
}

impl Sim {
    pub fn new(params: Params) -> Sim {
        let mut rng = Rng::new(params.seed);
        let (nvoters, nlearners) = params.shape.unwrap_or_else(|| {
            let v = match rng.below(10) { 0 => 1, 1 | 2 => 2, 3..=6 => 3, 7 => 4, _ => 5 };
            (v, rng.below(3) as usize)
        });
        let nspare = if params.reconfig { 1 } else { 0 };
        let total = nvoters + nlearners + nspare;
        let voters: Vec<u64> = (1..=nvoters as u64).collect();
        let learners: Vec<u64> = (nvoters as u64 + 1..=(nvoters + nlearners) as u64).collect();
        let cs = ConfState::from((voters.clone(), learners.clone()));
        let max_size_per_msg = if rng.chance(50) { u64::MAX } else { 30 + rng.below(60) };
        let base = Config {
            election_tick: 6,
            heartbeat_tick: 2,
            max_inflight_msgs: 1 + rng.below(4) as usize,
            max_size_per_msg,
            check_quorum: rng.chance(50),
            pre_vote: rng.chance(50),
            batch_append: rng.chance(30),
            skip_bcast_commit: rng.chance(20),
            max_committed_size_per_ready: if rng.chance(70) { u64::MAX } else { 40 + rng.below(100) },
            max_uncommitted_size: if max_size_per_msg == u64::MAX || rng.chance(60) { u64::MAX } else { max_size_per_msg + rng.below(200) },
            ..Default::default()
        };
        let mut base = base;
        if params.lockstep {
            // C16's setting: pre-vote and check-quorum on all nodes
            base.check_quorum = true;
            base.pre_vote = true;
        }
        let async_mode = rng.chance(60);
        let logger = Logger::root(Discard, o!());
        let mut nodes = vec![];
        for id in 1..=total as u64 {
            let member = id as usize <= nvoters + nlearners;
            let mut d = Durable::default();
            d.applied.cs = if member { cs.clone() } else { ConfState::default() };
            let mut cfg = base.clone();
            cfg.id = id;
            let store = mk_store(&d, &d.applied.cs.clone());
            let rn = if member {
                let mut r = RawNode::new(&cfg, store.clone(), &logger).unwrap();
                let t = det_timeout(params.seed, id, r.raft.term, r.raft.state);
                r.raft.set_randomized_election_timeout(t);
                Some(r)
            } else {
                None
            };
            let app = d.applied.clone();
            nodes.push(Node {
                id, rn, store, durable: d, pending: vec![], p_pending: 0, img_selfack: vec![], app, app_hist: VecDeque::new(), incarnation: 0, cfg, member,
                granted: BTreeSet::new(), granted_term: 0, deferred: None, released_req_term: 0, self_grant: None, handed: 0, conf_applied: 0, applied_emitted: 0, last_tv: (0, 0),
            });
        }
        let header = format!(
            "seed {} voters {:?} learners {:?} async {} cq {} pv {} batch {} inflight {} maxmsg {} reconfig {}",
            params.seed, voters, learners, async_mode, base.check_quorum, base.pre_vote, base.batch_append, base.max_inflight_msgs,
            base.max_size_per_msg, params.reconfig
        );
        let mut sim = Sim {
            nodes, net: vec![], rng, logger, history: vec![header], ptrace: vec![], p_active: params.emit_p,
            p_end_reason: String::new(), violations: vec![], stats: BTreeMap::new(), step_no: 0, params, async_mode,
            next_payload: 1, leaders: HashMap::new(), committed: BTreeMap::new(), leader_committed: BTreeMap::new(), leader_committed_in: BTreeMap::new(), ref_app: BTreeMap::new(),
            released_as_leader: HashMap::new(), reads: HashMap::new(), max_commit: 0, seen_commit: HashMap::new(),
            last_conf: HashMap::new(), transfer_ticks: HashMap::new(), cur_what: String::new(), stash: vec![], stash_seen: 0, replaying_stash: false,
            rng2: Rng::new(0), held: vec![], empty_read_done: false,
        };
        sim.rng2 = Rng::new(sim.params.seed ^ 0x5EED_FA17);
        if sim.p_active {
            sim.ptrace.push(format!("p new {} -> ok", sim.params.seed));
            // PC: the configuration the group is bootstrapped with is version 0 of the configuration table
            if let Some(c0) = sim.nodes.iter().find_map(|n| n.rn.as_ref().map(|r| r.raft.prs().conf().to_conf_state())) {
                sim.ptrace.push(format!("p ev cfginit {} -> ok", fmt_cfg(&c0)));
            }
        }
        sim
    }

    fn stat(&mut self, k: &str) {
        *self.stats.entry(k.to_string()).or_insert(0) += 1;
    }

    fn log(&mut self, s: String) {
        self.history.push(format!("[{}] {}", self.step_no, s));
    }

    fn violate(&mut self, prop: &'static str, text: String) {
        if self.violations.iter().any(|v| v.prop == prop && v.text == text) {
            return;
        }
        self.log(format!("VIOLATION {} {}", prop, text));
        if self.violations.len() < 20 {
            self.violations.push(Violation { prop, text, step: self.step_no });
        }
    }

    // -------------------------------------------------------------------------------------------
    // P trace

    /// the index up to which node `i`'s configuration reflects its log (PC's `applied`)
    fn applied_eff(&self, i: usize) -> u64 {
        self.nodes[i].app.index.max(self.nodes[i].conf_applied)
    }

    fn pev(&mut self, i: usize, ev: String) {
        if !self.p_active {
            return;
        }
        // PD: the application's progress (applied index) is reported before the next event of the node
        let a = self.applied_eff(i);
        if a > self.nodes[i].applied_emitted && self.nodes[i].rn.is_some() {
            self.nodes[i].applied_emitted = a;
            let ap = format!("apply {} {}", self.nodes[i].id, a);
            if let Some(q) = self.nodes[i].deferred.as_mut() {
                q.push(ap);
            } else {
                self.ptrace.push(format!("p ev {} -> ok", ap));
            }
        }
        if let Some(q) = self.nodes[i].deferred.as_mut() {
            q.push(ev);
        } else {
            self.ptrace.push(format!("p ev {} -> ok", ev));
        }
    }

    fn pev_now(&mut self, ev: String) {
        if self.p_active {
            self.ptrace.push(format!("p ev {} -> ok", ev));
        }
    }

    fn p_end(&mut self, why: &str) {
        if self.p_active {
            self.ptrace.push("p end -> ok".into());
            self.p_active = false;
            self.p_end_reason = why.to_string();
        }
    }

    fn view(&self, i: usize) -> Option<View> {
        let rn = self.nodes[i].rn.as_ref()?;
        let r = &rn.raft;
        let first = r.raft_log.first_index();
        let entries = r.raft_log.all_entries().iter().map(ekey).collect();
        let mut ro: Vec<(u64, u64)> = r.read_only.pending_read_index.iter().map(|(c, st)| (rid_of(c), st.index)).collect();
        ro.sort();
        let rstates = r.read_states.iter().map(|rs| (rid_of(&rs.request_ctx), rs.index)).collect();
        let mut prs: Vec<(u64, ProgressState, u64)> = r.prs().iter().map(|(id, p)| (*id, p.state, p.pending_snapshot)).collect();
        prs.sort_by_key(|x| x.0);
        Some(View { term: r.term, vote: r.vote, state: r.state, commit: r.raft_log.committed, first, entries, nmsgs: r.msgs.len(), ro, rstates, transferee: r.lead_transferee, prs })
    }

    fn pview(&mut self, i: usize) {
        if !self.p_active {
            return;
        }
        let n = &self.nodes[i];
        let d = &n.durable;
        let dents: Vec<(u64, u64, u64)> = d.entries.iter().map(ekey).collect();
        let dpart = format!("{} {} {} {} {}", d.hs.term, d.hs.vote, d.hs.commit, d.snap.index + 1, fmt_entries(&dents));
        let line = match self.view(i) {
            Some(v) => format!(
                "p view {} {} 1 {} {} {} {} {} {} {} -> ok",
                n.id, if n.deferred.is_some() { 1 } else { 0 }, v.term, v.vote, role_p(v.state), v.commit, v.first, fmt_entries(&v.entries), dpart
            ),
            None => format!("p view {} 0 0 0 0 0 0 1 0 {} -> ok", n.id, dpart),
        };
        self.ptrace.push(line);
    }

    /// term of the entry just below the first retained one (the snapshot / compaction point)
    fn boundary_term(&self, i: usize) -> u64 {
        let rn = self.nodes[i].rn.as_ref().unwrap();
        let f = rn.raft.raft_log.first_index();
        if f <= 1 { 0 } else { rn.raft.raft_log.term(f - 1).unwrap_or(0) }
    }

    fn effective(&self, i: usize) -> bool {
        let n = &self.nodes[i];
        match n.rn.as_ref() {
            Some(rn) => n.durable.hs.term == rn.raft.term && n.durable.hs.vote == n.id,
            None => false,
        }
    }

    fn app_from_msg(m: &Message) -> String {
        let es: Vec<(u64, u64, u64)> = m.entries.iter().map(ekey).collect();
        format!("{} {} {} {} {} {}", m.term, m.from, m.index, m.log_term, m.commit, fmt_entries(&es))
    }

    /// Decompose what one library call did to node `i` into P events.
    fn after_call(&mut self, i: usize, pre: &View, input: Option<&Message>) {
        let id = self.nodes[i].id;
        let Some(post) = self.view(i) else { return };
        let gen: Vec<Message> = self.nodes[i].rn.as_ref().unwrap().raft.msgs[pre.nmsgs.min(post.nmsgs)..].to_vec();
        let conf = self.nodes[i].rn.as_ref().unwrap().raft.prs().conf().to_conf_state();
        self.monitor_c16_c17(i, pre, &post, input, &gen);
        // PC: a membership-change entry was applied by this call: record the configuration it yields
        // (before the events of the call itself, which may already commit under the new configuration)
        if let Some(k) = self.cur_what.strip_prefix("apply_conf_change idx=") {
            let k = k.to_string();
            self.pev(i, format!("applyconf {} {} {}", id, k, fmt_cfg(&conf)));
        }
        // a deferred (not yet effective) leader that leaves leadership: outside P's fragment
        if self.nodes[i].deferred.is_some() && (post.state != StateRole::Leader || post.term != pre.term) {
            self.p_end("a leader whose self-vote was not yet durable left leadership");
        }
        if post.term > pre.term {
            self.pev(i, format!("bump {} {}", id, post.term));
            self.nodes[i].granted.clear();
        }
        let same_term = post.term == pre.term;
        if same_term && role_p(pre.state) != 0 && role_p(post.state) == 0 {
            self.pev(i, format!("stepdown {}", id));
        }
        if post.state == StateRole::Candidate && (!same_term || pre.state != StateRole::Candidate) {
            self.pev(i, format!("campaign {}", id));
            self.nodes[i].granted.clear();
            self.nodes[i].granted_term = post.term;
            self.nodes[i].self_grant = Some(post.term);
        }
        // a single-voter node may go follower -> candidate -> leader inside one call
        if post.state == StateRole::Leader && (pre.state != StateRole::Leader || !same_term) {
            if pre.state != StateRole::Candidate || !same_term {
                self.pev(i, format!("campaign {}", id));
                self.nodes[i].granted.clear();
                self.nodes[i].granted_term = post.term;
                self.nodes[i].self_grant = Some(post.term);
            }
            let mut q: Vec<u64> = self.nodes[i].granted.iter().cloned().collect();
            if let Some(m) = input {
                if m.get_msg_type() == MessageType::MsgRequestVoteResponse && !m.reject && m.term == post.term {
                    q.push(m.from);
                }
            }
            q.push(id);
            q.sort();
            q.dedup();
            if !self.effective(i) && self.p_active {
                self.nodes[i].deferred = Some(vec![]);
                self.stat("deferred_leader");
            }
            let applied = self.applied_eff(i);
            self.pev(i, format!("win {} {} {} {}", id, fmt_cfg(&conf), fmt_ids(&q), applied));
        }
        for m in &gen {
            if m.get_msg_type() == MessageType::MsgRequestVoteResponse && !m.reject {
                self.pev(i, format!("grant {} {}", id, m.to));
            }
            // C03 monitor: the election restriction, on every (pre-)vote grant
            if (m.get_msg_type() == MessageType::MsgRequestVoteResponse || m.get_msg_type() == MessageType::MsgRequestPreVoteResponse) && !m.reject {
                if let Some(req) = input {
                    if (req.get_msg_type() == MessageType::MsgRequestVote || req.get_msg_type() == MessageType::MsgRequestPreVote) && req.from == m.to {
                        let (vt, vi) = (pre.entries.last().map(|e| e.0).unwrap_or_else(|| self.boundary_term(i)), pre_last_index(pre));
                        if (req.log_term, req.index) < (vt, vi) {
                            self.violate("C03", format!("n{} granted {:?} to n{} whose last (term, index) = ({}, {}) is behind its own ({}, {})", id, m.get_msg_type(), m.to, req.log_term, req.index, vt, vi));
                        }
                    }
                }
            }
        }
        // C03 monitor: a new leader holds every entry that a leader of an EARLIER term committed
        if post.state == StateRole::Leader && (pre.state != StateRole::Leader || !same_term) {
            let last = post.first + post.entries.len() as u64 - 1;
            let mut missing = None;
            for (&idx, c) in self.leader_committed.iter() {
                if self.leader_committed_in.get(&idx).map_or(true, |t| *t >= post.term) || idx < post.first {
                    continue;
                }
                let have = if idx <= last { post.entries[(idx - post.first) as usize] } else { (0, 0, 0) };
                if have != *c {
                    missing = Some((idx, have, *c));
                    break;
                }
            }
            if let Some((idx, have, want)) = missing {
                self.violate("C03", format!("n{} became leader of term {} but at index {} (committed by the leader of term {}) it holds {:?} instead of {:?}", id, post.term, idx, self.leader_committed_in[&idx], have, want));
            }
        }
        // C09 monitors
        {
            let r = &self.nodes[i].rn.as_ref().unwrap().raft;
            let applied = r.raft_log.applied;
            // a leader's log never holds more than one membership-change entry beyond its applied index
            if post.state == StateRole::Leader {
                let n_cc = post.entries.iter().enumerate().filter(|(k, e)| post.first + *k as u64 > applied && e.1 != 0).count();
                if n_cc > 1 {
                    self.violate("C09", format!("leader n{} holds {} membership-change entries beyond its applied index {}", id, n_cc, applied));
                }
            }
            // an election started by timeout or by a transfer request: only by a voter of its own configuration,
            // and never while a committed membership change is still unapplied
            let started = matches!(post.state, StateRole::Candidate | StateRole::PreCandidate)
                && (pre.state != post.state || post.term != pre.term)
                && !(pre.state == StateRole::PreCandidate && post.state == StateRole::Candidate);
            let by_itself = match input { None => true, Some(m) => m.get_msg_type() == MessageType::MsgTimeoutNow };
            if started && by_itself {
                let is_voter = conf.get_voters().contains(&id) || conf.get_voters_outgoing().contains(&id);
                if !is_voter {
                    self.violate("C09", format!("n{} started an election although it is not a voter of its configuration {:?}/{:?}", id, conf.get_voters(), conf.get_voters_outgoing()));
                }
                let unapplied_cc = post.entries.iter().enumerate().any(|(k, e)| { let idx = post.first + k as u64; idx > applied && idx <= pre.commit && e.1 != 0 });
                if unapplied_cc {
                    self.violate("C09", format!("n{} started an election while a committed membership change is unapplied (applied {}, committed {})", id, applied, pre.commit));
                }
            }
        }
        // C13 monitors on the messages generated by this call
        for m in &gen {
            let r = &self.nodes[i].rn.as_ref().unwrap().raft;
            match m.get_msg_type() {
                MessageType::MsgAppend => {
                    // no append while a snapshot to that follower is outstanding: the leader was and stays leader of
                    // this term, the follower's progress was in the snapshot state before the call, and the call is
                    // neither the follower's acknowledgement of the snapshot index nor the application's report
                    if pre.state == StateRole::Leader && post.state == StateRole::Leader && same_term {
                        if let Some((_, _, pend)) = pre.prs.iter().find(|x| x.0 == m.to && x.1 == ProgressState::Snapshot) {
                            let excused = match input {
                                Some(im) => {
                                    (im.get_msg_type() == MessageType::MsgAppendResponse && im.from == m.to && !im.reject && im.index >= *pend)
                                        || im.get_msg_type() == MessageType::MsgSnapStatus
                                }
                                None => self.cur_what.starts_with("report_snapshot") || self.cur_what.starts_with("apply_conf") || self.cur_what.starts_with("misc"),
                            };
                            if !excused {
                                self.violate("C13", format!("leader n{} sent an append (prev {}, {} entries) to {} while the snapshot at index {} it sent is outstanding: not acknowledged, not reported (call: {})", id, m.index, m.entries.len(), m.to, pend, self.cur_what));
                            }
                        }
                    }
                    if m.commit > post.commit {
                        self.violate("C13", format!("n{} advertised commit {} in an append while its own commit index is {}", id, m.commit, post.commit));
                    }
                    let max = self.nodes[i].cfg.max_size_per_msg;
                    if !self.nodes[i].cfg.batch_append && m.entries.len() > 1 && max != u64::MAX {
                        let total: u64 = m.entries.iter().map(|e| e.compute_size() as u64).sum();
                        if total > max {
                            self.violate("C13", format!("n{} packed {} bytes of entries ({} entries) into one append, max_size_per_msg is {}", id, total, m.entries.len(), max));
                        }
                    }
                }
                MessageType::MsgHeartbeat => {
                    let matched = r.prs().get(m.to).map(|p| p.matched).unwrap_or(0);
                    if m.commit > post.commit || m.commit > matched {
                        self.violate("C13", format!("n{} advertised commit {} in a heartbeat to {} (own commit {}, follower matched {})", id, m.commit, m.to, post.commit, matched));
                    }
                }
                _ => {}
            }
        }
        // log
        let pre_last = pre.first + pre.entries.len() as u64 - 1;
        let post_last = post.first + post.entries.len() as u64 - 1;
        let mut handled_commit = false;
        if post.state == StateRole::Leader {
            if post_last > pre_last {
                for k in (pre_last + 1)..=post_last {
                    let e = post.entries[(k - post.first) as usize];
                    self.pev(i, format!("lappend {} {} {} {}", id, e.0, e.1, e.2));
                }
            }
        } else if let Some(m) = input {
            match m.get_msg_type() {
                MessageType::MsgAppend if m.term == post.term => {
                    let resp = gen.iter().find(|g| g.get_msg_type() == MessageType::MsgAppendResponse);
                    if let Some(r) = resp {
                        if !r.reject && m.index < pre.commit {
                            self.pev(i, format!("ackcommitted {}", id));
                        } else if !r.reject {
                            // PD: the append and the commit advance to min(m.commit, last new index) are one step
                            self.pev(i, format!("recvappc {} {}", id, Self::app_from_msg(m)));
                            if post.commit > pre.commit {
                                handled_commit = true;
                            }
                        }
                    }
                }
                MessageType::MsgSnapshot if m.term == post.term => {
                    let meta = m.get_snapshot().get_metadata();
                    let installed = post.first == meta.index + 1 && post.entries.is_empty() && (pre.first != post.first || !pre.entries.is_empty() || pre.commit < meta.index)
                        && self.nodes[i].rn.as_ref().unwrap().raft.raft_log.unstable_snapshot().as_ref().map_or(false, |s| s.get_metadata().index == meta.index);
                    if installed {
                        self.pev(i, format!("installsnap {} {} {} {}", id, m.term, meta.index, meta.term));
                        self.nodes[i].conf_applied = meta.index;
                        handled_commit = true;
                    } else if post.commit > pre.commit {
                        self.pev(i, format!("commitsnap {} {} {} {}", id, m.term, meta.index, meta.term));
                        handled_commit = true;
                        self.pev(i, format!("ackcommitted {}", id));
                    } else if gen.iter().any(|g| g.get_msg_type() == MessageType::MsgAppendResponse && !g.reject && g.index > 0) {
                        self.pev(i, format!("ackcommitted {}", id));
                    }
                }
                _ => {}
            }
        }
        if post.commit > pre.commit && !handled_commit {
            if post.state == StateRole::Leader {
                let r = &self.nodes[i].rn.as_ref().unwrap().raft;
                let mut q: Vec<u64> = r.prs().iter().filter(|(_, p)| p.matched >= post.commit).map(|(k, _)| *k).collect();
                q.sort();
                // the commit index is computed under the configuration in force after the call (a leader
                // may apply a membership change and commit under the new configuration in one call)
                let applied = self.applied_eff(i);
                self.pev(i, format!("commitleader {} {} {} {} {}", id, post.commit, fmt_cfg(&conf), fmt_ids(&q), applied));
            } else if let Some(m) = input {
                match m.get_msg_type() {
                    MessageType::MsgHeartbeat => self.pev(i, format!("commithb {} {} {} {}", id, post.commit, m.term, m.commit)),
                    MessageType::MsgRequestVote | MessageType::MsgRequestPreVote | MessageType::MsgRequestVoteResponse | MessageType::MsgRequestPreVoteResponse =>
                        self.pev(i, format!("commitclaim {} {} {}", id, m.commit, m.commit_term)),
                    MessageType::MsgReadIndexResp => self.pev(i, format!("commitclaim {} {} {}", id, m.index, m.term)),
                    _ => {}
                }
            }
        }
        self.emit_generated(i, &gen);
        // read-index layer: registrations, heartbeat confirmations, answers (after the commit events: a
        // request is registered with the commit index the leader has at that moment)
        {
            let cfgs = fmt_cfg(&conf);
            let mut started: Vec<u64> = pre.ro.iter().map(|x| x.0).collect();
            for (rid, _) in post.ro.iter().filter(|x| !pre.ro.contains(x)) {
                self.pev(i, format!("rstart {} {}", id, rid));
                started.push(*rid);
            }
            if gen.iter().any(|g| g.get_msg_type() == MessageType::MsgHeartbeatResponse && !g.context.is_empty()) {
                self.pev(i, format!("rhback {}", id));
            }
            for g in gen.iter().filter(|g| g.get_msg_type() == MessageType::MsgReadIndexResp) {
                let rid = g.entries.first().map(|e| rid_of(&e.data)).unwrap_or(0);
                if !started.contains(&rid) {
                    // registered and answered within one call (a leader that is the only voter)
                    self.pev(i, format!("rstart {} {}", id, rid));
                    started.push(rid);
                }
                let applied = self.applied_eff(i);
                self.pev(i, format!("rresp {} {} {} {} {}", id, rid, g.index, cfgs, applied));
            }
            if post.rstates.len() > pre.rstates.len() {
                for (rid, idx) in post.rstates[pre.rstates.len()..].to_vec() {
                    if post.state == StateRole::Leader && !started.contains(&rid) {
                        self.pev(i, format!("rstart {} {}", id, rid));
                        started.push(rid);
                    }
                    let applied = self.applied_eff(i);
                    self.pev(i, format!("rstate {} {} {} {} {}", id, rid, idx, cfgs, applied));
                }
            }
        }
        // C04 monitor, evaluated on exactly the call that moved a leader's commit index
        if post.commit > pre.commit && post.state == StateRole::Leader && pre.state == StateRole::Leader && same_term {
            let c = post.commit;
            let ct = post.entries.get((c - post.first) as usize).map(|e| e.0).unwrap_or(0);
            let prevc = self.last_conf.get(&id).cloned().unwrap_or_else(|| conf.clone());
            let ok_under = |cs: &ConfState| -> bool {
                for half in [cs.get_voters().to_vec(), cs.get_voters_outgoing().to_vec()] {
                    if half.is_empty() {
                        continue;
                    }
                    let have = half.iter().filter(|v| self.nodes.get(**v as usize - 1).map_or(false, |n| n.durable.snap.index >= c || n.durable.entries.iter().any(|e| e.index == c && e.term == ct))).count();
                    if have < half.len() / 2 + 1 {
                        return false;
                    }
                }
                true
            };
            if c >= post.first && ct != post.term {
                self.violate("C04", format!("leader n{} of term {} advanced its commit index to {} whose entry has term {}", id, post.term, c, ct));
            } else if c >= post.first && !ok_under(&conf) && !ok_under(&prevc) {
                self.violate("C04", format!("leader n{} committed index {} (term {}) without a durable majority of {:?}/{:?}", id, c, ct, conf.get_voters(), conf.get_voters_outgoing()));
            }
        }
        // C04 (non-leader half): a non-leader's commit index never moves over an entry that no leader committed
        if post.commit > pre.commit {
            let lo = (pre.commit + 1).max(post.first);
            if post.state == StateRole::Leader {
                for idx in lo..=post.commit {
                    if let Some(e) = post.entries.get((idx - post.first) as usize) {
                        self.leader_committed.entry(idx).or_insert(*e);
                        self.leader_committed_in.entry(idx).or_insert(post.term);
                    }
                }
            } else if pre.state != StateRole::Leader {
                for idx in lo..=post.commit {
                    if let Some(e) = post.entries.get((idx - post.first) as usize) {
                        match self.leader_committed.get(&idx) {
                            Some(c) if c == e => {}
                            Some(c) => {
                                self.violate("C04", format!("non-leader n{} advanced its commit index to {} over entry {:?} at index {}, but the leader committed {:?} there", id, post.commit, e, idx, c));
                                break;
                            }
                            None => {
                                self.violate("C04", format!("non-leader n{} advanced its commit index to {} over index {} ({:?}) which no leader has committed", id, post.commit, idx, e));
                                break;
                            }
                        }
                    }
                }
            }
        }
        self.last_conf.insert(id, conf);
        let changed = post.term != pre.term || post.vote != pre.vote || post.state != pre.state || post.commit != pre.commit
            || post.first != pre.first || post.entries.len() != pre.entries.len() || !gen.is_empty();
        if changed {
            self.pview(i);
        }
    }

    /// node-level monitors of C16 (pre-vote / term discipline) and C17 (leadership transfer), evaluated on
    /// exactly the call that did it
    fn monitor_c16_c17(&mut self, i: usize, pre: &View, post: &View, input: Option<&Message>, gen: &[Message]) {
        let id = self.nodes[i].id;
        let what = self.cur_what.clone();
        let pre_vote = self.nodes[i].cfg.pre_vote;
        let election_tick = self.nodes[i].cfg.election_tick as u64;
        // ---- C16
        if let Some(m) = input {
            if m.get_msg_type() == MessageType::MsgRequestPreVote && (post.term != pre.term || post.vote != pre.vote) {
                self.violate("C16", format!("n{} changed (term, vote) from ({}, {}) to ({}, {}) while handling a pre-vote request of n{} for term {}", id, pre.term, pre.vote, post.term, post.vote, m.from, m.term));
            }
        }
        if post.term > pre.term {
            let told = input.map_or(false, |m| {
                m.term == post.term
                    && m.get_msg_type() != MessageType::MsgRequestPreVote
                    && !(m.get_msg_type() == MessageType::MsgRequestPreVoteResponse && !m.reject)
            });
            let alone = {
                let r = &self.nodes[i].rn.as_ref().unwrap().raft;
                let c = r.prs().conf().to_conf_state();
                let ok_half = |h: &[u64]| h.is_empty() || (h.len() == 1 && h[0] == id);
                ok_half(c.get_voters()) && ok_half(c.get_voters_outgoing())
            };
            let campaigned = post.term == pre.term + 1 && (post.state == StateRole::Candidate || post.state == StateRole::Leader);
            let won_prevote = pre.state == StateRole::PreCandidate
                && input.map_or(false, |m| m.get_msg_type() == MessageType::MsgRequestPreVoteResponse && !m.reject);
            let forced = input.map_or(false, |m| m.get_msg_type() == MessageType::MsgTimeoutNow);
            let explained = told || (campaigned && (!pre_vote || won_prevote || forced || alone));
            if !explained {
                self.violate("C16", format!("n{} raised its term from {} to {} ({:?} -> {:?}) without being told of that term and without a won pre-vote (call: {}, input {:?})", id, pre.term, post.term, pre.state, post.state, what, input.map(|m| (m.get_msg_type(), m.from, m.term, m.reject))));
            }
        }
        // ---- C17
        for g in gen.iter().filter(|g| g.get_msg_type() == MessageType::MsgTimeoutNow) {
            let r = &self.nodes[i].rn.as_ref().unwrap().raft;
            let matched = r.prs().get(g.to).map(|p| p.matched).unwrap_or(0);
            let last = r.raft_log.last_index();
            if matched != last {
                self.violate("C17", format!("leader n{} told n{} to campaign at once although it has acknowledged index {} of the leader's log (last index {})", id, g.to, matched, last));
            }
        }
        let pre_last = pre.first + pre.entries.len() as u64 - 1;
        let post_last = post.first + post.entries.len() as u64 - 1;
        let proposing = what.starts_with("propose") || input.map_or(false, |m| m.get_msg_type() == MessageType::MsgPropose);
        if proposing && pre.state == StateRole::Leader && pre.transferee.is_some() && post.state == StateRole::Leader && post.term == pre.term && post_last > pre_last {
            self.violate("C17", format!("leader n{} accepted a proposal (last index {} -> {}) while a transfer to n{} is pending", id, pre_last, post_last, pre.transferee.unwrap()));
        }
        if post.state == StateRole::Leader && post.transferee.is_some() && post.transferee == pre.transferee && post.term == pre.term {
            if what == "tick" {
                let c = self.transfer_ticks.entry(id).or_insert(0);
                *c += 1;
                if *c > election_tick {
                    let c = *c;
                    self.violate("C17", format!("leader n{} still has a transfer to n{} pending after {} ticks (election timeout {})", id, post.transferee.unwrap(), c, election_tick));
                }
            }
        } else {
            self.transfer_ticks.remove(&id);
        }
        if post.state != StateRole::Leader && post.transferee.is_some() {
            self.violate("C17", format!("n{} is {:?} but still records a pending transfer to n{}", id, post.state, post.transferee.unwrap()));
        }
        // the transfer is abandoned when the target leaves the voters (removed or demoted to learner)
        if let (StateRole::Leader, Some(t)) = (post.state, post.transferee) {
            let r = &self.nodes[i].rn.as_ref().unwrap().raft;
            if !r.prs().conf().voters().contains(t) {
                self.violate("C17", format!("leader n{} still has a transfer to n{} pending although n{} is not a voter of its configuration any more", id, t, t));
            }
        }
        if let Some(t) = what.strip_prefix("transfer_leader ").and_then(|x| x.parse::<u64>().ok()) {
            if input.is_none() && pre.state == StateRole::Leader {
                let r = &self.nodes[i].rn.as_ref().unwrap().raft;
                let is_voter = r.prs().conf().voters().contains(t);
                if !is_voter && (post.transferee != pre.transferee || gen.iter().any(|g| g.get_msg_type() == MessageType::MsgTimeoutNow)) {
                    self.violate("C17", format!("leader n{} acted on a transfer request naming n{}, which is not a voter (transferee {:?} -> {:?})", id, t, pre.transferee, post.transferee));
                }
                if t == id && !(post.transferee.is_none() || post.transferee == pre.transferee) {
                    self.violate("C17", format!("leader n{} started a transfer to itself", id));
                }
            }
        }
    }

    /// generation-time events of leader messages and of commit evidence
    fn emit_generated(&mut self, i: usize, gen: &[Message]) {
        let id = self.nodes[i].id;
        for m in gen {
            match m.get_msg_type() {
                MessageType::MsgAppend => self.pev(i, format!("sendapp {} {}", id, Self::app_from_msg(m))),
                MessageType::MsgHeartbeat => self.pev(i, format!("sendhb {} {} {}", id, m.to, m.commit)),
                MessageType::MsgSnapshot => self.pev(i, format!("sendsnap {} {}", id, m.get_snapshot().get_metadata().index)),
                MessageType::MsgRequestVote | MessageType::MsgRequestPreVote | MessageType::MsgRequestVoteResponse | MessageType::MsgRequestPreVoteResponse
                    if m.commit > 0 && m.commit_term > 0 => self.pev(i, format!("claim {} {}", id, m.commit)),
                MessageType::MsgReadIndexResp => self.pev(i, format!("claim {} {}", id, m.index)),
                _ => {}
            }
        }
    }

    // -------------------------------------------------------------------------------------------
    // calls into the library

    fn call<R>(&mut self, i: usize, what: &str, input: Option<&Message>, f: impl FnOnce(&mut RawNode<SimStore>) -> R) -> Option<R> {
        let desc = format!("n{} {}", self.nodes[i].id, what);
        if self.params.verbose {
            self.log(desc.clone());
        }
        let pre = self.view(i)?;
        self.cur_what = what.to_string();
        let seed = self.params.seed;
        let rn = self.nodes[i].rn.as_mut()?;
        let queued: Vec<Message> = rn.raft.msgs.clone();
        let before = rn.raft.randomized_election_timeout();
        match catch_unwind(AssertUnwindSafe(|| f(rn))) {
            Ok(r) => {
                // the library draws the randomized election timeout from thread_rng; make it a function of
                // (seed, node, term, role) so that a run replays exactly
                let _ = before;
                let t = det_timeout(seed, rn.raft.id, rn.raft.term, rn.raft.state);
                rn.raft.set_randomized_election_timeout(t);
                // with batch_append an already queued MsgAppend may have been extended by this call
                let now = &self.nodes[i].rn.as_ref().unwrap().raft.msgs;
                let modified: Vec<Message> = queued.iter().zip(now.iter()).filter(|(a, b)| a != b).map(|(_, b)| b.clone()).collect();
                self.after_call(i, &pre, input);
                if !modified.is_empty() {
                    self.emit_generated(i, &modified);
                }
                Some(r)
            }
            Err(e) => {
                let msg = e.downcast_ref::<String>().cloned().or_else(|| e.downcast_ref::<&str>().map(|s| s.to_string())).unwrap_or_default();
                let first = msg.lines().next().unwrap_or("").to_string();
                if !self.params.verbose {
                    self.log(desc.clone());
                }
                self.violate("C20", format!("PANIC in {}: {}", desc, first));
                // the node object may be inconsistent now: treat as a crash
                self.p_end("panic");
                self.nodes[i].rn = None;
                self.nodes[i].pending.clear();
                None
            }
        }
    }

    fn apply_entries(&mut self, i: usize, ents: Vec<Entry>) {
        for e in ents {
            let id = self.nodes[i].id;
            {
                let n = &self.nodes[i];
                let limit = n.cfg.max_apply_unpersisted_log_limit;
                let not_durable = limit == 0 && !n.durable.entries.iter().any(|d| d.index == e.index && d.term == e.term) && e.index > n.durable.snap.index;
                let handed = n.handed;
                if not_durable {
                    self.violate("C07", format!("n{} handed out entry ({},{}) that is not in its durable log", id, e.index, e.term));
                }
                if e.index != handed + 1 {
                    self.violate("C07", format!("n{} handed out index {} after {} (gap or duplicate)", id, e.index, handed));
                }
            }
            self.nodes[i].handed = e.index;
            let key = ekey(&e);
            if let Some(prev) = self.committed.get(&e.index) {
                if *prev != key {
                    self.violate("C01", format!("divergence at index {}: n{} applies {:?}, earlier report {:?}", e.index, id, key, prev));
                }
            } else {
                self.committed.insert(e.index, key);
            }
            if e.index <= self.nodes[i].app.index {
                continue; // re-delivery after restart: already reflected in the application state
            }
            let ty = e.get_entry_type();
            let mut cs = self.nodes[i].app.cs.clone();
            if ty != EntryType::EntryNormal {
                let cc: ConfChangeV2 = if ty == EntryType::EntryConfChange {
                    let mut c = ConfChange::default();
                    c.merge_from_bytes(&e.data).unwrap();
                    raft_proto::ConfChangeI::into_v2(c)
                } else {
                    let mut c = ConfChangeV2::default();
                    c.merge_from_bytes(&e.data).unwrap();
                    c
                };
                self.nodes[i].conf_applied = e.index;
                let r = self.call(i, &format!("apply_conf_change idx={}", e.index), None, |rn| rn.apply_conf_change(&cc));
                if let Some(Ok(ncs)) = r {
                    self.nodes[i].store.mem.wl().set_conf_state(ncs.clone());
                    cs = ncs;
                }
            }
            let n = &mut self.nodes[i];
            n.app = AppRec { index: e.index, term: e.term, cs, digest: entry_digest(n.app.digest, &e) };
            *n.store.app.lock().unwrap() = n.app.clone();
            n.app_hist.push_back(n.app.clone());
            let (dg, cs) = (n.app.digest, n.app.cs.clone());
            match self.ref_app.get(&e.index).cloned() {
                Some((d0, cs0)) => {
                    let (d0, cs0) = (&d0, &cs0);
                    if *d0 != dg {
                        self.violate("C01", format!("application state of n{} at index {} differs from another node's", id, e.index));
                    }
                    if !raft_proto::conf_state_eq(cs0, &cs) {
                        self.violate("C09", format!("configuration of n{} at applied index {} is {:?}, another node had {:?}", id, e.index, cs, cs0));
                    }
                }
                None => {
                    self.ref_app.insert(e.index, (dg, cs));
                }
            }
        }
    }

    fn advance_apply(&mut self, i: usize) {
        let idx = self.nodes[i].handed;
        if self.nodes[i].rn.as_ref().map_or(false, |r| r.raft.raft_log.applied < idx) {
            self.call(i, &format!("advance_apply_to {}", idx), None, |rn| rn.advance_apply_to(idx));
        }
    }

    fn durable_write(&mut self, i: usize, w: &Writes) {
        let n = &mut self.nodes[i];
        n.durable.apply(w);
        // application progress becomes durable only up to the durable commit index (A4)
        while let Some(a) = n.app_hist.front() {
            if a.index <= n.durable.hs.commit && a.index <= n.durable.last() {
                n.durable.applied = n.app_hist.pop_front().unwrap();
            } else {
                break;
            }
        }
    }

    /// physical release of messages
    fn send(&mut self, i: usize, msgs: Vec<Message>) {
        for m in msgs {
            let id = self.nodes[i].id;
            let t = m.get_msg_type();
            let d_term = self.nodes[i].durable.hs.term;
            let d_vote = self.nodes[i].durable.hs.vote;
            let leader_traffic = matches!(t, MessageType::MsgAppend | MessageType::MsgHeartbeat | MessageType::MsgSnapshot | MessageType::MsgTimeoutNow | MessageType::MsgReadIndexResp);
            // ---- C06 monitors: promises are durable before they are released
            let exempt = matches!(t, MessageType::MsgRequestPreVote | MessageType::MsgPropose | MessageType::MsgReadIndex | MessageType::MsgTransferLeader)
                || (t == MessageType::MsgRequestPreVoteResponse && !m.reject);
            if !exempt && m.term > d_term {
                self.violate("C06", format!("n{} released {:?} of term {} to {} while its durable term is {}", id, t, m.term, m.to, d_term));
            }
            if t == MessageType::MsgRequestVoteResponse && !m.reject && d_term == m.term && d_vote != m.to {
                self.violate("C06", format!("n{} released a vote grant to {} for term {} but its durable vote is {}", id, m.to, m.term, d_vote));
            }
            if (t == MessageType::MsgRequestVote || leader_traffic) && d_term == m.term && d_vote != id {
                self.violate("C06", format!("n{} released {:?} of term {} but its durable vote in that term is {}", id, t, m.term, d_vote));
            }
            if t == MessageType::MsgAppendResponse && !m.reject && d_term == m.term && m.index > self.nodes[i].durable.last() {
                self.violate("C06", format!("n{} acknowledged index {} but its durable log ends at {}", id, m.index, self.nodes[i].durable.last()));
            }
            if leader_traffic {
                let inc = self.nodes[i].incarnation;
                self.released_as_leader.entry((m.term, id)).or_insert(inc);
            }
            // ---- C13: appends are contiguous
            if t == MessageType::MsgAppend {
                let mut expect = m.index + 1;
                for e in m.entries.iter() {
                    if e.index != expect {
                        self.violate("C13", format!("n{} released an append anchored at {} whose entries are not contiguous: {:?}", id, m.index, m.entries.iter().map(|e| e.index).collect::<Vec<_>>()));
                        break;
                    }
                    expect += 1;
                }
            }
            // ---- P: release events of promise-carrying messages
            if self.p_active {
                if leader_traffic && self.nodes[i].deferred.is_some() {
                    // released before the leadership it rests on is durable: let P judge it
                    match t {
                        MessageType::MsgAppend => self.pev_now(format!("sendapp {} {}", id, Self::app_from_msg(&m))),
                        MessageType::MsgHeartbeat => self.pev_now(format!("sendhb {} {} {}", id, m.to, m.commit)),
                        _ => self.pev_now(format!("sendhb {} {} 0", id, m.to)),
                    }
                }
                match t {
                    MessageType::MsgRequestVote => {
                        if self.nodes[i].released_req_term != m.term {
                            self.nodes[i].released_req_term = m.term;
                            self.pev_now(format!("release {} req {} {}", id, m.term, id));
                        }
                    }
                    MessageType::MsgRequestVoteResponse if !m.reject => self.pev_now(format!("release {} grant {} {} {}", id, m.term, id, m.to)),
                    MessageType::MsgAppendResponse if !m.reject && m.index > 0 => self.pev_now(format!("release {} ack {} {} {}", id, m.term, id, m.index)),
                    _ => {}
                }
            }
            self.stat(&format!("sent.{:?}", t));
            self.net.push(m);
        }
    }

    /// P `rdy`: an image of the volatile state; a (P-)leader first generates its own acknowledgement
    /// for everything this image will make durable
    fn rdy_event(&mut self, i: usize) {
        let id = self.nodes[i].id;
        let mut sa = None;
        if let Some(rn) = self.nodes[i].rn.as_ref() {
            if rn.raft.state == StateRole::Leader && self.nodes[i].deferred.is_none() {
                let (t, last) = (rn.raft.term, rn.raft.raft_log.last_index());
                sa = Some((t, last));
            }
        }
        if let Some((_, last)) = sa {
            self.pev_now(format!("ackself {} {}", id, last));
        }
        self.pev_now(format!("rdy {}", id));
        self.nodes[i].p_pending += 1;
        self.nodes[i].img_selfack.push(sa);
    }

    fn persist_event(&mut self, i: usize, n_images: usize) {
        if n_images == 0 {
            return;
        }
        let id = self.nodes[i].id;
        self.pev_now(format!("persist {} {}", id, n_images));
        self.nodes[i].p_pending -= n_images;
        let ncov = n_images.min(self.nodes[i].img_selfack.len());
        let covered: Vec<Option<(u64, u64)>> = self.nodes[i].img_selfack.drain(..ncov).collect();
        // the self-vote of a campaign is released (counts for `win`) once it is durable
        if let Some(t) = self.nodes[i].self_grant {
            let d = &self.nodes[i].durable.hs;
            if d.term == t && d.vote == id {
                self.nodes[i].self_grant = None;
                self.pev_now(format!("release {} grant {} {} {}", id, t, id, id));
            } else if d.term > t {
                self.nodes[i].self_grant = None;
            }
        }
        // a leader whose self-vote has just become durable: admit its queued events now
        if self.nodes[i].deferred.is_some() && self.effective(i) {
            let q = self.nodes[i].deferred.take().unwrap();
            for ev in q {
                self.pev_now(ev);
            }
            // bring P's durable image up to the volatile state that was physically persisted
            self.rdy_event(i);
            self.pev_now(format!("persist {} 1", id));
            self.nodes[i].p_pending -= 1;
            if let Some(Some((t, idx))) = self.nodes[i].img_selfack.pop() {
                self.pev_now(format!("release {} ack {} {} {}", id, t, id, idx));
            }
        }
        // the leader's own acknowledgements covered by the images that just became durable
        if let Some(Some((t, idx))) = covered.iter().rev().find(|x| x.is_some()) {
            self.pev_now(format!("release {} ack {} {} {}", id, t, id, idx));
        }
        self.pview(i);
    }

    fn process_ready(&mut self, i: usize) {
        if self.nodes[i].rn.is_none() || !self.nodes[i].rn.as_ref().unwrap().has_ready() {
            return;
        }
        let id = self.nodes[i].id;
        // asynchronous apply: the application may report applied indexes late (advance_apply_to)
        self.advance_apply(i);
        let lag = self.rng.chance(30);
        let Some(mut rd) = self.call(i, "ready", None, |rn| rn.ready()) else { return };
        self.rdy_event(i);
        let is_async = self.async_mode && self.rng.chance(60) && self.nodes[i].deferred.is_none();
        if self.params.verbose {
            self.log(format!(
                "   rd#{} hs={:?} snap={} ents={:?} imm={} pers={} commits={:?}",
                rd.number(), rd.hs().map(|h| (h.term, h.vote, h.commit)), rd.snapshot().get_metadata().index,
                rd.entries().iter().map(|e| (e.index, e.term)).collect::<Vec<_>>(), rd.messages().len(), rd.persisted_messages().len(),
                rd.committed_entries().iter().map(|e| e.index).collect::<Vec<_>>()
            ));
        }
        // ---- C07 monitors on the Ready itself
        {
            // a Ready that carries new entries, a snapshot, or a hard state with a new term or vote must demand a
            // synchronous write: the application may send its persisted messages (grants, acknowledgements) after
            // an asynchronous write that a crash loses
            let (lt, lv) = self.nodes[i].last_tv;
            let tv_changed = rd.hs().map_or(false, |h| h.term != lt || h.vote != lv);
            let must = !rd.entries().is_empty() || !rd.snapshot().is_empty() || tv_changed;
            if must && !rd.must_sync() {
                let what = format!(
                    "n{} Ready #{} carries {} but must_sync() is false (hard state {:?}, previous term/vote ({}, {}))",
                    id, rd.number(), if tv_changed { "a new term or vote" } else { "entries or a snapshot" }, rd.hs().map(|h| (h.term, h.vote, h.commit)), lt, lv
                );
                for p in ["C07", "C06", "C02"] {
                    self.violate(p, what.clone());
                }
            }
            if let Some(h) = rd.hs() {
                self.nodes[i].last_tv = (h.term, h.vote);
            }
        }
        for rs in rd.read_states().clone() {
            match self.reads.get(&rs.request_ctx) {
                Some(&(who, m)) => {
                    if who != id {
                        self.violate("C08", format!("read state for a request issued on n{} surfaced on n{}", who, id));
                    }
                    if rs.index < m {
                        self.violate("C08", format!("stale read: n{} got read index {} for a request issued when some node had commit {}", id, rs.index, m));
                    }
                }
                None => self.violate("C08", format!("unknown read context surfaced on n{}", id)),
            }
            self.stat("read_states");
        }
        let imm = rd.take_messages();
        self.send(i, imm);
        let mut w = Writes { entries: rd.entries().clone(), hs: rd.hs().cloned(), ..Default::default() };
        if !rd.snapshot().is_empty() {
            w.snapshot = Some(rd.snapshot().clone());
        }
        // cache write: readable through Storage at once, durable only after fsync
        {
            let n = &mut self.nodes[i];
            if let Some(s) = &w.snapshot {
                let meta = s.get_metadata().clone();
                let mut d = [0u8; 8];
                d.copy_from_slice(&s.get_data()[..8]);
                let _ = n.store.mem.wl().apply_snapshot(s.clone());
                n.app = AppRec { index: meta.index, term: meta.term, cs: meta.get_conf_state().clone(), digest: u64::from_le_bytes(d) };
                *n.store.app.lock().unwrap() = n.app.clone();
                n.app_hist.clear();
                n.handed = meta.index;
            }
            n.store.mem.wl().append(&w.entries).unwrap();
            if let Some(hs) = &w.hs {
                let c = n.store.mem.rl().hard_state().commit;
                let _ = c;
                n.store.mem.wl().set_hardstate(hs.clone());
            }
        }
        if let Some(s) = &w.snapshot {
            // C15 monitor: the installed state is the state of a node that applied the log up to the index
            let meta = s.get_metadata();
            let dg = self.nodes[i].app.digest;
            match self.ref_app.get(&meta.index) {
                Some((d0, cs0)) => {
                    if *d0 != dg || !raft_proto::conf_state_eq(cs0, meta.get_conf_state()) {
                        self.violate("C15", format!("n{} installed a snapshot at {} whose state/configuration differs from applying the log", id, meta.index));
                    }
                }
                None => self.violate("C15", format!("n{} installed a snapshot at {} that no node ever applied to", id, meta.index)),
            }
            self.stat("snapshot_installed");
        }
        let pers = rd.take_persisted_messages();
        let ces = rd.take_committed_entries();
        let number = rd.number();
        if is_async {
            self.call(i, "advance_append_async", None, |rn| rn.advance_append_async(rd));
            self.apply_entries(i, ces);
            if !lag {
                self.advance_apply(i);
            }
            self.nodes[i].pending.push(Pending { number, msgs: pers, writes: w });
            self.stat("ready_async");
        } else {
            let olds: Vec<Pending> = self.nodes[i].pending.drain(..).collect();
            let k = olds.len() + 1;
            let mut held: Vec<Message> = vec![];
            for p in olds {
                self.durable_write(i, &p.writes);
                held.extend(p.msgs);
            }
            self.durable_write(i, &w);
            self.persist_event(i, k);
            held.extend(pers);
            let Some(mut light) = self.call(i, "advance_append", None, |rn| rn.advance_append(rd)) else { return };
            // messages generated inside advance_append were moved into the LightReady
            let lmsgs: Vec<Message> = light.messages().to_vec();
            self.emit_generated(i, &lmsgs);
            self.send(i, held);
            // the commit index of the LightReady becomes durable before anything is applied (A4)
            if let Some(c) = light.commit_index() {
                self.nodes[i].store.mem.wl().mut_hard_state().commit = c;
                self.rdy_event(i);
                self.durable_write(i, &Writes { commit: Some(c), ..Default::default() });
                self.persist_event(i, 1);
            }
            self.apply_entries(i, ces);
            if !lag {
                self.advance_apply(i);
            }
            let lm = light.take_messages();
            self.send(i, lm);
            let lces = light.take_committed_entries();
            self.apply_entries(i, lces);
            if !lag {
                self.advance_apply(i);
            }
            self.stat("ready_sync");
        }
    }

    fn fsync(&mut self, i: usize) {
        if self.nodes[i].rn.is_none() || self.nodes[i].pending.is_empty() {
            return;
        }
        let k = 1 + self.rng.below(self.nodes[i].pending.len() as u64) as usize;
        let ps: Vec<Pending> = self.nodes[i].pending.drain(..k).collect();
        let number = ps.last().unwrap().number;
        for p in &ps {
            self.durable_write(i, &p.writes);
        }
        self.persist_event(i, k);
        self.call(i, &format!("on_persist_ready {}", number), None, |rn| rn.on_persist_ready(number));
        for p in ps {
            self.send(i, p.msgs);
        }
        self.stat("fsync");
    }

    fn crash(&mut self, i: usize) {
        if self.nodes[i].rn.is_none() {
            return;
        }
        let id = self.nodes[i].id;
        self.log(format!("n{} CRASH (pending readies lost: {})", id, self.nodes[i].pending.len()));
        self.nodes[i].rn = None;
        self.nodes[i].pending.clear();
        self.nodes[i].p_pending = 0;
        self.nodes[i].img_selfack.clear();
        self.nodes[i].deferred = None;
        self.nodes[i].self_grant = None;
        self.pev_now(format!("crash {}", id));
        self.stat("crash");
    }

    fn restart(&mut self, i: usize) {
        self.start_node(i, true);
    }

    fn start_node(&mut self, i: usize, is_restart: bool) {
        if self.nodes[i].rn.is_some() || !self.nodes[i].member {
            return;
        }
        let d = self.nodes[i].durable.clone();
        let store = mk_store(&d, &d.applied.cs);
        let mut cfg = self.nodes[i].cfg.clone();
        cfg.applied = d.applied.index;
        let id = self.nodes[i].id;
        self.log(format!("n{} RESTART hs=({},{},{}) snap={} last={} applied={}", id, d.hs.term, d.hs.vote, d.hs.commit, d.snap.index, d.last(), d.applied.index));
        let logger = self.logger.clone();
        let s2 = store.clone();
        let rn = match catch_unwind(AssertUnwindSafe(|| RawNode::new(&cfg, s2, &logger))) {
            Ok(Ok(r)) => r,
            Ok(Err(e)) => {
                self.violate("C20", format!("n{} RawNode::new failed on restart: {:?}", id, e));
                return;
            }
            Err(_) => {
                self.violate("C20", format!("PANIC in n{} RawNode::new on restart", id));
                self.p_end("panic");
                return;
            }
        };
        let mut rn = rn;
        let t = det_timeout(self.params.seed, id, rn.raft.term, rn.raft.state);
        rn.raft.set_randomized_election_timeout(t);
        let n = &mut self.nodes[i];
        n.rn = Some(rn);
        n.store = store;
        n.app = d.applied.clone();
        n.app_hist.clear();
        n.handed = d.applied.index;
        n.conf_applied = 0;
        n.last_tv = (d.hs.term, d.hs.vote);
        // a restart reports its applied index with the `restart` event; a freshly bootstrapped node with the next event
        n.applied_emitted = if is_restart { d.applied.index } else { 0 };
        n.incarnation += 1;
        n.granted.clear();
        n.released_req_term = 0;
        if is_restart {
            self.pev_now(format!("restart {} {}", id, d.applied.index));
        }
        let conf = self.nodes[i].rn.as_ref().unwrap().raft.prs().conf().to_conf_state();
        self.last_conf.insert(id, conf);
        self.pview(i);
        self.stat("restart");
    }

    fn compact(&mut self, i: usize) {
        let n = &mut self.nodes[i];
        if n.rn.is_none() || !n.pending.is_empty() {
            return;
        }
        let a = n.durable.applied.clone();
        if a.index <= n.durable.snap.index || a.index >= n.durable.last() || a.index >= n.app.index.min(n.rn.as_ref().unwrap().raft.raft_log.applied) + 1 {
            return;
        }
        // durable: snapshot point moves to the durable applied index; volatile cache: same compaction
        n.durable.entries.retain(|e| e.index > a.index);
        n.durable.snap = a.clone();
        // MemStorage forgets the term at first_index-1 (storage.rs: `term` answers Compacted there),
        // which the library needs for commit_info(): keep the boundary entry in the live cache
        let _ = n.store.mem.wl().compact(a.index);
        let id = n.id;
        self.log(format!("n{} COMPACT to {}", id, a.index));
        self.stat("compact");
        self.pview(i);
    }

    fn deliver(&mut self, k: usize, dup: bool) {
        // forwarded read requests are never duplicated: a re-delivered MsgReadIndex is registered again
        // under its old context and old heartbeat responses then confirm it (finding F17, recorded with
        // its own reproduction in findings/F17; every other message type is duplicated freely)
        let dup = dup && self.net[k].get_msg_type() != MessageType::MsgReadIndex;
        let m = if dup { self.net[k].clone() } else { self.net.swap_remove(k) };
        if self.params.lockstep {
            if self.stash.len() < 400
                && matches!(m.get_msg_type(), MessageType::MsgRequestPreVote | MessageType::MsgRequestPreVoteResponse | MessageType::MsgRequestVote | MessageType::MsgRequestVoteResponse)
            {
                self.stash.push(m.clone());
            }
        } else if !self.replaying_stash && m.get_msg_type() != MessageType::MsgReadIndex {
            // every delivered message may come back much later as a stale duplicate (reservoir of 300)
            self.stash_seen += 1;
            if self.stash.len() < 300 {
                self.stash.push(m.clone());
            } else {
                let x = (self.stash_seen.wrapping_mul(0x9E37_79B9_7F4A_7C15) >> 33) % self.stash_seen.max(1);
                if (x as usize) < 300 {
                    self.stash[x as usize] = m.clone();
                }
            }
        }
        let to = m.to as usize;
        if to < 1 || to > self.nodes.len() || self.nodes[to - 1].rn.is_none() {
            return;
        }
        let i = to - 1;
        // bookkeeping for the `win` witness: grants delivered to a candidate of that term
        {
            let n = &mut self.nodes[i];
            let r = &n.rn.as_ref().unwrap().raft;
            if m.get_msg_type() == MessageType::MsgRequestVoteResponse && !m.reject && r.state == StateRole::Candidate && r.term == m.term {
                if n.granted_term != m.term {
                    n.granted.clear();
                    n.granted_term = m.term;
                }
                n.granted.insert(m.from);
            }
        }
        let d = format!("step {:?} from={} term={} idx={} lt={} ents={} commit={} rej={}", m.get_msg_type(), m.from, m.term, m.index, m.log_term, m.entries.len(), m.commit, m.reject);
        self.stat(&format!("delivered.{:?}", m.get_msg_type()));
        let mc = m.clone();
        self.call(i, &d, Some(&mc), |rn| {
            let _ = rn.step(m);
        });
        if self.rng.chance(2) && !self.params.lockstep {
            // several ticks (up to an election timeout) before the application gets to the next Ready round
            let k = 1 + self.rng.below(13);
            for _ in 0..k {
                if self.nodes[i].rn.is_none() { break; }
                self.call(i, "tick", None, |rn| { rn.tick(); });
            }
        }
    }

    // -------------------------------------------------------------------------------------------
    // monitors evaluated after every step

    fn monitors(&mut self) {
        // log matching over volatile logs (C05)
        let mut logs: Vec<(u64, Vec<Entry>)> = vec![];
        for n in &self.nodes {
            if let Some(rn) = n.rn.as_ref() {
                logs.push((n.id, rn.raft.raft_log.all_entries()));
            }
        }
        let mut found: Option<String> = None;
        'outer: for a in 0..logs.len() {
            for b in a + 1..logs.len() {
                let (la, lb) = (&logs[a].1, &logs[b].1);
                let mb: HashMap<u64, &Entry> = lb.iter().map(|e| (e.index, e)).collect();
                let mut top = None;
                for ea in la.iter().rev() {
                    if let Some(eb) = mb.get(&ea.index) {
                        if eb.term == ea.term {
                            top = Some(ea.index);
                            break;
                        }
                    }
                }
                if let Some(top) = top {
                    for ea in la.iter().filter(|e| e.index <= top) {
                        if let Some(eb) = mb.get(&ea.index) {
                            if ekey(ea) != ekey(eb) {
                                found = Some(format!("n{} and n{} hold the same (index {}, term) but differ at index {}", logs[a].0, logs[b].0, top, ea.index));
                                break 'outer;
                            }
                        }
                    }
                }
            }
        }
        if let Some(f) = found {
            self.violate("C05", f);
        }
        for i in 0..self.nodes.len() {
            let (id, inc) = (self.nodes[i].id, self.nodes[i].incarnation);
            let Some(rn) = self.nodes[i].rn.as_ref() else { continue };
            let r = &rn.raft;
            let mut out: Vec<(&'static str, String)> = vec![];
            let eff = self.nodes[i].durable.hs.term == r.term && self.nodes[i].durable.hs.vote == id;
            if r.state == StateRole::Leader && eff {
                match self.leaders.get(&r.term) {
                    Some(&l) if l != id => out.push(("C02", format!("two leaders in term {}: n{} and n{}", r.term, l, id))),
                    _ => {
                        self.leaders.insert(r.term, id);
                    }
                }
            }
            if r.state == StateRole::Leader {
                if let Some(&li) = self.released_as_leader.get(&(r.term, id)) {
                    if li != inc {
                        out.push(("C06", format!("n{} released leader traffic for term {} in incarnation {} and leads that term again in incarnation {}", id, r.term, li, inc)));
                    }
                }
                let last = r.raft_log.last_index();
                for (pid, pr) in r.prs().iter() {
                    if pr.next_idx > last + 1 || pr.matched > last {
                        out.push(("C13", format!("leader n{} tracks peer {} beyond its own log (next {}, matched {}, last {})", id, pid, pr.next_idx, pr.matched, last)));
                        break;
                    }
                }
            }
            let committed = r.raft_log.committed;
            let first = r.raft_log.first_index();
            let prev = self.seen_commit.get(&id).cloned().unwrap_or(0);
            let mut newly: Vec<(u64, (u64, u64, u64))> = vec![];
            if committed > prev {
                let lo = first.max(prev + 1);
                if lo <= committed {
                    if let Ok(ents) = r.raft_log.slice(lo, committed + 1, None, GetEntriesContext::empty(false)) {
                        for e in ents.iter() {
                            newly.push((e.index, ekey(e)));
                        }
                    }
                }
            }
            if committed > self.max_commit {
                self.max_commit = committed;
            }
            self.seen_commit.insert(id, committed.max(prev));
            for (idx, key) in newly {
                match self.committed.get(&idx) {
                    Some(p) if *p != key => out.push(("C01", format!("n{} has committed index {} = {:?} but an earlier report was {:?}", id, idx, key, p))),
                    None => {
                        self.committed.insert(idx, key);
                    }
                    _ => {}
                }
            }
            for (p, t) in out {
                self.violate(p, t);
            }
        }
    }

    // -------------------------------------------------------------------------------------------
    // scheduler

    fn members(&self) -> usize {
        self.nodes.len()
    }

    /// C16's global half: a leader and a majority run in lock-step (tick together, exchange every
    /// message at once, persist at once) while the remaining nodes behave adversarially (arbitrary
    /// ticks, isolation and rejoin, loss / duplication / reordering of everything they send or
    /// receive, campaigning, crash and restart).  No leadership transfer is requested.  Monitored
    /// after every round: the leader still leads the same term and no member of the majority has
    /// changed its term.
    fn run_lockstep(&mut self) {
        let n = self.members();
        // 1. warm-up: a healthy phase until an effective leader exists and everybody is in its term
        let mut leader = None;
        for _ in 0..40 {
            self.burst();
            let l = (0..n).find(|&k| self.nodes[k].rn.as_ref().map_or(false, |r| r.raft.state == StateRole::Leader) && self.effective(k));
            if let Some(l) = l {
                let t = self.nodes[l].rn.as_ref().unwrap().raft.term;
                if (0..n).all(|k| self.nodes[k].rn.as_ref().map_or(false, |r| r.raft.term == t && (k == l || r.raft.leader_id == self.nodes[l].id))) {
                    leader = Some(l);
                    break;
                }
            }
        }
        let Some(l) = leader else {
            self.stat("lockstep_no_leader");
            self.p_end("end of run");
            return;
        };
        let t0 = self.nodes[l].rn.as_ref().unwrap().raft.term;
        let lid = self.nodes[l].id;
        let voters: Vec<u64> = self.nodes[l].rn.as_ref().unwrap().raft.prs().conf().to_conf_state().get_voters().to_vec();
        let quorum = voters.len() / 2 + 1;
        let mut maj: Vec<usize> = vec![l];
        for k in 0..n {
            if maj.len() < quorum && k != l && voters.contains(&self.nodes[k].id) {
                maj.push(k);
            }
        }
        let rest: Vec<usize> = (0..n).filter(|k| !maj.contains(k)).collect();
        let in_maj = |id: u64, maj: &Vec<usize>, nodes: &Vec<Node>| maj.iter().any(|&k| nodes[k].id == id);
        self.log(format!("lockstep: leader n{} term {} majority {:?} others {:?}", lid, t0, maj.iter().map(|&k| self.nodes[k].id).collect::<Vec<_>>(), rest.iter().map(|&k| self.nodes[k].id).collect::<Vec<_>>()));
        self.stat("lockstep_runs");
        let rounds = self.params.steps / 8;
        for round in 0..rounds {
            self.step_no = round;
            if self.violations.len() >= 6 || self.violations.first().map_or(false, |v| round > v.step + 80) {
                break;
            }
            // 2a. the majority: one tick each, then ready / persist / deliver among themselves to quiescence
            for &k in &maj {
                self.call(k, "tick", None, |rn| {
                    rn.tick();
                });
            }
            for _ in 0..12 {
                for &k in &maj {
                    self.process_ready(k);
                    self.fsync(k);
                    self.process_ready(k);
                }
                let mut any = false;
                let mut idx = 0;
                while idx < self.net.len() {
                    let (f, t) = (self.net[idx].from, self.net[idx].to);
                    if in_maj(f, &maj, &self.nodes) && in_maj(t, &maj, &self.nodes) {
                        self.deliver(idx, false);
                        any = true;
                    } else {
                        idx += 1;
                    }
                }
                if !any {
                    break;
                }
            }
            if self.rng.chance(25) {
                let p = self.next_payload;
                self.next_payload += 1;
                self.call(l, &format!("propose p{}", p), None, |rn| {
                    let _ = rn.propose(vec![], format!("p{}", p).into_bytes());
                });
            }
            // 2b. the others: adversarial
            let acts = self.rng.below(10);
            for _ in 0..acts {
                let others_msgs: Vec<usize> = (0..self.net.len()).filter(|&x| !(in_maj(self.net[x].from, &maj, &self.nodes) && in_maj(self.net[x].to, &maj, &self.nodes))).collect();
                let op = self.rng.below(100);
                match op {
                    0..=24 if !rest.is_empty() => {
                        let k = rest[self.rng.below(rest.len() as u64) as usize];
                        let burst = 1 + self.rng.below(14);
                        for _ in 0..burst {
                            self.call(k, "tick", None, |rn| {
                                rn.tick();
                            });
                        }
                    }
                    25..=54 if !others_msgs.is_empty() => {
                        let x = others_msgs[self.rng.below(others_msgs.len() as u64) as usize];
                        let dup = self.rng.chance(15);
                        self.deliver(x, dup);
                    }
                    55..=64 if !others_msgs.is_empty() => {
                        let x = others_msgs[self.rng.below(others_msgs.len() as u64) as usize];
                        self.net.swap_remove(x);
                        self.stat("dropped");
                    }
                    65..=82 if !rest.is_empty() => {
                        let k = rest[self.rng.below(rest.len() as u64) as usize];
                        self.process_ready(k);
                        if self.rng.chance(70) {
                            self.fsync(k);
                        }
                    }
                    83..=87 if !rest.is_empty() => {
                        let k = rest[self.rng.below(rest.len() as u64) as usize];
                        self.crash(k);
                    }
                    88..=93 if !rest.is_empty() => {
                        let k = rest[self.rng.below(rest.len() as u64) as usize];
                        self.restart(k);
                    }
                    94..=96 if !rest.is_empty() => {
                        let k = rest[self.rng.below(rest.len() as u64) as usize];
                        self.call(k, "campaign", None, |rn| {
                            let _ = rn.campaign();
                        });
                    }
                    _ if !self.stash.is_empty() => {
                        // stale / duplicated (pre-)vote traffic from any earlier moment, to anybody
                        let x = self.rng.below(self.stash.len() as u64) as usize;
                        let m = self.stash[x].clone();
                        self.net.push(m);
                        let k = self.net.len() - 1;
                        self.deliver(k, false);
                        self.stat("stale_vote_traffic");
                    }
                    _ => {}
                }
            }
            // isolation for a while: drop what piles up for / from the others
            if self.net.len() > 300 {
                let cut = self.net.len() - 200;
                self.net.drain(..cut);
            }
            self.monitors();
            // 2c. the monitor
            for &k in &maj {
                let Some(r) = self.nodes[k].rn.as_ref().map(|r| &r.raft) else {
                    self.violate("C16", format!("n{} of the lock-step majority is down", self.nodes[k].id));
                    continue;
                };
                if r.term != t0 {
                    let (id, t) = (self.nodes[k].id, r.term);
                    self.violate("C16", format!("n{} of the majority running in lock-step with leader n{} changed its term from {} to {} (round {})", id, lid, t0, t, round));
                }
            }
            let ls = self.nodes[l].rn.as_ref().map(|r| r.raft.state);
            if ls != Some(StateRole::Leader) {
                self.violate("C16", format!("leader n{} of term {} stepped down ({:?}) although it exchanged heartbeats with a majority on schedule (round {})", lid, t0, ls, round));
            }
        }
        self.p_end("end of run");
    }

    pub fn run(&mut self) {
        if self.params.lockstep {
            return self.run_lockstep();
        }
        let n_nodes = self.members();
        for s in 0..self.params.steps {
            self.step_no = s;
            if self.violations.len() >= 12 || self.violations.iter().any(|v| v.prop == "C20") {
                break;
            }
            if let Some(first) = self.violations.first() {
                // keep going for a while: a violation of one property often leads to a concrete
                // violation of another (e.g. a malformed append to diverging logs)
                if s > first.step + 400 {
                    break;
                }
            }
            self.extra_faults();
            let i = self.rng.below(n_nodes as u64) as usize;
            let op = self.rng.below(100);
            match op {
                0..=21 => {
                    self.call(i, "tick", None, |rn| {
                        rn.tick();
                    });
                }
                22..=51 => {
                    if !self.stash.is_empty() && self.rng.chance(5) {
                        // a stale duplicate of something delivered long ago
                        let x = self.rng.below(self.stash.len() as u64) as usize;
                        let m = self.stash[x].clone();
                        self.net.push(m);
                        let k = self.net.len() - 1;
                        self.replaying_stash = true;
                        self.deliver(k, false);
                        self.replaying_stash = false;
                        self.stat("stale_duplicate");
                    } else if !self.net.is_empty() {
                        let k = self.rng.below(self.net.len() as u64) as usize;
                        let dup = self.rng.chance(10);
                        if self.is_held(&self.net[k]) {
                            self.stat("held_back");
                        } else {
                            self.deliver(k, dup);
                        }
                    }
                }
                52..=55 => {
                    if !self.net.is_empty() {
                        let k = self.rng.below(self.net.len() as u64) as usize;
                        self.net.swap_remove(k);
                        self.stat("dropped");
                    }
                }
                56..=75 => self.process_ready(i),
                76..=80 => self.fsync(i),
                81..=86 => {
                    let p = self.next_payload;
                    self.next_payload += 1;
                    let len = match self.rng.below(10) { 0 => 0, 1 => 40 + self.rng.below(100) as usize, _ => 1 + self.rng.below(12) as usize };
                    let mut data = format!("p{}", p).into_bytes();
                    if len == 0 { data.clear(); } else { data.resize(len.max(data.len()), b'.'); }
                    self.call(i, &format!("propose p{} len={}", p, data.len()), None, |rn| {
                        let _ = rn.propose(vec![], data);
                    });
                }
                87..=88 if self.params.reconfig => self.propose_conf(i),
                89 => {
                    if self.rng.chance(60) {
                        self.crash(i)
                    }
                }
                90..=91 => self.restart(i),
                92 => {
                    let t = 1 + self.rng.below(n_nodes as u64);
                    self.call(i, &format!("transfer_leader {}", t), None, |rn| rn.transfer_leader(t));
                }
                93..=94 if self.nodes[i].rn.is_some() => {
                    let mut c = format!("r{}", self.next_payload).into_bytes();
                    self.next_payload += 1;
                    if !self.empty_read_done && self.rng2.chance(12) {
                        // once per run: a request whose context is the empty byte string (request id 0) — the same
                        // context ordinary heartbeats carry
                        self.empty_read_done = true;
                        c.clear();
                        self.stat("read_empty_context");
                    }
                    let id = self.nodes[i].id;
                    let mc = self.max_commit;
                    self.reads.insert(c.clone(), (id, mc));
                    self.pev(i, format!("rissue {} {}", id, rid_of(&c)));
                    self.call(i, &format!("read_index (max commit {})", mc), None, |rn| rn.read_index(c));
                }
                95 => self.compact(i),
                96 => {
                    let k = self.rng.below(4);
                    self.call(i, &format!("misc {}", k), None, |rn| match k {
                        0 => {
                            let _ = rn.request_snapshot();
                        }
                        1 => rn.report_unreachable(1 + (k + 1) % 3),
                        2 => rn.report_snapshot(1 + (k % 3), SnapshotStatus::Finish),
                        _ => rn.report_snapshot(1 + (k % 3), SnapshotStatus::Failure),
                    });
                }
                97 => {
                    self.call(i, "campaign", None, |rn| {
                        let _ = rn.campaign();
                    });
                }
                98..=99 if self.rng.chance(70) => self.burst(),
                _ => {
                    self.call(i, "tick", None, |rn| {
                        rn.tick();
                    });
                }
            }
            self.monitors();
        }
        if self.params.stabilise {
            self.stabilise();
        }
        self.p_end("end of run");
    }

    /// one fault-free round of the fair suffix: every running node handles its Ready and persists at
    /// once, every message is delivered, the application reports lost snapshots, everybody ticks once
    fn fair_round(&mut self) {
        let n = self.nodes.len();
        for _ in 0..6 {
            for k in 0..n {
                self.process_ready(k);
                while !self.nodes[k].pending.is_empty() && self.nodes[k].rn.is_some() {
                    self.fsync(k);
                }
                self.process_ready(k);
                if self.nodes[k].rn.is_some() {
                    self.advance_apply(k);
                }
            }
            if self.net.is_empty() {
                break;
            }
            let msgs: Vec<Message> = self.net.drain(..).collect();
            for m in msgs {
                self.net.push(m);
                let k = self.net.len() - 1;
                self.deliver(k, false);
            }
        }
        // application duty: a snapshot that is not (any longer) on its way is reported as failed
        for k in 0..n {
            let Some(r) = self.nodes[k].rn.as_ref().map(|r| &r.raft) else { continue };
            if r.state != StateRole::Leader {
                continue;
            }
            let stuck: Vec<u64> = r.prs().iter().filter(|(id, p)| p.state == raft::ProgressState::Snapshot && !self.net.iter().any(|m| m.get_msg_type() == MessageType::MsgSnapshot && m.to == **id)).map(|(id, _)| *id).collect();
            for t in stuck {
                self.call(k, &format!("report_snapshot {} Failure", t), None, |rn| rn.report_snapshot(t, SnapshotStatus::Failure));
            }
        }
        for k in 0..n {
            self.call(k, "tick", None, |rn| {
                rn.tick();
            });
        }
    }

    /// membership can change during the suffix (pending changes get committed): everybody who is a member
    /// according to some running node's configuration is (re)started
    fn ensure_members_running(&mut self) {
        let n = self.nodes.len();
        let mut want: Vec<u64> = vec![];
        for k in 0..n {
            if let Some(r) = self.nodes[k].rn.as_ref() {
                let c = r.raft.prs().conf().to_conf_state();
                want.extend(c.get_voters().iter().chain(c.get_voters_outgoing()).chain(c.get_learners()).chain(c.get_learners_next()).cloned());
            }
        }
        for k in 0..n {
            if want.contains(&self.nodes[k].id) && self.nodes[k].rn.is_none() {
                self.restart(k);
            }
        }
    }

    /// C10's premise: a majority of each voter set (of every configuration some running node is in) is running
    fn majorities_running(&self) -> bool {
        let n = self.nodes.len();
        let up = |id: u64| (0..n).any(|k| self.nodes[k].id == id && self.nodes[k].rn.is_some());
        for k in 0..n {
            if let Some(r) = self.nodes[k].rn.as_ref() {
                let c = r.raft.prs().conf().to_conf_state();
                for half in [c.get_voters(), c.get_voters_outgoing()] {
                    if !half.is_empty() && half.iter().filter(|v| up(**v)).count() < half.len() / 2 + 1 {
                        return false;
                    }
                }
            }
        }
        true
    }

    /// C10: after the fault prefix, a fair fault-free suffix — crashed members restarted, nodes that are
    /// no longer members stopped, every message delivered, everybody ticked regularly — must lead,
    /// within a bounded number of election timeouts, to exactly one leader, converged logs and commit
    /// indexes, and a new proposal applied on every running member.
    fn stabilise(&mut self) {
        if !self.violations.is_empty() || self.p_end_reason == "panic" {
            return;
        }
        let n = self.nodes.len();
        // membership according to the most advanced durable application state
        let Some(best) = (0..n).filter(|&k| self.nodes[k].member).max_by_key(|&k| (self.nodes[k].durable.applied.index, self.nodes[k].app.index)) else { return };
        let cs = if self.nodes[best].app.index >= self.nodes[best].durable.applied.index && self.nodes[best].rn.is_some() { self.nodes[best].app.cs.clone() } else { self.nodes[best].durable.applied.cs.clone() };
        let members: Vec<u64> = cs.get_voters().iter().chain(cs.get_voters_outgoing()).chain(cs.get_learners()).chain(cs.get_learners_next()).cloned().collect();
        if cs.get_voters().is_empty() {
            return;
        }
        self.held.clear();
        self.log(format!("STABILISE members {:?}", members));
        self.stat("stabilise_runs");
        for k in 0..n {
            if members.contains(&self.nodes[k].id) {
                self.restart(k);
            } else {
                self.crash(k);
            }
        }
        let election_tick = 6u64;
        let bound = 60 * 2 * election_tick; // 60 (maximal) election timeouts
        let running = |s: &Sim| -> Vec<usize> { (0..n).filter(|&k| s.nodes[k].rn.is_some()).collect() };
        let converged = |s: &Sim| -> Option<usize> {
            let run = running(s);
            let leaders: Vec<usize> = run.iter().cloned().filter(|&k| s.nodes[k].rn.as_ref().unwrap().raft.state == StateRole::Leader).collect();
            if leaders.len() != 1 {
                return None;
            }
            let l = leaders[0];
            let lr = &s.nodes[l].rn.as_ref().unwrap().raft;
            let (lt, ll, lc) = (lr.term, lr.raft_log.last_index(), lr.raft_log.committed);
            if lc != ll || lr.prs().conf().to_conf_state().get_voters_outgoing().len() > 0 {
                return None;
            }
            let c = lr.prs().conf().to_conf_state();
            let mem: Vec<u64> = c.get_voters().iter().chain(c.get_learners()).cloned().collect();
            for &k in &run {
                if !mem.contains(&s.nodes[k].id) {
                    continue; // no longer a member: nothing is owed to it
                }
                let r = &s.nodes[k].rn.as_ref().unwrap().raft;
                if r.term != lt || r.raft_log.last_index() != ll || r.raft_log.committed != lc || s.nodes[k].app.index != lc {
                    return None;
                }
            }
            Some(l)
        };
        let mut leader = None;
        let mut rounds = 0;
        while rounds < bound {
            self.fair_round();
            self.ensure_members_running();
            rounds += 1;
            if !self.violations.is_empty() {
                return;
            }
            if let Some(l) = converged(self) {
                leader = Some(l);
                break;
            }
        }
        let Some(l) = leader else {
            if !self.majorities_running() {
                self.stat("stabilise_premise_unmet");
                return;
            }
            let desc: Vec<String> = running(self).iter().map(|&k| {
                let r = &self.nodes[k].rn.as_ref().unwrap().raft;
                let prog: Vec<String> = if r.state == StateRole::Leader {
                    r.prs().iter().map(|(id, p)| format!("{}:{:?}:m{}:n{}:{}:ps{}:pr{}", id, p.state, p.matched, p.next_idx, if p.paused { "paused" } else { "-" }, p.pending_snapshot, p.pending_request_snapshot)).collect()
                } else { vec![] };
                format!("n{}:{:?} t{} last{} c{} a{} rq{} {}", self.nodes[k].id, r.state, r.term, r.raft_log.last_index(), r.raft_log.committed, self.nodes[k].app.index, r.pending_request_snapshot, prog.join(","))
            }).collect();
            // diagnosis: a follower that waits for a requested snapshot which the leader cannot produce
            // because nothing can be committed without that follower (finding F15)
            let wedged = running(self).iter().any(|&k| {
                let r = &self.nodes[k].rn.as_ref().unwrap().raft;
                // … the follower still waits, or it has forgotten its request (restart) while the leader's Progress
                // keeps it: the leader sends that peer nothing but the snapshot it cannot produce
                (r.state != StateRole::Leader && r.pending_request_snapshot != 0 && running(self).iter().all(|&j| self.nodes[j].app.index < r.pending_request_snapshot))
                    || (r.state == StateRole::Leader
                        && r.prs().iter().any(|(id, p)| *id != r.id && p.pending_request_snapshot != 0 && running(self).iter().all(|&j| self.nodes[j].app.index < p.pending_request_snapshot)))
            });
            let head = if wedged { "wedged by a pending snapshot request (a follower refuses appends until it gets a snapshot at an index that cannot be committed without it)" } else { "no convergence" };
            self.violate("C10", format!("{} after {} fault-free rounds (60 election timeouts) with all members {:?} running: {}", head, bound, members, desc.join(" ")));
            return;
        };
        self.stat("stabilise_converged");
        *self.stats.entry("stabilise_rounds".into()).or_insert(0) += rounds;
        // a new proposal must be applied on every running member (a pending transfer may refuse
        // proposals for at most one election timeout)
        let p = self.next_payload;
        self.next_payload += 1;
        let mut target = 0;
        for _ in 0..(3 * 2 * election_tick) {
            let Some(l) = converged(self) else { self.fair_round(); self.ensure_members_running(); continue };
            let before = self.nodes[l].rn.as_ref().unwrap().raft.raft_log.last_index();
            self.call(l, &format!("propose p{}", p), None, |rn| {
                let _ = rn.propose(vec![], format!("p{}", p).into_bytes());
            });
            let after = self.nodes[l].rn.as_ref().map_or(0, |r| r.raft.raft_log.last_index());
            if after > before {
                target = before + 1;
                break;
            }
            self.fair_round();
            if !self.violations.is_empty() {
                return;
            }
        }
        if target == 0 {
            if !self.majorities_running() {
                self.stat("stabilise_premise_unmet");
                return;
            }
            self.violate("C10", format!("no proposal was accepted within 3 election timeouts after stabilisation (leader n{})", self.nodes[l].id));
            return;
        }
        let mut done = false;
        for _ in 0..(6 * 2 * election_tick) {
            self.fair_round();
            self.ensure_members_running();
            if !self.violations.is_empty() {
                return;
            }
            // the members now: the leader's configuration (the proposal phase may follow a membership change)
            let Some(lk) = running(self).into_iter().find(|&k| self.nodes[k].rn.as_ref().unwrap().raft.state == StateRole::Leader) else { continue };
            let c = self.nodes[lk].rn.as_ref().unwrap().raft.prs().conf().to_conf_state();
            let mem: Vec<u64> = c.get_voters().iter().chain(c.get_voters_outgoing()).chain(c.get_learners()).chain(c.get_learners_next()).cloned().collect();
            let run: Vec<usize> = running(self).into_iter().filter(|&k| mem.contains(&self.nodes[k].id)).collect();
            if !run.is_empty() && run.iter().all(|&k| self.nodes[k].app.index >= target) {
                let i0 = run.iter().map(|&k| self.nodes[k].app.index).min().unwrap();
                let _ = i0;
                done = true;
                break;
            }
        }
        if !done {
            if !self.majorities_running() {
                self.stat("stabilise_premise_unmet");
                return;
            }
            let desc: Vec<String> = running(self).iter().map(|&k| format!("n{}:a{}", self.nodes[k].id, self.nodes[k].app.index)).collect();
            self.violate("C10", format!("a proposal made after stabilisation (index {}) was not applied on every running member within 6 election timeouts: {}", target, desc.join(" ")));
        }
    }

    /// a healthy phase: a few rounds of ready / deliver-everything / tick, so that leaders get
    /// elected, logs grow and snapshots/compaction become possible
    fn is_held(&self, m: &Message) -> bool {
        self.held.iter().any(|(f, t, ty)| *f == m.from && *t == m.to && ty.map_or(true, |x| x == m.get_msg_type()))
    }

    /// delivers everything in flight except what a hold keeps back (which stays in flight)
    fn deliver_all_unheld(&mut self) {
        let msgs: Vec<Message> = self.net.drain(..).collect();
        let mut kept = vec![];
        for m in msgs {
            if self.is_held(&m) {
                kept.push(m);
                continue;
            }
            self.net.push(m);
            let k = self.net.len() - 1;
            self.deliver(k, false);
        }
        self.net.extend(kept);
    }

    fn leader_now(&self) -> Option<usize> {
        (0..self.nodes.len()).filter(|&k| self.nodes[k].rn.as_ref().map_or(false, |r| r.raft.state == StateRole::Leader))
            .max_by_key(|&k| self.nodes[k].rn.as_ref().unwrap().raft.term)
    }

    /// directed faults on top of the uniform scheduler (own PRNG stream)
    fn extra_faults(&mut self) {
        if self.params.lockstep {
            return;
        }
        if self.net.len() > 3000 {
            self.net.drain(..1000);
            self.stat("net_cap");
        }
        let x = self.rng2.below(1000);
        if x < 6 {
            if self.held.is_empty() {
                let n = self.nodes.len() as u64;
                if n < 2 {
                    return;
                }
                // most holds involve the leader: its acknowledgements or its appends are what the protocol reacts to
                let l = self.leader_now().map(|k| self.nodes[k].id);
                let a = if let (Some(l), true) = (l, self.rng2.chance(75)) { l } else { 1 + self.rng2.below(n) };
                let mut b = 1 + self.rng2.below(n);
                if b == a {
                    b = 1 + (b % n);
                }
                let (f, t) = if self.rng2.chance(60) { (b, a) } else { (a, b) };
                let ty = match self.rng2.below(6) {
                    0 => Some(MessageType::MsgAppendResponse),
                    1 => Some(MessageType::MsgHeartbeatResponse),
                    2 => Some(MessageType::MsgAppend),
                    3 => Some(MessageType::MsgSnapshot),
                    _ => None,
                };
                self.log(format!("HOLD {} -> {} {:?}", f, t, ty));
                self.held.push((f, t, ty));
                self.stat("hold");
            } else {
                self.log("RELEASE holds".to_string());
                self.held.clear();
                self.stat("release");
            }
        } else if x < 8 && !self.params.stabilise {
            self.lagging_acks();
        }
    }

    /// scenario: a follower keeps receiving entries while its acknowledgements are held back; the others commit
    /// without it; the leader applies, compacts past what it knows the follower to hold and is told the follower is
    /// unreachable; heartbeats go through (so the leader falls back to a snapshot); then the old acknowledgements
    /// arrive, and after a while the snapshot
    fn lagging_acks(&mut self) {
        let Some(l) = self.leader_now() else { return };
        let lid = self.nodes[l].id;
        let peers: Vec<u64> = self.nodes[l].rn.as_ref().unwrap().raft.prs().iter().map(|(id, _)| *id).filter(|id| *id != lid).collect();
        if peers.is_empty() {
            return;
        }
        let f = peers[self.rng2.below(peers.len() as u64) as usize];
        self.log(format!("SCENARIO lagging acknowledgements of n{} (leader n{})", f, lid));
        self.stat("scenario_lagging_acks");
        let saved = std::mem::take(&mut self.held);
        self.held.push((f, lid, Some(MessageType::MsgAppendResponse)));
        let n = self.nodes.len();
        let rounds = 3 + self.rng2.below(5);
        for r in 0..rounds {
            if self.nodes[l].rn.is_none() {
                break;
            }
            let p = self.next_payload;
            self.next_payload += 1;
            self.call(l, &format!("propose p{}", p), None, |rn| {
                let _ = rn.propose(vec![], format!("p{}", p).into_bytes());
            });
            for _ in 0..3 {
                for k in 0..n {
                    self.fsync(k);
                    self.process_ready(k);
                }
                self.deliver_all_unheld();
            }
            if r + 2 == rounds {
                // the appends of the last rounds to the follower are lost
                self.held.push((lid, f, Some(MessageType::MsgAppend)));
            }
            self.monitors();
        }
        if self.nodes[l].rn.is_none() {
            self.held = saved;
            return;
        }
        self.compact(l);
        if self.rng2.chance(80) {
            self.call(l, &format!("report_unreachable {}", f), None, |rn| rn.report_unreachable(f));
        }
        // lost appends
        self.net.retain(|m| !(m.from == lid && m.to == f && m.get_msg_type() == MessageType::MsgAppend));
        self.held.retain(|h| h.2 != Some(MessageType::MsgAppend));
        self.held.push((lid, f, Some(MessageType::MsgSnapshot)));
        let hb = self.nodes[l].cfg.heartbeat_tick.max(1);
        for _ in 0..2 {
            for _ in 0..hb {
                if self.nodes[l].rn.is_some() {
                    self.call(l, "tick", None, |rn| { rn.tick(); });
                }
            }
            for _ in 0..2 {
                for k in 0..n {
                    self.fsync(k);
                    self.process_ready(k);
                }
                self.deliver_all_unheld();
            }
        }
        // the old acknowledgements arrive (in order), the snapshot is still in flight
        self.held.retain(|h| h.2 != Some(MessageType::MsgAppendResponse));
        let late: Vec<Message> = {
            let mut v = vec![];
            let mut k = 0;
            while k < self.net.len() {
                if self.net[k].from == f && self.net[k].to == lid && self.net[k].get_msg_type() == MessageType::MsgAppendResponse {
                    v.push(self.net.remove(k));
                } else {
                    k += 1;
                }
            }
            v
        };
        for m in late {
            self.net.push(m);
            let k = self.net.len() - 1;
            self.deliver(k, false);
            if self.rng2.chance(50) {
                self.process_ready(l);
            }
        }
        if self.nodes[l].rn.is_some() {
            let p = self.next_payload;
            self.next_payload += 1;
            self.call(l, &format!("propose p{}", p), None, |rn| {
                let _ = rn.propose(vec![], format!("p{}", p).into_bytes());
            });
        }
        for _ in 0..2 {
            for k in 0..n {
                self.fsync(k);
                self.process_ready(k);
            }
            self.deliver_all_unheld();
        }
        self.monitors();
        self.held = saved;
    }

    fn burst(&mut self) {
        let n = self.members();
        let rounds = 5 + self.rng.below(25);
        for _ in 0..rounds {
            for k in 0..n {
                if self.rng.chance(50) {
                    self.fsync(k);
                }
                self.process_ready(k);
            }
            self.deliver_all_unheld();
            if self.rng.chance(40) {
                for k in 0..n {
                    self.call(k, "tick", None, |rn| {
                        rn.tick();
                    });
                }
            }
            if self.rng.chance(20) {
                let k = self.rng.below(n as u64) as usize;
                let p = self.next_payload;
                self.next_payload += 1;
                self.call(k, &format!("propose p{}", p), None, |rn| {
                    let _ = rn.propose(vec![], format!("p{}", p).into_bytes());
                });
            }
            self.monitors();
            if self.violations.iter().any(|v| v.prop == "C20") {
                return;
            }
        }
        self.stat("burst");
    }

    fn propose_conf(&mut self, i: usize) {
        let n = self.members() as u64;
        let target = 1 + self.rng.below(n);
        let ty = match self.rng.below(3) {
            0 => ConfChangeType::AddNode,
            1 => ConfChangeType::RemoveNode,
            _ => ConfChangeType::AddLearnerNode,
        };
        let mut cc = ConfChangeV2::default();
        cc.mut_changes().push(raft_proto::new_conf_change_single(target, ty));
        if self.rng.chance(30) {
            let t2 = 1 + self.rng.below(n);
            cc.mut_changes().push(raft_proto::new_conf_change_single(t2, ConfChangeType::AddNode));
        }
        if self.rng.chance(15) {
            cc = ConfChangeV2::default();
        }
        let d = format!("propose_conf_change {:?}", cc.changes.iter().map(|c| (c.get_change_type(), c.node_id)).collect::<Vec<_>>());
        if self.rng.chance(12) {
            // one MsgPropose carrying TWO membership changes (a forwarded batch): only the first may go in
            let t2 = 1 + self.rng.below(n);
            let mut cc2 = ConfChangeV2::default();
            cc2.mut_changes().push(raft_proto::new_conf_change_single(t2, if self.rng.chance(50) { ConfChangeType::RemoveNode } else { ConfChangeType::AddNode }));
            let mut m = Message::default();
            m.set_msg_type(MessageType::MsgPropose);
            m.from = self.nodes[i].id;
            let mut ents = vec![];
            for c in [&cc, &cc2] {
                let mut e = Entry::default();
                e.set_entry_type(EntryType::EntryConfChangeV2);
                e.data = protobuf::Message::write_to_bytes(c).unwrap().into();
                ents.push(e);
            }
            m.set_entries(ents.into());
            let d2 = format!("step MsgPropose batch [{} + another membership change]", d);
            self.call(i, &d2, None, |rn| {
                let _ = rn.step(m);
            });
        } else {
            self.call(i, &d, None, |rn| {
                let _ = rn.propose_conf_change(vec![], cc);
            });
        }
        // a node that is being added is bootstrapped from the durable application state of a running
        // member (its initial configuration is not in the log, so it cannot start from an empty log)
        let t = target as usize - 1;
        if !self.nodes[t].member && ty != ConfChangeType::RemoveNode {
            let donor = (0..self.nodes.len()).find(|&k| self.nodes[k].member && self.nodes[k].rn.is_some() && self.nodes[k].durable.applied.index > self.nodes[k].durable.snap.index.max(0) && self.nodes[k].durable.applied.index > 0);
            if let Some(k) = donor {
                let rec = self.nodes[k].durable.applied.clone();
                let mut d = Durable::default();
                d.snap = rec.clone();
                d.applied = rec.clone();
                d.hs.term = self.nodes[k].durable.hs.term;
                d.hs.commit = rec.index;
                let (tid, did) = (self.nodes[t].id, self.nodes[k].id);
                self.nodes[t].durable = d;
                self.nodes[t].member = true;
                self.pev_now(format!("bootstrap {} {} {}", tid, did, rec.index));
                self.start_node(t, false);
            }
        }
    }
}

impl Node {
    fn durable_prev_term_vote(&self) -> (u64, u64) {
        (self.durable.hs.term, self.durable.hs.vote)
    }
}

/// runs `runs` simulations; prints the P traces to `out`; returns the violations with their histories
pub struct RunResult {
    pub seed: u64,
    pub violations: Vec<Violation>,
    pub history: Vec<String>,
    pub stats: BTreeMap<String, u64>,
    pub p_lines: usize,
    pub p_end: String,
    pub ev_hashes: Vec<u64>,
    pub ev_kinds: BTreeMap<String, u64>,
}

pub fn run_one(params: Params, out: &mut dyn std::io::Write) -> RunResult {
    let mut sim = Sim::new(params.clone());
    // a panic on the application side of the simulation (e.g. MemStorage refusing what a Ready handed
    // out) must not abort the exploration: it ends this run and is reported with the history
    let r = catch_unwind(AssertUnwindSafe(|| sim.run()));
    if let Err(e) = r {
        let msg = e.downcast_ref::<String>().cloned().or_else(|| e.downcast_ref::<&str>().map(|s| s.to_string())).unwrap_or_default();
        let first = msg.lines().next().unwrap_or("").to_string();
        sim.violate("C20", format!("the application side panicked while following the Ready contract: {}", first));
        sim.p_end("panic");
    }
    for l in &sim.ptrace {
        writeln!(out, "{}", l).unwrap();
    }
    let mut ev_hashes = vec![];
    let mut ev_kinds: BTreeMap<String, u64> = BTreeMap::new();
    for l in &sim.ptrace {
        if let Some(rest) = l.strip_prefix("p ev ") {
            // distinct = same event with the same arguments except node-independent noise: hash the text
            let mut h: u64 = 0xcbf2_9ce4_8422_2325;
            for b in rest.bytes() {
                h ^= b as u64;
                h = h.wrapping_mul(0x1000_0000_01b3);
            }
            ev_hashes.push(h);
            let kind = rest.split(' ').next().unwrap_or("").to_string();
            *ev_kinds.entry(kind).or_insert(0) += 1;
        } else if l.starts_with("p view") {
            *ev_kinds.entry("view".into()).or_insert(0) += 1;
        }
    }
    RunResult { ev_hashes, ev_kinds, seed: params.seed, violations: std::mem::take(&mut sim.violations), history: std::mem::take(&mut sim.history), stats: sim.stats.clone(), p_lines: sim.ptrace.len(), p_end: sim.p_end_reason.clone() }
}
