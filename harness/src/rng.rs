//! One PRNG for every random choice, so that a seed replays exactly.
pub struct Rng(pub u64);
impl Rng {
    pub fn new(seed: u64) -> Rng {
        Rng(seed.wrapping_mul(0x9E37_79B9_7F4A_7C15) ^ 0xD1B5_4A32_D192_ED03 | 1)
    }
    pub fn next(&mut self) -> u64 {
        // xorshift64*
        self.0 ^= self.0 >> 12;
        self.0 ^= self.0 << 25;
        self.0 ^= self.0 >> 27;
        self.0.wrapping_mul(0x2545_F491_4F6C_DD1D)
    }
    pub fn below(&mut self, n: u64) -> u64 {
        if n == 0 { 0 } else { (self.next() >> 11) % n }
    }
    pub fn range(&mut self, lo: u64, hi_incl: u64) -> u64 {
        lo + self.below(hi_incl - lo + 1)
    }
    pub fn chance(&mut self, pct: u64) -> bool {
        self.below(100) < pct
    }
    pub fn pick<'a, T>(&mut self, xs: &'a [T]) -> &'a T {
        &xs[self.below(xs.len() as u64) as usize]
    }
}
