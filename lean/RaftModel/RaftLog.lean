import RaftModel.Unstable

/-
Executable model of `src/raft_log.rs` (`RaftLog<MemStorage>`): stable storage + unstable suffix +
pending snapshot, with the commit / persisted / applied cursors.  One Lean function per Rust
method; every `fatal!`, `assert!`, `unwrap`, slice/index out of bounds and u64 underflow/overflow
(debug build) is an explicit `Res.panic`; storage errors that the code returns are `Res.err`.

`max_size : Option Nat` is `impl Into<Option<u64>>`; `canAsync` is `GetEntriesContext::can_async()`.
-/
namespace RaftModel

structure RaftLog where
  store : MemStorage
  unstable : Unstable
  committed : Nat
  persisted : Nat
  applied : Nat
  maxApplyUnpersistedLogLimit : Nat
  deriving Repr, DecidableEq, Inhabited

namespace RaftLog

/-- `RaftLog::new` raft_log.rs:91 (`first_index - 1` is a u64 subtraction) -/
def new (store : MemStorage) (limit : Nat) : Res RaftLog :=
  if store.firstIndex = 0 then .panic "raft_log.new.underflow"
  else .ok {
    store := store,
    committed := store.firstIndex - 1,
    persisted := store.lastIndex,
    applied := store.firstIndex - 1,
    unstable := Unstable.new (store.lastIndex + 1),
    maxApplyUnpersistedLogLimit := limit }

/-- `RaftLog::first_index` raft_log.rs:160 -/
def firstIndex (l : RaftLog) : Nat :=
  match l.unstable.maybeFirstIndex with
  | some i => i
  | none => l.store.firstIndex

/-- `RaftLog::last_index` raft_log.rs:172 -/
def lastIndex (l : RaftLog) : Nat :=
  match l.unstable.maybeLastIndex with
  | some i => i
  | none => l.store.lastIndex

/-- `RaftLog::term` raft_log.rs:135.  `Compacted` / `Unavailable` from the storage are returned,
any other storage error would be `fatal!` (the `MemStorage` model returns no other). -/
def term (l : RaftLog) (idx : Nat) : Res Nat :=
  if l.firstIndex = 0 then .panic "raft_log.term.underflow"
  else if idx < l.firstIndex - 1 ∨ l.lastIndex < idx then .ok 0
  else match l.unstable.maybeTerm idx with
    | .ok (some t) => .ok t
    | .ok none =>
      match l.store.term idx with
      | .ok t => .ok t
      | .err .compacted => .err .compacted
      | .err .unavailable => .err .unavailable
      | .err _ => .panic "raft_log.term.unexpected_error"
      | .panic s => .panic s
    | .err e => .err e
    | .panic s => .panic s

/-- `RaftLog::last_term` raft_log.rs:111 -/
def lastTerm (l : RaftLog) : Res Nat :=
  match l.term l.lastIndex with
  | .ok t => .ok t
  | .err _ => .panic "raft_log.last_term.error"
  | .panic s => .panic s

/-- `RaftLog::match_term` raft_log.rs:251 -/
def matchTerm (l : RaftLog) (idx term : Nat) : Res Bool :=
  match l.term idx with
  | .ok t => .ok (t == term)
  | .err _ => .ok false
  | .panic s => .panic s

/-- `RaftLog::find_conflict` raft_log.rs:195 -/
def findConflict (l : RaftLog) : List Entry → Res Nat
  | [] => .ok 0
  | e :: es =>
    match l.matchTerm e.index e.term with
    | .ok true => findConflict l es
    | .ok false => .ok e.index
    | .err e => .err e
    | .panic s => .panic s

/-- the `loop` of `find_conflict_by_term` raft_log.rs:236 (`conflict_index -= 1` is a u64
subtraction) -/
def findConflictByTermLoop (l : RaftLog) (term : Nat) : Nat → Res (Nat × Option Nat)
  | 0 =>
    match l.term 0 with
    | .ok t => if term < t then .panic "raft_log.find_conflict_by_term.underflow" else .ok (0, some t)
    | .err _ => .ok (0, none)
    | .panic s => .panic s
  | ci + 1 =>
    match l.term (ci + 1) with
    | .ok t => if term < t then findConflictByTermLoop l term ci else .ok (ci + 1, some t)
    | .err _ => .ok (ci + 1, none)
    | .panic s => .panic s

/-- `RaftLog::find_conflict_by_term` raft_log.rs:222 -/
def findConflictByTerm (l : RaftLog) (index term : Nat) : Res (Nat × Option Nat) :=
  if l.lastIndex < index then .ok (index, none)
  else findConflictByTermLoop l term index

/-- `RaftLog::commit_to` raft_log.rs:299 -/
def commitTo (l : RaftLog) (toCommit : Nat) : Res RaftLog :=
  if toCommit ≤ l.committed then .ok l
  else if l.lastIndex < toCommit then .panic "raft_log.commit_to.out_of_range"
  else .ok { l with committed := toCommit }

/-- `RaftLog::applied_to` raft_log.rs:322 -/
def appliedTo (l : RaftLog) (idx : Nat) : Res RaftLog :=
  if idx = 0 then .ok l
  else if l.committed < idx ∨ idx < l.applied then .panic "raft_log.applied_to.out_of_range"
  else .ok { l with applied := idx }

/-- `RaftLog::stable_entries` raft_log.rs:352 -/
def stableEntries (l : RaftLog) (index term : Nat) : Res RaftLog :=
  match l.unstable.stableEntries index term with
  | .ok u => .ok { l with unstable := u }
  | .err e => .err e
  | .panic s => .panic s

/-- `RaftLog::stable_snap` raft_log.rs:357 -/
def stableSnap (l : RaftLog) (index : Nat) : Res RaftLog :=
  match l.unstable.stableSnap index with
  | .ok u => .ok { l with unstable := u }
  | .err e => .err e
  | .panic s => .panic s

/-- `RaftLog::append` raft_log.rs:377 (`ents[0].index - 1` is a u64 subtraction); returns the new
log and the returned last index -/
def append (l : RaftLog) (ents : List Entry) : Res (RaftLog × Nat) :=
  match ents with
  | [] => .ok (l, l.lastIndex)
  | e0 :: _ =>
    if e0.index = 0 then .panic "raft_log.append.underflow"
    else if e0.index - 1 < l.committed then .panic "raft_log.append.before_committed"
    else match l.unstable.truncateAndAppend ents with
      | .ok u => let l' := { l with unstable := u }; .ok (l', l'.lastIndex)
      | .err e => .err e
      | .panic s => .panic s

/-- the `else` branch of `maybe_append` raft_log.rs:279-286 -/
def appendConflict (l : RaftLog) (idx conflictIdx : Nat) (ents : List Entry) : Res RaftLog :=
  if conflictIdx < idx + 1 then .panic "raft_log.maybe_append.underflow"
  else if ents.length < conflictIdx - (idx + 1) then .panic "raft_log.maybe_append.slice"
  else match l.append (ents.drop (conflictIdx - (idx + 1))) with
    | .ok (l', _) =>
      .ok (if conflictIdx - 1 < l'.persisted then { l' with persisted := conflictIdx - 1 } else l')
    | .err e => .err e
    | .panic s => .panic s

/-- `RaftLog::maybe_append` raft_log.rs:262 -/
def maybeAppend (l : RaftLog) (idx term committed : Nat) (ents : List Entry) :
    Res (RaftLog × Option (Nat × Nat)) :=
  match l.matchTerm idx term with
  | .ok false => .ok (l, none)
  | .ok true =>
    match l.findConflict ents with
    | .ok conflictIdx =>
      let l1 : Res RaftLog :=
        if conflictIdx = 0 then .ok l
        else if conflictIdx ≤ l.committed then .panic "raft_log.maybe_append.conflict_committed"
        else l.appendConflict idx conflictIdx ents
      match l1 with
      | .ok l1 =>
        let lastNew := idx + ents.length
        match l1.commitTo (min committed lastNew) with
        | .ok l2 => .ok (l2, some (conflictIdx, lastNew))
        | .err e => .err e
        | .panic s => .panic s
      | .err e => .err e
      | .panic s => .panic s
    | .err e => .err e
    | .panic s => .panic s
  | .err e => .err e
  | .panic s => .panic s

/-- `RaftLog::must_check_outofbounds` raft_log.rs:501 (`last_index + 1 - first_index` is a u64
subtraction) -/
def mustCheckOutOfBounds (l : RaftLog) (low high : Nat) : Res (Option StorageError) :=
  if high < low then .panic "raft_log.must_check_outofbounds.order"
  else if low < l.firstIndex then .ok (some .compacted)
  else if l.lastIndex + 1 < l.firstIndex then .panic "raft_log.must_check_outofbounds.underflow"
  else if l.firstIndex + (l.lastIndex + 1 - l.firstIndex) < high then
    .panic "raft_log.must_check_outofbounds.range"
  else .ok none

/-- the storage half of `slice` raft_log.rs:655-676: `(entries, return_early)` -/
def sliceStore (l : RaftLog) (low high : Nat) (maxSize : Option Nat) (canAsync : Bool) :
    Res (List Entry × Bool) :=
  if low < l.unstable.offset then
    let uh := min high l.unstable.offset
    match l.store.entriesQ low uh maxSize canAsync with
    | .ok es => .ok (es, decide (es.length < uh - low))
    | .err .compacted => .err .compacted
    | .err .logTemporarilyUnavailable => .err .logTemporarilyUnavailable
    | .err _ => .panic "raft_log.slice.unexpected_error"
    | .panic s => .panic s
  else .ok ([], false)

/-- `RaftLog::slice` raft_log.rs:638 -/
def slice (l : RaftLog) (low high : Nat) (maxSize : Option Nat) (canAsync : Bool) :
    Res (List Entry) :=
  match l.mustCheckOutOfBounds low high with
  | .ok (some e) => .err e
  | .ok none =>
    if low = high then .ok []
    else match l.sliceStore low high maxSize canAsync with
      | .ok (es, true) => .ok es
      | .ok (es, false) =>
        if l.unstable.offset < high then
          match l.unstable.slice (max low l.unstable.offset) high with
          | .ok us => .ok (limitSize (es ++ us) maxSize)
          | .err e => .err e
          | .panic s => .panic s
        else .ok (limitSize es maxSize)
      | .err e => .err e
      | .panic s => .panic s
  | .err e => .err e
  | .panic s => .panic s

/-- `RaftLog::entries` raft_log.rs:401 -/
def entries (l : RaftLog) (idx : Nat) (maxSize : Option Nat) (canAsync : Bool) : Res (List Entry) :=
  if l.lastIndex < idx then .ok []
  else l.slice idx (l.lastIndex + 1) maxSize canAsync

/-- `RaftLog::is_up_to_date` raft_log.rs:437 -/
def isUpToDate (l : RaftLog) (lastIndex term : Nat) : Res Bool :=
  match l.lastTerm with
  | .ok lt => .ok (decide (lt < term) || (term == lt && decide (l.lastIndex ≤ lastIndex)))
  | .err e => .err e
  | .panic s => .panic s

/-- `RaftLog::applied_index_upper_bound` raft_log.rs:460.  `persisted.saturating_add(limit)` in u64
(finding F6, repaired: the plain addition overflowed with `u64::MAX` as "no limit"). -/
def appliedIndexUpperBound (l : RaftLog) : Res Nat :=
  .ok (min l.committed (min U64_MAX (l.persisted + l.maxApplyUnpersistedLogLimit)))

/-- `RaftLog::has_next_entries_since` raft_log.rs:476 (`since_idx + 1` is a u64 addition) -/
def hasNextEntriesSince (l : RaftLog) (sinceIdx : Nat) : Res Bool :=
  if U64_MAX ≤ sinceIdx then .panic "raft_log.next_entries_since.overflow"
  else match l.appliedIndexUpperBound with
    | .ok ub => .ok (decide (max (sinceIdx + 1) l.firstIndex < ub + 1))
    | .err e => .err e
    | .panic s => .panic s

/-- `RaftLog::next_entries_since` raft_log.rs:442 (context `GenReady`: never async; an error from
`slice` is `fatal!`) -/
def nextEntriesSince (l : RaftLog) (sinceIdx : Nat) (maxSize : Option Nat) :
    Res (Option (List Entry)) :=
  if U64_MAX ≤ sinceIdx then .panic "raft_log.next_entries_since.overflow"
  else match l.appliedIndexUpperBound with
    | .ok ub =>
      let offset := max (sinceIdx + 1) l.firstIndex
      if offset < ub + 1 then
        match l.slice offset (ub + 1) maxSize false with
        | .ok v => .ok (some v)
        | .err _ => .panic "raft_log.next_entries_since.slice_error"
        | .panic s => .panic s
      else .ok none
    | .err e => .err e
    | .panic s => .panic s

/-- `RaftLog::next_entries` raft_log.rs:470 -/
def nextEntries (l : RaftLog) (maxSize : Option Nat) : Res (Option (List Entry)) :=
  l.nextEntriesSince l.applied maxSize

/-- `RaftLog::has_next_entries` raft_log.rs:483 -/
def hasNextEntries (l : RaftLog) : Res Bool := l.hasNextEntriesSince l.applied

/-- `RaftLog::maybe_commit` raft_log.rs:525 -/
def maybeCommit (l : RaftLog) (maxIndex term : Nat) : Res (RaftLog × Bool) :=
  if l.committed < maxIndex then
    match l.term maxIndex with
    | .ok t =>
      if t = term then
        match l.commitTo maxIndex with
        | .ok l' => .ok (l', true)
        | .err e => .err e
        | .panic s => .panic s
      else .ok (l, false)
    | .err _ => .ok (l, false)
    | .panic s => .panic s
  else .ok (l, false)

/-- `RaftLog::maybe_persist` raft_log.rs:540 -/
def maybePersist (l : RaftLog) (index term : Nat) : Res (RaftLog × Bool) :=
  let firstUpdateIndex := match l.unstable.snapshot with
    | some s => s.metadata.index
    | none => l.unstable.offset
  if l.persisted < index ∧ index < firstUpdateIndex then
    match l.store.term index with
    | .ok t => if t = term then .ok ({ l with persisted := index }, true) else .ok (l, false)
    | .err _ => .ok (l, false)
    | .panic s => .panic s
  else .ok (l, false)

/-- `RaftLog::maybe_persist_snap` raft_log.rs:572 -/
def maybePersistSnap (l : RaftLog) (index : Nat) : Res (RaftLog × Bool) :=
  if l.persisted < index then
    if l.committed < index then .panic "raft_log.maybe_persist_snap.gt_committed"
    else if l.unstable.offset ≤ index then .panic "raft_log.maybe_persist_snap.ge_offset"
    else .ok ({ l with persisted := index }, true)
  else .ok (l, false)

/-- `RaftLog::restore` raft_log.rs:688 -/
def restore (l : RaftLog) (sn : Snapshot) : Res RaftLog :=
  if sn.metadata.index < l.committed then .panic "raft_log.restore.assert"
  else .ok { l with
    persisted := if l.committed < l.persisted then l.committed else l.persisted,
    committed := sn.metadata.index,
    unstable := l.unstable.restore sn }

/-- `RaftLog::commit_info` raft_log.rs:712 -/
def commitInfo (l : RaftLog) : Res (Nat × Nat) :=
  match l.term l.committed with
  | .ok t => .ok (l.committed, t)
  | .err _ => .panic "raft_log.commit_info.missing"
  | .panic s => .panic s

/-- `RaftLog::snapshot` raft_log.rs:488 (the storage may consume its "unavailable" trigger) -/
def snapshot (l : RaftLog) (requestIndex : Nat) : RaftLog × Res Snapshot :=
  match l.unstable.snapshot with
  | some sn =>
    if requestIndex ≤ sn.metadata.index then (l, .ok sn)
    else let (st, r) := l.store.snapshot requestIndex; ({ l with store := st }, r)
  | none => let (st, r) := l.store.snapshot requestIndex; ({ l with store := st }, r)

/-- `RaftLog::scan` raft_log.rs:610 with a callback that always continues: the list of pages.
`fuel` bounds the number of pages (each page is non-empty, so `hi - lo` suffices). -/
def scanLoop (l : RaftLog) (hi pageSize : Nat) (canAsync : Bool) :
    Nat → Nat → Res (List (List Entry))
  | 0, _ => .ok []
  | fuel + 1, lo =>
    if lo < hi then
      match l.slice lo hi (some pageSize) canAsync with
      | .ok [] => .panic "raft_log.scan.empty_page"   -- `Err(Other(..))`, not a `StorageError` we model
      | .ok ents =>
        match scanLoop l hi pageSize canAsync fuel (lo + ents.length) with
        | .ok ps => .ok (ents :: ps)
        | .err e => .err e
        | .panic s => .panic s
      | .err e => .err e
      | .panic s => .panic s
    else .ok []

def scan (l : RaftLog) (lo hi pageSize : Nat) (canAsync : Bool) : Res (List (List Entry)) :=
  l.scanLoop hi pageSize canAsync (hi - lo + 1) lo

/-! #### what a Ready-contract-abiding application does with the storage (raw_node.rs:596-612,
626-652): composite steps used by the theorems and by the generators -/

/-- `store.wl().append(unstable.entries)` followed by `stable_entries(last.index, last.term)` -/
def stabilise (l : RaftLog) : Res RaftLog :=
  match l.unstable.entries.getLast? with
  | none => .ok l
  | some e =>
    match l.store.append l.unstable.entries with
    | .ok st => ({ l with store := st } : RaftLog).stableEntries e.index e.term
    | .err e => .err e
    | .panic s => .panic s

/-- `store.wl().apply_snapshot(pending)`, `stable_snap(index)`, `maybe_persist_snap(index)` -/
def persistSnapshot (l : RaftLog) : Res RaftLog :=
  match l.unstable.snapshot with
  | none => .ok l
  | some sn =>
    match l.store.applySnapshot sn with
    | .ok st =>
      match ({ l with store := st } : RaftLog).stableSnap sn.metadata.index with
      | .ok l1 =>
        match l1.maybePersistSnap sn.metadata.index with
        | .ok (l2, _) => .ok l2
        | .err e => .err e
        | .panic s => .panic s
      | .err e => .err e
      | .panic s => .panic s
    | .err e => .err e
    | .panic s => .panic s

/-- `store.wl().compact(index)` -/
def compactStore (l : RaftLog) (index : Nat) : Res RaftLog :=
  match l.store.compact index with
  | .ok st => .ok { l with store := st }
  | .err e => .err e
  | .panic s => .panic s

end RaftLog

/-! ### The specification: a plain sequence model of the log

`snapIdx` is the index just below the first entry (the snapshot / compaction point), `snapTerm`
its term when it is still known (`none` after a `MemStorage` compaction, which forgets the term of
the new dummy position: the code answers `Compacted` there), `ents` the entries
`snapIdx+1, snapIdx+2, …`. -/

structure LLog where
  snapIdx : Nat
  snapTerm : Option Nat
  ents : List Entry
  deriving Repr, DecidableEq, Inhabited

namespace LLog

def firstIndex (g : LLog) : Nat := g.snapIdx + 1
def lastIndex (g : LLog) : Nat := g.snapIdx + g.ents.length

/-- the entry at raft index `i` -/
def entryAt (g : LLog) (i : Nat) : Option Entry :=
  if i ≤ g.snapIdx then none else g.ents[i - g.snapIdx - 1]?

/-- term query of the sequence model: 0 outside `[snapIdx, lastIndex]`, the snapshot term (or
`Compacted` when forgotten) at `snapIdx`, the entry's term inside -/
def term (g : LLog) (i : Nat) : Res Nat :=
  if i < g.snapIdx ∨ g.lastIndex < i then .ok 0
  else if i = g.snapIdx then
    match g.snapTerm with
    | some t => .ok t
    | none => .err .compacted
  else match g.entryAt i with
    | some e => .ok e.term
    | none => .ok 0

def lastTerm (g : LLog) : Res Nat :=
  match g.term g.lastIndex with
  | .ok t => .ok t
  | _ => .panic "raft_log.last_term.error"

def matchTerm (g : LLog) (i t : Nat) : Bool :=
  match g.term i with
  | .ok t' => t' == t
  | _ => false

/-- first entry of `ents` whose (index, term) is not in the log; 0 if none -/
def findConflict (g : LLog) : List Entry → Nat
  | [] => 0
  | e :: es => if g.matchTerm e.index e.term then findConflict g es else e.index

/-- largest `j ≤ index` whose term is known and `≤ term` (or where the term is unknown) -/
def findConflictByTerm (g : LLog) (term : Nat) : Nat → Nat × Option Nat
  | 0 =>
    match g.term 0 with
    | .ok t => (0, some t)
    | _ => (0, none)
  | j + 1 =>
    match g.term (j + 1) with
    | .ok t => if term < t then findConflictByTerm g term j else (j + 1, some t)
    | _ => (j + 1, none)

def isUpToDate (g : LLog) (lastIndex term : Nat) : Res Bool :=
  match g.lastTerm with
  | .ok lt => .ok (decide (lt < term) || (term == lt && decide (g.lastIndex ≤ lastIndex)))
  | .err e => .err e
  | .panic s => .panic s

/-- entries with raft index in `[lo, hi)` (for `firstIndex ≤ lo ≤ hi ≤ lastIndex+1`) -/
def range (g : LLog) (lo hi : Nat) : List Entry :=
  (g.ents.drop (lo - g.firstIndex)).take (hi - lo)

/-- `slice` of the sequence model (no temporarily-unavailable storage) -/
def slice (g : LLog) (lo hi : Nat) (maxSize : Option Nat) : Res (List Entry) :=
  if hi < lo then .panic "spec.slice.order"
  else if lo < g.firstIndex then .err .compacted
  else if g.lastIndex + 1 < hi then .panic "spec.slice.range"
  else .ok (limitSize (g.range lo hi) maxSize)

def entries (g : LLog) (idx : Nat) (maxSize : Option Nat) : Res (List Entry) :=
  if g.lastIndex < idx then .ok [] else g.slice idx (g.lastIndex + 1) maxSize

/-- truncate after raft index `keep` and append `suffix` -/
def truncateAppend (g : LLog) (keep : Nat) (suffix : List Entry) : LLog :=
  { g with ents := g.ents.take (keep - g.snapIdx) ++ suffix }

/-- forget everything up to and including `upTo` (storage compaction to `upTo + 1`) -/
def compactTo (g : LLog) (upTo : Nat) : LLog :=
  if upTo ≤ g.snapIdx then g
  else { snapIdx := upTo, snapTerm := none, ents := g.ents.drop (upTo - g.snapIdx) }

def ofSnapshot (sn : Snapshot) : LLog :=
  { snapIdx := sn.metadata.index, snapTerm := some sn.metadata.term, ents := [] }

end LLog

/-- the logical log a `RaftLog` represents: with a pending snapshot, the snapshot point followed by
the unstable entries; otherwise the storage entries below `unstable.offset` followed by the
unstable entries. -/
def RaftLog.abs (l : RaftLog) : LLog :=
  match l.unstable.snapshot with
  | some sn =>
    { snapIdx := sn.metadata.index, snapTerm := some sn.metadata.term, ents := l.unstable.entries }
  | none =>
    { snapIdx := l.store.firstIndex - 1,
      snapTerm := if l.store.firstIndex - 1 = l.store.snapshotMetadata.index
                  then some l.store.snapshotMetadata.term else none,
      ents := l.store.entries.take (l.unstable.offset - l.store.firstIndex) ++ l.unstable.entries }

end RaftModel
