import RaftModel.Storage

/-
Executable model of `src/log_unstable.rs` (the not-yet-persisted suffix of the raft log plus the
pending snapshot).  One Lean function per Rust method; `&mut self` methods return the new value;
every `fatal!`, `assert!`, slice / index out of bounds and `usize` underflow (debug build) is an
explicit `Res.panic`.
-/
namespace RaftModel

namespace Res

/-- sequencing of the three-outcome result type: errors and panics propagate -/
@[inline] def bind {α β : Type} (r : Res α) (f : α → Res β) : Res β :=
  match r with
  | .ok a => f a
  | .err e => .err e
  | .panic s => .panic s

instance : Monad Res where
  pure := .ok
  bind := Res.bind

@[simp] theorem ok_bind {α β : Type} (a : α) (f : α → Res β) : (Res.ok a >>= f) = f a := rfl
@[simp] theorem err_bind {α β : Type} (e : StorageError) (f : α → Res β) :
    ((Res.err e : Res α) >>= f) = Res.err e := rfl
@[simp] theorem panic_bind {α β : Type} (s : String) (f : α → Res β) :
    ((Res.panic s : Res α) >>= f) = Res.panic s := rfl
@[simp] theorem pure_eq {α : Type} (a : α) : (pure a : Res α) = Res.ok a := rfl

end Res

/-- `log_unstable.rs:31` (the logger is not modelled) -/
structure Unstable where
  snapshot : Option Snapshot := none
  entries : List Entry := []
  entriesSize : Nat := 0
  offset : Nat := 0
  deriving Repr, DecidableEq, Inhabited

/-- sum of `util::entry_approximate_size` -/
def approxSize (ents : List Entry) : Nat := (ents.map entryApproximateSize).sum

namespace Unstable

/-- `Unstable::new` log_unstable.rs:50 -/
def new (offset : Nat) : Unstable := { offset := offset }

/-- `Unstable::maybe_first_index` log_unstable.rs:62 -/
def maybeFirstIndex (u : Unstable) : Option Nat :=
  match u.snapshot with
  | some sn => some (sn.metadata.index + 1)
  | none => none

/-- `Unstable::maybe_last_index` log_unstable.rs:69 -/
def maybeLastIndex (u : Unstable) : Option Nat :=
  if u.entries.length = 0 then
    match u.snapshot with
    | some sn => some sn.metadata.index
    | none => none
  else some (u.offset + u.entries.length - 1)

/-- `Unstable::maybe_term` log_unstable.rs:77.  The only panic site is `self.entries[idx-offset]`
(reachable only when a pending snapshot's index is ≥ `offset`, which the invariant excludes). -/
def maybeTerm (u : Unstable) (idx : Nat) : Res (Option Nat) :=
  if idx < u.offset then
    match u.snapshot with
    | none => .ok none
    | some sn => if idx = sn.metadata.index then .ok (some sn.metadata.term) else .ok none
  else
    match u.maybeLastIndex with
    | none => .ok none
    | some last =>
      if last < idx then .ok none
      else match u.entries[idx - u.offset]? with
        | some e => .ok (some e.term)
        | none => .panic "unstable.maybe_term.index"

/-- `Unstable::stable_entries` log_unstable.rs:98 -/
def stableEntries (u : Unstable) (index term : Nat) : Res Unstable :=
  if u.snapshot.isSome then .panic "unstable.stable_entries.assert_snapshot"
  else match u.entries.getLast? with
    | some e =>
      if e.index ≠ index ∨ e.term ≠ term then .panic "unstable.stable_entries.mismatch"
      else .ok { u with offset := e.index + 1, entries := [], entriesSize := 0 }
    | none => .panic "unstable.stable_entries.empty"

/-- `Unstable::stable_snap` log_unstable.rs:126 -/
def stableSnap (u : Unstable) (index : Nat) : Res Unstable :=
  match u.snapshot with
  | some sn =>
    if sn.metadata.index ≠ index then .panic "unstable.stable_snap.mismatch"
    else .ok { u with snapshot := none }
  | none => .panic "unstable.stable_snap.none"

/-- `Unstable::restore` log_unstable.rs:147 -/
def restore (_u : Unstable) (sn : Snapshot) : Unstable :=
  { snapshot := some sn, entries := [], entriesSize := 0, offset := sn.metadata.index + 1 }

/-- `Unstable::must_check_outofbounds` log_unstable.rs:198 -/
def mustCheckOutOfBounds (u : Unstable) (lo hi : Nat) : Res Unit :=
  if hi < lo then .panic "unstable.must_check_outofbounds.order"
  else if lo < u.offset ∨ u.offset + u.entries.length < hi then
    .panic "unstable.must_check_outofbounds.range"
  else .ok ()

/-- `Unstable::truncate_and_append` log_unstable.rs:159 (three cases).  `ents[0]` on an empty batch
is an index panic; `entries_size -= …` is a `usize` subtraction (underflow panics in a debug build;
the running subtraction of non-negative sizes underflows iff the total exceeds `entries_size`). -/
def truncateAndAppend (u : Unstable) (ents : List Entry) : Res Unstable :=
  match ents with
  | [] => .panic "unstable.truncate_and_append.index"
  | e0 :: _ =>
    let after := e0.index
    if after = u.offset + u.entries.length then
      .ok { u with entries := u.entries ++ ents, entriesSize := u.entriesSize + approxSize ents }
    else if after ≤ u.offset then
      .ok { u with offset := after, entries := ents, entriesSize := approxSize ents }
    else
      match u.mustCheckOutOfBounds u.offset after with
      | .ok () =>
        let removed := approxSize (u.entries.drop (after - u.offset))
        if u.entriesSize < removed then .panic "unstable.truncate_and_append.size_underflow"
        else .ok { u with
          entries := u.entries.take (after - u.offset) ++ ents,
          entriesSize := u.entriesSize - removed + approxSize ents }
      | .err e => .err e
      | .panic s => .panic s

/-- `Unstable::slice` log_unstable.rs:188 -/
def slice (u : Unstable) (lo hi : Nat) : Res (List Entry) :=
  match u.mustCheckOutOfBounds lo hi with
  | .ok () => .ok ((u.entries.drop (lo - u.offset)).take (hi - lo))
  | .err e => .err e
  | .panic s => .panic s

end Unstable
end RaftModel
