import RaftModel.Inflights
import RaftModel.Storage
import RaftModel.Unstable

/-
Executable model of `src/tracker/progress.rs` (all of it) and `src/tracker/state.rs`.
One Lean function per Rust method; `&mut self` methods return the new value; the panic sites
(`Inflights::add` on a full window and the ring's index sites, `update_state` in `Snapshot`, u64
overflow of `n + 1` / `match_hint + 1` in a debug build) are explicit `Res.panic` outcomes.
-/
namespace RaftModel

/-- lift the `Except String` of the `Inflights` model into `Res` -/
def liftE {α : Type} : Except String α → Res α
  | .ok a => .ok a
  | .error e => .panic e

/-- `ProgressState` (tracker/state.rs:21) -/
inductive ProgressState where
  | probe | replicate | snapshot
  deriving Repr, DecidableEq, Inhabited

def ProgressState.toNat : ProgressState → Nat
  | .probe => 0 | .replicate => 1 | .snapshot => 2

/-- `Progress` (tracker/progress.rs:8) -/
structure Progress where
  matched : Nat := 0
  nextIdx : Nat := 0
  state : ProgressState := .probe
  paused : Bool := false
  pendingSnapshot : Nat := 0
  pendingRequestSnapshot : Nat := 0
  recentActive : Bool := false
  ins : Inflights := Inflights.new 0
  commitGroupId : Nat := 0
  committedIndex : Nat := 0
  deriving Repr, DecidableEq, Inhabited

namespace Progress

/-- `Progress::new` progress.rs:60 -/
def new (nextIdx insSize : Nat) : Progress :=
  { nextIdx := nextIdx, ins := Inflights.new insSize }

/-- `Progress::reset_state` progress.rs:75 -/
def resetState (p : Progress) (st : ProgressState) : Progress :=
  { p with paused := false, pendingSnapshot := 0, state := st, ins := p.ins.reset }

/-- `Progress::reset` progress.rs:82 -/
def reset (p : Progress) (nextIdx : Nat) : Progress :=
  { p with matched := 0, nextIdx := nextIdx, state := .probe, paused := false, pendingSnapshot := 0,
           pendingRequestSnapshot := 0, recentActive := false, ins := p.ins.reset }

/-- `Progress::become_probe` progress.rs:94 -/
def becomeProbe (p : Progress) : Progress :=
  if p.state = .snapshot then
    let ps := p.pendingSnapshot
    { p.resetState .probe with nextIdx := max (p.matched + 1) (ps + 1) }
  else
    { p.resetState .probe with nextIdx := p.matched + 1 }

/-- `Progress::become_replicate` progress.rs:110 -/
def becomeReplicate (p : Progress) : Progress :=
  { p.resetState .replicate with nextIdx := p.matched + 1 }

/-- `Progress::become_snapshot` progress.rs:117 -/
def becomeSnapshot (p : Progress) (snapshotIdx : Nat) : Progress :=
  { p.resetState .snapshot with pendingSnapshot := snapshotIdx }

/-- `Progress::snapshot_failure` progress.rs:124 -/
def snapshotFailure (p : Progress) : Progress := { p with pendingSnapshot := 0 }

/-- `Progress::is_snapshot_caught_up` progress.rs:130 -/
def isSnapshotCaughtUp (p : Progress) : Bool :=
  p.state == .snapshot && decide (p.pendingSnapshot ≤ p.matched)

/-- `Progress::resume` progress.rs:213 -/
def resume (p : Progress) : Progress := { p with paused := false }

/-- `Progress::pause` progress.rs:219 -/
def pause (p : Progress) : Progress := { p with paused := true }

/-- `Progress::maybe_update` progress.rs:136 (`n + 1` is a u64 addition) -/
def maybeUpdate (p : Progress) (n : Nat) : Res (Progress × Bool) :=
  let needUpdate := decide (p.matched < n)
  let p := if needUpdate then { p with matched := n, paused := false } else p
  if U64_MAX ≤ n then .panic "progress.maybe_update.overflow"
  else .ok (if p.nextIdx < n + 1 then { p with nextIdx := n + 1 } else p, needUpdate)

/-- `Progress::update_committed` progress.rs:151 -/
def updateCommitted (p : Progress) (ci : Nat) : Progress :=
  if p.committedIndex < ci then { p with committedIndex := ci } else p

/-- `Progress::optimistic_update` progress.rs:159 -/
def optimisticUpdate (p : Progress) (n : Nat) : Progress := { p with nextIdx := n + 1 }

/-- `Progress::maybe_decr_to` progress.rs:166 -/
def maybeDecrTo (p : Progress) (rejected matchHint requestSnapshot : Nat) : Res (Progress × Bool) :=
  if p.state = .replicate then
    if rejected < p.matched ∨ (rejected = p.matched ∧ requestSnapshot = 0) then .ok (p, false)
    else if requestSnapshot = 0 then .ok ({ p with nextIdx := p.matched + 1 }, true)
    else .ok ({ p with pendingRequestSnapshot := requestSnapshot }, true)
  else if (p.nextIdx = 0 ∨ p.nextIdx - 1 ≠ rejected) ∧ requestSnapshot = 0 then .ok (p, false)
  else if requestSnapshot = 0 then
    if U64_MAX ≤ matchHint then .panic "progress.maybe_decr_to.overflow"
    else
      let n := min rejected (matchHint + 1)
      let n := if n < p.matched + 1 then p.matched + 1 else n
      .ok ({ p with nextIdx := n, paused := false }, true)
  else if p.pendingRequestSnapshot = 0 then
    .ok ({ p with pendingRequestSnapshot := requestSnapshot, paused := false }, true)
  else .ok ({ p with paused := false }, true)

/-- `Progress::is_paused` progress.rs:203 -/
def isPaused (p : Progress) : Bool :=
  match p.state with
  | .probe => p.paused
  | .replicate => p.ins.full
  | .snapshot => true

/-- `Progress::update_state` progress.rs:225 -/
def updateState (p : Progress) (last : Nat) : Res Progress :=
  match p.state with
  | .replicate =>
    if U64_MAX ≤ last then .panic "progress.optimistic_update.overflow"
    else match (p.optimisticUpdate last).ins.add last with
      | .ok ins => .ok { p.optimisticUpdate last with ins := ins }
      | .error e => .panic e
  | .probe => .ok p.pause
  | .snapshot => .panic "progress.update_state.snapshot"

end Progress
end RaftModel
