import RaftModel.ProtoCfg

/-!
# PD — the discipline layer over PC

PC (`ProtoCfg.lean`) checks the events `win`, `commitLeader` and the read answers against *local*
conditions that mention the node's applied index (a parameter of the event): the applied index is not
beyond the commit index, the configuration used is the one of the version given by the applied
membership-change entries, there is **at most one membership-change entry beyond the applied index** in
a winner's log / in the prefix a leader commits, and a leader's version never decreases.

PD makes the applied index and the leader's `pending_conf_index` part of the state and replaces those
conditions by what single library calls of raft-rs enforce:

* `apply i k` — the application reports progress (`advance_apply_to`): `applied ≤ k ≤ commit`;
  `restart i a` — the applied index the node is restarted with (`Config.applied`) is not beyond the
  durable commit index: a contract on the **application** (`Raft::new` applies it unchecked,
  `applied_to_unchecked`; `RaftProps/PDGuards.lean` `PD_restart_gap`), kept by the simulator's
  application (its applied index becomes durable only up to the durable commit index, DESIGN A4);
* `campaign i` — `Raft::hup`: a node does not campaign while a membership-change entry in
  `(applied, committed]` is unapplied;
* `leaderAppend i e` with a membership-change entry — `step_leader` / `commit_apply` (auto-leave): only
  when `pending_conf_index ≤ applied`; it becomes `pending_conf_index`; `win` sets
  `pending_conf_index := last index` (`become_leader`);
* `sendApp i m` — `prepare_send_entries`: a `MsgAppend` carries the leader's commit index;
* `recvAppC i m` — `handle_append_entries`: the append and the commit advance to
  `min(m.commit, last new index)` happen in one call (P's `recvApp` followed by `commitApp`).

`RaftProofs/ProtoDisc*.lean` prove, for every PD-reachable state, the cross-node facts that make PC's
local conditions hold: every log (volatile, pending image, durable) holds at most one
membership-change entry beyond its commit index; a candidate's and a leader's log hold at most one
beyond the applied index; so every PD history is a PC history (and hence a P history).
-/
namespace RaftModel.P

structure DSys where
  pc : CSys
  /-- applied index per node (volatile: reset by `restart`) -/
  applied : Nat → Nat := fun _ => 0
  /-- `pending_conf_index` per node (meaningful while the node leads; a lower bound of the real one) -/
  pconf : Nat → Nat := fun _ => 0

def dinit : DSys := { pc := cinit }

def updN (f : Nat → Nat) (i v : Nat) : Nat → Nat := fun j => if j = i then v else f j

inductive DEvent where
  /-- any PC event that PD does not refine (see `refined`) -/
  | pc (e : CEvent)
  | apply (i k : Nat)
  | restart (i a : Nat)
  | campaign (i : Nat)
  | win (i : Nat) (cfg : Cfg) (q : List Nat) (applied : Nat)
  | leaderAppend (i : Nat) (e : LEntry)
  | sendApp (i : Nat) (m : App)
  | recvAppC (i : Nat) (m : App)
  | commitLeader (i c : Nat) (cfg : Cfg) (q : List Nat) (applied : Nat)
  | resp (i rid idx : Nat) (cfg : Cfg) (applied : Nat)
  | rstate (j rid idx : Nat) (cfg : Cfg) (applied : Nat)
  deriving Repr

/-- PC events that must go through their PD counterpart -/
def refined : CEvent → Bool
  | .win .. => true
  | .commitLeader .. => true
  | .resp .. => true
  | .rstate .. => true
  | .base (.campaign ..) => true
  | .base (.restart ..) => true
  | .base (.leaderAppend ..) => true
  | .base (.sendApp ..) => true
  | .base (.recvApp ..) => true
  | .base (.commitApp ..) => true
  | _ => false

def liftC (D : DSys) (r : Except String CSys) : Except String DSys :=
  match r with
  | .ok S => .ok { D with pc := S }
  | .error x => .error x

def applyEventD (D : DSys) : DEvent → Except String DSys
  | .pc e =>
    if refined e then .error "this event has a discipline-layer counterpart: use it"
    else liftC D (applyEventC D.pc e)
  | .apply i k =>
    let n := D.pc.base.nodes i
    if n.up ∧ D.applied i ≤ k ∧ k ≤ n.commit then .ok { D with applied := updN D.applied i k }
    else .error "apply: node down, applied index going backwards, or beyond the commit index"
  | .restart i a =>
    let n := D.pc.base.nodes i
    if a ≤ n.dcommit then
      match applyEventC D.pc (.base (.restart i)) with
      | .ok S => .ok { D with pc := S, applied := updN D.applied i a }
      | .error x => .error x
    else .error "restart: applied index beyond the durable commit index"
  | .campaign i =>
    let n := D.pc.base.nodes i
    -- Raft::hup: no membership-change entry in (applied, committed]
    if D.applied i ≤ n.commit ∧ confCount (n.log.take n.commit) = confCount (n.log.take (D.applied i)) then
      liftC D (applyEventC D.pc (.base (.campaign i)))
    else .error "campaign: a committed membership change is not applied yet"
  | .win i cfg q applied =>
    let n := D.pc.base.nodes i
    if applied = D.applied i then
      match applyEventC D.pc (.win i cfg q applied) with
      | .ok S => .ok { D with pc := S, pconf := updN D.pconf i n.log.length }
      | .error x => .error x
    else .error "win: reported applied index differs from the tracked one"
  | .leaderAppend i e =>
    let n := D.pc.base.nodes i
    if isConf e then
      if D.pconf i ≤ D.applied i then
        match applyEventC D.pc (.base (.leaderAppend i e)) with
        | .ok S => .ok { D with pc := S, pconf := updN D.pconf i (n.log.length + 1) }
        | .error x => .error x
      else .error "leaderAppend: a membership change is appended while pending_conf_index is beyond the applied index"
    else liftC D (applyEventC D.pc (.base (.leaderAppend i e)))
  | .sendApp i m =>
    let n := D.pc.base.nodes i
    if m.commit = n.commit then liftC D (applyEventC D.pc (.base (.sendApp i m)))
    else .error "sendApp: a MsgAppend carries the leader's commit index"
  | .recvAppC i m =>
    match applyEventC D.pc (.base (.recvApp i m)) with
    | .ok S =>
      let n := S.base.nodes i
      let c := min m.commit (m.prev + m.es.length)
      if n.commit < c then liftC D (applyEventC S (.base (.commitApp i c m)))
      else .ok { D with pc := S }
    | .error x => .error x
  | .commitLeader i c cfg q applied =>
    if applied = D.applied i then liftC D (applyEventC D.pc (.commitLeader i c cfg q applied))
    else .error "commitLeader: reported applied index differs from the tracked one"
  | .resp i rid idx cfg applied =>
    if applied = D.applied i then liftC D (applyEventC D.pc (.resp i rid idx cfg applied))
    else .error "read resp: reported applied index differs from the tracked one"
  | .rstate j rid idx cfg applied =>
    if applied = D.applied j ∨ D.pc.base.rd.resps.contains ⟨rid, j, idx⟩ then
      liftC D (applyEventC D.pc (.rstate j rid idx cfg applied))
    else .error "read state: reported applied index differs from the tracked one"

def runD (D : DSys) : List DEvent → Except String DSys
  | [] => .ok D
  | e :: es => match applyEventD D e with
    | .ok D' => runD D' es
    | .error x => .error x

inductive ReachPD : DSys → Prop where
  | init : ReachPD dinit
  | step {D D' : DSys} (e : DEvent) : ReachPD D → applyEventD D e = .ok D' → ReachPD D'

/-! ### PC's local conditions, as predicates (what PD makes redundant) -/

def winLocalB (S : CSys) (i : Nat) (cfg : Cfg) (applied : Nat) : Bool :=
  let n := S.base.nodes i
  decide (applied ≤ n.commit) && decide (confCount n.log ≤ confCount (n.log.take applied) + 1) &&
    decide (S.vtab[confCount (n.log.take applied)]? = some cfg)

def commitLocalB (S : CSys) (i c : Nat) (cfg : Cfg) (applied : Nat) : Bool :=
  let n := S.base.nodes i
  decide (applied ≤ n.commit) && decide (confCount (n.log.take c) ≤ confCount (n.log.take applied) + 1) &&
    decide (S.vtab[confCount (n.log.take applied)]? = some cfg) && verMono S n.term (confCount (n.log.take applied))

end RaftModel.P
