import RaftModel.RaftStep

/-
The calls ONE raft node can receive, as a datatype, and their execution on the node model.

`NodeOp` lists every call the node-level correspondence drives (`rvh raftnode`, component token `rn`):
the public `RawNode` entry points that are thin wrappers around `Raft::step` (model: `RawNode.*` of
RaftStep.lean), the crate-public `Raft` methods the application side of the harness calls, and the
steps of the emulated application (persist = storage append + `stable_entries`, snapshot install,
apply = `reduce_uncommitted_size` + `commit_apply`, compaction, draining the message queue).
`applyOp` executes one of them.  The driver (`Driver/RaftNode.lean`) only parses a trace line into a
`NodeOp`, calls `applyOp` and prints the result, so `applyOp` **is** the function the free-running
correspondence ties to `/repo`; the cluster semantics (`RaftModel/Cluster.lean`) is built from the same
function, so theorems about clusters of node models speak about exactly the tied definitions.
-/
namespace RaftModel
namespace Node

/-- a node: the `Raft` state machine plus what the emulated application remembers -/
structure NState where
  raft : Raft
  /-- the application's configuration after the last applied configuration change -/
  appCs : ConfState
  deriving Inhabited

inductive NodeOp where
  | tick
  /-- `RawNode::step` (with its filter for local messages and responses of unknown peers) -/
  | step (m : Message)
  /-- `Raft::step` directly -/
  | rstep (m : Message)
  | propose (context data : Bytes)
  | proposeCc (etype : Nat) (context data : Bytes)
  | readIndex (rctx : Bytes)
  | transferLeader (transferee : Nat)
  | campaign
  | ping
  | requestSnapshot
  | reportUnreachable (id : Nat)
  | reportSnapshot (id : Nat) (failure : Bool)
  | applyConfChange (cc : ConfChangeV2)
  | stabilize
  | onPersistEntries (index term : Nat)
  | persistSnap
  | commitApply (k : Nat)
  | compact (k : Nat)
  | drain
  | triggerSnap
  | triggerLog (b : Bool)
  | setPriority (p : Int)
  | setBatchAppend (b : Bool)
  | skipBcastCommit (b : Bool)
  | setCheckQuorum (b : Bool)
  | adjustMaxInflight (id cap : Nat)
  | maybeFreeInflightBuffers
  | enableGroupCommit (b : Bool)
  | assignCommitGroups (ids : List (Nat × Nat))
  | clearCommitGroup
  | checkGroupCommitConsistent
  | setMaxApplyUnpersistedLogLimit (x : Nat)
  | setMaxCommittedSizePerReady (x : Nat)
  /-- `RawNode::on_entries_fetched` raw_node.rs:433 for a context `GetEntriesFor::SendAppend { to, term, aggressively }`
  (the asynchronous log fetch: `Storage::entries` answered `LogTemporarilyUnavailable` for a `send_append`, the
  application fetched the entries and calls back) -/
  | onEntriesFetched (to term : Nat) (aggressively : Bool)

/-- what a call returns to the application -/
inductive OpRes where
  | ok
  | okBool (b : Bool)
  | okNone
  | okCs (cs : ConfState)
  | err (e : RaftError)
  | errConfChange
  | errSnapshotOutOfDate
  deriving Inhabited

/-- outcome of a call: result and new state, or a panic -/
abbrev Out := Res (OpRes × NState)

def unitRes (st : NState) (r : Res (Raft × Option RaftError)) : Out :=
  match r with
  | .ok (raft, none) => .ok (.ok, { st with raft := raft })
  | .ok (raft, some e) => .ok (.err e, { st with raft := raft })
  | .err _ => .panic "unexpected-err"
  | .panic s => .panic s

def okRes (st : NState) (r : Res Raft) : Out :=
  match r with
  | .ok raft => .ok (.ok, { st with raft := raft })
  | .err _ => .panic "unexpected-err"
  | .panic s => .panic s

def withStore (r : Raft) (f : MemStorage → MemStorage) : Raft :=
  { r with raftLog := { r.raftLog with store := f r.raftLog.store } }

/-- `stabilize`: storage append of the unstable entries + `stable_entries`, then the hard state's
term / vote are written to the storage -/
def stabilize (st : NState) : Out :=
  let r := st.raft
  let l := r.raftLog
  let l1 : Res RaftLog :=
    match l.unstable.entries.getLast? with
    | none => .ok l
    | some last =>
      match l.store.append l.unstable.entries with
      | .ok store => ({ l with store := store } : RaftLog).stableEntries last.index last.term
      | .err e => .err e
      | .panic s => .panic s
  match l1 with
  | .ok l =>
    let hs := { l.store.hardState with term := r.term, vote := r.vote }
    .ok (.ok, { st with raft := { r with raftLog := { l with store := l.store.setHardState hs } } })
  | .err _ => .panic "unexpected-err"
  | .panic s => .panic s

/-- `persist_snap`: storage `apply_snapshot` of the pending snapshot, `stable_snap`,
`on_persist_snap` -/
def persistSnap (st : NState) : Out :=
  let r := st.raft
  match r.raftLog.unstable.snapshot with
  | none => .ok (.okNone, st)
  | some s =>
    match r.raftLog.store.applySnapshot s with
    | .err _ => .ok (.errSnapshotOutOfDate, st)
    | .panic p => .panic p
    | .ok store =>
      match ({ r.raftLog with store := store } : RaftLog).stableSnap s.metadata.index with
      | .err _ => .panic "unexpected-err"
      | .panic p => .panic p
      | .ok l =>
        match ({ r with raftLog := l } : Raft).onPersistSnap s.metadata.index with
        | .ok raft => .ok (.ok, { raft := raft, appCs := s.metadata.confState })
        | .err _ => .panic "unexpected-err"
        | .panic p => .panic p

/-- `commit_apply k`: `reduce_uncommitted_size` of the entries being applied, `commit_apply(k)`,
then the application records (applied index, configuration) in the storage when `k` is there -/
def commitApply (st : NState) (k : Nat) : Out :=
  let r := st.raft
  let l := r.raftLog
  let r1 : Res Raft :=
    if l.applied < k ∧ k ≤ l.committed then
      match l.slice (l.applied + 1) (k + 1) none false with
      | .ok ents => .ok (r.reduceUncommittedSize ents)
      | .err _ => .ok r
      | .panic s => .panic s
    else .ok r
  match r1.bind (fun r => r.commitApply k) with
  | .ok r =>
    let store := r.raftLog.store
    let r := if store.firstIndex ≤ k ∧ k ≤ store.lastIndex then
        withStore r (fun s => { s with hardState := { s.hardState with commit := k }, confState := st.appCs })
      else r
    .ok (.ok, { st with raft := r })
  | .err _ => .panic "unexpected-err"
  | .panic s => .panic s

/-- one call on the node model (the random draw of the call is set by the caller through
`nextRand`) -/
def applyOp (st : NState) : NodeOp → Out
  | .tick =>
    match RawNode.tick st.raft with
    | .ok (raft, b) => .ok (.okBool b, { st with raft := raft })
    | .err _ => .panic "unexpected-err"
    | .panic s => .panic s
  | .step m => unitRes st (RawNode.step st.raft m)
  | .rstep m => unitRes st (st.raft.step m)
  | .propose c d => unitRes st (RawNode.propose st.raft c d)
  | .proposeCc t c d => unitRes st (RawNode.proposeConfChange st.raft c t d)
  | .readIndex c => okRes st (RawNode.readIndex st.raft c)
  | .transferLeader x => okRes st (RawNode.transferLeader st.raft x)
  | .campaign => unitRes st (RawNode.campaign st.raft)
  | .ping => okRes st (RawNode.ping st.raft)
  | .requestSnapshot => unitRes st (RawNode.requestSnapshot st.raft)
  | .reportUnreachable x => okRes st (RawNode.reportUnreachable st.raft x)
  | .reportSnapshot x f => okRes st (RawNode.reportSnapshot st.raft x f)
  | .applyConfChange cc =>
    match RawNode.applyConfChange st.raft cc with
    | .ok (raft, .ok cs) => .ok (.okCs cs, { raft := raft, appCs := cs })
    | .ok (raft, .error _) => .ok (.errConfChange, { st with raft := raft })
    | .err _ => .panic "unexpected-err"
    | .panic s => .panic s
  | .stabilize => stabilize st
  | .onPersistEntries i t => okRes st (st.raft.onPersistEntries i t)
  | .persistSnap => persistSnap st
  | .commitApply k => commitApply st k
  | .compact k =>
    match st.raft.raftLog.store.compact k with
    | .ok store => .ok (.ok, { st with raft := withStore st.raft (fun _ => store) })
    | .err _ => .panic "unexpected-err"
    | .panic s => .panic s
  | .drain => .ok (.ok, { st with raft := { st.raft with msgs := [], readStates := [] } })
  | .triggerSnap => .ok (.ok, { st with raft := withStore st.raft (fun s => s.triggerSnapUnavailableOn) })
  | .triggerLog b => .ok (.ok, { st with raft := withStore st.raft (fun s => s.setTriggerLogUnavailable b) })
  | .setPriority p => .ok (.ok, { st with raft := st.raft.setPriority p })
  | .setBatchAppend b => .ok (.ok, { st with raft := st.raft.setBatchAppend b })
  | .skipBcastCommit b => .ok (.ok, { st with raft := st.raft.setSkipBcastCommit b })
  | .setCheckQuorum b => .ok (.ok, { st with raft := st.raft.setCheckQuorum b })
  | .adjustMaxInflight id cap => okRes st (st.raft.adjustMaxInflightMsgs id cap)
  | .maybeFreeInflightBuffers => .ok (.ok, { st with raft := st.raft.maybeFreeInflightBuffers })
  | .enableGroupCommit b => okRes st (st.raft.enableGroupCommit b)
  | .assignCommitGroups v => okRes st (st.raft.assignCommitGroups v)
  | .clearCommitGroup => .ok (.ok, { st with raft := st.raft.clearCommitGroup })
  | .checkGroupCommitConsistent =>
    match st.raft.checkGroupCommitConsistent with
    | .ok none => .ok (.okNone, st)
    | .ok (some b) => .ok (.okBool b, st)
    | .err _ => .panic "unexpected-err"
    | .panic s => .panic s
  | .setMaxApplyUnpersistedLogLimit x => .ok (.ok, { st with raft := st.raft.setMaxApplyUnpersistedLogLimit x })
  | .setMaxCommittedSizePerReady x => .ok (.ok, { st with raft := st.raft.setMaxCommittedSizePerReady x })
  -- a stale context — term or role changed, peer removed — is ignored
  | .onEntriesFetched to term aggressively =>
    if st.raft.term ≠ term ∨ st.raft.state ≠ .leader then .ok (.ok, st)
    else if (st.raft.prs.get to).isNone then .ok (.ok, st)
    else okRes st (if aggressively then st.raft.sendAppendAggressively to else st.raft.sendAppend to)

/-- `RawNode::on_entries_fetched` for a `GetEntriesFor::SendAppend` context: the `NodeOp.onEntriesFetched` call -/
def onEntriesFetched (st : NState) (to term : Nat) (aggressively : Bool) : Out :=
  applyOp st (.onEntriesFetched to term aggressively)

/-- a call with the random draw the implementation used for it (`reset_randomized_election_timeout`) -/
def call (st : NState) (rnd : Option Nat) (op : NodeOp) : Out :=
  applyOp { st with raft := { st.raft with nextRand := rnd } } op

/-- `RawNode::new(config, store)`; the application's configuration is the stored `ConfState` -/
def boot (c : Config) (store : MemStorage) (rnd : Option Nat) : Res (Except RaftError NState) :=
  match RawNode.new c store rnd with
  | .ok (.ok raft) => .ok (.ok { raft := raft, appCs := store.confState })
  | .ok (.error e) => .ok (.error e)
  | .err e => .err e
  | .panic s => .panic s

end Node
end RaftModel
