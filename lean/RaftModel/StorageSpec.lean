import RaftModel.Storage

/-
Specification side of C19: what a `Storage` *means* — a snapshot point `(snapIdx, snapTerm)`, the
first index still available, and the contiguous entries from there on — together with the stored
hard state and configuration.  Everything here is phrased by *log index* (`filter`/`find?` on the
`index` field), never by position in the vector; the refinement theorems (RaftProps/C19.lean) show
that the position arithmetic of the Rust code (`entries[(idx - offset) as usize]`, `drain(..n)`,
`drain(n..)`) computes exactly this.

`MemStorageCore::compact` leaves `snapshot_metadata` at the *old* snapshot point (storage.rs:294-313),
so `firstIdx` may exceed `snapIdx + 1`; the specification models what exists.
-/
namespace RaftModel

/-- `contigFrom n l`: the `i`-th entry of `l` has index `n + i` -/
def contigFrom : Nat → List Entry → Bool
  | _, [] => true
  | n, e :: es => e.index == n && contigFrom (n + 1) es

/-- total protobuf size of a list of entries (what `limit_size` accumulates) -/
def totalSize (l : List Entry) : Nat := (l.map Entry.computeSize).sum

structure LogSpec where
  snapIdx : Nat := 0
  snapTerm : Nat := 0
  firstIdx : Nat := 1
  ents : List Entry := []
  hs : HardState := {}
  cs : ConfState := {}
  deriving Repr, DecidableEq, Inhabited

namespace LogSpec

/-- index of the last entry, or of the position before `firstIdx` when nothing is stored -/
def lastIdx (l : LogSpec) : Nat := l.firstIdx + l.ents.length - 1

/-- well-formedness: the snapshot point lies before the first available index, the entries are
contiguous from `firstIdx`, and an empty log starts right after the snapshot point -/
def WF (l : LogSpec) : Prop :=
  l.snapIdx < l.firstIdx ∧ contigFrom l.firstIdx l.ents = true ∧
    (l.ents = [] → l.firstIdx = l.snapIdx + 1)

instance (l : LogSpec) : Decidable l.WF := by unfold WF; infer_instance

/-- the stored entry with log index `idx` -/
def entryAt (l : LogSpec) (idx : Nat) : Option Entry := l.ents.find? (fun e => e.index == idx)

/-- the term the log knows for `idx`: the snapshot point's, or that of the stored entry -/
def termAt (l : LogSpec) (idx : Nat) : Option Nat :=
  if idx = l.snapIdx then some l.snapTerm else (l.entryAt idx).map (·.term)

/-- `Storage::term`: the known term, else `Compacted` below `firstIdx`, else `Unavailable` -/
def term (l : LogSpec) (idx : Nat) : Res Nat :=
  match l.termAt idx with
  | some t => .ok t
  | none => if idx < l.firstIdx then .err .compacted else .err .unavailable

/-- the stored entries with `low ≤ index < high`, in log order -/
def range (l : LogSpec) (low high : Nat) : List Entry :=
  l.ents.filter (fun e => decide (low ≤ e.index) && decide (e.index < high))

/-- `Storage::entries` on an available range -/
def entries (l : LogSpec) (low high : Nat) (maxSize : Option Nat) : List Entry :=
  limitSize (l.range low high) maxSize

/-- the stored commit index points at the snapshot point or at a stored entry -/
def commitOk (l : LogSpec) : Bool :=
  l.hs.commit == l.snapIdx || (decide (l.firstIdx ≤ l.hs.commit) && decide (l.hs.commit ≤ l.lastIdx))

/-- `Storage::snapshot(request_index)` (when not temporarily unavailable) -/
def snapshot (l : LogSpec) (requestIndex : Nat) : Option Snapshot :=
  (l.termAt l.hs.commit).map fun t =>
    { data := [], metadata := { index := max l.hs.commit requestIndex, term := t, confState := l.cs } }

/-- the effect of each call on the meaning of the storage -/
def step (l : LogSpec) : StorageOp → LogSpec
  | .setHardState hs => { l with hs := hs }
  | .setConfState cs => { l with cs := cs }
  | .commitTo i =>
    (match l.entryAt i with
      | some e => { l with hs := { l.hs with commit := i, term := e.term } }
      | none => l)
  | .applySnapshot snap =>
    if snap.metadata.index < l.firstIdx then l
    else { snapIdx := snap.metadata.index, snapTerm := snap.metadata.term,
           firstIdx := snap.metadata.index + 1, ents := [],
           hs := { l.hs with term := max l.hs.term snap.metadata.term, commit := snap.metadata.index },
           cs := snap.metadata.confState }
  | .compact ci =>
    if ci ≤ l.firstIdx then l
    else { l with firstIdx := ci, ents := l.ents.filter (fun e => decide (ci ≤ e.index)) }
  | .append [] => l
  | .append (b0 :: b) =>
    { l with ents := l.ents.filter (fun e => decide (e.index < b0.index)) ++ b0 :: b }
  | .triggerSnapUnavailable => l
  | .triggerLogUnavailable _ => l
  | .snapshot _ => l

/-- the documented preconditions of the calls, as far as the *log* is concerned:
`commit_to`: "Panics if there is no such entry in raft logs" (storage.rs:198-200);
`compact`: "not attempt to compact an index greater than RaftLog.applied" (storage.rs:288-289),
hence `≤ last_index` (a no-op request `≤ first_index` is always allowed);
`append`: a contiguous batch, not "compacted entries", no "gap between `ents` and the last received
entry" (storage.rs:319-320);
`snapshot`: the stored commit index is the snapshot point or a stored entry (the code assumes "all
entries whose indexes are less than `hard_state.commit` have been applied", storage.rs:264-265). -/
def pre (l : LogSpec) : StorageOp → Bool
  | .commitTo i => decide (l.firstIdx ≤ i) && decide (i ≤ l.lastIdx)
  | .compact ci => decide (ci ≤ l.firstIdx) || decide (ci ≤ l.lastIdx)
  | .append [] => true
  | .append (b0 :: b) =>
    contigFrom b0.index (b0 :: b) && decide (l.firstIdx ≤ b0.index) && decide (b0.index ≤ l.lastIdx + 1)
  | .snapshot _ => l.commitOk
  | _ => true

/-- `pre` plus what keeps the stored commit index meaningful (needed only by `snapshot`): the hard
state's commit index exists in the log, compaction stays at or below it (`compact_index ≤ applied ≤
commit`), and an overwriting append does not cut the log below it. -/
def preC (l : LogSpec) : StorageOp → Bool
  | .setHardState hs =>
    hs.commit == l.snapIdx || (decide (l.firstIdx ≤ hs.commit) && decide (hs.commit ≤ l.lastIdx))
  | .compact ci => decide (ci ≤ l.firstIdx) || (decide (ci ≤ l.lastIdx) && decide (ci ≤ l.hs.commit))
  | .append [] => true
  | .append (b0 :: b) =>
    l.pre (.append (b0 :: b)) && (l.hs.commit == l.snapIdx || decide (l.hs.commit ≤ b0.index + b.length))
  | op => l.pre op

def run : LogSpec → List StorageOp → LogSpec
  | l, [] => l
  | l, op :: ops => run (l.step op) ops

/-- every call of the history satisfies `pre` in the state it is issued in -/
def legal : LogSpec → List StorageOp → Bool
  | _, [] => true
  | l, op :: ops => l.pre op && legal (l.step op) ops

def legalC : LogSpec → List StorageOp → Bool
  | _, [] => true
  | l, op :: ops => l.preC op && legalC (l.step op) ops

end LogSpec

namespace MemStorage

/-- what a `MemStorageCore` means -/
def abs (s : MemStorage) : LogSpec :=
  { snapIdx := s.snapshotMetadata.index, snapTerm := s.snapshotMetadata.term,
    firstIdx := s.firstIndex, ents := s.entries, hs := s.hardState, cs := s.confState }

/-- representation invariant of `MemStorageCore` -/
def Inv (s : MemStorage) : Prop := s.abs.WF

instance (s : MemStorage) : Decidable s.Inv := by unfold Inv; infer_instance

/-- run a history on the model; stops at the first panic -/
def run : MemStorage → List StorageOp → Res MemStorage
  | s, [] => .ok s
  | s, op :: ops =>
    match s.step op with
    | .ok s' => run s' ops
    | .err e => .err e
    | .panic p => .panic p

end MemStorage
end RaftModel
