import RaftModel.RaftTracker
import RaftModel.RaftLog

/-
Executable model of `src/config.rs` (`validate`, `min/max_election_tick`) and of the core of
`src/raft.rs`: `UncommittedState` (raft.rs:90-152), the `Raft` state (raft.rs:158-270), `send`
(614), `prepare_send_snapshot` (679), `prepare_send_entries` (729), `try_batching` (747),
`maybe_send_append` (794), `send_heartbeat` (855), `send_append(_aggressively)` (892-900),
`bcast_append` (904), `bcast_heartbeat(_with_ctx)` (922-935), `maybe_commit` (939),
`commit_apply(_internal)` (960-1005), `reset` (1008), `append_entry` (1043),
`on_persist_entries` (1060), `on_persist_snap` (1089), `become_*` (1152-1281), `campaign` (1287),
`poll` (2281), `handle_ready_read_index` (2930), `post_conf_change` (2743), the uncommitted-size
helpers (2948-2977), the inflight knobs (2982-2994), the group-commit API (515-578) and the small
accessors/setters.

Conventions: one Lean function per Rust function, same name in camelCase; `&mut self` methods take
the state and return `Res` of the new state (plus the return value); `fatal!`, `panic!`, `assert!`,
`unwrap`, index out of bounds and the u64 overflows of a debug build that an input can reach are
`Res.panic`; `Res.err` is not used at this level (a `Result::Err` of the Rust function is part of
the returned value).  `RaftCore` methods that borrow one `Progress` out of the tracker
(`send_append(to, pr, msgs)` …) take and return that `Progress`; they never touch `prs`.
Hash-order iteration over the progress map / voter set is done in increasing id order; outputs
are compared after a stable sort by receiver.  The value `reset_randomized_election_timeout` draws
is the per-call input `nextRand` (`none`: the draw equals the current value).  Logging is ignored.
-/
namespace RaftModel

/-- `Config` (config.rs:27) -/
structure Config where
  id : Nat := 0
  electionTick : Nat := 20
  heartbeatTick : Nat := 2
  applied : Nat := 0
  maxSizePerMsg : Nat := 0
  maxInflightMsgs : Nat := 256
  checkQuorum : Bool := false
  preVote : Bool := false
  minElectionTick : Nat := 0
  maxElectionTick : Nat := 0
  readOnlyOption : ReadOnlyOption := .safe
  skipBcastCommit : Bool := false
  batchAppend : Bool := false
  priority : Int := 0
  maxUncommittedSize : Nat := NO_LIMIT
  maxCommittedSizePerReady : Nat := NO_LIMIT
  maxApplyUnpersistedLogLimit : Nat := 0
  disableProposalForwarding : Bool := false
  deriving Repr, DecidableEq, Inhabited

namespace Config

/-- `Config::min_election_tick` config.rs:147 -/
def minElectionTick' (c : Config) : Nat :=
  if c.minElectionTick = 0 then c.electionTick else c.minElectionTick

/-- `Config::max_election_tick` config.rs:157 -/
def maxElectionTick' (c : Config) : Nat :=
  if c.maxElectionTick = 0 then 2 * c.electionTick else c.maxElectionTick

/-- `Config::validate` config.rs:166: `true` = `Ok(())` -/
def validate (c : Config) : Bool :=
  if c.id = 0 then false
  else if c.heartbeatTick = 0 then false
  else if c.electionTick ≤ c.heartbeatTick then false
  else if c.minElectionTick' < c.electionTick then false
  else if c.maxElectionTick' ≤ c.minElectionTick' then false
  else if c.maxInflightMsgs = 0 then false
  else if c.readOnlyOption = .leaseBased ∧ ¬ c.checkQuorum then false
  else if c.maxUncommittedSize < c.maxSizePerMsg then false
  else true

end Config

/-- `UncommittedState` raft.rs:90 -/
structure UncommittedState where
  maxUncommittedSize : Nat := NO_LIMIT
  uncommittedSize : Nat := 0
  lastLogTailIndex : Nat := 0
  deriving Repr, DecidableEq, Inhabited

namespace UncommittedState

/-- raft.rs:105 -/
def isNoLimit (u : UncommittedState) : Bool := u.maxUncommittedSize == NO_LIMIT

def dataSize (ents : List Entry) : Nat := (ents.map (fun e => e.data.length)).sum

/-- `maybe_increase_uncommitted_size` raft.rs:109 -/
def maybeIncreaseUncommittedSize (u : UncommittedState) (ents : List Entry) :
    UncommittedState × Bool :=
  if u.isNoLimit then (u, true)
  else
    let size := dataSize ents
    if size = 0 ∨ u.uncommittedSize = 0 ∨ size + u.uncommittedSize ≤ u.maxUncommittedSize then
      ({ u with uncommittedSize := u.uncommittedSize + size }, true)
    else (u, false)

/-- `maybe_reduce_uncommitted_size` raft.rs:131 -/
def maybeReduceUncommittedSize (u : UncommittedState) (ents : List Entry) :
    UncommittedState × Bool :=
  if u.isNoLimit ∨ ents.isEmpty then (u, true)
  else
    let size := dataSize (ents.dropWhile (fun e => decide (e.index ≤ u.lastLogTailIndex)))
    if u.uncommittedSize < size then ({ u with uncommittedSize := 0 }, false)
    else ({ u with uncommittedSize := u.uncommittedSize - size }, true)

end UncommittedState

/-- `Raft<T>` = `RaftCore<T>` + `prs` + `msgs` (raft.rs:158-270), over `MemStorage` -/
structure Raft where
  term : Nat := 0
  vote : Nat := 0
  id : Nat := 0
  readStates : List ReadState := []
  raftLog : RaftLog
  maxInflight : Nat := 0
  maxMsgSize : Nat := 0
  pendingRequestSnapshot : Nat := 0
  state : StateRole := .follower
  promotable : Bool := false
  leaderId : Nat := 0
  leadTransferee : Option Nat := none
  pendingConfIndex : Nat := 0
  readOnly : ReadOnly := {}
  electionElapsed : Nat := 0
  heartbeatElapsed : Nat := 0
  checkQuorum : Bool := false
  preVote : Bool := false
  skipBcastCommit : Bool := false
  batchAppend : Bool := false
  disableProposalForwarding : Bool := false
  heartbeatTimeout : Nat := 0
  electionTimeout : Nat := 0
  randomizedElectionTimeout : Nat := 0
  minElectionTimeout : Nat := 0
  maxElectionTimeout : Nat := 0
  priority : Int := 0
  uncommittedState : UncommittedState := {}
  maxCommittedSizePerReady : Nat := 0
  prs : ProgressTracker := {}
  msgs : List Message := []
  /-- per-call input: the value the next `reset_randomized_election_timeout` draws -/
  nextRand : Option Nat := none
  deriving Repr, DecidableEq, Inhabited

/-- `Error` values a `Raft` / `RawNode` entry point can return (errors.rs) -/
inductive RaftError where
  | proposalDropped | stepLocalMsg | stepPeerNotFound | requestSnapshotDropped
  | confChangeError | configInvalid
  deriving Repr, DecidableEq, Inhabited

namespace Raft

/-- bring a storage-level `Res` that cannot legitimately fail into the node level:
an `Err` that the Rust code `unwrap`s / `fatal!`s is a panic -/
def orPanic {α : Type} (site : String) : Res α → Res α
  | .ok a => .ok a
  | .err _ => .panic site
  | .panic s => .panic s

/-- `for (id, pr) in self.mut_prs().iter_mut() { … }` -/
def mapProgress (r : Raft) (f : Nat → Progress → Progress) : Raft :=
  let progress := r.prs.progress.map (fun p => (p.1, f p.1 p.2))
  { r with prs := { r.prs with progress := progress } }

/-- `if let Some(pr) = self.mut_prs().get_mut(id) { … }` -/
def modifyProgress (r : Raft) (id : Nat) (f : Progress → Progress) : Raft :=
  let progress := NatMap.modify id f r.prs.progress
  { r with prs := { r.prs with progress := progress } }

/-! ### small accessors / setters -/

/-- raft.rs:405 -/
def setPriority (r : Raft) (p : Int) : Raft := { r with priority := p }
/-- raft.rs:499 -/
def setSkipBcastCommit (r : Raft) (b : Bool) : Raft := { r with skipBcastCommit := b }
/-- raft.rs:505 -/
def setBatchAppend (r : Raft) (b : Bool) : Raft := { r with batchAppend := b }
/-- raft.rs:597 -/
def setMaxCommittedSizePerReady (r : Raft) (n : Nat) : Raft := { r with maxCommittedSizePerReady := n }
/-- raft.rs:602 -/
def setCheckQuorum (r : Raft) (b : Bool) : Raft := { r with checkQuorum := b }
/-- raft.rs:607 -/
def setMaxApplyUnpersistedLogLimit (r : Raft) (n : Nat) : Raft :=
  { r with raftLog := { r.raftLog with maxApplyUnpersistedLogLimit := n } }

/-- `Raft::hard_state` raft.rs:457 -/
def hardState (r : Raft) : HardState := { term := r.term, vote := r.vote, commit := r.raftLog.committed }

/-- `Raft::in_lease` raft.rs:466 -/
def inLease (r : Raft) : Bool := r.state == .leader && r.checkQuorum

/-- `Raft::commit_to_current_term` raft.rs:583 -/
def commitToCurrentTerm (r : Raft) : Res Bool :=
  match r.raftLog.term r.raftLog.committed with
  | .ok t => .ok (t == r.term)
  | .err _ => .ok false
  | .panic s => .panic s

/-- `Raft::apply_to_current_term` raft.rs:590 -/
def applyToCurrentTerm (r : Raft) : Res Bool :=
  match r.raftLog.term r.raftLog.applied with
  | .ok t => .ok (t == r.term)
  | .err _ => .ok false
  | .panic s => .panic s

/-- `Raft::has_pending_conf` raft.rs:2818 -/
def hasPendingConf (r : Raft) : Bool := decide (r.raftLog.applied < r.pendingConfIndex)

/-- `Raft::should_bcast_commit` raft.rs:2823 -/
def shouldBcastCommit (r : Raft) : Bool := !r.skipBcastCommit || r.hasPendingConf

/-- `Raft::pass_election_timeout` raft.rs:2878 -/
def passElectionTimeout (r : Raft) : Bool := decide (r.randomizedElectionTimeout ≤ r.electionElapsed)

/-- `Raft::reset_randomized_election_timeout` raft.rs:2883 -/
def resetRandomizedElectionTimeout (r : Raft) : Raft :=
  { r with randomizedElectionTimeout := r.nextRand.getD r.randomizedElectionTimeout }

/-- `Raft::abort_leader_transfer` raft.rs:2914 -/
def abortLeaderTransfer (r : Raft) : Raft := { r with leadTransferee := none }

/-- `Raft::uncommitted_size` raft.rs:2975 -/
def uncommittedSize (r : Raft) : Nat := r.uncommittedState.uncommittedSize

/-- `Raft::maybe_increase_uncommitted_size` raft.rs:2969 -/
def maybeIncreaseUncommittedSize (r : Raft) (ents : List Entry) : Raft × Bool :=
  let (u, b) := r.uncommittedState.maybeIncreaseUncommittedSize ents
  ({ r with uncommittedState := u }, b)

/-- `Raft::reduce_uncommitted_size` raft.rs:2948 -/
def reduceUncommittedSize (r : Raft) (ents : List Entry) : Raft :=
  if r.state ≠ .leader then r
  else { r with uncommittedState := (r.uncommittedState.maybeReduceUncommittedSize ents).1 }

/-- `Raft::maybe_free_inflight_buffers` raft.rs:2982 -/
def maybeFreeInflightBuffers (r : Raft) : Raft :=
  r.mapProgress (fun _ pr => { pr with ins := pr.ins.maybeFreeBuffer })

/-- `Raft::adjust_max_inflight_msgs` raft.rs:2990 -/
def adjustMaxInflightMsgs (r : Raft) (target cap : Nat) : Res Raft :=
  match r.prs.get target with
  | none => .ok r
  | some pr =>
    match pr.ins.setCap cap with
    | .ok ins => .ok { r with prs := r.prs.set target { pr with ins := ins } }
    | .error e => .panic e

/-! ### sending -/

/-- the four (pre-)vote message types, which carry their own term (raft.rs:625-628) -/
def isVoteMsg : MsgType → Bool
  | .msgRequestVote | .msgRequestPreVote | .msgRequestVoteResponse | .msgRequestPreVoteResponse => true
  | _ => false

/-- what `send` fills in before queueing (raft.rs:622-675): the sender, the term of every message
that is not a (pre-)vote message / proposal / read-index request, and the priority of vote requests -/
def sendFill (r : Raft) (m : Message) : Message :=
  let m := if m.frm = 0 then { m with frm := r.id } else m
  let m := if !isVoteMsg m.msgType && m.msgType != .msgPropose && m.msgType != .msgReadIndex
    then { m with term := r.term } else m
  if m.msgType == .msgRequestVote || m.msgType == .msgRequestPreVote then
    { m with deprecatedPriority := if r.priority > 0 then r.priority.toNat else m.deprecatedPriority,
             priority := r.priority }
  else m

/-- `RaftCore::send` raft.rs:614 -/
def send (r : Raft) (m : Message) : Res Raft :=
  if isVoteMsg m.msgType && m.term == 0 && !(m.msgType == .msgRequestPreVoteResponse && m.reject) then .panic "raft.send.term_not_set"
  else if !isVoteMsg m.msgType && m.term != 0 then .panic "raft.send.term_set"
  else .ok { r with msgs := r.msgs ++ [r.sendFill m] }

/-- `RaftCore::prepare_send_snapshot` raft.rs:679 -/
def prepareSendSnapshot (r : Raft) (m : Message) (pr : Progress) (_to : Nat) :
    Res (Raft × Message × Progress × Bool) :=
  if !pr.recentActive then .ok (r, m, pr, false)
  else
    let m := { m with msgType := .msgSnapshot }
    let (log, sr) := r.raftLog.snapshot pr.pendingRequestSnapshot
    let r := { r with raftLog := log }
    match sr with
    | .err .snapshotTemporarilyUnavailable => .ok (r, m, pr, false)
    | .err _ => .panic "raft.prepare_send_snapshot.unexpected_error"
    | .panic s => .panic s
    | .ok snapshot =>
      if snapshot.metadata.index = 0 then .panic "raft.prepare_send_snapshot.empty_snapshot"
      else
        .ok (r, { m with snapshot := snapshot }, pr.becomeSnapshot snapshot.metadata.index, true)

/-- `RaftCore::prepare_send_entries` raft.rs:729 (`pr.next_idx - 1` is a u64 subtraction) -/
def prepareSendEntries (r : Raft) (m : Message) (pr : Progress) (term : Nat) (ents : List Entry) :
    Res (Message × Progress) :=
  if pr.nextIdx = 0 then .panic "raft.prepare_send_entries.underflow"
  else
    let m := { m with msgType := .msgAppend, index := pr.nextIdx - 1, logTerm := term,
                      entries := ents, commit := r.raftLog.committed }
    match ents.getLast? with
    | none => .ok (m, pr)
    | some last =>
      match pr.updateState last.index with
      | .ok pr => .ok (m, pr)
      | .err e => .err e
      | .panic s => .panic s

/-- the `for msg in msgs` loop of `try_batching`: returns the updated queue, progress, and whether
the entries were batched -/
def tryBatchingLoop (committed to : Nat) (pr : Progress) (ents : List Entry) :
    List Message → Res (List Message × Progress × Bool)
  | [] => .ok ([], pr, false)
  | msg :: rest =>
    if msg.msgType = .msgAppend ∧ msg.to = to then
      if !ents.isEmpty then
        if !isContinuousEnts msg ents then .ok (msg :: rest, pr, false)
        else
          let batched := msg.entries ++ ents
          match batched.getLast? with
          | none => .panic "raft.try_batching.last"
          | some last =>
            match pr.updateState last.index with
            | .ok pr => .ok ({ msg with entries := batched, commit := committed } :: rest, pr, true)
            | .err e => .err e
            | .panic s => .panic s
      else .ok ({ msg with commit := committed } :: rest, pr, true)
    else
      match tryBatchingLoop committed to pr ents rest with
      | .ok (rest', pr', b) => .ok (msg :: rest', pr', b)
      | .err e => .err e
      | .panic s => .panic s

/-- `RaftCore::try_batching` raft.rs:747 -/
def tryBatching (r : Raft) (to : Nat) (pr : Progress) (ents : List Entry) :
    Res (Raft × Progress × Bool) :=
  match tryBatchingLoop r.raftLog.committed to pr ents r.msgs with
  | .ok (msgs, pr, b) => .ok ({ r with msgs := msgs }, pr, b)
  | .err e => .err e
  | .panic s => .panic s

/-- `RaftCore::maybe_send_append` raft.rs:794 -/
def maybeSendAppend (r : Raft) (to : Nat) (pr : Progress) (allowEmpty : Bool) :
    Res (Raft × Progress × Bool) :=
  if pr.isPaused then .ok (r, pr, false)
  else
    let m : Message := { to := to }
    if pr.pendingRequestSnapshot ≠ 0 then
      match r.prepareSendSnapshot m pr to with
      | .ok (r, m, pr, true) => (r.send m).bind (fun r => .ok (r, pr, true))
      | .ok (r, _, pr, false) => .ok (r, pr, false)
      | .err e => .err e
      | .panic s => .panic s
    else
      match r.raftLog.entries pr.nextIdx (some r.maxMsgSize) true with
      | .panic s => .panic s
      | ents =>
        let entsEmptyOrErr := match ents with
          | .ok es => es.isEmpty
          | _ => true
        if !allowEmpty && entsEmptyOrErr then .ok (r, pr, false)
        else if pr.nextIdx = 0 then .panic "raft.maybe_send_append.underflow"
        else
          match r.raftLog.term (pr.nextIdx - 1) with
          | .panic s => .panic s
          | term =>
            match term, ents with
            | .ok term, .ok ents =>
              let batched : Res (Raft × Progress × Bool) :=
                if r.batchAppend then r.tryBatching to pr ents else .ok (r, pr, false)
              (match batched with
                | .ok (r, pr, true) => .ok (r, pr, true)
                | .ok (r, pr, false) =>
                  (match r.prepareSendEntries m pr term ents with
                    | .ok (m, pr) => (r.send m).bind (fun r => .ok (r, pr, true))
                    | .err e => .err e
                    | .panic s => .panic s)
                | .err e => .err e
                | .panic s => .panic s)
            | _, .err .logTemporarilyUnavailable => .ok (r, pr, false)
            | _, _ =>
              match r.prepareSendSnapshot m pr to with
              | .ok (r, m, pr, true) => (r.send m).bind (fun r => .ok (r, pr, true))
              | .ok (r, _, pr, false) => .ok (r, pr, false)
              | .err e => .err e
              | .panic s => .panic s

/-- `RaftCore::send_append` raft.rs:779 -/
def sendAppendPr (r : Raft) (to : Nat) (pr : Progress) : Res (Raft × Progress) :=
  (r.maybeSendAppend to pr true).bind (fun (r, pr, _) => .ok (r, pr))

/-- `RaftCore::send_append_aggressively` raft.rs:783 (`while maybe_send_append(..) {}`; every
successful send advances `next_idx` or pauses the progress, so `fuel` iterations suffice) -/
def sendAppendAggressivelyPr : Nat → Raft → Nat → Progress → Res (Raft × Progress)
  | 0, _, _, _ => .panic "model.send_append_aggressively.fuel"
  | fuel + 1, r, to, pr =>
    match r.maybeSendAppend to pr false with
    | .ok (r, pr, true) => sendAppendAggressivelyPr fuel r to pr
    | .ok (r, pr, false) => .ok (r, pr)
    | .err e => .err e
    | .panic s => .panic s

/-- `RaftCore::send_heartbeat` raft.rs:855 -/
def sendHeartbeat (r : Raft) (to : Nat) (pr : Progress) (ctx : Option Bytes) : Res Raft :=
  r.send { msgType := .msgHeartbeat, to := to, commit := min pr.matched r.raftLog.committed,
           context := ctx.getD [] }

/-- `Raft::send_append` raft.rs:892 (`prs.get_mut(to).unwrap()`) -/
def sendAppend (r : Raft) (to : Nat) : Res Raft :=
  match r.prs.get to with
  | none => .panic "raft.send_append.unwrap"
  | some pr => (r.sendAppendPr to pr).bind (fun (r, pr) => .ok { r with prs := r.prs.set to pr })

/-- `Raft::send_append_aggressively` raft.rs:897 -/
def sendAppendAggressively (r : Raft) (to : Nat) : Res Raft :=
  match r.prs.get to with
  | none => .panic "raft.send_append_aggressively.unwrap"
  | some pr =>
    (sendAppendAggressivelyPr (r.raftLog.lastIndex + 3) r to pr).bind
      (fun (r, pr) => .ok { r with prs := r.prs.set to pr })

/-- apply `f` to every peer's progress except our own, in id order -/
def forEachPeer (r : Raft) (f : Raft → Nat → Progress → Res (Raft × Progress)) : Res Raft :=
  (r.prs.progress.map (·.1)).foldl (fun (acc : Res Raft) id =>
    acc.bind (fun r =>
      if id = r.id then .ok r
      else match r.prs.get id with
        | none => .ok r
        | some pr => (f r id pr).bind (fun (r, pr) => .ok { r with prs := r.prs.set id pr }))) (.ok r)

/-- `Raft::bcast_append` raft.rs:904 -/
def bcastAppend (r : Raft) : Res Raft := r.forEachPeer (fun r id pr => r.sendAppendPr id pr)

/-- `Raft::bcast_heartbeat_with_ctx` raft.rs:927 -/
def bcastHeartbeatWithCtx (r : Raft) (ctx : Option Bytes) : Res Raft :=
  r.forEachPeer (fun r id pr => (r.sendHeartbeat id pr ctx).bind (fun r => .ok (r, pr)))

/-- `Raft::bcast_heartbeat` raft.rs:922 -/
def bcastHeartbeat (r : Raft) : Res Raft := r.bcastHeartbeatWithCtx r.readOnly.lastPendingRequestCtx

/-- `Raft::ping` raft.rs:915 -/
def ping (r : Raft) : Res Raft := if r.state = .leader then r.bcastHeartbeat else .ok r

/-- `Raft::send_timeout_now` raft.rs:2908 -/
def sendTimeoutNow (r : Raft) (to : Nat) : Res Raft := r.send (newMessage to .msgTimeoutNow none)

/-! ### commit, apply, reset, append -/

/-- `Raft::maybe_commit` raft.rs:939 -/
def maybeCommit (r : Raft) : Res (Raft × Bool) :=
  match r.prs.maximalCommittedIndex with
  | .panic s => .panic s
  | .err e => .err e
  | .ok (mci, _) =>
    match r.raftLog.maybeCommit mci r.term with
    | .panic s => .panic s
    | .err e => .err e
    | .ok (log, true) =>
      let r := { r with raftLog := log }
      .ok (r.modifyProgress r.id (fun pr => pr.updateCommitted log.committed), true)
    | .ok (_, false) => .ok (r, false)

/-- `Raft::append_entry` raft.rs:1043 -/
def appendEntry (r : Raft) (es : List Entry) : Res (Raft × Bool) :=
  match r.maybeIncreaseUncommittedSize es with
  | (_, false) => .ok (r, false)
  | (r, true) =>
    let li := r.raftLog.lastIndex
    let es := (List.range es.length).zip es |>.map (fun (i, e) =>
      { e with term := r.term, index := li + 1 + i })
    match r.raftLog.append es with
    | .ok (log, _) => .ok ({ r with raftLog := log }, true)
    | .err _ => .panic "raft.append_entry.unexpected_error"
    | .panic s => .panic s

/-- `Raft::commit_apply_internal` raft.rs:973 -/
def commitApplyInternal (r : Raft) (applied : Nat) (skipCheck : Bool) : Res Raft :=
  let oldApplied := r.raftLog.applied
  let log : Res RaftLog :=
    if !skipCheck then r.raftLog.appliedTo applied
    else if applied = 0 then .panic "raft.commit_apply_internal.assert"
    else .ok { r.raftLog with applied := applied }
  match log with
  | .panic s => .panic s
  | .err _ => .panic "raft.commit_apply_internal.unexpected_error"
  | .ok log =>
    let r := { r with raftLog := log }
    if r.prs.conf.autoLeave ∧ oldApplied ≤ r.pendingConfIndex ∧ r.pendingConfIndex ≤ applied ∧
        r.state = .leader then
      match r.appendEntry [{ etype := 2 }] with
      | .ok (r, true) => .ok { r with pendingConfIndex := r.raftLog.lastIndex }
      | .ok (_, false) => .panic "raft.commit_apply_internal.dropped"
      | .err e => .err e
      | .panic s => .panic s
    else .ok r

/-- `Raft::commit_apply` raft.rs:960 -/
def commitApply (r : Raft) (applied : Nat) : Res Raft := r.commitApplyInternal applied false

/-- `Raft::reset` raft.rs:1008 -/
def reset (r : Raft) (term : Nat) : Raft :=
  let r := if r.term ≠ term then { r with term := term, vote := 0 } else r
  let r := { r with leaderId := 0 }
  let r := r.resetRandomizedElectionTimeout
  let r := { r with electionElapsed := 0, heartbeatElapsed := 0 }
  let r := r.abortLeaderTransfer
  let r := { r with prs := r.prs.resetVotes }
  let r := { r with pendingConfIndex := 0, readOnly := ReadOnly.new r.readOnly.option,
                    pendingRequestSnapshot := 0 }
  let lastIndex := r.raftLog.lastIndex
  let committed := r.raftLog.committed
  let persisted := r.raftLog.persisted
  r.mapProgress (fun id pr0 =>
    let pr := pr0.reset (lastIndex + 1)
    if id = r.id then { pr with matched := persisted, committedIndex := committed } else pr)

/-- `Raft::on_persist_snap` raft.rs:1089 -/
def onPersistSnap (r : Raft) (index : Nat) : Res Raft :=
  match r.raftLog.maybePersistSnap index with
  | .ok (log, _) => .ok { r with raftLog := log }
  | .err _ => .panic "raft.on_persist_snap.unexpected_error"
  | .panic s => .panic s

/-- `Raft::on_persist_entries` raft.rs:1060 -/
def onPersistEntries (r : Raft) (index term : Nat) : Res Raft :=
  match r.raftLog.maybePersist index term with
  | .panic s => .panic s
  | .err _ => .panic "raft.on_persist_entries.unexpected_error"
  | .ok (log, update) =>
    let r := { r with raftLog := log }
    if update ∧ r.state = .leader then
      match r.prs.get r.id with
      | none => .ok r
      | some pr =>
        match pr.maybeUpdate index with
        | .panic s => .panic s
        | .err e => .err e
        | .ok (pr, updated) =>
          let r := { r with prs := r.prs.set r.id pr }
          if updated then
            match r.maybeCommit with
            | .ok (r, true) => if r.shouldBcastCommit then r.bcastAppend else .ok r
            | .ok (r, false) => .ok r
            | .err e => .err e
            | .panic s => .panic s
          else .ok r
    else .ok r

/-! ### role changes -/

/-- `Raft::become_follower` raft.rs:1152 -/
def becomeFollower (r : Raft) (term leaderId : Nat) : Raft :=
  let prs := r.pendingRequestSnapshot
  let r := r.reset term
  { r with leaderId := leaderId, state := .follower, pendingRequestSnapshot := prs,
           raftLog := { r.raftLog with maxApplyUnpersistedLogLimit := 0 } }

/-- `Raft::become_candidate` raft.rs:1180 (`self.term + 1` is a u64 addition) -/
def becomeCandidate (r : Raft) : Res Raft :=
  if r.state = .leader then .panic "raft.become_candidate.leader"
  else if U64_MAX ≤ r.term then .panic "raft.become_candidate.overflow"
  else
    let r := r.reset (r.term + 1)
    .ok { r with vote := r.id, state := .candidate }

/-- `Raft::become_pre_candidate` raft.rs:1203 -/
def becomePreCandidate (r : Raft) : Res Raft :=
  if r.state = .leader then .panic "raft.become_pre_candidate.leader"
  else .ok { r with state := .preCandidate, prs := r.prs.resetVotes, leaderId := 0 }

/-- `Raft::become_leader` raft.rs:1230 -/
def becomeLeader (r : Raft) : Res Raft :=
  if r.state = .follower then .panic "raft.become_leader.follower"
  else
    let r := r.reset r.term
    let r := { r with leaderId := r.id, state := .leader }
    let lastIndex := r.raftLog.lastIndex
    if lastIndex ≠ r.raftLog.persisted then .panic "raft.become_leader.assert_persisted"
    else
      let r := { r with uncommittedState :=
        { r.uncommittedState with uncommittedSize := 0, lastLogTailIndex := lastIndex } }
      match r.prs.get r.id with
      | none => .panic "raft.become_leader.unwrap"
      | some pr =>
        let r := { r with prs := r.prs.set r.id pr.becomeReplicate, pendingConfIndex := lastIndex }
        match r.appendEntry [{}] with
        | .ok (r, true) => .ok r
        | .ok (_, false) => .panic "raft.become_leader.dropped"
        | .err e => .err e
        | .panic s => .panic s

/-- the vote-request loop of `campaign` raft.rs:1303-1332: one request per voter of either half
except ourselves -/
def sendVoteRequests (r : Raft) (ct : CampaignType) (voteMsg : MsgType) (term : Nat) : Res Raft :=
  match r.raftLog.commitInfo with
  | .panic s => .panic s
  | .err _ => .panic "raft.campaign.commit_info"
  | .ok (commit, commitTerm) =>
    match r.raftLog.lastTerm with
    | .panic s => .panic s
    | .err _ => .panic "raft.campaign.last_term"
    | .ok lastTerm =>
      (NatSet.union r.prs.conf.incoming r.prs.conf.outgoing).foldl (fun (acc : Res Raft) id =>
        acc.bind (fun r =>
          if id = r.id then .ok r
          else r.send { msgType := voteMsg, to := id, term := term, index := r.raftLog.lastIndex,
                        logTerm := lastTerm, commit := commit, commitTerm := commitTerm,
                        context := if ct = .transfer then campaignTransfer else [] })) (.ok r)

/-- `Raft::poll` raft.rs:2281, with the campaign that a winning pre-candidate starts as a parameter
(the Rust functions `poll` and `campaign` are mutually recursive with depth two) -/
def pollWith (onPreWin : Raft → Res Raft) (r : Raft) (frm : Nat) (_t : MsgType) (vote : Bool) :
    Res (Raft × VoteResult) :=
  let r := { r with prs := r.prs.recordVote frm vote }
  let (_, _, res) := r.prs.tallyVotes
  match res with
  | .won =>
    if r.state = .preCandidate then (onPreWin r).bind (fun r => .ok (r, res))
    else (r.becomeLeader.bind (fun r => r.bcastAppend)).bind (fun r => .ok (r, res))
  | .lost => .ok (r.becomeFollower r.term 0, res)
  | .pending => .ok (r, res)

/-- `Raft::campaign` raft.rs:1287, parameterised by the `poll` it calls -/
def campaignWith (poll : Raft → Nat → MsgType → Bool → Res (Raft × VoteResult)) (r : Raft)
    (ct : CampaignType) : Res Raft :=
  let start : Res (Raft × MsgType × Nat) :=
    if ct = .preElection then
      r.becomePreCandidate.bind (fun r =>
        if U64_MAX ≤ r.term then .panic "raft.campaign.overflow"
        else .ok (r, .msgRequestPreVote, r.term + 1))
    else r.becomeCandidate.bind (fun r => .ok (r, .msgRequestVote, r.term))
  start.bind (fun (r, voteMsg, term) =>
    (poll r r.id voteMsg true).bind (fun (r, res) =>
      if res = .won then .ok r else r.sendVoteRequests ct voteMsg term))

/-- the election campaign started by a pre-candidate that won the pre-vote: the node is a
`Candidate` when it polls its own vote, so the pre-candidate arm of `poll` is dead -/
def campaignAfterPreVote (r : Raft) : Res Raft :=
  campaignWith (pollWith (fun _ => .panic "model.poll.depth")) r .election

/-- `Raft::poll` raft.rs:2281 -/
def poll (r : Raft) (frm : Nat) (t : MsgType) (vote : Bool) : Res (Raft × VoteResult) :=
  pollWith campaignAfterPreVote r frm t vote

/-- `Raft::campaign` raft.rs:1287 -/
def campaign (r : Raft) (ct : CampaignType) : Res Raft := campaignWith poll r ct

/-! ### read index, configuration -/

/-- `Raft::handle_ready_read_index` raft.rs:2930 (`req.take_entries()[0]` is an index site) -/
def handleReadyReadIndex (r : Raft) (req : Message) (index : Nat) : Res (Raft × Option Message) :=
  if req.frm = 0 ∨ req.frm = r.id then
    match req.entries.head? with
    | none => .panic "raft.handle_ready_read_index.index"
    | some e => .ok ({ r with readStates := r.readStates ++ [{ index := index, requestCtx := e.data }] }, none)
  else
    .ok (r, some { msgType := .msgReadIndexResp, to := req.frm, index := index, entries := req.entries })

/-- answer the read requests that `ReadOnly::advance` released (raft.rs:1930-1934, 2797-2801) -/
def respondReadStates (r : Raft) (rss : List ReadIndexStatus) : Res Raft :=
  rss.foldl (fun (acc : Res Raft) rs =>
    acc.bind (fun r =>
      (r.handleReadyReadIndex rs.req rs.index).bind (fun (r, om) =>
        match om with
        | some m => r.send m
        | none => .ok r))) (.ok r)

/-- `Raft::post_conf_change` raft.rs:2743 -/
def postConfChange (r : Raft) : Res (Raft × ConfState) :=
  let cs := r.prs.conf.toConfState
  let isVoter := Joint.contains r.prs.voters r.id
  let r := { r with promotable := isVoter }
  -- a leader that is no longer a voter steps down (fix F14)
  if !isVoter && r.state == .leader then .ok (r.becomeFollower r.term 0, cs)
  else if r.state ≠ .leader ∨ cs.voters.isEmpty then .ok (r, cs)
  else
    let r1 : Res Raft :=
      match r.maybeCommit with
      | .ok (r, true) => r.bcastAppend
      | .ok (r, false) =>
        r.forEachPeer (fun r id pr => (r.maybeSendAppend id pr false).bind (fun (r, pr, _) => .ok (r, pr)))
      | .err e => .err e
      | .panic s => .panic s
    r1.bind (fun r =>
      let r2 : Res Raft :=
        match r.readOnly.lastPendingRequestCtx with
        | none => .ok r
        | some ctx =>
          let (ro, acks) := r.readOnly.recvAck r.id ctx
          let r := { r with readOnly := ro }
          match acks with
          | some acks =>
            if r.prs.hasQuorum acks then
              (r.readOnly.advance ctx).bind (fun (ro, rss) =>
                ({ r with readOnly := ro } : Raft).respondReadStates rss)
            else .ok r
          | none => .ok r
      r2.bind (fun r =>
        let r := match r.leadTransferee with
          | some e => if !Joint.contains r.prs.voters e then r.abortLeaderTransfer else r
          | none => r
        .ok (r, cs)))

/-- `Raft::apply_conf_change` raft.rs:2834 -/
def applyConfChange (r : Raft) (cc : ConfChangeV2) : Res (Raft × Except ErrKind ConfState) :=
  let res := match cc.classify with
    | .leave => leaveJoint r.prs.toCC
    | .enter al => enterJoint r.prs.toCC al cc.changes
    | .simple => simple r.prs.toCC cc.changes
  match res with
  | .error e => .ok (r, .error e)
  | .ok (cfg, changes) =>
    let r := { r with prs := r.prs.applyConf cfg changes r.raftLog.lastIndex }
    r.postConfChange.bind (fun (r, cs) => .ok (r, .ok cs))

/-- `Raft::load_state` raft.rs:2860 -/
def loadState (r : Raft) (hs : HardState) : Res Raft :=
  if hs.commit < r.raftLog.committed ∨ r.raftLog.lastIndex < hs.commit then
    .panic "raft.load_state.out_of_range"
  else .ok { r with raftLog := { r.raftLog with committed := hs.commit }, term := hs.term, vote := hs.vote }

/-! ### group commit -/

/-- `Raft::enable_group_commit` raft.rs:515 -/
def enableGroupCommit (r : Raft) (enable : Bool) : Res Raft :=
  let r := { r with prs := { r.prs with groupCommit := enable } }
  if r.state = .leader ∧ ¬ enable then
    match r.maybeCommit with
    | .ok (r, true) => r.bcastAppend
    | .ok (r, false) => .ok r
    | .err e => .err e
    | .panic s => .panic s
  else .ok r

/-- `Raft::assign_commit_groups` raft.rs:533 (`assert!(*group_id > 0)` inside the loop) -/
def assignCommitGroups (r : Raft) (ids : List (Nat × Nat)) : Res Raft :=
  let r1 : Res Raft := ids.foldl (fun (acc : Res Raft) (p : Nat × Nat) =>
    acc.bind (fun r =>
      if p.2 = 0 then .panic "raft.assign_commit_groups.assert"
      else .ok (r.modifyProgress p.1 (fun pr => { pr with commitGroupId := p.2 })))) (.ok r)
  r1.bind (fun r =>
    if r.state = .leader ∧ r.prs.groupCommit then
      match r.maybeCommit with
      | .ok (r, true) => r.bcastAppend
      | .ok (r, false) => .ok r
      | .err e => .err e
      | .panic s => .panic s
    else .ok r)

/-- `Raft::clear_commit_group` raft.rs:549 -/
def clearCommitGroup (r : Raft) : Raft :=
  r.mapProgress (fun _ pr => { pr with commitGroupId := 0 })

/-- `Raft::check_group_commit_consistent` raft.rs:559 -/
def checkGroupCommitConsistent (r : Raft) : Res (Option Bool) :=
  if r.state ≠ .leader then .ok none
  else match r.applyToCurrentTerm with
    | .panic s => .panic s
    | .err e => .err e
    | .ok false => .ok none
    | .ok true =>
      match r.prs.maximalCommittedIndex with
      | .ok (index, useGc) => .ok (some (useGc && index == r.raftLog.committed))
      | .err e => .err e
      | .panic s => .panic s

end Raft
end RaftModel
