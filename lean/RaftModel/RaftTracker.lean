import RaftModel.RaftProgress
import RaftModel.RaftMessage
import RaftModel.Quorum
import RaftModel.ConfChange

/-
Executable model of the rest of `src/tracker.rs` (`ProgressTracker`: progress map, votes,
`quorum_recently_active`, `apply_conf`, …), of `confchange::restore` acting on the *full* tracker
(restore.rs:91), and of `src/read_only.rs`.

`HashMap<u64, Progress>` / `HashMap<u64, bool>` are association lists kept sorted by id; the
configuration is the `Configuration` of ConfChange.lean (sorted id lists); the quorum arithmetic is
the one of Quorum.lean (`Joint.committedIndexR`, `Tracker.tallyVotes`, `Tracker.hasQuorum`); the
conf-change algebra is the one of ConfChange.lean (`simple`, `enterJoint`, `leaveJoint` over the
configuration and the key set of the progress map).
-/
namespace RaftModel

/- sorted association lists (the model of `HashMap<u64, _>`) -/
namespace NatMap

def insert {α : Type} (k : Nat) (v : α) : List (Nat × α) → List (Nat × α)
  | [] => [(k, v)]
  | (k', v') :: rest =>
    if k < k' then (k, v) :: (k', v') :: rest
    else if k = k' then (k, v) :: rest
    else (k', v') :: insert k v rest

def erase {α : Type} (k : Nat) (m : List (Nat × α)) : List (Nat × α) :=
  m.filter (fun p => p.1 != k)

/-- `get_mut(k)` followed by an update: no-op when absent -/
def modify {α : Type} (k : Nat) (f : α → α) (m : List (Nat × α)) : List (Nat × α) :=
  m.map (fun p => if p.1 = k then (p.1, f p.2) else p)

end NatMap

/-- `ProgressTracker` (tracker.rs:190) -/
structure ProgressTracker where
  progress : List (Nat × Progress) := []
  conf : Configuration := {}
  votes : List (Nat × Bool) := []
  maxInflight : Nat := 0
  groupCommit : Bool := false
  deriving Repr, DecidableEq, Inhabited

namespace ProgressTracker

/-- `ProgressTracker::with_capacity` tracker.rs:210 -/
def new (maxInflight : Nat) : ProgressTracker := { maxInflight := maxInflight }

def voters (t : ProgressTracker) : JointConfig :=
  { incoming := t.conf.incoming, outgoing := t.conf.outgoing }

/-- the part the `Changer` reads -/
def toCC (t : ProgressTracker) : Tracker :=
  { conf := t.conf, progress := t.progress.map (·.1) }

/-- `ProgressTracker::clear` tracker.rs:234 -/
def clear (t : ProgressTracker) : ProgressTracker :=
  { t with progress := [], conf := {}, votes := [] }

/-- `ProgressTracker::is_singleton` tracker.rs:242 / joint.rs `is_singleton` -/
def isSingleton (t : ProgressTracker) : Bool :=
  t.conf.outgoing.isEmpty && t.conf.incoming.length == 1

/-- `ProgressTracker::get` tracker.rs:248 -/
def get (t : ProgressTracker) (id : Nat) : Option Progress := t.progress.lookup id

/-- write back after a `get_mut` (the id is known to be present) -/
def set (t : ProgressTracker) (id : Nat) (p : Progress) : ProgressTracker :=
  { t with progress := NatMap.modify id (fun _ => p) t.progress }

/-- `impl AckedIndexer for ProgressMap` tracker.rs:178 -/
def acked (t : ProgressTracker) : Nat → Option Index := fun id =>
  (t.progress.lookup id).map (fun p => { index := p.matched, groupId := p.commitGroupId })

/-- `ProgressTracker::maximal_committed_index` tracker.rs:284 -/
def maximalCommittedIndex (t : ProgressTracker) : Res (Nat × Bool) :=
  Joint.committedIndexR t.voters t.acked t.groupCommit

/-- `ProgressTracker::reset_votes` tracker.rs:291 -/
def resetVotes (t : ProgressTracker) : ProgressTracker := { t with votes := [] }

/-- `ProgressTracker::record_vote` tracker.rs:297 (`entry(id).or_insert(vote)`) -/
def recordVote (t : ProgressTracker) (id : Nat) (vote : Bool) : ProgressTracker :=
  match t.votes.lookup id with
  | some _ => t
  | none => { t with votes := NatMap.insert id vote t.votes }

/-- `ProgressTracker::tally_votes` tracker.rs:303 -/
def tallyVotes (t : ProgressTracker) : Nat × Nat × VoteResult :=
  RaftModel.Tracker.tallyVotes t.voters t.votes

/-- `ProgressTracker::has_quorum` tracker.rs:357 -/
def hasQuorum (t : ProgressTracker) (potentialQuorum : List Nat) : Bool :=
  RaftModel.Tracker.hasQuorum t.voters potentialQuorum

/-- `ProgressTracker::quorum_recently_active` tracker.rs:336 -/
def quorumRecentlyActive (t : ProgressTracker) (perspectiveOf : Nat) : ProgressTracker × Bool :=
  let active := (t.progress.filter (fun p => p.1 == perspectiveOf || p.2.recentActive)).map (·.1)
  let progress := t.progress.map (fun p =>
    if p.1 = perspectiveOf then (p.1, { p.2 with recentActive := true })
    else (p.1, { p.2 with recentActive := false }))
  let t' := { t with progress := progress }
  (t', t'.hasQuorum active)

/-- `ProgressTracker::apply_conf` tracker.rs:370 -/
def applyConf (t : ProgressTracker) (conf : Configuration) (changes : MapChange) (nextIdx : Nat) :
    ProgressTracker :=
  let progress := changes.foldl (fun m c => match c.2 with
    | .add => NatMap.insert c.1 { Progress.new nextIdx t.maxInflight with recentActive := true } m
    | .remove => NatMap.erase c.1 m) t.progress
  { t with conf := conf, progress := progress }

/-- the `for … { simple(&[cc])?; apply_conf }` loops of `confchange::restore` on the full tracker -/
def restoreLoop (t : ProgressTracker) (nextIdx : Nat) :
    List ConfChangeSingle → Except ErrKind ProgressTracker
  | [] => .ok t
  | cc :: rest =>
    match simple t.toCC [cc] with
    | .error e => .error e
    | .ok (cfg, changes) => restoreLoop (t.applyConf cfg changes nextIdx) nextIdx rest

/-- `confchange::restore` restore.rs:91 -/
def restore (t : ProgressTracker) (nextIdx : Nat) (cs : ConfState) : Except ErrKind ProgressTracker :=
  let (outgoing, incoming) := toConfChangeSingle cs
  if outgoing.isEmpty then restoreLoop t nextIdx incoming
  else match restoreLoop t nextIdx outgoing with
    | .error e => .error e
    | .ok t =>
      match enterJoint t.toCC cs.autoLeave incoming with
      | .error e => .error e
      | .ok (cfg, changes) => .ok (t.applyConf cfg changes nextIdx)

end ProgressTracker

/-! ### `src/read_only.rs` -/

/-- `ReadIndexStatus` read_only.rs:54 -/
structure ReadIndexStatus where
  req : Message := {}
  index : Nat := 0
  acks : List Nat := []
  deriving Repr, DecidableEq, Inhabited

/-- `ReadOnly` read_only.rs:61; the pending map is an association list in insertion order -/
structure ReadOnly where
  option : ReadOnlyOption := .safe
  pendingReadIndex : List (Bytes × ReadIndexStatus) := []
  readIndexQueue : List Bytes := []
  deriving Repr, DecidableEq, Inhabited

namespace ReadOnly

/-- `ReadOnly::new` read_only.rs:68 -/
def new (o : ReadOnlyOption) : ReadOnly := { option := o }

/-- `ReadOnly::add_request` read_only.rs:82 (`req.entries[0]` is an index site) -/
def addRequest (ro : ReadOnly) (index : Nat) (req : Message) (selfId : Nat) : Res ReadOnly :=
  match req.entries.head? with
  | none => .panic "read_only.add_request.index"
  | some e =>
    let key := e.data
    if (ro.pendingReadIndex.lookup key).isSome then .ok ro
    else .ok { ro with
      pendingReadIndex := ro.pendingReadIndex ++ [(key, { req := req, index := index, acks := [selfId] })],
      readIndexQueue := ro.readIndexQueue ++ [key] }

/-- `ReadOnly::recv_ack` read_only.rs:101 -/
def recvAck (ro : ReadOnly) (id : Nat) (ctx : Bytes) : ReadOnly × Option (List Nat) :=
  match ro.pendingReadIndex.lookup ctx with
  | none => (ro, none)
  | some rs =>
    let acks := NatSet.insert id rs.acks
    ({ ro with pendingReadIndex := ro.pendingReadIndex.map (fun p =>
        if p.1 = ctx then (p.1, { p.2 with acks := acks }) else p) }, some acks)

/-- the `position` scan of `advance` (read_only.rs:113-118): every context visited must be in the
pending map (`fatal!` otherwise); result: the position of `ctx` -/
def findPos (ro : ReadOnly) (ctx : Bytes) : List Bytes → Nat → Res (Option Nat)
  | [], _ => .ok none
  | x :: rest, i =>
    if (ro.pendingReadIndex.lookup x).isNone then .panic "read_only.advance.missing"
    else if x = ctx then .ok (some i) else findPos ro ctx rest (i + 1)

/-- the pop loop of `advance` (read_only.rs:119-123) -/
def popN : Nat → ReadOnly → List ReadIndexStatus → Res (ReadOnly × List ReadIndexStatus)
  | 0, ro, acc => .ok (ro, acc)
  | n + 1, ro, acc =>
    match ro.readIndexQueue with
    | [] => .panic "read_only.advance.pop_front"
    | x :: rest =>
      match ro.pendingReadIndex.lookup x with
      | none => .panic "read_only.advance.remove"
      | some st =>
        popN n { ro with readIndexQueue := rest,
                         pendingReadIndex := ro.pendingReadIndex.filter (fun p => p.1 != x) }
          (acc ++ [st])

/-- `ReadOnly::advance` read_only.rs:111 -/
def advance (ro : ReadOnly) (ctx : Bytes) : Res (ReadOnly × List ReadIndexStatus) :=
  match ro.findPos ctx ro.readIndexQueue 0 with
  | .ok (some i) => popN (i + 1) ro []
  | .ok none => .ok (ro, [])
  | .err e => .err e
  | .panic s => .panic s

/-- `ReadOnly::last_pending_request_ctx` read_only.rs:129 -/
def lastPendingRequestCtx (ro : ReadOnly) : Option Bytes := ro.readIndexQueue.getLast?

/-- `ReadOnly::pending_read_count` read_only.rs:134 -/
def pendingReadCount (ro : ReadOnly) : Nat := ro.readIndexQueue.length

end ReadOnly
end RaftModel
