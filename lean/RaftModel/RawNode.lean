import RaftModel.RaftLog

/-
Executable model of the Ready hand-off layer of `src/raw_node.rs` (`RawNode<MemStorage>`): `Ready`,
`LightReady`, `ReadyRecord`, `RawNode::{new, ready, has_ready, gen_light_ready, commit_ready,
commit_apply, on_persist_ready, advance, advance_append, advance_append_async, advance_apply,
advance_apply_to}`, one Lean function per Rust method, every `assert!`, `unwrap`, `fatal!` an
explicit `Res.panic`.

What is modelled of `Raft` is exactly what `RawNode` reads and writes: the `RaftLog` (model of C14),
`term`, `vote` (hard state = (term, vote, log.committed)), `leader_id`, `state` (soft state),
the outgoing message queue `msgs` (a message is an opaque payload `Nat`: RawNode only moves
messages around), `read_states` (opaque), `max_committed_size_per_ready`.

The three callbacks of `Raft` that RawNode invokes are modelled abstractly:
* `on_persist_entries(index, term)` raft.rs:1060 — `raft_log.maybe_persist` exactly; when it moved
  `persisted` and the node is leader, the leader updates its own progress, may advance the commit
  index (`maybe_commit`) and broadcast (`bcast_append`): the commit index reached and the
  messages produced are the explicit **raft effect** parameter `Effect.commit / Effect.msgs`;
* `on_persist_snap(index)` raft.rs:1089 — `raft_log.maybe_persist_snap` exactly;
* `commit_apply(applied)` raft.rs:960 — `raft_log.applied_to` exactly; on a leader it may append
  the auto-leave entry (`append_entry`): the appended entries are `Effect.appended`.
Everything else `Raft` does between RawNode calls (`step`, `tick`, `propose`, …) is the
environment op `env`: new term / vote / role / leader / message queue / read states / apply limit
and a list of `RaftLog` operations within the C14 contract (`restore`, truncating append, commit).

`reduce_uncommitted_size` (raw_node.rs:470, flow control, C13) is not modelled.
-/
namespace RaftModel

/-- `StateRole` raft.rs:61 as its discriminant -/
def ROLE_FOLLOWER : Nat := 0
def ROLE_CANDIDATE : Nat := 1
def ROLE_LEADER : Nat := 2
def ROLE_PRECANDIDATE : Nat := 3

/-- `SoftState` raft.rs:81 -/
structure SoftState where
  leaderId : Nat := 0
  role : Nat := 0
  deriving Repr, DecidableEq, Inhabited

/-- `ReadyRecord` raw_node.rs:237 -/
structure ReadyRecord where
  number : Nat := 0
  lastEntry : Option (Nat × Nat) := none
  snapshot : Option (Nat × Nat) := none
  deriving Repr, DecidableEq, Inhabited

/-- `LightReady` raw_node.rs:248 -/
structure LightReady where
  commitIndex : Option Nat := none
  committedEntries : List Entry := []
  messages : List Nat := []
  deriving Repr, DecidableEq, Inhabited

/-- `Ready` raw_node.rs:93 (`snapshot`: `none` is the empty default snapshot) -/
structure Ready where
  number : Nat := 0
  ss : Option SoftState := none
  hs : Option HardState := none
  readStates : List Nat := []
  entries : List Entry := []
  snapshot : Option Snapshot := none
  isPersistedMsg : Bool := false
  light : LightReady := {}
  mustSync : Bool := false
  deriving Repr, DecidableEq, Inhabited

namespace Ready
/-- `Ready::committed_entries` raw_node.rs:170 -/
def committedEntries (rd : Ready) : List Entry := rd.light.committedEntries
/-- `Ready::messages` raw_node.rs:184 -/
def messages (rd : Ready) : List Nat := if !rd.isPersistedMsg then rd.light.messages else []
/-- `Ready::persisted_messages` raw_node.rs:205 -/
def persistedMessages (rd : Ready) : List Nat := if rd.isPersistedMsg then rd.light.messages else []
end Ready

/-- what a `Raft` callback invoked by RawNode did beyond the `RaftLog` cursor update (see header) -/
structure Effect where
  commit : Nat := 0
  msgs : List Nat := []
  appended : List Entry := []
  deriving Repr, DecidableEq, Inhabited

/-- `RawNode` raw_node.rs:293 together with the part of `Raft` it touches -/
structure RawNodeM where
  log : RaftLog
  term : Nat := 0
  vote : Nat := 0
  leaderId : Nat := 0
  role : Nat := 0
  msgs : List Nat := []
  readStates : List Nat := []
  maxCommittedSizePerReady : Nat := NO_LIMIT
  prevSs : SoftState := {}
  prevHs : HardState := {}
  maxNumber : Nat := 0
  records : List ReadyRecord := []
  commitSinceIndex : Nat := 0
  unpersistedHsNumber : Nat := 0
  deriving Repr, DecidableEq, Inhabited

namespace RawNodeM

def isLeader (n : RawNodeM) : Bool := n.role == ROLE_LEADER

/-- `Raft::soft_state` raft.rs:449 -/
def softState (n : RawNodeM) : SoftState := { leaderId := n.leaderId, role := n.role }

/-- `Raft::hard_state` raft.rs:457 -/
def hardState (n : RawNodeM) : HardState :=
  { term := n.term, vote := n.vote, commit := n.log.committed }

/-- `RawNode::new` raw_node.rs:311 over `Raft::new` raft.rs:322: `RaftLog::new`, `load_state`
(raft.rs:2860, only when the stored hard state is not the default), `commit_apply_internal(applied,
true)` (= `applied_to_unchecked`, only when `applied > 0`), `become_follower(term, INVALID_ID)`
(which resets `max_apply_unpersisted_log_limit` to 0, raft.rs:1165).  `Config::validate` and the
restore of the membership are outside the property. -/
def new (store : MemStorage) (limit applied maxCommitted : Nat) : Res RawNodeM :=
  match RaftLog.new store limit with
  | .ok log =>
    let hs := store.hardState
    let loaded : Res (RaftLog × Nat × Nat) :=
      if hs ≠ {} then
        if hs.commit < log.committed ∨ log.lastIndex < hs.commit then
          .panic "raft.load_state.out_of_range"
        else .ok ({ log with committed := hs.commit }, hs.term, hs.vote)
      else .ok (log, 0, 0)
    match loaded with
    | .ok (log, term, vote) =>
      let log := if 0 < applied then { log with applied := applied } else log
      let log := { log with maxApplyUnpersistedLogLimit := 0 }
      .ok { log := log, term := term, vote := vote, leaderId := 0, role := ROLE_FOLLOWER,
            maxCommittedSizePerReady := maxCommitted,
            prevSs := { leaderId := 0, role := ROLE_FOLLOWER },
            prevHs := { term := term, vote := vote, commit := log.committed },
            commitSinceIndex := applied }
    | .err e => .err e
    | .panic s => .panic s
  | .err e => .err e
  | .panic s => .panic s

/-- `RawNode::gen_light_ready` raw_node.rs:461 -/
def genLightReady (n : RawNodeM) : Res (RawNodeM × LightReady) :=
  match n.log.nextEntriesSince n.commitSinceIndex (some n.maxCommittedSizePerReady) with
  | .ok o =>
    let ces := o.getD []
    let csi : Res Nat := match ces.getLast? with
      | some e =>
        if n.commitSinceIndex < e.index then .ok e.index
        else .panic "raw_node.gen_light_ready.assert_since"
      | none => .ok n.commitSinceIndex
    match csi with
    | .ok csi =>
      .ok ({ n with commitSinceIndex := csi, msgs := [] },
           { commitIndex := none, committedEntries := ces, messages := n.msgs })
    | .err e => .err e
    | .panic s => .panic s
  | .err e => .err e
  | .panic s => .panic s

/-- the `records.drain(..)` of `ready` raw_node.rs:504-512 -/
def drainRecords (n : RawNodeM) : Res (List ReadyRecord) :=
  if n.prevSs.role ≠ ROLE_LEADER ∧ n.role = ROLE_LEADER then
    if n.records.all (fun r => r.lastEntry.isNone && r.snapshot.isNone) then .ok []
    else .panic "raw_node.ready.drain_assert"
  else .ok n.records

/-- the snapshot part of `ready` raw_node.rs:531-549: new `commit_since_index` -/
def readySnapshot (n : RawNodeM) : Res Nat :=
  match n.log.unstable.snapshot with
  | some sn =>
    if sn.metadata.index < n.commitSinceIndex then .panic "raw_node.ready.assert_snapshot_since"
    else match n.log.hasNextEntriesSince sn.metadata.index with
      | .ok true => .panic "raw_node.ready.assert_snapshot_no_entries"
      | .ok false => .ok sn.metadata.index
      | .err e => .err e
      | .panic s => .panic s
  | none => .ok n.commitSinceIndex

/-- `RawNode::ready` raw_node.rs:491 -/
def ready (n : RawNodeM) : Res (RawNodeM × Ready) :=
  let num := n.maxNumber + 1
  match n.drainRecords with
  | .ok recs =>
    let ss := n.softState
    let hs := n.hardState
    let tv := decide (hs.vote ≠ n.prevHs.vote ∨ hs.term ≠ n.prevHs.term)
    let hsChanged := decide (hs ≠ n.prevHs)
    let uhn := if hsChanged && tv then num else n.unpersistedHsNumber
    match n.readySnapshot with
    | .ok csi =>
      let snap := n.log.unstable.snapshot
      let entries := n.log.unstable.entries
      let record : ReadyRecord :=
        { number := num,
          snapshot := snap.map (fun sn => (sn.metadata.index, sn.metadata.term)),
          lastEntry := entries.getLast?.map (fun e => (e.index, e.term)) }
      let n1 : RawNodeM :=
        { n with maxNumber := num, unpersistedHsNumber := uhn, readStates := [],
                 commitSinceIndex := csi }
      match n1.genLightReady with
      | .ok (n2, light) =>
        .ok ({ n2 with records := recs ++ [record] },
             { number := num,
               ss := if ss ≠ n.prevSs then some ss else none,
               hs := if hsChanged then some hs else none,
               readStates := n.readStates,
               entries := entries,
               snapshot := snap,
               isPersistedMsg := decide (n.role ≠ ROLE_LEADER) || decide (uhn ≠ 0),
               light := light,
               mustSync := (hsChanged && tv) || snap.isSome || entries.getLast?.isSome })
      | .err e => .err e
      | .panic s => .panic s
    | .err e => .err e
    | .panic s => .panic s
  | .err e => .err e
  | .panic s => .panic s

/-- `RawNode::has_ready` raw_node.rs:569 -/
def hasReady (n : RawNodeM) : Res Bool :=
  if n.msgs ≠ [] then .ok true
  else if n.softState ≠ n.prevSs then .ok true
  else if n.hardState ≠ n.prevHs then .ok true
  else if n.readStates ≠ [] then .ok true
  else if n.log.unstable.entries ≠ [] then .ok true
  else if (match n.log.unstable.snapshot with
           | some sn => decide (sn.metadata.index ≠ 0)
           | none => false) then .ok true
  else n.log.hasNextEntriesSince n.commitSinceIndex

/-- `RawNode::commit_ready` raw_node.rs:604 -/
def commitReady (n : RawNodeM) (rd : Ready) : Res RawNodeM :=
  let n1 : RawNodeM :=
    { n with prevSs := rd.ss.getD n.prevSs, prevHs := rd.hs.getD n.prevHs }
  match n1.records.getLast? with
  | none => .panic "raw_node.commit_ready.unwrap"
  | some rec =>
    if rec.number ≠ rd.number then .panic "raw_node.commit_ready.assert_number"
    else
      let l1 : Res RaftLog := match rec.snapshot with
        | some (index, _) => n1.log.stableSnap index
        | none => .ok n1.log
      match l1 with
      | .ok l1 =>
        let l2 : Res RaftLog := match rec.lastEntry with
          | some (index, term) => l1.stableEntries index term
          | none => .ok l1
        match l2 with
        | .ok l2 => .ok { n1 with log := l2 }
        | .err e => .err e
        | .panic s => .panic s
      | .err e => .err e
      | .panic s => .panic s

/-- the `while` loop of `on_persist_ready` raw_node.rs:637-655:
remaining records and `(index, term, snap_index)` -/
def popRecords (number : Nat) : List ReadyRecord → Nat × Nat × Nat → List ReadyRecord × (Nat × Nat × Nat)
  | [], acc => ([], acc)
  | r :: rs, (index, term, snapIndex) =>
    if number < r.number then (r :: rs, (index, term, snapIndex))
    else
      let (index, term, snapIndex) := match r.snapshot with
        | some (i, _) => (0, 0, i)
        | none => (index, term, snapIndex)
      let (index, term) := match r.lastEntry with
        | some (i, t) => (i, t)
        | none => (index, term)
      popRecords number rs (index, term, snapIndex)

/-- `Raft::on_persist_snap` raft.rs:1089 -/
def onPersistSnap (n : RawNodeM) (index : Nat) : Res RawNodeM :=
  match n.log.maybePersistSnap index with
  | .ok (l, _) => .ok { n with log := l }
  | .err e => .err e
  | .panic s => .panic s

/-- `Raft::on_persist_entries` raft.rs:1060 with the raft effect (see header) -/
def onPersistEntries (n : RawNodeM) (index term : Nat) (eff : Effect) : Res RawNodeM :=
  match n.log.maybePersist index term with
  | .ok (l, update) =>
    if update && n.isLeader then
      match l.commitTo eff.commit with
      | .ok l' => .ok { n with log := l', msgs := n.msgs ++ eff.msgs }
      | .err e => .err e
      | .panic s => .panic s
    else .ok { n with log := l }
  | .err e => .err e
  | .panic s => .panic s

/-- `RawNode::on_persist_ready` raw_node.rs:633 -/
def onPersistReady (n : RawNodeM) (number : Nat) (eff : Effect) : Res RawNodeM :=
  let uhn := if n.unpersistedHsNumber ≤ number then 0 else n.unpersistedHsNumber
  let (recs, (index, term, snapIndex)) := popRecords number n.records (0, 0, 0)
  let n1 : RawNodeM := { n with unpersistedHsNumber := uhn, records := recs }
  let n2 : Res RawNodeM := if snapIndex ≠ 0 then n1.onPersistSnap snapIndex else .ok n1
  match n2 with
  | .ok n2 => if index ≠ 0 then n2.onPersistEntries index term eff else .ok n2
  | .err e => .err e
  | .panic s => .panic s

/-- `Raft::commit_apply` raft.rs:960 (`RawNode::commit_apply` raw_node.rs:622) with the raft effect:
the auto-leave entry appended by a leader -/
def commitApply (n : RawNodeM) (applied : Nat) (eff : Effect) : Res RawNodeM :=
  match n.log.appliedTo applied with
  | .ok l =>
    if n.isLeader && !eff.appended.isEmpty then
      match l.append eff.appended with
      | .ok (l', _) => .ok { n with log := l' }
      | .err e => .err e
      | .panic s => .panic s
    else .ok { n with log := l }
  | .err e => .err e
  | .panic s => .panic s

/-- `RawNode::advance_append` raw_node.rs:688 -/
def advanceAppend (n : RawNodeM) (rd : Ready) (eff : Effect) : Res (RawNodeM × LightReady) :=
  match n.commitReady rd with
  | .ok n1 =>
    match n1.onPersistReady n1.maxNumber eff with
    | .ok n2 =>
      match n2.genLightReady with
      | .ok (n3, light) =>
        if n3.role ≠ ROLE_LEADER ∧ light.messages ≠ [] then
          .panic "raw_node.advance_append.not_leader_msgs"
        else
          let hs := n3.hardState
          if n3.prevHs.commit < hs.commit then
            let n4 : RawNodeM := { n3 with prevHs := { n3.prevHs with commit := hs.commit } }
            if hs ≠ n4.prevHs then .panic "raw_node.advance_append.assert_hs"
            else .ok (n4, { light with commitIndex := some hs.commit })
          else if hs.commit ≠ n3.prevHs.commit then .panic "raw_node.advance_append.assert_commit"
          else if hs ≠ n3.prevHs then .panic "raw_node.advance_append.assert_hs"
          else .ok (n3, { light with commitIndex := none })
      | .err e => .err e
      | .panic s => .panic s
    | .err e => .err e
    | .panic s => .panic s
  | .err e => .err e
  | .panic s => .panic s

/-- `RawNode::advance_append_async` raw_node.rs:716 -/
def advanceAppendAsync (n : RawNodeM) (rd : Ready) : Res RawNodeM := n.commitReady rd

/-- `RawNode::advance_apply_to` raw_node.rs:728 -/
def advanceApplyTo (n : RawNodeM) (applied : Nat) (eff : Effect) : Res RawNodeM :=
  n.commitApply applied eff

/-- `RawNode::advance_apply` raw_node.rs:722 -/
def advanceApply (n : RawNodeM) (eff : Effect) : Res RawNodeM :=
  n.commitApply n.commitSinceIndex eff

/-- `RawNode::advance` raw_node.rs:673 -/
def advance (n : RawNodeM) (rd : Ready) (eff1 eff2 : Effect) : Res (RawNodeM × LightReady) :=
  let applied := n.commitSinceIndex
  match n.advanceAppend rd eff1 with
  | .ok (n1, light) =>
    match n1.advanceApplyTo applied eff2 with
    | .ok n2 => .ok (n2, light)
    | .err e => .err e
    | .panic s => .panic s
  | .err e => .err e
  | .panic s => .panic s

/-! ### the environment: what `Raft` and the application do between RawNode calls -/

/-- a `RaftLog` operation caused by `Raft::step / tick / propose …` (the C14 operations) -/
inductive LogOp where
  /-- `RaftLog::restore(snapshot)` (MsgSnapshot) -/
  | restore (sn : Snapshot)
  /-- a (possibly truncating) append: `append` at `last+1` on a leader, the conflict branch of
  `maybe_append` raft_log.rs:279-286 on a follower (which also rolls `persisted` back) -/
  | tappend (ents : List Entry)
  /-- `commit_to` -/
  | commitTo (idx : Nat)
  deriving Repr, DecidableEq

def applyLogOp (l : RaftLog) : LogOp → Res RaftLog
  | .restore sn => l.restore sn
  | .tappend ents =>
    match ents with
    | [] => .ok l
    | e0 :: _ =>
      match l.append ents with
      | .ok (l', _) =>
        .ok (if e0.index - 1 < l'.persisted then { l' with persisted := e0.index - 1 } else l')
      | .err e => .err e
      | .panic s => .panic s
  | .commitTo i => l.commitTo i

def applyLogOps : RaftLog → List LogOp → Res RaftLog
  | l, [] => .ok l
  | l, op :: ops =>
    match applyLogOp l op with
    | .ok l' => applyLogOps l' ops
    | .err e => .err e
    | .panic s => .panic s

/-- everything `Raft` changed during one `step / tick / propose / campaign / read_index /
set_max_apply_unpersisted_log_limit …` call -/
structure EnvEffect where
  term : Nat
  vote : Nat
  role : Nat
  leaderId : Nat
  msgs : List Nat
  readStates : List Nat
  limit : Nat
  ops : List LogOp
  deriving Repr, DecidableEq

def env (n : RawNodeM) (e : EnvEffect) : Res RawNodeM :=
  match applyLogOps n.log e.ops with
  | .ok l =>
    .ok { n with log := { l with maxApplyUnpersistedLogLimit := e.limit },
                 term := e.term, vote := e.vote, role := e.role, leaderId := e.leaderId,
                 msgs := e.msgs, readStates := e.readStates }
  | .err e => .err e
  | .panic s => .panic s

/-- the application's storage write for a Ready, required before `advance*` (raw_node.rs:708-714):
`apply_snapshot(rd.snapshot)`, `append(rd.entries)`, `set_hardstate(rd.hs)` on the `MemStorage` -/
def storageWrite (n : RawNodeM) (rd : Ready) : Res RawNodeM :=
  let st1 : Res MemStorage := match rd.snapshot with
    | some sn => n.log.store.applySnapshot sn
    | none => .ok n.log.store
  match st1 with
  | .ok st1 =>
    match st1.append rd.entries with
    | .ok st2 =>
      let st3 := match rd.hs with
        | some hs => st2.setHardState hs
        | none => st2
      .ok { n with log := { n.log with store := st3 } }
    | .err e => .err e
    | .panic s => .panic s
  | .err e => .err e
  | .panic s => .panic s

/-- the application's hard-state-only write of the commit index carried by a `LightReady` -/
def storageCommit (n : RawNodeM) (commit : Nat) : RawNodeM :=
  let hs : HardState := { n.log.store.hardState with commit := commit }
  { n with log := { n.log with store := n.log.store.setHardState hs } }

end RawNodeM
end RaftModel
