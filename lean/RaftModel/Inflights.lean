/-
Executable model of `src/tracker/inflights.rs` (the ring buffer behind the replication window).

One Lean function per Rust method.  `&mut self` methods return the new value.  Every place where the
Rust code can panic (the explicit `panic!`, `assert!`, `debug_assert!`, slice / index out of bounds,
`usize` underflow in a debug build) is an explicit `Except.error site`, so "does not panic" is a
theorem (RaftProofs/Inflights.lean) and not an artefact of totalisation.

`Vec::capacity() > 0` ("allocated") is modelled by the flag `alloc`: `Vec::with_capacity(n)` yields
`alloc = (n > 0)`, `vec![]` yields `false`, `reserve` keeps it.
-/
namespace RaftModel

structure Inflights where
  start : Nat
  count : Nat
  buffer : List Nat
  cap : Nat
  incomingCap : Option Nat
  alloc : Bool
  deriving Repr, DecidableEq, Inhabited

namespace Inflights

/-- `Inflights::new` -/
def new (cap : Nat) : Inflights :=
  { start := 0, count := 0, buffer := [], cap := cap, incomingCap := none, alloc := decide (0 < cap) }

/-- `Inflights::full` -/
def full (s : Inflights) : Bool :=
  s.count == s.cap || (match s.incomingCap with
    | some c => decide (c ≤ s.count)
    | none => false)

/-- `Inflights::set_cap` -/
def setCap (s : Inflights) (n : Nat) : Except String Inflights :=
  if s.cap = n then .ok { s with incomingCap := none }
  else if s.cap < n then
    if s.start + s.count ≤ s.cap then
      -- `reserve` only: contents, start, count unchanged
      .ok { s with cap := n, incomingCap := none }
    else if s.cap ≠ s.buffer.length then .error "inflights.set_cap.debug_assert_len"
    else if s.buffer.length < s.start then .error "inflights.set_cap.slice"
    else if s.cap < s.start then .error "inflights.set_cap.underflow"
    else if s.count < s.cap - s.start then .error "inflights.set_cap.underflow"
    else if s.buffer.length < s.count - (s.cap - s.start) then .error "inflights.set_cap.slice"
    else
      .ok { s with
        buffer := s.buffer.drop s.start ++ s.buffer.take (s.count - (s.cap - s.start)),
        start := 0, cap := n, incomingCap := none, alloc := decide (0 < n) }
  else
    if s.count = 0 then
      .ok { s with cap := n, incomingCap := none, start := 0,
                   buffer := if s.alloc then [] else s.buffer,
                   alloc := if s.alloc then decide (0 < n) else false }
    else .ok { s with incomingCap := some n }

/-- `Inflights::add` -/
def add (s : Inflights) (x : Nat) : Except String Inflights :=
  if s.full then .error "inflights.add.full"
  else if !s.alloc && (s.count ≠ 0 || s.start ≠ 0 || s.incomingCap.isSome) then
    .error "inflights.add.debug_assert"
  else
    let buf := if s.alloc then s.buffer else []
    let next := s.start + s.count
    let next := if s.cap ≤ next then next - s.cap else next
    if buf.length < next then .error "inflights.add.assert_next"
    else
      .ok { s with
        buffer := if next = buf.length then buf ++ [x] else buf.set next x,
        count := s.count + 1,
        alloc := if s.alloc then true else decide (0 < s.cap) }

/-- the `while i < self.count` loop of `free_to`; `n` = iterations left. Returns `(idx, i)`. -/
def freeLoop (buf : List Nat) (cap to : Nat) : Nat → Nat → Nat → Except String (Nat × Nat)
  | 0, idx, i => .ok (idx, i)
  | n + 1, idx, i =>
    match buf[idx]? with
    | none => .error "inflights.free_to.index"
    | some b =>
      if to < b then .ok (idx, i)
      else freeLoop buf cap to n (if cap ≤ idx + 1 then idx + 1 - cap else idx + 1) (i + 1)

/-- `Inflights::free_to` -/
def freeTo (s : Inflights) (to : Nat) : Except String Inflights :=
  if s.count = 0 then .ok s
  else match s.buffer[s.start]? with
    | none => .error "inflights.free_to.index"
    | some b0 =>
      if to < b0 then .ok s
      else match freeLoop s.buffer s.cap to s.count s.start 0 with
        | .error e => .error e
        | .ok (idx, i) =>
          let s1 := { s with count := s.count - i, start := idx }
          if s1.count = 0 then
            match s1.incomingCap with
            | some c => .ok { s1 with incomingCap := none, start := 0, cap := c, buffer := [],
                                      alloc := decide (0 < c) }
            | none => .ok s1
          else .ok s1

/-- `Inflights::free_first_one` -/
def freeFirstOne (s : Inflights) : Except String Inflights :=
  if 0 < s.count then
    match s.buffer[s.start]? with
    | none => .error "inflights.free_first_one.index"
    | some b => s.freeTo b
  else .ok s

/-- `Inflights::reset` -/
def reset (s : Inflights) : Inflights :=
  { start := 0, count := 0, buffer := [], alloc := false,
    cap := s.incomingCap.getD s.cap, incomingCap := none }

/-- `Inflights::maybe_free_buffer` -/
def maybeFreeBuffer (s : Inflights) : Inflights :=
  if s.count = 0 then { s with start := 0, buffer := [], alloc := false } else s

/-- The window contents, oldest first (what the ring *means*). -/
def contents (s : Inflights) : List Nat :=
  (List.range s.count).map fun k => (s.buffer[(s.start + k) % s.cap]?).getD 0

end Inflights

/-! ### The specification: a bounded FIFO with a deferred capacity reduction -/

structure Fifo where
  items : List Nat
  cap : Nat
  pending : Option Nat
  deriving Repr, DecidableEq, Inhabited

namespace Fifo

def new (cap : Nat) : Fifo := { items := [], cap := cap, pending := none }

def full (f : Fifo) : Bool :=
  f.items.length == f.cap || (match f.pending with
    | some c => decide (c ≤ f.items.length)
    | none => false)

def add (f : Fifo) (x : Nat) : Fifo := { f with items := f.items ++ [x] }

def drained (f : Fifo) : Fifo :=
  match f.items, f.pending with
  | [], some c => { items := [], cap := c, pending := none }
  | _, _ => f

def freeTo (f : Fifo) (to : Nat) : Fifo :=
  drained { f with items := f.items.dropWhile (fun b => decide (b ≤ to)) }

def freeFirstOne (f : Fifo) : Fifo :=
  match f.items with
  | [] => f
  | b :: _ => f.freeTo b

def reset (f : Fifo) : Fifo := { items := [], cap := f.pending.getD f.cap, pending := none }

def setCap (f : Fifo) (n : Nat) : Fifo :=
  if f.cap ≤ n then { f with cap := n, pending := none }
  else if f.items = [] then { f with cap := n, pending := none }
  else { f with pending := some n }

end Fifo

/-- Operations of the window, as driven by the correspondence check and quantified over by the
theorems. -/
inductive InfOp where
  | add (x : Nat)
  | freeTo (to : Nat)
  | freeFirstOne
  | reset
  | setCap (n : Nat)
  | maybeFreeBuffer
  deriving Repr, DecidableEq

def Inflights.step (s : Inflights) : InfOp → Except String Inflights
  | .add x => s.add x
  | .freeTo t => s.freeTo t
  | .freeFirstOne => s.freeFirstOne
  | .reset => .ok s.reset
  | .setCap n => s.setCap n
  | .maybeFreeBuffer => .ok s.maybeFreeBuffer

def Fifo.step (f : Fifo) : InfOp → Fifo
  | .add x => f.add x
  | .freeTo t => f.freeTo t
  | .freeFirstOne => f.freeFirstOne
  | .reset => f.reset
  | .setCap n => f.setCap n
  | .maybeFreeBuffer => f

end RaftModel
