import RaftModel.RaftCore

/-
Executable model of the leader side of `src/raft.rs`: `handle_append_response` (1676),
`handle_heartbeat_response` (1893), `handle_transfer_leader` (1937), `handle_snapshot_status`
(2007), `handle_unreachable` (2047), `check_quorum_active` (2902) and `step_leader` (2072) with
the proposal filter for configuration changes.
-/
namespace RaftModel
namespace Raft

/-- `Raft::check_quorum_active` raft.rs:2902 -/
def checkQuorumActive (r : Raft) : Raft × Bool :=
  let (prs, b) := r.prs.quorumRecentlyActive r.id
  ({ r with prs := prs }, b)

/-- the tail of `handle_append_response` after a successful `maybe_update` (raft.rs:1846-1890) -/
def handleAppendResponseAccepted (r : Raft) (m : Message) (pr : Progress) (oldPaused : Bool) :
    Res Raft :=
  let pr1 : Res Progress :=
    match pr.state with
    | .probe => .ok pr.becomeReplicate
    | .snapshot => .ok (if pr.isSnapshotCaughtUp then pr.becomeProbe else pr)
    | .replicate =>
      match pr.ins.freeTo m.index with
      | .ok ins => .ok { pr with ins := ins }
      | .error e => .panic e
  pr1.bind (fun pr =>
    let r := { r with prs := r.prs.set m.frm pr }
    let r1 : Res Raft :=
      match r.maybeCommit with
      | .ok (r, true) => if r.shouldBcastCommit then r.bcastAppend else .ok r
      | .ok (r, false) => if oldPaused then r.sendAppend m.frm else .ok r
      | .err e => .err e
      | .panic s => .panic s
    r1.bind (fun r =>
      (r.sendAppendAggressively m.frm).bind (fun r =>
        if some m.frm = r.leadTransferee then
          match r.prs.get m.frm with
          | none => .panic "raft.handle_append_response.unwrap"
          | some pr =>
            if pr.matched = r.raftLog.lastIndex then r.sendTimeoutNow m.frm else .ok r
        else .ok r)))

/-- `Raft::handle_append_response` raft.rs:1676 -/
def handleAppendResponse (r : Raft) (m : Message) : Res Raft :=
  let npi : Res Nat :=
    if m.reject ∧ m.logTerm > 0 then
      match r.raftLog.findConflictByTerm m.rejectHint m.logTerm with
      | .ok (i, _) => .ok i
      | .err _ => .panic "raft.handle_append_response.unexpected_error"
      | .panic s => .panic s
    else .ok m.rejectHint
  npi.bind (fun nextProbeIndex =>
    match r.prs.get m.frm with
    | none => .ok r
    | some pr =>
      let pr := { pr with recentActive := true }
      let pr := pr.updateCommitted m.commit
      if m.reject then
        match pr.maybeDecrTo m.index nextProbeIndex m.requestSnapshot with
        | .panic s => .panic s
        | .err e => .err e
        | .ok (pr, true) =>
          let pr := if pr.state = .replicate then pr.becomeProbe else pr
          ({ r with prs := r.prs.set m.frm pr } : Raft).sendAppend m.frm
        | .ok (pr, false) => .ok { r with prs := r.prs.set m.frm pr }
      else
        let oldPaused := pr.isPaused
        match pr.maybeUpdate m.index with
        | .panic s => .panic s
        | .err e => .err e
        | .ok (pr, false) => .ok { r with prs := r.prs.set m.frm pr }
        | .ok (pr, true) => r.handleAppendResponseAccepted m pr oldPaused)

/-- `Raft::handle_heartbeat_response` raft.rs:1893 -/
def handleHeartbeatResponse (r : Raft) (m : Message) : Res Raft :=
  match r.prs.get m.frm with
  | none => .ok r
  | some pr =>
    let pr := pr.updateCommitted m.commit
    let pr := { pr with recentActive := true }
    let pr := pr.resume
    let pr1 : Res Progress :=
      if pr.state = .replicate ∧ pr.ins.full then
        match pr.ins.freeFirstOne with
        | .ok ins => .ok { pr with ins := ins }
        | .error e => .panic e
      else .ok pr
    pr1.bind (fun pr =>
      let r1 : Res Raft :=
        if pr.matched < r.raftLog.lastIndex ∨ pr.pendingRequestSnapshot ≠ 0 then
          (r.sendAppendPr m.frm pr).bind (fun (r, pr) => .ok { r with prs := r.prs.set m.frm pr })
        else .ok { r with prs := r.prs.set m.frm pr }
      r1.bind (fun r =>
        if r.readOnly.option ≠ .safe ∨ m.context.isEmpty then .ok r
        else
          let (ro, acks) := r.readOnly.recvAck m.frm m.context
          let r := { r with readOnly := ro }
          match acks with
          | none => .ok r
          | some acks =>
            if r.prs.hasQuorum acks then
              (r.readOnly.advance m.context).bind (fun (ro, rss) =>
                ({ r with readOnly := ro } : Raft).respondReadStates rss)
            else .ok r))

/-- `Raft::handle_transfer_leader` raft.rs:1937 -/
def handleTransferLeader (r : Raft) (m : Message) : Res Raft :=
  match r.prs.get m.frm with
  | none => .ok r
  | some _ =>
    let frm := m.frm
    if r.prs.conf.learners.contains frm then .ok r
    else
      let leadTransferee := frm
      let cont (r : Raft) : Res Raft :=
        if leadTransferee = r.id then .ok r
        else
          let r := { r with electionElapsed := 0, leadTransferee := some leadTransferee }
          match r.prs.get frm with
          | none => .panic "raft.handle_transfer_leader.unwrap"
          | some pr =>
            if pr.matched = r.raftLog.lastIndex then r.sendTimeoutNow leadTransferee
            else (r.sendAppendPr leadTransferee pr).bind
              (fun (r, pr) => .ok { r with prs := r.prs.set leadTransferee pr })
      match r.leadTransferee with
      | some last => if last = leadTransferee then .ok r else cont r.abortLeaderTransfer
      | none => cont r

/-- `Raft::handle_snapshot_status` raft.rs:2007 -/
def handleSnapshotStatus (r : Raft) (m : Message) : Raft :=
  match r.prs.get m.frm with
  | none => r
  | some pr =>
    if pr.state ≠ .snapshot then r
    else
      let pr := if m.reject then pr.snapshotFailure.becomeProbe else pr.becomeProbe
      let pr := pr.pause
      { r with prs := r.prs.set m.frm { pr with pendingRequestSnapshot := 0 } }

/-- `Raft::handle_unreachable` raft.rs:2047 -/
def handleUnreachable (r : Raft) (m : Message) : Raft :=
  match r.prs.get m.frm with
  | none => r
  | some pr =>
    if pr.state = .replicate then { r with prs := r.prs.set m.frm pr.becomeProbe } else r

/-- the per-entry body of the proposal filter (raft.rs:2111-2159): returns the (possibly replaced)
entry and the new `pending_conf_index`, or `none` when the payload does not decode -/
def filterProposalEntry (r : Raft) (i : Nat) (e : Entry) : Option (Raft × Entry) :=
  let cc : Option (Option ConfChangeV2) :=
    if e.etype = 1 then (match decodeConfChange e.data with
      | none => none
      | some c => some (some c.intoV2))
    else if e.etype = 2 then (match decodeConfChangeV2 e.data with
      | none => none
      | some c => some (some c))
    else some none
  match cc with
  | none => none
  | some none => some (r, e)
  | some (some cc) =>
    let refuse :=
      if r.hasPendingConf then true
      else
        let alreadyJoint := joint r.prs.conf
        let wantLeave := cc.changes.isEmpty
        (alreadyJoint && !wantLeave) || (!alreadyJoint && wantLeave)
    if !refuse then some ({ r with pendingConfIndex := r.raftLog.lastIndex + i + 1 }, e)
    else some (r, { etype := 0 })

/-- the `for (i, e) in m.mut_entries().iter_mut().enumerate()` loop -/
def filterProposal (r : Raft) : Nat → List Entry → Raft × Option (List Entry)
  | _, [] => (r, some [])
  | i, e :: es =>
    match r.filterProposalEntry i e with
    | none => (r, none)
    | some (r, e') =>
      match filterProposal r (i + 1) es with
      | (r, some es') => (r, some (e' :: es'))
      | (r, none) => (r, none)

/-- `Raft::step_leader` raft.rs:2072 -/
def stepLeader (r : Raft) (m : Message) : Res (Raft × Option RaftError) :=
  match m.msgType with
  | .msgBeat => r.bcastHeartbeat.bind (fun r => .ok (r, none))
  | .msgCheckQuorum =>
    let (r, active) := r.checkQuorumActive
    if !active then .ok (r.becomeFollower r.term 0, none) else .ok (r, none)
  | .msgPropose =>
    if m.entries.isEmpty then .panic "raft.step_leader.empty_propose"
    else if (r.prs.get r.id).isNone then .ok (r, some .proposalDropped)
    else if r.leadTransferee.isSome then .ok (r, some .proposalDropped)
    else
      match r.filterProposal 0 m.entries with
      | (r, none) => .ok (r, some .proposalDropped)
      | (r, some es) =>
        match r.appendEntry es with
        | .ok (r, false) => .ok (r, some .proposalDropped)
        | .ok (r, true) => r.bcastAppend.bind (fun r => .ok (r, none))
        | .err e => .err e
        | .panic s => .panic s
  | .msgReadIndex =>
    match r.commitToCurrentTerm with
    | .panic s => .panic s
    | .err e => .err e
    | .ok false => .ok (r, none)
    | .ok true =>
      let answerNow (r : Raft) : Res (Raft × Option RaftError) :=
        (r.handleReadyReadIndex m r.raftLog.committed).bind (fun (r, om) =>
          match om with
          | some m' => (r.send m').bind (fun r => .ok (r, none))
          | none => .ok (r, none))
      if r.prs.isSingleton && r.promotable then answerNow r
      else match r.readOnly.option with
        | .safe =>
          match m.entries.head? with
          | none => .panic "raft.step_leader.read_index.index"
          | some e =>
            (r.readOnly.addRequest r.raftLog.committed m r.id).bind (fun ro =>
              (({ r with readOnly := ro } : Raft).bcastHeartbeatWithCtx (some e.data)).bind
                (fun r => .ok (r, none)))
        | .leaseBased => answerNow r
  | .msgAppendResponse => (r.handleAppendResponse m).bind (fun r => .ok (r, none))
  | .msgHeartbeatResponse => (r.handleHeartbeatResponse m).bind (fun r => .ok (r, none))
  | .msgSnapStatus => .ok (r.handleSnapshotStatus m, none)
  | .msgUnreachable => .ok (r.handleUnreachable m, none)
  | .msgTransferLeader => (r.handleTransferLeader m).bind (fun r => .ok (r, none))
  | _ => .ok (r, none)

end Raft
end RaftModel
