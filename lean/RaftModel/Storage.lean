import RaftModel.Basic

/-
Executable model of `MemStorageCore` / `impl Storage for MemStorage` (src/storage.rs:164-518).

Results: `Res α` distinguishes the three outcomes the Rust code has — `Ok`, `Err(StorageError)`,
and a panic (`panic!`, `assert!`, slice/index out of bounds, u64 underflow in a debug build).

Checked line by line against src/storage.rs (C19).  Not modelled: the `RwLock` (single-threaded use;
a panic while the write lock is held poisons it, which is why a sequence ends at the first panic),
and `get_entries_context` (storage.rs:177, written at :465 when `entries` answers
`LogTemporarilyUnavailable`, only read back by `take_get_entries_context`; no query depends on it).
`snapshot_metadata.conf_state` is stored (storage.rs:250) but never read by any method.
-/
namespace RaftModel

inductive StorageError where
  | compacted | unavailable | logTemporarilyUnavailable | snapshotOutOfDate
  | snapshotTemporarilyUnavailable
  deriving Repr, DecidableEq

inductive Res (α : Type) where
  | ok (a : α)
  | err (e : StorageError)
  | panic (site : String)
  deriving Repr, DecidableEq

structure MemStorage where
  hardState : HardState := {}
  confState : ConfState := {}
  entries : List Entry := []
  snapshotMetadata : SnapshotMetadata := {}
  triggerSnapUnavailable : Bool := false
  triggerLogUnavailable : Bool := false
  deriving Repr, DecidableEq, Inhabited

namespace MemStorage

/-- `MemStorage::new` / `MemStorageCore::default` (storage.rs:164, 386) -/
def new : MemStorage := {}

/-- `MemStorageCore::first_index` (storage.rs:223-228) -/
def firstIndex (s : MemStorage) : Nat :=
  match s.entries.head? with
  | some e => e.index
  | none => s.snapshotMetadata.index + 1

/-- `MemStorageCore::last_index` (storage.rs:230-235) -/
def lastIndex (s : MemStorage) : Nat :=
  match s.entries.getLast? with
  | some e => e.index
  | none => s.snapshotMetadata.index

/-- `MemStorageCore::has_entry_at` (storage.rs:219-221) -/
def hasEntryAt (s : MemStorage) (index : Nat) : Bool :=
  !s.entries.isEmpty && decide (s.firstIndex ≤ index) && decide (index ≤ s.lastIndex)

/-- `MemStorageCore::set_hardstate` (storage.rs:182-184) -/
def setHardState (s : MemStorage) (hs : HardState) : MemStorage := { s with hardState := hs }

/-- `MemStorageCore::set_conf_state` (storage.rs:214-216) -/
def setConfState (s : MemStorage) (cs : ConfState) : MemStorage := { s with confState := cs }

/-- `MemStorageCore::commit_to` (storage.rs:201-211) -/
def commitTo (s : MemStorage) (index : Nat) : Res MemStorage :=
  if !s.hasEntryAt index then .panic "storage.commit_to.assert"
  else match s.entries.head? with
    | none => .panic "storage.commit_to.index"
    | some e0 =>
      if index < e0.index then .panic "storage.commit_to.underflow"
      else match s.entries[index - e0.index]? with
        | none => .panic "storage.commit_to.index"
        | some e => .ok { s with hardState := { s.hardState with commit := index, term := e.term } }

/-- `MemStorageCore::apply_snapshot` (storage.rs:242-259); `Err` is returned before anything is
written -/
def applySnapshot (s : MemStorage) (snap : Snapshot) : Res MemStorage :=
  let md := snap.metadata
  if md.index < s.firstIndex then .err .snapshotOutOfDate
  else .ok { s with
    snapshotMetadata := md,
    hardState := { s.hardState with term := max s.hardState.term md.term, commit := md.index },
    entries := [],
    confState := md.confState }

/-- `MemStorageCore::snapshot` (private, storage.rs:261-285) -/
def snapshotCore (s : MemStorage) : Res Snapshot :=
  let idx := s.hardState.commit
  if idx = s.snapshotMetadata.index then
    .ok { data := [], metadata := { index := idx, term := s.snapshotMetadata.term, confState := s.confState } }
  else if s.snapshotMetadata.index < idx then
    match s.entries.head? with
    | none => .panic "storage.snapshot.index"
    | some e0 =>
      if idx < e0.index then .panic "storage.snapshot.underflow"
      else match s.entries[idx - e0.index]? with
        | none => .panic "storage.snapshot.index"
        | some e => .ok { data := [], metadata := { index := idx, term := e.term, confState := s.confState } }
  else .panic "storage.snapshot.commit_lt_snapshot"

/-- `MemStorageCore::compact` (storage.rs:294-313) -/
def compact (s : MemStorage) (compactIndex : Nat) : Res MemStorage :=
  if compactIndex ≤ s.firstIndex then .ok s
  else if s.lastIndex + 1 < compactIndex then .panic "storage.compact.not_received"
  else match s.entries.head? with
    | none => .ok s
    | some e0 =>
      if compactIndex < e0.index then .panic "storage.compact.underflow"
      else if s.entries.length < compactIndex - e0.index then .panic "storage.compact.drain"
      else .ok { s with entries := s.entries.drop (compactIndex - e0.index) }

/-- `MemStorageCore::append` (storage.rs:321-345) -/
def append (s : MemStorage) (ents : List Entry) : Res MemStorage :=
  match ents with
  | [] => .ok s
  | e0 :: _ =>
    if e0.index < s.firstIndex then .panic "storage.append.compacted"
    else if s.lastIndex + 1 < e0.index then .panic "storage.append.gap"
    else
      let diff := e0.index - s.firstIndex
      if s.entries.length < diff then .panic "storage.append.drain"
      else .ok { s with entries := s.entries.take diff ++ ents }

/-- `Storage::entries` for `MemStorage` (storage.rs:443-475); `canAsync` is `context.can_async()` -/
def entriesQ (s : MemStorage) (low high : Nat) (maxSize : Option Nat) (canAsync : Bool) :
    Res (List Entry) :=
  if low < s.firstIndex then .err .compacted
  else if s.lastIndex + 1 < high then .panic "storage.entries.out_of_bound"
  else if s.triggerLogUnavailable && canAsync then .err .logTemporarilyUnavailable
  else match s.entries.head? with
    | none => .panic "storage.entries.index"
    | some e0 =>
      if low < e0.index then .panic "storage.entries.underflow"
      else if high < e0.index then .panic "storage.entries.underflow"
      else if high - e0.index < low - e0.index then .panic "storage.entries.slice_order"
      else if s.entries.length < high - e0.index then .panic "storage.entries.slice_end"
      else .ok (limitSize ((s.entries.drop (low - e0.index)).take (high - low)) maxSize)

/-- `Storage::term` for `MemStorage` (storage.rs:478-493) -/
def term (s : MemStorage) (idx : Nat) : Res Nat :=
  if idx = s.snapshotMetadata.index then .ok s.snapshotMetadata.term
  else if idx < s.firstIndex then .err .compacted
  else if s.lastIndex < idx then .err .unavailable
  else match s.entries[idx - s.firstIndex]? with
    | none => .panic "storage.term.index"
    | some e => .ok e.term

/-- `Storage::snapshot` for `MemStorage` (storage.rs:506-518; returns the new storage because the
trigger is consumed) -/
def snapshot (s : MemStorage) (requestIndex : Nat) : MemStorage × Res Snapshot :=
  if s.triggerSnapUnavailable then
    ({ s with triggerSnapUnavailable := false }, .err .snapshotTemporarilyUnavailable)
  else match s.snapshotCore with
    | .ok snap =>
      (s, .ok (if snap.metadata.index < requestIndex
               then { snap with metadata := { snap.metadata with index := requestIndex } } else snap))
    | .err e => (s, .err e)
    | .panic p => (s, .panic p)

/-- `MemStorageCore::trigger_snap_unavailable` (storage.rs:357-359) -/
def triggerSnapUnavailableOn (s : MemStorage) : MemStorage := { s with triggerSnapUnavailable := true }

/-- `MemStorageCore::trigger_log_unavailable` (storage.rs:362-364) -/
def setTriggerLogUnavailable (s : MemStorage) (v : Bool) : MemStorage :=
  { s with triggerLogUnavailable := v }

/-- `Storage::initial_state` (storage.rs:438-440) -/
def initialState (s : MemStorage) : HardState × ConfState := (s.hardState, s.confState)

end MemStorage

/-- The state-changing calls of `MemStorage` (those of `MemStorageCore` plus `Storage::snapshot`,
which consumes the `trigger_snap_unavailable` flag), as driven by the correspondence check and
quantified over by the C19 theorems. -/
inductive StorageOp where
  | setHardState (hs : HardState)
  | setConfState (cs : ConfState)
  | commitTo (index : Nat)
  | applySnapshot (snap : Snapshot)
  | compact (compactIndex : Nat)
  | append (ents : List Entry)
  | triggerSnapUnavailable
  | triggerLogUnavailable (v : Bool)
  | snapshot (requestIndex : Nat)
  deriving Repr, DecidableEq

/-- one call; an `Err` outcome leaves the storage as it was (`apply_snapshot` returns
`SnapshotOutOfDate` before writing anything, storage.rs:246-248), a panic ends the history -/
def MemStorage.step (s : MemStorage) : StorageOp → Res MemStorage
  | .setHardState hs => .ok (s.setHardState hs)
  | .setConfState cs => .ok (s.setConfState cs)
  | .commitTo i => s.commitTo i
  | .applySnapshot snap =>
    (match s.applySnapshot snap with
      | .err _ => .ok s
      | r => r)
  | .compact ci => s.compact ci
  | .append ents => s.append ents
  | .triggerSnapUnavailable => .ok s.triggerSnapUnavailableOn
  | .triggerLogUnavailable v => .ok (s.setTriggerLogUnavailable v)
  | .snapshot req =>
    (match (s.snapshot req).2 with
      | .panic p => .panic p
      | _ => .ok (s.snapshot req).1)

end RaftModel
