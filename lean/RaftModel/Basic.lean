/-
Shared data types of the model: the protobuf messages of `proto/proto/eraftpb.proto` that the
library manipulates, and the byte-size arithmetic the code depends on (`compute_size` of `Entry`,
used by `util::limit_size`).

Numbers are `Nat` (u64/usize without wrap-around); `U64_MAX` is kept where the code uses it as a
sentinel (`NO_LIMIT`).  Byte strings are `List UInt8`.
-/
namespace RaftModel

def U64_MAX : Nat := 18446744073709551615
def NO_LIMIT : Nat := U64_MAX

abbrev Bytes := List UInt8

/-- `eraftpb::EntryType` as its wire value: 0 normal, 1 conf change, 2 conf change v2 -/
structure Entry where
  etype : Nat := 0
  term : Nat := 0
  index : Nat := 0
  data : Bytes := []
  context : Bytes := []
  syncLog : Bool := false
  deriving Repr, DecidableEq, Inhabited

structure HardState where
  term : Nat := 0
  vote : Nat := 0
  commit : Nat := 0
  deriving Repr, DecidableEq, Inhabited

structure ConfState where
  voters : List Nat := []
  learners : List Nat := []
  votersOutgoing : List Nat := []
  learnersNext : List Nat := []
  autoLeave : Bool := false
  deriving Repr, DecidableEq, Inhabited

structure SnapshotMetadata where
  confState : ConfState := {}
  index : Nat := 0
  term : Nat := 0
  deriving Repr, DecidableEq, Inhabited

structure Snapshot where
  data : Bytes := []
  metadata : SnapshotMetadata := {}
  deriving Repr, DecidableEq, Inhabited

/-- length of the protobuf varint encoding of `v` (1..10 bytes for u64) -/
def varintLen (v : Nat) : Nat :=
  if v < 128 then 1
  else if v < 16384 then 2
  else if v < 2097152 then 3
  else if v < 268435456 then 4
  else if v < 34359738368 then 5
  else if v < 4398046511104 then 6
  else if v < 562949953421312 then 7
  else if v < 72057594037927936 then 8
  else if v < 9223372036854775808 then 9
  else 10

/-- `Entry::compute_size` of the generated rust-protobuf code (proto3: default values are not
written; field numbers < 16 have one-byte tags) -/
def Entry.computeSize (e : Entry) : Nat :=
  (if e.etype ≠ 0 then 1 + varintLen e.etype else 0) +
  (if e.term ≠ 0 then 1 + varintLen e.term else 0) +
  (if e.index ≠ 0 then 1 + varintLen e.index else 0) +
  (if e.data ≠ [] then 1 + varintLen e.data.length + e.data.length else 0) +
  (if e.context ≠ [] then 1 + varintLen e.context.length + e.context.length else 0) +
  (if e.syncLog then 2 else 0)

/-- the `take_while` of `util::limit_size`: `size` is the accumulated size so far -/
def limitCount (max : Nat) : Nat → List Entry → Nat
  | _, [] => 0
  | size, e :: es =>
    if size = 0 then 1 + limitCount max (size + e.computeSize) es
    else if size + e.computeSize ≤ max then 1 + limitCount max (size + e.computeSize) es
    else 0

/-- `util::limit_size` (`max = none` or `NO_LIMIT`: unlimited) -/
def limitSize (ents : List Entry) (max : Option Nat) : List Entry :=
  if ents.length ≤ 1 then ents
  else match max with
    | none => ents
    | some m => if m = NO_LIMIT then ents else ents.take (limitCount m 0 ents)

/-- `util::entry_approximate_size` -/
def entryApproximateSize (e : Entry) : Nat := e.data.length + e.context.length + 12

end RaftModel
