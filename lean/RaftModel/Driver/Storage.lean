import RaftModel.Storage
import RaftModel.Driver.Util

/-
Driver for C19: re-executes `ms …` trace lines on the model of `MemStorage` and prints the same
observation the harness printed for the real `raft::storage::MemStorage` (protocol described in
harness/src/gen_memstorage.rs):
  mutations  -> `ok <state>` | `err <e> <state>` | `panic`
  entries    -> `ok N e1 .. eN` | `err <e>` | `panic`
  term       -> `ok T` | `err <e>`
  snapshot   -> `ok I T <cs> <datahex>` | `err <e>` | `panic`
where `<state>` is everything the read-only part of the `Storage` trait shows: first_index,
last_index, initial_state (hard state, conf state) and term(idx) for idx ∈ [first-2, last+2].
-/
namespace RaftModel.Driver.MS
open RaftModel.Driver RaftModel

def hexDigit (n : Nat) : Char := if n < 10 then Char.ofNat (48 + n) else Char.ofNat (87 + n)

def hexOf (b : Bytes) : String :=
  if b.isEmpty then "-"
  else String.ofList (b.flatMap fun x => [hexDigit (x.toNat / 16), hexDigit (x.toNat % 16)])

def hexVal (c : Char) : Option Nat :=
  if '0' ≤ c ∧ c ≤ '9' then some (c.toNat - 48)
  else if 'a' ≤ c ∧ c ≤ 'f' then some (c.toNat - 87)
  else none

def unhexList : List Char → Option Bytes
  | [] => some []
  | [_] => none
  | a :: b :: rest =>
    match hexVal a, hexVal b, unhexList rest with
    | some x, some y, some r => some (UInt8.ofNat (x * 16 + y) :: r)
    | _, _, _ => none

def unhex (s : String) : Option Bytes := if s == "-" then some [] else unhexList s.toList

def fmtEntry (e : Entry) : String :=
  s!"{e.etype}:{e.term}:{e.index}:{hexOf e.data}:{hexOf e.context}:{b01 e.syncLog}"

def parseEntry (tok : String) : Option Entry :=
  match tok.splitOn ":" with
  | [t, tm, ix, d, c, s] =>
    match t.toNat?, tm.toNat?, ix.toNat?, unhex d, unhex c, s.toNat? with
    | some t, some tm, some ix, some d, some c, some s =>
      some { etype := t, term := tm, index := ix, data := d, context := c, syncLog := s != 0 }
    | _, _, _, _, _, _ => none
  | _ => none

def fmtEntries (l : List Entry) : String :=
  l.foldl (fun acc e => acc ++ " " ++ fmtEntry e) (toString l.length)

def fmtCs (cs : ConfState) : String :=
  s!"{natList cs.voters} {natList cs.learners} {natList cs.votersOutgoing} {natList cs.learnersNext} {b01 cs.autoLeave}"

/-- parse `<cs>` from the front of a token list -/
def parseCs (toks : List String) : Option (ConfState × List String) := do
  let (v, r) ← takeNatList toks
  let (l, r) ← takeNatList r
  let (o, r) ← takeNatList r
  let (n, r) ← takeNatList r
  match r with
  | a :: rest =>
    some ({ voters := v, learners := l, votersOutgoing := o, learnersNext := n, autoLeave := a == "1" }, rest)
  | [] => none

def errName : StorageError → String
  | .compacted => "compacted"
  | .unavailable => "unavailable"
  | .logTemporarilyUnavailable => "log_temporarily_unavailable"
  | .snapshotOutOfDate => "snapshot_out_of_date"
  | .snapshotTemporarilyUnavailable => "snapshot_temporarily_unavailable"

/-- `none` when one of the `term` reads panics (the harness then reports `panic` for the call) -/
def obsMs (s : MemStorage) : Option String :=
  let fi := s.firstIndex
  let li := s.lastIndex
  let lo := fi - 2
  let hi := li + 2
  let n := if lo ≤ hi then hi - lo + 1 else 0
  let (hs, cs) := s.initialState
  let terms := (List.range n).foldl (fun acc k =>
    match acc, s.term (lo + k) with
    | some a, .ok t => some (a ++ " " ++ toString t)
    | some a, .err .compacted => some (a ++ " c")
    | some a, .err .unavailable => some (a ++ " u")
    | some a, .err _ => some (a ++ " other")
    | _, _ => none) (some "")
  terms.map fun t =>
    s!"fi {fi} li {li} hs {hs.term} {hs.vote} {hs.commit} cs {fmtCs cs} terms {lo} {n}{t}"

/-- outcome of a mutation: `Err` leaves the storage as it was -/
def resMs (s : MemStorage) (r : Res MemStorage) : Option MemStorage × String :=
  match r with
  | .ok s' => (match obsMs s' with | some o => (some s', "ok " ++ o) | none => (none, "panic"))
  | .err e =>
    (match obsMs s with | some o => (some s, "err " ++ errName e ++ " " ++ o) | none => (none, "panic"))
  | .panic _ => (none, "panic")

def bad : Option MemStorage × String := (none, "bad-op")

def handleMs (st : Option MemStorage) (cmd : List String) : Option MemStorage × String :=
  match cmd with
  | ["new"] => resMs MemStorage.new (.ok MemStorage.new)
  | _ =>
    match st with
    | none => (none, "skip")
    | some s =>
      match cmd with
      | ["set_hardstate", t, v, c] =>
        (match t.toNat?, v.toNat?, c.toNat? with
          | some t, some v, some c => resMs s (.ok (s.setHardState { term := t, vote := v, commit := c }))
          | _, _, _ => bad)
      | "set_conf_state" :: rest =>
        (match parseCs rest with
          | some (cs, []) => resMs s (.ok (s.setConfState cs))
          | _ => bad)
      | ["commit_to", i] => (match i.toNat? with | some i => resMs s (s.commitTo i) | none => bad)
      | "apply_snapshot" :: i :: t :: rest =>
        (match i.toNat?, t.toNat?, parseCs rest with
          | some i, some t, some (cs, []) =>
            resMs s (s.applySnapshot { data := [], metadata := { index := i, term := t, confState := cs } })
          | _, _, _ => bad)
      | ["compact", i] => (match i.toNat? with | some i => resMs s (s.compact i) | none => bad)
      | "append" :: n :: ents =>
        (match n.toNat?, ents.mapM parseEntry with
          | some n, some es => if es.length = n then resMs s (s.append es) else bad
          | _, _ => bad)
      | ["trigger_snap_unavailable"] => resMs s (.ok s.triggerSnapUnavailableOn)
      | ["trigger_log_unavailable", v] => resMs s (.ok (s.setTriggerLogUnavailable (v == "1")))
      | ["entries", lo, hi, m, a] =>
        (match lo.toNat?, hi.toNat?, (if m == "none" then some none else m.toNat?.map some) with
          | some lo, some hi, some m =>
            (match s.entriesQ lo hi m (a == "1") with
              | .ok es => (some s, "ok " ++ fmtEntries es)
              | .err e => (some s, "err " ++ errName e)
              | .panic _ => (none, "panic"))
          | _, _, _ => bad)
      | ["term", i] =>
        (match i.toNat? with
          | some i =>
            (match s.term i with
              | .ok t => (some s, s!"ok {t}")
              | .err e => (some s, "err " ++ errName e)
              | .panic _ => (none, "panic"))
          | none => bad)
      | ["snapshot", r] =>
        (match r.toNat? with
          | some r =>
            (match s.snapshot r with
              | (s', .ok sn) =>
                (some s', s!"ok {sn.metadata.index} {sn.metadata.term} {fmtCs sn.metadata.confState} {hexOf sn.data}")
              | (s', .err e) => (some s', "err " ++ errName e)
              | (_, .panic _) => (none, "panic"))
          | none => bad)
      | _ => bad

end RaftModel.Driver.MS
