import RaftModel.RaftLog
import RaftModel.Driver.Util

/-
Driver for C14: re-executes `rl …` trace lines on the model of `RaftLog<MemStorage>` and prints the
same observation the harness printed for the real code.

Entries travel as `index:term:type:datalen:ctxlen` (byte contents are irrelevant to every
observable: only sizes matter).  `max_size` is `-` (None) or a number.

Mutating commands answer `<result> | <dump>` where the dump is made of public queries
(first_index, last_index, term(i) around the whole range, all entries, has_next_entries,
next_entries) and the public cursor fields; pure queries answer just their result.
-/
namespace RaftModel.Driver
open RaftModel

def parseEntry (tok : String) : Option Entry :=
  match (tok.splitOn ":").mapM String.toNat? with
  | some [i, t, ty, d, c] =>
    some { index := i, term := t, etype := ty, data := List.replicate d 0, context := List.replicate c 0 }
  | _ => none

/-- parse `n e₁ … eₙ` from the front of a token list -/
def takeEntries : List String → Option (List Entry × List String)
  | [] => none
  | n :: rest =>
    match n.toNat? with
    | none => none
    | some k =>
      let xs := rest.take k
      if xs.length ≠ k then none
      else match xs.mapM parseEntry with
        | none => none
        | some es => some (es, rest.drop k)

def parseMax (tok : String) : Option (Option Nat) :=
  if tok == "-" then some none else tok.toNat?.map some

def showEntry (e : Entry) : String :=
  s!"{e.index}:{e.term}:{e.etype}:{e.data.length}:{e.context.length}"

def showEntries (es : List Entry) : String :=
  es.foldl (fun acc e => acc ++ " " ++ showEntry e) (toString es.length)

def showErr : StorageError → String
  | .compacted => "err compacted"
  | .unavailable => "err unavailable"
  | .logTemporarilyUnavailable => "err log_unavailable"
  | .snapshotOutOfDate => "err snapshot_out_of_date"
  | .snapshotTemporarilyUnavailable => "err snap_unavailable"

def showRes {α : Type} (f : α → String) : Res α → String
  | .ok a => f a
  | .err e => showErr e
  | .panic _ => "panic"

def showTermShort : Res Nat → String
  | .ok t => toString t
  | .err .compacted => "ec"
  | .err .unavailable => "eu"
  | .err _ => "e?"
  | .panic _ => "P"

def mkSnap (idx term : Nat) : Snapshot := { metadata := { index := idx, term := term } }

/-- the dump and whether the sequence can go on (a panic inside `MemStorage::entries` poisons the
storage lock of the real code: nothing can be asked afterwards) -/
def dumpRL' (l : RaftLog) : String × Bool :=
  let fi := l.firstIndex
  let la := l.lastIndex
  let lo := fi - 1
  let hi := if la + 1 - lo > 64 then lo + 64 else la + 1
  let terms := (List.range (hi + 1 - lo)).foldl
    (fun acc k => acc ++ " " ++ showTermShort (l.term (lo + k))) ""
  let us := match l.unstable.snapshot with
    | some sn => s!"{sn.metadata.index}:{sn.metadata.term}"
    | none => "-"
  let ents := showRes (fun es => "ok " ++ showEntries es) (l.entries fi none false)
  let hasNext := match l.hasNextEntries with
    | .ok b => b01 b
    | _ => "P"
  let next := if ents == "panic" then "P" else match l.nextEntries none with
    | .ok none => "none"
    | .ok (some es) => "some " ++ showEntries es
    | _ => "P"
  (s!"fi={fi} la={la} c={l.committed} p={l.persisted} a={l.applied} lim={l.maxApplyUnpersistedLogLimit} uo={l.unstable.offset} ul={l.unstable.entries.length} us={us} usz={l.unstable.entriesSize} sf={l.store.firstIndex} sl={l.store.lastIndex} T{terms} H {hasNext} E {ents} N {next}",
   ents != "panic" && next != "P")

/-- `res | dump`, dropping the state when the dump ended the sequence -/
def withDump (l : RaftLog) (res : String) : Option RaftLog × String :=
  let (d, alive) := dumpRL' l
  (if alive then some l else none, res ++ " | " ++ d)

/-- result of a mutating command -/
def mutRL (r : Res RaftLog) (res : String) : Option RaftLog × String :=
  match r with
  | .ok l => withDump l res
  | .err e => (none, showErr e)     -- not produced by any mutating command
  | .panic _ => (none, "panic")

def mutRLB (r : Res (RaftLog × Bool)) : Option RaftLog × String :=
  match r with
  | .ok (l, b) => withDump l (b01 b)
  | .err e => (none, showErr e)
  | .panic _ => (none, "panic")

/-- storage mutation through `store.wl()` -/
def storeMut (l : RaftLog) (r : Res MemStorage) : Option RaftLog × String :=
  match r with
  | .ok st => withDump { l with store := st } "ok"
  | .err e => withDump l (showErr e)
  | .panic _ => (none, "panic")

/-- a pure query: the state is kept unless the real call panicked (the harness stops there) -/
def qry (l : RaftLog) (o : String) : Option RaftLog × String :=
  if o == "panic" then (none, o) else (some l, o)

def newRL (limit snapIdx snapTerm : Nat) (ents : List Entry) : Option RaftLog × String :=
  let st0 : MemStorage := {}
  let st1 : Res MemStorage := if snapIdx = 0 then .ok st0 else st0.applySnapshot (mkSnap snapIdx snapTerm)
  match st1 with
  | .ok st1 =>
    match st1.append ents with
    | .ok st2 => mutRL (RaftLog.new st2 limit) "ok"
    | _ => (none, "panic")
  | _ => (none, "panic")

def handleRL (st : Option RaftLog) (cmd : List String) : Option RaftLog × String :=
  match cmd with
  | "new" :: lim :: si :: stm :: rest =>
    match lim.toNat?, si.toNat?, stm.toNat?, takeEntries rest with
    | some lim, some si, some stm, some (es, []) => newRL lim si stm es
    | _, _, _, _ => (none, "bad-op")
  | _ =>
    match st with
    | none => (none, "skip")
    | some l =>
      match cmd with
      | "append" :: rest =>
        match takeEntries rest with
        | some (es, []) =>
          match l.append es with
          | .ok (l', last) => withDump l' s!"ok {last}"
          | _ => (none, "panic")
        | _ => (none, "bad-op")
      | "maybe_append" :: i :: t :: c :: rest =>
        match i.toNat?, t.toNat?, c.toNat?, takeEntries rest with
        | some i, some t, some c, some (es, []) =>
          match l.maybeAppend i t c es with
          | .ok (l', none) => withDump l' "none"
          | .ok (l', some (ci, last)) => withDump l' s!"some {ci} {last}"
          | _ => (none, "panic")
        | _, _, _, _ => (none, "bad-op")
      | ["commit_to", i] =>
        match i.toNat? with
        | some i => mutRL (l.commitTo i) "ok"
        | none => (none, "bad-op")
      | ["maybe_commit", i, t] =>
        match i.toNat?, t.toNat? with
        | some i, some t => mutRLB (l.maybeCommit i t)
        | _, _ => (none, "bad-op")
      | ["applied_to", i] =>
        match i.toNat? with
        | some i => mutRL (l.appliedTo i) "ok"
        | none => (none, "bad-op")
      | ["set_applied", i] =>
        match i.toNat? with
        | some i => mutRL (.ok { l with applied := i }) "ok"
        | none => (none, "bad-op")
      | ["set_limit", i] =>
        match i.toNat? with
        | some i => mutRL (.ok { l with maxApplyUnpersistedLogLimit := i }) "ok"
        | none => (none, "bad-op")
      | "store_append" :: rest =>
        match takeEntries rest with
        | some (es, []) => storeMut l (l.store.append es)
        | _ => (none, "bad-op")
      | ["store_append_unstable"] => storeMut l (l.store.append l.unstable.entries)
      | ["stable_entries", i, t] =>
        match i.toNat?, t.toNat? with
        | some i, some t => mutRL (l.stableEntries i t) "ok"
        | _, _ => (none, "bad-op")
      | ["store_apply_snapshot", i, t] =>
        match i.toNat?, t.toNat? with
        | some i, some t => storeMut l (l.store.applySnapshot (mkSnap i t))
        | _, _ => (none, "bad-op")
      | ["stable_snap", i] =>
        match i.toNat? with
        | some i => mutRL (l.stableSnap i) "ok"
        | none => (none, "bad-op")
      | ["maybe_persist", i, t] =>
        match i.toNat?, t.toNat? with
        | some i, some t => mutRLB (l.maybePersist i t)
        | _, _ => (none, "bad-op")
      | ["maybe_persist_snap", i] =>
        match i.toNat? with
        | some i => mutRLB (l.maybePersistSnap i)
        | none => (none, "bad-op")
      | ["store_compact", i] =>
        match i.toNat? with
        | some i => storeMut l (l.store.compact i)
        | none => (none, "bad-op")
      | ["restore", i, t] =>
        match i.toNat?, t.toNat? with
        | some i, some t => mutRL (l.restore (mkSnap i t)) "ok"
        | _, _ => (none, "bad-op")
      | ["store_trigger_log", b] =>
        storeMut l (.ok { l.store with triggerLogUnavailable := b == "1" })
      | ["store_trigger_snap"] =>
        storeMut l (.ok { l.store with triggerSnapUnavailable := true })
      -- pure queries ----------------------------------------------------------------------
      | ["term", i] =>
        match i.toNat? with
        | some i => qry l (showRes (fun t => s!"ok {t}") (l.term i))
        | none => (none, "bad-op")
      | ["last_term"] => qry l (showRes (fun t => s!"ok {t}") l.lastTerm)
      | ["match_term", i, t] =>
        match i.toNat?, t.toNat? with
        | some i, some t => qry l (showRes b01 (l.matchTerm i t))
        | _, _ => (none, "bad-op")
      | "find_conflict" :: rest =>
        match takeEntries rest with
        | some (es, []) => qry l (showRes toString (l.findConflict es))
        | _ => (none, "bad-op")
      | ["fcbt", i, t] =>
        match i.toNat?, t.toNat? with
        | some i, some t =>
          qry l (showRes (fun (p : Nat × Option Nat) => match p.2 with
            | some t => s!"{p.1} {t}"
            | none => s!"{p.1} -") (l.findConflictByTerm i t))
        | _, _ => (none, "bad-op")
      | ["up_to_date", i, t] =>
        match i.toNat?, t.toNat? with
        | some i, some t => qry l (showRes b01 (l.isUpToDate i t))
        | _, _ => (none, "bad-op")
      | ["slice", lo, hi, m, a] =>
        match lo.toNat?, hi.toNat?, parseMax m with
        | some lo, some hi, some m =>
          qry l (showRes (fun es => "ok " ++ showEntries es) (l.slice lo hi m (a == "1")))
        | _, _, _ => (none, "bad-op")
      | ["entries", i, m, a] =>
        match i.toNat?, parseMax m with
        | some i, some m =>
          qry l (showRes (fun es => "ok " ++ showEntries es) (l.entries i m (a == "1")))
        | _, _ => (none, "bad-op")
      | ["next_since", i, m] =>
        match i.toNat?, parseMax m with
        | some i, some m =>
          qry l (showRes (fun (o : Option (List Entry)) => match o with
            | none => "none"
            | some es => "some " ++ showEntries es) (l.nextEntriesSince i m))
        | _, _ => (none, "bad-op")
      | ["has_next_since", i] =>
        match i.toNat? with
        | some i => qry l (showRes b01 (l.hasNextEntriesSince i))
        | none => (none, "bad-op")
      | ["commit_info"] =>
        qry l (showRes (fun (p : Nat × Nat) => s!"{p.1} {p.2}") l.commitInfo)
      | ["snapshot", r] =>
        match r.toNat? with
        | some r =>
          let (l', res) := l.snapshot r
          let o := showRes (fun (sn : Snapshot) => s!"ok {sn.metadata.index} {sn.metadata.term}") res
          if o == "panic" then (none, o) else (some l', o)
        | none => (none, "bad-op")
      | _ => (none, "bad-op")

end RaftModel.Driver
