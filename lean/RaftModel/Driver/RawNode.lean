import RaftModel.RawNode
import RaftModel.Driver.RaftLog

/-
Driver for C07: re-executes `rw …` trace lines on the model of the Ready layer of `RawNode` and
prints the same observation the harness printed for the real `RawNode<MemStorage>`.

A line is `rw <call and arguments> ; <raft effect> -> <result> | <view>`: the tokens after `;`
are what the `Raft` layer did during that call on the real node (see RaftModel/RawNode.lean).
The run is free on the RawNode layer: `max_number`, `records`, `prev_hs`, `prev_ss`,
`commit_since_index`, `unpersisted_hs_number`, the whole `RaftLog` and the storage are never
reloaded from the implementation, only compared.
-/
namespace RaftModel.Driver
open RaftModel RaftModel.RawNodeM

structure RwState where
  n : RawNodeM
  pending : Option Ready := none
  limit : Nat := 0
  maxc : Nat := 0

def showIT (o : Option (Nat × Nat)) : String :=
  match o with
  | some (i, t) => s!"{i}:{t}"
  | none => "-:-"

def showHs (hs : HardState) : String := s!"{hs.term},{hs.vote},{hs.commit}"

def rwView (n : RawNodeM) : String :=
  let recs := n.records.foldl
    (fun acc r => acc ++ s!" {r.number}:{showIT r.lastEntry}:{showIT r.snapshot}") ""
  let l := n.log
  let us := match l.unstable.snapshot with
    | some sn => s!"{sn.metadata.index}:{sn.metadata.term}"
    | none => "-"
  let hr := match n.hasReady with
    | .ok b => b01 b
    | _ => "P"
  s!"mn={n.maxNumber} csi={n.commitSinceIndex} uhn={n.unpersistedHsNumber} phs={showHs n.prevHs} pss={n.prevSs.leaderId},{n.prevSs.role} rec={n.records.length}{recs} | c={l.committed} p={l.persisted} a={l.applied} lim={l.maxApplyUnpersistedLogLimit} uo={l.unstable.offset} ue={showEntries l.unstable.entries} us={us} sf={l.store.firstIndex} sl={l.store.lastIndex} shs={showHs l.store.hardState} | hr={hr}"

def showLight (l : LightReady) : String :=
  let ci := match l.commitIndex with
    | some c => toString c
    | none => "-"
  s!"lrd ci={ci} ce={showEntries l.committedEntries} msgs={natList l.messages}"

def showReady (rd : Ready) : String :=
  let ss := match rd.ss with
    | some s => s!"{s.leaderId},{s.role}"
    | none => "-"
  let hs := match rd.hs with
    | some h => showHs h
    | none => "-"
  let snap := match rd.snapshot with
    | some sn => s!"{sn.metadata.index}:{sn.metadata.term}"
    | none => "-"
  s!"rd n={rd.number} ss={ss} hs={hs} rs={natList rd.readStates} ents={showEntries rd.entries} snap={snap} ce={showEntries rd.committedEntries} msgs={natList rd.messages} pmsgs={natList rd.persistedMessages} ms={b01 rd.mustSync}"

/-- `<commit> <k msgs…> <k entries…>` -/
def takeEffect (toks : List String) : Option (Effect × List String) :=
  match toks with
  | c :: rest =>
    match c.toNat?, takeNatList rest with
    | some c, some (ms, rest) =>
      match takeEntries rest with
      | some (es, rest) => some ({ commit := c, msgs := ms, appended := es }, rest)
      | none => none
    | _, _ => none
  | [] => none

def takeLogOps : List String → Nat → Option (List LogOp)
  | [], _ => some []
  | _, 0 => none
  | "S" :: i :: t :: rest, fuel + 1 =>
    match i.toNat?, t.toNat? with
    | some i, some t => (takeLogOps rest fuel).map (fun ops => LogOp.restore (mkSnap i t) :: ops)
    | _, _ => none
  | "A" :: rest, fuel + 1 =>
    match takeEntries rest with
    | some (es, rest) => (takeLogOps rest fuel).map (fun ops => LogOp.tappend es :: ops)
    | none => none
  | "C" :: i :: rest, fuel + 1 =>
    match i.toNat? with
    | some i => (takeLogOps rest fuel).map (fun ops => LogOp.commitTo i :: ops)
    | none => none
  | _, _ => none

/-- `<term> <vote> <role> <leader> <limit> M <msgs> R <read states> <log ops>` -/
def parseEnv (toks : List String) : Option EnvEffect :=
  match toks with
  | t :: v :: r :: l :: lim :: "M" :: rest =>
    match t.toNat?, v.toNat?, r.toNat?, l.toNat?, lim.toNat?, takeNatList rest with
    | some t, some v, some r, some l, some lim, some (ms, "R" :: rest) =>
      match takeNatList rest with
      | some (rs, rest) =>
        (takeLogOps rest (rest.length + 1)).map (fun ops =>
          { term := t, vote := v, role := r, leaderId := l, msgs := ms, readStates := rs,
            limit := lim, ops := ops })
      | none => none
    | _, _, _, _, _, _ => none
  | _ => none

def rwOut (st : RwState) (n : RawNodeM) (pending : Option Ready) (res : String) :
    Option RwState × String :=
  (some { st with n := n, pending := pending }, res ++ " | " ++ rwView n)

def rwRes (st : RwState) (r : Res RawNodeM) (pending : Option Ready) (res : String) :
    Option RwState × String :=
  match r with
  | .ok n => rwOut st n pending res
  | .err _ => rwOut st st.n st.pending "err"
  | .panic _ => (none, "panic")

def newRw (prevote limit maxc applied si stm hst hsv hsc : Nat) (ents : List Entry) :
    Option RwState × String :=
  let _ := prevote
  let st0 : MemStorage := {}
  let st1 : Res MemStorage := if si = 0 then .ok st0 else st0.applySnapshot (mkSnap si stm)
  match st1 with
  | .ok st1 =>
    match st1.append ents with
    | .ok st2 =>
      let st3 := st2.setHardState { term := hst, vote := hsv, commit := hsc }
      match RawNodeM.new st3 limit applied maxc with
      | .ok n => rwOut { n := n, limit := limit, maxc := maxc } n none "ok"
      | _ => (none, "panic")
    | _ => (none, "panic")
  | _ => (none, "panic")

def splitSemi (cmd : List String) : List String × List String :=
  (cmd.takeWhile (· ≠ ";"), (cmd.dropWhile (· ≠ ";")).drop 1)

def handleRw (st : Option RwState) (cmd : List String) : Option RwState × String :=
  let (real, eff) := splitSemi cmd
  match real with
  | "new" :: pv :: lim :: mc :: ap :: si :: stm :: hst :: hsv :: hsc :: rest =>
    match [pv, lim, mc, ap, si, stm, hst, hsv, hsc].mapM String.toNat?, takeNatList rest with
    | some [pv, lim, mc, ap, si, stm, hst, hsv, hsc], some (_, rest) =>
      match takeEntries rest with
      | some (es, []) => newRw pv lim mc ap si stm hst hsv hsc es
      | _ => (none, "bad-op")
    | _, _ => (none, "bad-op")
  | op :: args =>
    match st with
    | none => (none, "skip")
    | some s =>
      let isEnv := op ∈ ["step", "tick", "propose", "campaign", "read_index", "set_limit"]
      let needsPending := op ∈ ["write", "advance", "advance_append", "advance_append_async"]
      if (needsPending && s.pending.isNone) ||
         ((isEnv || op == "ready" || op == "restart") && s.pending.isSome) then
        (some s, "invalid")
      else if isEnv then
        if eff == ["P"] then (none, "panic")
        else match parseEnv eff with
          | some e =>
            -- the result of the call itself (`ok` / `err` of `Raft::step`) is outside the model
            match s.n.env e with
            | .ok n =>
              (some { s with n := n }, "env | " ++ rwView n)
            | _ => (none, "panic")
          | none => (none, "bad-op")
      else match op, args with
        | "has_ready", [] => rwOut s s.n s.pending "ok"
        | "ready", [] =>
          match s.n.ready with
          | .ok (n, rd) => rwOut s n (some rd) (showReady rd)
          | _ => (none, "panic")
        | "write", [] =>
          match s.pending with
          | some rd => rwRes s (s.n.storageWrite rd) s.pending "ok"
          | none => (some s, "invalid")
        -- `write take`: the application moved the entries out of the Ready before persisting them; what is written and
        -- what `advance*` does afterwards must not depend on it
        | "write", ["take"] =>
          match s.pending with
          | some rd => rwRes s (s.n.storageWrite rd) s.pending "ok"
          | none => (some s, "invalid")
        | "advance_append_async", [] =>
          match s.pending with
          | some rd => rwRes s (s.n.advanceAppendAsync rd) none "ok"
          | none => (some s, "invalid")
        | "advance_append", [] =>
          match s.pending, takeEffect eff with
          | some rd, some (e, []) =>
            match s.n.advanceAppend rd e with
            | .ok (n, light) =>
              let n := match light.commitIndex with
                | some c => n.storageCommit c
                | none => n
              rwOut s n none (showLight light)
            | _ => (none, "panic")
          | _, _ => (none, "bad-op")
        -- `nosave`: the application does not store the commit index of the LightReady
        | "advance_append", ["nosave"] =>
          match s.pending, takeEffect eff with
          | some rd, some (e, []) =>
            match s.n.advanceAppend rd e with
            | .ok (n, light) => rwOut s n none (showLight light)
            | _ => (none, "panic")
          | _, _ => (none, "bad-op")
        | "advance", ["nosave"] =>
          match s.pending, takeEffect eff with
          | some rd, some (e1, rest) =>
            match takeEffect rest with
            | some (e2, []) =>
              match s.n.advance rd e1 e2 with
              | .ok (n, light) => rwOut s n none (showLight light)
              | _ => (none, "panic")
            | _ => (none, "bad-op")
          | _, _ => (none, "bad-op")
        | "advance", [] =>
          match s.pending, takeEffect eff with
          | some rd, some (e1, rest) =>
            match takeEffect rest with
            | some (e2, []) =>
              match s.n.advance rd e1 e2 with
              | .ok (n, light) =>
                let n := match light.commitIndex with
                  | some c => n.storageCommit c
                  | none => n
                rwOut s n none (showLight light)
              | _ => (none, "panic")
            | _ => (none, "bad-op")
          | _, _ => (none, "bad-op")
        | "on_persist_ready", [k] =>
          match k.toNat?, takeEffect eff with
          | some k, some (e, []) => rwRes s (s.n.onPersistReady k e) s.pending "ok"
          | _, _ => (none, "bad-op")
        | "advance_apply", [] =>
          match takeEffect eff with
          | some (e, []) => rwRes s (s.n.advanceApply e) s.pending "ok"
          | _ => (none, "bad-op")
        | "advance_apply_to", [k] =>
          match k.toNat?, takeEffect eff with
          | some k, some (e, []) => rwRes s (s.n.advanceApplyTo k e) s.pending "ok"
          | _, _ => (none, "bad-op")
        | "compact", [k] =>
          match k.toNat? with
          | some k =>
            match s.n.log.compactStore k with
            | .ok l => rwOut s { s.n with log := l } s.pending "ok"
            | .err _ => rwOut s s.n s.pending "err"
            | .panic _ => (none, "panic")
          | none => (none, "bad-op")
        | "restart", [a] =>
          match a.toNat? with
          | some a =>
            match RawNodeM.new s.n.log.store s.limit a s.maxc with
            | .ok n => rwOut s n none "ok"
            | _ => (none, "panic")
          | none => (none, "bad-op")
        | _, _ => (none, "bad-op")
  | [] => (none, "bad-op")

end RaftModel.Driver
