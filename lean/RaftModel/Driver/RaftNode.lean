import RaftModel.NodeOps
import RaftModel.Driver.Util

/-
Driver for the node-level correspondence (component token `rn`): re-executes the call sequence of
ONE raft node on the model `RaftModel.Raft` and prints, after every call, the same observation the
harness printed for the real `RawNode<MemStorage>` (harness/src/gen_raftnode.rs): result, message
queue (stable-sorted by receiver), and the node state.  Free-running: the model is never re-synced
with the implementation, so a single disagreement ends the sequence.

The emulated application (persist = storage append + `stable_entries` (+ `on_persist_entries`),
apply = `reduce_uncommitted_size` + `commit_apply`, snapshot install, compaction, draining the
message queue) is part of the driver, not of the model of raft.rs.
-/
namespace RaftModel.Driver.RN
open RaftModel

abbrev RNState := Node.NState

/-! ### token parsing -/

abbrev P := StateT (List String) Option

def tok : P String := fun ts => match ts with
  | [] => none
  | t :: rest => some (t, rest)

def nat : P Nat := do
  let t ← tok
  match t.toNat? with
  | some n => pure n
  | none => failure

def int : P Int := do
  let t ← tok
  match t.toInt? with
  | some n => pure n
  | none => failure

def bool : P Bool := do
  let t ← tok
  pure (t == "1")

def hexVal (c : Char) : Option Nat :=
  if '0' ≤ c ∧ c ≤ '9' then some (c.toNat - '0'.toNat)
  else if 'a' ≤ c ∧ c ≤ 'f' then some (c.toNat - 'a'.toNat + 10)
  else none

def unhexGo : List Char → List UInt8 → Option (List UInt8)
  | [], acc => some acc.reverse
  | [_], _ => none
  | a :: b :: rest, acc =>
    match hexVal a, hexVal b with
    | some x, some y => unhexGo rest (UInt8.ofNat (x * 16 + y) :: acc)
    | _, _ => none

def unhex (s : String) : Option Bytes :=
  if s == "-" then some [] else unhexGo s.toList []

def bytes : P Bytes := do
  let t ← tok
  match unhex t with
  | some b => pure b
  | none => failure

def rep {α : Type} (p : P α) : Nat → P (List α)
  | 0 => pure []
  | n + 1 => do
    let x ← p
    let xs ← rep p n
    pure (x :: xs)

def idList : P (List Nat) := do
  let n ← nat
  rep nat n

def confState : P ConfState := do
  let v ← idList
  let l ← idList
  let o ← idList
  let ln ← idList
  let al ← bool
  pure { voters := v, learners := l, votersOutgoing := o, learnersNext := ln, autoLeave := al }

def entry : P Entry := do
  let t ← tok
  match t.splitOn ":" with
  | [ty, term, idx, d, c] =>
    match ty.toNat?, term.toNat?, idx.toNat?, unhex d, unhex c with
    | some ty, some term, some idx, some d, some c =>
      pure { etype := ty, term := term, index := idx, data := d, context := c }
    | _, _, _, _, _ => failure
  | _ => failure

def entries : P (List Entry) := do
  let n ← nat
  rep entry n

def snapshot : P Snapshot := do
  let t ← tok
  if t == "-" then pure {}
  else if t == "S" then do
    let d ← bytes
    let idx ← nat
    let term ← nat
    let cs ← confState
    pure { data := d, metadata := { index := idx, term := term, confState := cs } }
  else failure

def message : P Message := do
  let ty ← nat
  let some mt := MsgType.ofNat? ty | failure
  let to ← nat
  let frm ← nat
  let term ← nat
  let logTerm ← nat
  let index ← nat
  let ents ← entries
  let commit ← nat
  let snap ← snapshot
  let reject ← bool
  let rejectHint ← nat
  let ctx ← bytes
  let reqSnap ← nat
  let depPrio ← nat
  let commitTerm ← nat
  let prio ← int
  pure { msgType := mt, to := to, frm := frm, term := term, logTerm := logTerm, index := index,
         entries := ents, commit := commit, commitTerm := commitTerm, snapshot := snap,
         requestSnapshot := reqSnap, reject := reject, rejectHint := rejectHint, context := ctx,
         deprecatedPriority := depPrio, priority := prio }

def ccSingle : P ConfChangeSingle := do
  let t ← nat
  let id ← nat
  pure { ctype := Pb.ccType t, nodeId := id }

def ccV2 : P ConfChangeV2 := do
  let tr ← nat
  let n ← nat
  let cs ← rep ccSingle n
  pure { transition := Pb.ccTransition tr, changes := cs }

def config : P Config := do
  let id ← nat
  let et ← nat
  let ht ← nat
  let applied ← nat
  let maxSize ← nat
  let maxInflight ← nat
  let cq ← bool
  let pv ← bool
  let minEt ← nat
  let maxEt ← nat
  let lease ← bool
  let skip ← bool
  let batch ← bool
  let prio ← int
  let maxUnc ← nat
  let maxCommitted ← nat
  let limit ← nat
  let dpf ← bool
  pure { id := id, electionTick := et, heartbeatTick := ht, applied := applied, maxSizePerMsg := maxSize,
         maxInflightMsgs := maxInflight, checkQuorum := cq, preVote := pv, minElectionTick := minEt,
         maxElectionTick := maxEt, readOnlyOption := if lease then .leaseBased else .safe,
         skipBcastCommit := skip, batchAppend := batch, priority := prio, maxUncommittedSize := maxUnc,
         maxCommittedSizePerReady := maxCommitted, maxApplyUnpersistedLogLimit := limit,
         disableProposalForwarding := dpf }

def expect (s : String) : P Unit := do
  let t ← tok
  if t == s then pure () else failure

def pairList : P (List (Nat × Nat)) := do
  let n ← nat
  rep (do let a ← nat; let b ← nat; pure (a, b)) n

/-! ### canonical printing (must agree byte for byte with gen_raftnode.rs) -/

def hexDigit (n : Nat) : Char :=
  if n < 10 then Char.ofNat (48 + n) else Char.ofNat (87 + n)

def hex (b : Bytes) : String :=
  if b.isEmpty then "-"
  else String.ofList (b.foldr (fun x acc => hexDigit (x.toNat / 16) :: hexDigit (x.toNat % 16) :: acc) [])

def insertSorted (x : Nat) : List Nat → List Nat
  | [] => [x]
  | y :: ys => if x ≤ y then x :: y :: ys else y :: insertSorted x ys

def sortNat (l : List Nat) : List Nat := l.foldr insertSorted []

def ids (l : List Nat) : String := natList (sortNat l)

def fmtCs (cs : ConfState) : String :=
  s!"{ids cs.voters} {ids cs.learners} {ids cs.votersOutgoing} {ids cs.learnersNext} {b01 cs.autoLeave}"

def fmtEntry (e : Entry) : String :=
  s!"{e.etype}:{e.term}:{e.index}:{hex e.data}:{hex e.context}"

def fmtEntries (es : List Entry) : String :=
  es.foldl (fun acc e => acc ++ " " ++ fmtEntry e) (toString es.length)

def fmtSnapshot (s : Snapshot) : String :=
  if s = {} then "-"
  else s!"S {hex s.data} {s.metadata.index} {s.metadata.term} {fmtCs s.metadata.confState}"

def fmtMsg (m : Message) : String :=
  s!"{m.msgType.toNat} {m.to} {m.frm} {m.term} {m.logTerm} {m.index} {fmtEntries m.entries} {m.commit} {fmtSnapshot m.snapshot} {b01 m.reject} {m.rejectHint} {hex m.context} {m.requestSnapshot} {m.deprecatedPriority} {m.commitTerm} {m.priority}"

/-- stable insertion by receiver -/
def insertMsg (m : Message) : List Message → List Message
  | [] => [m]
  | y :: ys => if m.to < y.to then m :: y :: ys else y :: insertMsg m ys

def sortMsgs (l : List Message) : List Message := l.foldl (fun acc m => insertMsg m acc) []

def commaList (l : List Nat) : String := ",".intercalate (l.map toString)

def fmtProgress (p : Nat × Progress) : String :=
  let pr := p.2
  s!"{p.1}:{pr.matched}:{pr.nextIdx}:{pr.state.toNat}:{b01 pr.paused}:{pr.pendingSnapshot}:{pr.pendingRequestSnapshot}:{b01 pr.recentActive}:{pr.ins.count}:{b01 pr.ins.full}:{pr.commitGroupId}:{pr.committedIndex}"

def view (st : RNState) : String :=
  let r := st.raft
  let l := r.raftLog
  let msgs := sortMsgs r.msgs
  let m := msgs.foldl (fun acc x => acc ++ " " ++ fmtMsg x) s!"M {msgs.length}"
  let lt := match l.lastTerm with
    | .ok t => toString t
    | _ => "P"
  let usn := match l.unstable.snapshot with
    | some s => s!"{s.metadata.index}:{s.metadata.term}"
    | none => "-"
  let lte := match r.leadTransferee with
    | some x => toString x
    | none => "-"
  let s := s!" | S t={r.term} v={r.vote} r={r.state.toNat} l={r.leaderId} c={l.committed} a={l.applied} p={l.persisted} li={l.lastIndex} lt={lt} fi={l.firstIndex} pci={r.pendingConfIndex} lte={lte} ee={r.electionElapsed} he={r.heartbeatElapsed} rt={r.randomizedElectionTimeout} pr={b01 r.promotable} prs={r.pendingRequestSnapshot} us={r.uncommittedSize} lim={l.maxApplyUnpersistedLogLimit} prio={r.priority} uo={l.unstable.offset} ul={l.unstable.entries.length} usn={usn} sf={l.store.firstIndex} sl={l.store.lastIndex} shs={l.store.hardState.term},{l.store.hardState.vote},{l.store.hardState.commit} gc={b01 r.prs.groupCommit} mcs={r.maxCommittedSizePerReady} mi={r.prs.maxInflight} in={commaList r.prs.conf.incoming} out={commaList r.prs.conf.outgoing}"
  let rs := r.readStates.foldl (fun acc x => acc ++ s!" {x.index}:{hex x.requestCtx}") s!" | RS {r.readStates.length}"
  let ro := r.readOnly
  let roS := ro.readIndexQueue.foldl (fun acc ctx =>
    match ro.pendingReadIndex.lookup ctx with
    | some stt => acc ++ s!" {hex ctx}:{stt.index}:{stt.req.frm}:{commaList stt.acks}"
    | none => acc ++ s!" {hex ctx}:?")
    s!" | RO {b01 (ro.option == .leaseBased)} {ro.pendingReadIndex.length} {ro.readIndexQueue.length}"
  let ps := r.prs.progress.foldl (fun acc p => acc ++ " " ++ fmtProgress p) s!" | P {r.prs.progress.length}"
  let vs := r.prs.votes.foldl (fun acc v => acc ++ s!" {v.1}:{b01 v.2}") s!" | V {r.prs.votes.length}"
  m ++ s ++ rs ++ roS ++ ps ++ vs ++ s!" | C {fmtCs r.prs.conf.toConfState}"

def errKind : RaftError → String
  | .proposalDropped => "err proposal_dropped"
  | .stepLocalMsg => "err step_local_msg"
  | .stepPeerNotFound => "err step_peer_not_found"
  | .requestSnapshotDropped => "err request_snapshot_dropped"
  | .confChangeError => "err confchange"
  | .configInvalid => "err config"

/-! ### executing one call -/


/-- one trace line -> the typed call (`Node.NodeOp`) -/
def parseOp (op : String) : P Node.NodeOp := do
  match op with
  | "tick" => pure Node.NodeOp.tick
  | "step" => do let m ← message; pure (Node.NodeOp.step m)
  | "rstep" => do let m ← message; pure (Node.NodeOp.rstep m)
  | "propose" => do
    let c ← bytes
    let d ← bytes
    pure (Node.NodeOp.propose c d)
  | "propose_cc" => do
    let t ← nat
    let c ← bytes
    let d ← bytes
    pure (Node.NodeOp.proposeCc t c d)
  | "read_index" => do let c ← bytes; pure (Node.NodeOp.readIndex c)
  | "transfer_leader" => do let x ← nat; pure (Node.NodeOp.transferLeader x)
  | "campaign" => pure Node.NodeOp.campaign
  | "ping" => pure Node.NodeOp.ping
  | "request_snapshot" => pure Node.NodeOp.requestSnapshot
  | "report_unreachable" => do let x ← nat; pure (Node.NodeOp.reportUnreachable x)
  | "report_snapshot" => do
    let x ← nat
    let f ← bool
    pure (Node.NodeOp.reportSnapshot x f)
  | "apply_conf_change" => do let cc ← ccV2; pure (Node.NodeOp.applyConfChange cc)
  | "stabilize" => pure Node.NodeOp.stabilize
  | "on_persist_entries" => do
    let i ← nat
    let t ← nat
    pure (Node.NodeOp.onPersistEntries i t)
  | "persist_snap" => pure Node.NodeOp.persistSnap
  | "commit_apply" => do let k ← nat; pure (Node.NodeOp.commitApply k)
  | "compact" => do let k ← nat; pure (Node.NodeOp.compact k)
  | "drain" => pure Node.NodeOp.drain
  | "trigger_snap" => pure Node.NodeOp.triggerSnap
  | "trigger_log" => do let b ← bool; pure (Node.NodeOp.triggerLog b)
  | "set_priority" => do let p ← int; pure (Node.NodeOp.setPriority p)
  | "set_batch_append" => do let b ← bool; pure (Node.NodeOp.setBatchAppend b)
  | "skip_bcast_commit" => do let b ← bool; pure (Node.NodeOp.skipBcastCommit b)
  | "set_check_quorum" => do let b ← bool; pure (Node.NodeOp.setCheckQuorum b)
  | "adjust_max_inflight" => do
    let id ← nat
    let cap ← nat
    pure (Node.NodeOp.adjustMaxInflight id cap)
  | "maybe_free_inflight_buffers" => pure Node.NodeOp.maybeFreeInflightBuffers
  | "enable_group_commit" => do let b ← bool; pure (Node.NodeOp.enableGroupCommit b)
  | "assign_commit_groups" => do let v ← pairList; pure (Node.NodeOp.assignCommitGroups v)
  | "clear_commit_group" => pure Node.NodeOp.clearCommitGroup
  | "check_group_commit_consistent" => pure Node.NodeOp.checkGroupCommitConsistent
  | "set_max_apply_unpersisted_log_limit" => do let x ← nat; pure (Node.NodeOp.setMaxApplyUnpersistedLogLimit x)
  | "set_max_committed_size_per_ready" => do let x ← nat; pure (Node.NodeOp.setMaxCommittedSizePerReady x)
  | "on_entries_fetched" => do
    let to ← nat
    let term ← nat
    let aggr ← bool
    pure (Node.NodeOp.onEntriesFetched to term aggr)
  | _ => failure

/-- the result token(s) of a call, as the harness prints them -/
def fmtRes : Node.OpRes → String
  | .ok => "ok"
  | .okBool b => s!"ok {b01 b}"
  | .okNone => "ok none"
  | .okCs cs => s!"ok {fmtCs cs}"
  | .err e => errKind e
  | .errConfChange => "err confchange"
  | .errSnapshotOutOfDate => "err snapshot_out_of_date"

def parseRnd (t : String) : Option (Option Nat) :=
  if t == "-" then some none else t.toNat?.map some

def newNode : P (Option Nat → Option RNState × String) := do
  let c ← config
  expect "H"
  let ht ← nat
  let hv ← nat
  let hc ← nat
  expect "C"
  let cs ← confState
  expect "SN"
  let si ← nat
  let stm ← nat
  expect "E"
  let ents ← entries
  let store : MemStorage := {
    hardState := { term := ht, vote := hv, commit := hc }, confState := cs, entries := ents,
    snapshotMetadata := { index := si, term := stm, confState := cs } }
  pure (fun rnd =>
    match Node.boot c store rnd with
    | .ok (.ok st) => (some st, "ok | " ++ view st)
    | .ok (.error e) => (none, errKind e)
    | .err _ => (none, "panic")
    | .panic _ => (none, "panic"))

/-- returns the new model state (`none` = sequence over) and the model's observation -/
def handleRN (st : Option RNState) (cmd : List String) : Option RNState × String :=
  match cmd with
  | "new" :: rnd :: rest =>
    match parseRnd rnd, newNode.run rest with
    | some rnd, some (f, []) => f rnd
    | _, _ => (none, "bad-op")
  | op :: rnd :: rest =>
    match st with
    | none => (none, "skip")
    | some st =>
      match parseRnd rnd with
      | none => (none, "bad-op")
      | some rnd =>
        match (parseOp op).run rest with
        | some (nop, []) =>
          match Node.call st rnd nop with
          | .ok (res, st') => (some st', fmtRes res ++ " | " ++ view st')
          | .err _ => (none, "panic")
          | .panic _ => (none, "panic")
        | _ => (none, "bad-op")
  | _ => (none, "bad-op")

end RaftModel.Driver.RN
