import RaftModel.Inflights
import RaftModel.Driver.Util

/-
Driver for C18: re-executes `inf …` trace lines on the model and prints the same observation the
harness printed for the real `raft::Inflights`:
  `ok <count> <full> <n> <window contents…>`  or  `panic`.
(`buffer_is_allocated()` is a memory optimisation outside the property and is not compared.)
-/
namespace RaftModel.Driver
open RaftModel

def obsInf (s : Inflights) : String :=
  s!"ok {s.count} {b01 s.full} {natList s.contents}"

def resInf (r : Except String Inflights) : Option Inflights × String :=
  match r with
  | .ok s => (some s, obsInf s)
  | .error _ => (none, "panic")

/-- returns the new model state (`none` = sequence over) and the model's observation;
`"bad-op"` for lines that are not part of the protocol. -/
def handleInf (st : Option Inflights) (cmd : List String) : Option Inflights × String :=
  match cmd with
  | ["new", c] =>
    match c.toNat? with
    | some c => let s := Inflights.new c; (some s, obsInf s)
    | none => (none, "bad-op")
  | _ =>
    match st with
    | none => (none, "skip")
    | some s =>
      match cmd with
      | ["add", x] => (match x.toNat? with | some x => resInf (s.add x) | none => (none, "bad-op"))
      | ["free_to", x] => (match x.toNat? with | some x => resInf (s.freeTo x) | none => (none, "bad-op"))
      | ["free_first_one"] => resInf s.freeFirstOne
      | ["reset"] => resInf (.ok s.reset)
      | ["set_cap", n] => (match n.toNat? with | some n => resInf (s.setCap n) | none => (none, "bad-op"))
      | ["maybe_free_buffer"] => resInf (.ok s.maybeFreeBuffer)
      | _ => (none, "bad-op")

end RaftModel.Driver
