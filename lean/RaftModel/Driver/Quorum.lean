import RaftModel.Quorum
import RaftModel.Driver.Util

/-
Driver for C11: every `q …` line is self-contained (pure functions, no state).  Configurations are
sets: the id lists are taken in the order printed (an arbitrary order — the real code iterates a
hash set in yet another one; `RaftProps.C11.committedIndex_perm` is why that cannot matter), duplicates
removed.  Association lists follow `HashMap::insert` (the last entry for an id wins), except the
votes of `tally`, which go through `record_vote` (the first one wins).
-/
namespace RaftModel.Driver
open RaftModel

def takeTriples : Nat → List String → Option (List (Nat × Index) × List String)
  | 0, rest => some ([], rest)
  | n + 1, a :: b :: c :: rest =>
    match a.toNat?, b.toNat?, c.toNat?, takeTriples n rest with
    | some id, some i, some g, some (l, rest') => some ((id, { index := i, groupId := g }) :: l, rest')
    | _, _, _, _ => none
  | _, _ => none

def takeAcks : List String → Option (List (Nat × Index) × List String)
  | [] => none
  | n :: rest => match n.toNat? with
    | some k => (takeTriples k rest).map fun (l, r) => (l.reverse, r)
    | none => none

def takePairs : Nat → List String → Option (List (Nat × Bool) × List String)
  | 0, rest => some ([], rest)
  | n + 1, a :: b :: rest =>
    match a.toNat?, b.toNat?, takePairs n rest with
    | some id, some v, some (l, rest') => some ((id, v != 0) :: l, rest')
    | _, _, _ => none
  | _, _ => none

def takeVotes : List String → Option (List (Nat × Bool) × List String)
  | [] => none
  | n :: rest => match n.toNat? with
    | some k => takePairs k rest
    | none => none

def takeCfg (t : List String) : Option (List Nat × List String) :=
  (takeNatList t).map fun (l, r) => (l.eraseDups, r)

def vrStr : VoteResult → String
  | .won => "won"
  | .lost => "lost"
  | .pending => "pending"

def commitStr : Res (Nat × Bool) → String
  | .ok (i, f) => s!"{i} {b01 f}"
  | _ => "panic"

def handleQuorum (cmd : List String) : String :=
  let r : Option String :=
    match cmd with
    | ["majority", n] => n.toNat?.map fun n => toString (majority n)
    | "mcommit" :: t => do
      let (c, t) ← takeCfg t
      let (a, t) ← takeAcks t
      match t with
      | [gc] => some (commitStr (Majority.committedIndexR c (Tracker.ackOf a) (gc != "0")))
      | _ => none
    | "commit" :: t => do
      let (ci, t) ← takeCfg t
      let (co, t) ← takeCfg t
      let (a, t) ← takeAcks t
      match t with
      | [gc] => some (commitStr (Joint.committedIndexR ⟨ci, co⟩ (Tracker.ackOf a) (gc != "0")))
      | _ => none
    | "tcommit" :: t => do
      let (ci, t) ← takeCfg t
      let (co, t) ← takeCfg t
      let (a, t) ← takeAcks t
      match t with
      | [gc] =>
        let (i, f) := Tracker.maximalCommittedIndex ⟨ci, co⟩ a (gc != "0")
        some s!"{i} {b01 f}"
      | _ => none
    | "mvote" :: t => do
      let (c, t) ← takeCfg t
      let (v, t) ← takeVotes t
      if t ≠ [] then none else some (vrStr (Majority.voteResult c (fun id => v.reverse.lookup id)))
    | "vote" :: t => do
      let (ci, t) ← takeCfg t
      let (co, t) ← takeCfg t
      let (v, t) ← takeVotes t
      if t ≠ [] then none else some (vrStr (Joint.voteResult ⟨ci, co⟩ (fun id => v.reverse.lookup id)))
    | "tally" :: t => do
      let (ci, t) ← takeCfg t
      let (co, t) ← takeCfg t
      let (v, t) ← takeVotes t
      -- `record_vote` keeps the first vote recorded for an id (`entry(id).or_insert(vote)`)
      let v := v.foldl (fun acc p => if acc.any (·.1 == p.1) then acc else acc ++ [p]) []
      if t ≠ [] then none else
        let (g, r, res) := Tracker.tallyVotes ⟨ci, co⟩ v
        some s!"{g} {r} {vrStr res}"
    | "hasq" :: t => do
      let (ci, t) ← takeCfg t
      let (co, t) ← takeCfg t
      let (s, t) ← takeCfg t
      if t ≠ [] then none else some (b01 (Tracker.hasQuorum ⟨ci, co⟩ s))
    | _ => none
  r.getD "bad-op"

end RaftModel.Driver
