/-
Shared helpers of the line-protocol driver: token parsing and canonical printing.
-/
namespace RaftModel.Driver

def b01 (b : Bool) : String := if b then "1" else "0"

def natList (l : List Nat) : String :=
  l.foldl (fun acc x => acc ++ " " ++ toString x) (toString l.length)

def parseNat (s : String) : Option Nat := s.toNat?

/-- parse `n x₁ … xₙ` from the front of a token list -/
def takeNatList : List String → Option (List Nat × List String)
  | [] => none
  | n :: rest =>
    match n.toNat? with
    | none => none
    | some k =>
      let xs := rest.take k
      if xs.length ≠ k then none
      else match xs.mapM String.toNat? with
        | none => none
        | some ys => some (ys, rest.drop k)

end RaftModel.Driver
