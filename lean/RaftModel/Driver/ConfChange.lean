import RaftModel.ConfChange
import RaftModel.Driver.Util

/-
Driver for C12: re-executes `cc …` trace lines on the model of the configuration-change algebra.

State observation (after every operation, all sets sorted):
  `i <n ids…> o <n ids…> l <n ids…> n <n ids…> al <0|1> p <n id:flag…> cs <voters> <outgoing> <learners> <learners_next> <0|1>`
where `p` are the ids that have a `Progress` (`flag` = `L` if the id is in `conf.learners`, else `V`)
and `cs` is `to_conf_state()` of the configuration.  Results: `ok <state>` / `err <kind> <state>`.
-/
namespace RaftModel.Driver
open RaftModel

def errName : ErrKind → String
  | .alreadyJoint => "already_joint"
  | .zeroVoterJoint => "zero_voter_joint"
  | .notJoint => "not_joint"
  | .notJointCopy => "not_joint_copy"
  | .simpleInJoint => "simple_in_joint"
  | .multiVoter => "multi_voter"
  | .removedAll => "removed_all"
  | .invariant => "invariant"

def obsTracker (t : Tracker) : String :=
  let c := t.conf
  let cs := c.toConfState
  let prs := t.progress.foldl
    (fun acc id => acc ++ " " ++ toString id ++ (if id ∈ c.learners then ":L" else ":V"))
    (toString t.progress.length)
  s!"i {natList c.incoming} o {natList c.outgoing} l {natList c.learners} n {natList c.learnersNext} al {b01 c.autoLeave} p {prs} cs {natList cs.voters} {natList cs.votersOutgoing} {natList cs.learners} {natList cs.learnersNext} {b01 cs.autoLeave}"

def parseCcs : List String → Option (List ConfChangeSingle)
  | [] => some []
  | tok :: rest =>
    let ty : Option ConfChangeType := match tok.front with
      | 'v' => some .addNode
      | 'l' => some .addLearnerNode
      | 'r' => some .removeNode
      | _ => none
    match ty, (tok.drop 1).toString.toNat?, parseCcs rest with
    | some ty, some id, some r => some ({ ctype := ty, nodeId := id } :: r)
    | _, _, _ => none

def parseBool : String → Option Bool
  | "0" => some false
  | "1" => some true
  | _ => none

/-- `<voters> <outgoing> <learners> <learners_next> <auto_leave>` then the rest -/
def parseConfState (toks : List String) : Option (ConfState × List String) := do
  let (v, r) ← takeNatList toks
  let (o, r) ← takeNatList r
  let (l, r) ← takeNatList r
  let (n, r) ← takeNatList r
  match r with
  | al :: r =>
    let al ← parseBool al
    some ({ voters := v, votersOutgoing := o, learners := l, learnersNext := n, autoLeave := al }, r)
  | [] => none

def parseTransition : String → Option ConfChangeTransition
  | "0" => some .auto
  | "1" => some .implicit
  | "2" => some .explicit
  | _ => none

def parseType : String → Option ConfChangeType
  | "0" => some .addNode
  | "1" => some .removeNode
  | "2" => some .addLearnerNode
  | _ => none

def obsCcs (ccs : List ConfChangeSingle) : String :=
  ccs.foldl (fun acc c => acc ++ " " ++ (match c.ctype with
    | .addNode => "v" | .addLearnerNode => "l" | .removeNode => "r") ++ toString c.nodeId)
    (toString ccs.length)

def obsClassify (cc : ConfChangeV2) : String :=
  let e := match cc.enterJoint with
    | none => "none"
    | some true => "auto"
    | some false => "explicit"
  let k := match cc.classify with
    | .leave => "leave"
    | .enter true => "enter_auto"
    | .enter false => "enter_explicit"
    | .simple => "simple"
  s!"leave {b01 cc.leaveJoint} enter {e} kind {k}"

/-- result of a changer call on tracker `t`: applies it (`apply_conf`) when `commit` -/
def resChange (t : Tracker) (commit : Bool) (r : Except ErrKind (Configuration × MapChange)) :
    Option Tracker × String :=
  match r with
  | .error e => (some t, s!"err {errName e} {obsTracker t}")
  | .ok (cfg, ch) =>
    let t' := t.applyConf cfg ch
    (some (if commit then t' else t), s!"ok {obsTracker t'}")

def changeOp (t : Tracker) (commit : Bool) (cmd : List String) : Option Tracker × String :=
  match cmd with
  | "simple" :: ccs =>
    (match parseCcs ccs with
      | some ccs => resChange t commit (simple t ccs)
      | none => (none, "bad-op"))
  | "enter" :: al :: ccs =>
    (match parseBool al, parseCcs ccs with
      | some al, some ccs => resChange t commit (enterJoint t al ccs)
      | _, _ => (none, "bad-op"))
  | ["leave"] => resChange t commit (leaveJoint t)
  | "applyv2" :: tr :: ccs =>
    (match parseTransition tr, parseCcs ccs with
      | some tr, some ccs =>
        let cc : ConfChangeV2 := { transition := tr, changes := ccs }
        (match applyConfChangeV2 t cc with
          | .error e => (some t, s!"err {errName e} {obsTracker t}")
          | .ok t' => (some (if commit then t' else t), s!"ok {obsTracker t'}"))
      | _, _ => (none, "bad-op"))
  | _ => (none, "bad-op")

def handleCc (st : Option Tracker) (cmd : List String) : Option Tracker × String :=
  match cmd with
  | "new" :: rest =>
    (match parseConfState rest with
      | some (cs, []) =>
        (match restore Tracker.empty cs with
          | .ok t => (some t, s!"ok {obsTracker t}")
          | .error e => (none, s!"err {errName e}"))
      | _ => (none, "bad-op"))
  | "raw" :: rest =>
    -- a tracker with an arbitrary (possibly inconsistent) configuration and progress key set
    (match parseConfState rest with
      | some (cs, r) =>
        (match takeNatList r with
          | some (p, []) =>
            let t : Tracker :=
              { conf := { incoming := NatSet.ofList cs.voters, outgoing := NatSet.ofList cs.votersOutgoing,
                          learners := NatSet.ofList cs.learners, learnersNext := NatSet.ofList cs.learnersNext,
                          autoLeave := cs.autoLeave },
                progress := NatSet.ofList p }
            (some t, s!"ok {obsTracker t}")
          | _ => (none, "bad-op"))
      | none => (none, "bad-op"))
  -- stateless: proto-level classification
  | "classify" :: tr :: ccs =>
    (match parseTransition tr, parseCcs ccs with
      | some tr, some ccs => (st, obsClassify { transition := tr, changes := ccs })
      | _, _ => (none, "bad-op"))
  | ["v1", ty, id] =>
    (match parseType ty, id.toNat? with
      | some ty, some id =>
        let v2 := ({ ctype := ty, nodeId := id } : ConfChange).intoV2
        let tr := match v2.transition with | .auto => "0" | .implicit => "1" | .explicit => "2"
        (st, s!"v2 {tr} {obsCcs v2.changes} {obsClassify v2}")
      | _, _ => (none, "bad-op"))
  | ["cseq", a, b] =>
    -- `a`, `b`: confstates packed with `,` instead of blanks
    (match parseConfState (a.splitOn ","), parseConfState (b.splitOn ",") with
      | some (x, []), some (y, []) => (st, s!"eq {b01 (confStateEq x y)}")
      | _, _ => (none, "bad-op"))
  | _ =>
    match st with
    | none => (none, "skip")
    | some t =>
      match cmd with
      | "try" :: rest => changeOp t false rest
      | ["roundtrip"] =>
        -- restore(to_conf_state()) into a fresh tracker; must reproduce the tracker
        (match restore Tracker.empty t.conf.toConfState with
          | .ok t' => (some t, s!"ok same {b01 (decide (t' = t))} {obsTracker t'}")
          | .error e => (some t, s!"err {errName e}"))
      | _ => changeOp t true cmd

end RaftModel.Driver
