import RaftModel.Proto
import RaftModel.ProtoCfg
import RaftModel.ProtoDisc
import RaftModel.Driver.Util

/-
Driver for the abstract protocol P: `p new`, `p ev <event…>` and `p view <node view…>` trace lines.

`p ev` lines are the refinement witness produced by the harness for one library call of the real
code; the driver answers `ok` when `applyEvent` accepts the event and `reject <why>` otherwise.
`p view` lines carry the implementation's view of one node after a call; the driver answers `ok`
when the P state of that node agrees with it and `differs <fields>` otherwise.
-/
namespace RaftModel.Driver.PD
open RaftModel.P RaftModel.Driver

/-- parse `(term kind dig)*` : `n` triples -/
def takeEntries (n : Nat) (toks : List String) : Option (List LEntry × List String) :=
  match n with
  | 0 => some ([], toks)
  | n + 1 =>
    match toks with
    | a :: b :: c :: rest =>
      match a.toNat?, b.toNat?, c.toNat? with
      | some a, some b, some c =>
        match takeEntries n rest with
        | some (es, r) => some (⟨a, b, c⟩ :: es, r)
        | none => none
      | _, _, _ => none
    | _ => none

def takeEntryList : List String → Option (List LEntry × List String)
  | n :: rest => match n.toNat? with
    | some n => takeEntries n rest
    | none => none
  | [] => none

def takeNat : List String → Option (Nat × List String)
  | a :: rest => match a.toNat? with
    | some a => some (a, rest)
    | none => none
  | [] => none

def takePCfg (toks : List String) : Option (Cfg × List String) :=
  match takeNatList toks with
  | some (inc, r) => match takeNatList r with
    | some (out, r') => some (⟨inc, out⟩, r')
    | none => none
  | none => none

/-- `term frm prev prevTerm commit n entries…` -/
def takeApp (toks : List String) : Option (App × List String) :=
  match toks with
  | t :: f :: p :: pt :: c :: rest =>
    match t.toNat?, f.toNat?, p.toNat?, pt.toNat?, c.toNat?, takeEntryList rest with
    | some t, some f, some p, some pt, some c, some (es, r) => some (⟨t, f, p, pt, es, c⟩, r)
    | _, _, _, _, _, _ => none
  | _ => none

def nats (toks : List String) : Option (List Nat) := toks.mapM String.toNat?

def parseEvent (toks : List String) : Option Event :=
  match toks with
  | "bump" :: r => match nats r with | some [i, t] => some (.bump i t) | _ => none
  | "campaign" :: r => match nats r with | some [i] => some (.campaign i) | _ => none
  | "grant" :: r => match nats r with | some [i, c] => some (.grant i c) | _ => none
  | "rdy" :: r => match nats r with | some [i] => some (.rdy i) | _ => none
  | "persist" :: r => match nats r with | some [i, n] => some (.persist i n) | _ => none
  | "release" :: i :: "req" :: r =>
    match i.toNat?, nats r with | some i, some [t, c] => some (.release i (.voteReq t c 0 0)) | _, _ => none
  | "release" :: i :: "grant" :: r =>
    match i.toNat?, nats r with | some i, some [t, v, c] => some (.release i (.grant t v c {})) | _, _ => none
  | "release" :: i :: "ack" :: r =>
    match i.toNat?, nats r with | some i, some [t, f, idx] => some (.release i (.ack t f idx [])) | _, _ => none
  | "crash" :: r => match nats r with | some [i] => some (.crash i) | _ => none
  | "restart" :: r => match nats r with | some [i] => some (.restart i) | _ => none
  | "win" :: i :: r =>
    match i.toNat?, takePCfg r with
    | some i, some (cfg, r') => match takeNatList r' with
      | some (q, []) => some (.win i cfg q)
      | _ => none
    | _, _ => none
  | "stepdown" :: r => match nats r with | some [i] => some (.stepDown i) | _ => none
  | "lappend" :: r => match nats r with | some [i, t, k, d] => some (.leaderAppend i ⟨t, k, d⟩) | _ => none
  | "sendapp" :: i :: r =>
    match i.toNat?, takeApp r with | some i, some (m, []) => some (.sendApp i m) | _, _ => none
  | "recvapp" :: i :: r =>
    match i.toNat?, takeApp r with | some i, some (m, []) => some (.recvApp i m) | _, _ => none
  | "ackself" :: r => match nats r with | some [i, idx] => some (.ackSelf i idx) | _ => none
  | "ackcommitted" :: r => match nats r with | some [i] => some (.ackCommitted i) | _ => none
  | "commitleader" :: i :: c :: r =>
    match i.toNat?, c.toNat?, takePCfg r with
    | some i, some c, some (cfg, r') => match takeNatList r' with
      | some (q, []) => some (.commitLeader i c cfg q)
      | _ => none
    | _, _, _ => none
  | "commitapp" :: i :: c :: r =>
    match i.toNat?, c.toNat?, takeApp r with
    | some i, some c, some (m, []) => some (.commitApp i c m)
    | _, _, _ => none
  | "commithb" :: r => match nats r with | some [i, c, t, mc] => some (.commitHB i c ⟨t, i, mc⟩) | _ => none
  | "commitclaim" :: r => match nats r with | some [i, idx, t] => some (.commitClaim i ⟨idx, t, 0⟩) | _ => none
  | "sendhb" :: r => match nats r with | some [i, to, c] => some (.sendHB i to c) | _ => none
  | "claim" :: r => match nats r with | some [i, idx] => some (.claim i idx) | _ => none
  | "sendsnap" :: r => match nats r with | some [i, idx] => some (.sendSnap i idx) | _ => none
  | "installsnap" :: r => match nats r with | some [i, t, idx, st] => some (.installSnap i t idx st) | _ => none
  | "bootstrap" :: r => match nats r with | some [i, d, idx] => some (.bootstrap i d idx) | _ => none
  | "commitsnap" :: r => match nats r with | some [i, t, idx, st] => some (.commitSnap i t idx st) | _ => none
  | "rissue" :: r => match nats r with | some [i, rid] => some (.read (.issue i rid)) | _ => none
  | "rstart" :: r => match nats r with | some [i, rid] => some (.read (.start i rid)) | _ => none
  | "rhback" :: r => match nats r with | some [v] => some (.read (.hback v)) | _ => none
  | "rresp" :: i :: rid :: idx :: r =>
    match i.toNat?, rid.toNat?, idx.toNat?, takePCfg r with
    | some i, some rid, some idx, some (cfg, []) => some (.read (.resp i rid idx cfg))
    | _, _, _, _ => none
  | "rstate" :: j :: rid :: idx :: r =>
    match j.toNat?, rid.toNat?, idx.toNat?, takePCfg r with
    | some j, some rid, some idx, some (cfg, []) => some (.read (.rstate j rid idx cfg))
    | _, _, _, _ => none
  | _ => none


/-- the configuration-aware events of PC (`RaftModel/ProtoCfg.lean`): `win` / `commitleader` carry the
applied index as a last field; `cfginit <cfg>`; `applyconf i idx <cfg>`.  A `win` / `commitleader` line
without the applied index (traces of earlier rounds) is taken as the plain P event. -/
def parseCEvent (toks : List String) : Option (CEvent ⊕ Event) :=
  match toks with
  | "cfginit" :: r =>
    match takePCfg r with
    | some (cfg, []) => some (.inl (.cfgInit cfg))
    | _ => none
  | "applyconf" :: i :: idx :: r =>
    match i.toNat?, idx.toNat?, takePCfg r with
    | some i, some idx, some (cfg, []) => some (.inl (.applyConf i idx cfg))
    | _, _, _ => none
  | "win" :: i :: r =>
    match i.toNat?, takePCfg r with
    | some i, some (cfg, r') => match takeNatList r' with
      | some (q, []) => some (.inr (.win i cfg q))
      | some (q, [a]) => match a.toNat? with
        | some a => some (.inl (.win i cfg q a))
        | none => none
      | _ => none
    | _, _ => none
  | "commitleader" :: i :: c :: r =>
    match i.toNat?, c.toNat?, takePCfg r with
    | some i, some c, some (cfg, r') => match takeNatList r' with
      | some (q, []) => some (.inr (.commitLeader i c cfg q))
      | some (q, [a]) => match a.toNat? with
        | some a => some (.inl (.commitLeader i c cfg q a))
        | none => none
      | _ => none
    | _, _, _ => none
  | "rresp" :: i :: rid :: idx :: r =>
    match i.toNat?, rid.toNat?, idx.toNat?, takePCfg r with
    | some i, some rid, some idx, some (cfg, []) => some (.inr (.read (.resp i rid idx cfg)))
    | some i, some rid, some idx, some (cfg, [a]) => match a.toNat? with
      | some a => some (.inl (.resp i rid idx cfg a))
      | none => none
    | _, _, _, _ => none
  | "rstate" :: j :: rid :: idx :: r =>
    match j.toNat?, rid.toNat?, idx.toNat?, takePCfg r with
    | some j, some rid, some idx, some (cfg, []) => some (.inr (.read (.rstate j rid idx cfg)))
    | some j, some rid, some idx, some (cfg, [a]) => match a.toNat? with
      | some a => some (.inl (.rstate j rid idx cfg a))
      | none => none
    | _, _, _, _ => none
  | _ => match parseEvent toks with
    | some e => some (.inl (.base e))
    | none => none

/-- the events of the discipline layer PD (`RaftModel/ProtoDisc.lean`): `apply i k`, `restart i a`,
`recvappc i <app>`; `campaign`, `lappend`, `sendapp`, `win`, `commitleader`, `rresp`, `rstate` go through
their PD counterparts; everything else is a PC event.  Lines of earlier trace formats (no applied index on
`win`/`commitleader`/`rresp`/`rstate`/`restart`, separate `recvapp`/`commitapp`) are not accepted. -/
def parseDEvent (toks : List String) : Option (DEvent ⊕ Event) :=
  match toks with
  | "apply" :: r => match nats r with | some [i, k] => some (.inl (.apply i k)) | _ => none
  | "restart" :: r => match nats r with
    | some [i, a] => some (.inl (.restart i a))
    | _ => none
  | "campaign" :: r => match nats r with | some [i] => some (.inl (.campaign i)) | _ => none
  | "lappend" :: r => match nats r with | some [i, t, k, d] => some (.inl (.leaderAppend i ⟨t, k, d⟩)) | _ => none
  | "sendapp" :: i :: r =>
    match i.toNat?, takeApp r with | some i, some (m, []) => some (.inl (.sendApp i m)) | _, _ => none
  | "recvappc" :: i :: r =>
    match i.toNat?, takeApp r with | some i, some (m, []) => some (.inl (.recvAppC i m)) | _, _ => none
  | _ =>
    match parseCEvent toks with
    | some (.inl (.win i cfg q a)) => some (.inl (.win i cfg q a))
    | some (.inl (.commitLeader i c cfg q a)) => some (.inl (.commitLeader i c cfg q a))
    | some (.inl (.resp i rid idx cfg a)) => some (.inl (.resp i rid idx cfg a))
    | some (.inl (.rstate j rid idx cfg a)) => some (.inl (.rstate j rid idx cfg a))
    | some (.inl e) => some (.inl (.pc e))
    | some (.inr _) => none      -- a line of an earlier trace format: not accepted (no way around the guards)
    | none => none

/-- the closure chain built by `upd` is flattened from time to time (ids 0..15) -/
def compact (s : PSys) : PSys :=
  let l := (List.range 16).map s.nodes
  { s with nodes := fun j => l.getD j {} }

/-- compare a logical log with the retained suffix the implementation reports:
`first` = index of the first retained entry, `es` = retained entries -/
def suffixAgrees (log : List LEntry) (first : Nat) (es : List LEntry) : Bool :=
  decide (log.length = first - 1 + es.length) && decide (log.drop (first - 1) = es)

/-- `p view i defer up term vote role commit first <entries> dterm dvote dcommit dfirst <dentries>` -/
def checkView (s : PSys) (toks : List String) : String :=
  match toks with
  | i :: defer :: up :: term :: vote :: role :: commit :: first :: rest =>
    match i.toNat?, defer.toNat?, up.toNat?, term.toNat?, vote.toNat?, role.toNat?, commit.toNat?,
        first.toNat?, takeEntryList rest with
    | some i, some defer, some up, some term, some vote, some role, some commit, some first,
        some (es, rest2) =>
      match rest2 with
      | dterm :: dvote :: dcommit :: dfirst :: rest3 =>
        match dterm.toNat?, dvote.toNat?, dcommit.toNat?, dfirst.toNat?, takeEntryList rest3 with
        | some dterm, some dvote, some dcommit, some dfirst, some (des, []) =>
          let n := s.nodes i
          let bad : List String :=
            (if n.up != (up == 1) then ["up"] else []) ++
            (if up == 1 && defer == 0 then
              (if n.term != term then [s!"term(P={n.term})"] else []) ++
              (if n.vote != vote then [s!"vote(P={n.vote})"] else []) ++
              (if n.role != role then [s!"role(P={n.role})"] else []) ++
              (if n.commit != commit then [s!"commit(P={n.commit})"] else []) ++
              (if !suffixAgrees n.log first es then [s!"log(P.len={n.log.length})"] else [])
             else []) ++
            (if n.dterm != dterm then [s!"dterm(P={n.dterm})"] else []) ++
            (if n.dvote != dvote then [s!"dvote(P={n.dvote})"] else []) ++
            (if n.dcommit != dcommit then [s!"dcommit(P={n.dcommit})"] else []) ++
            (if !suffixAgrees n.dlog dfirst des then [s!"dlog(P.len={n.dlog.length})"] else [])
          if bad.isEmpty then "ok" else "differs " ++ " ".intercalate bad
        | _, _, _, _, _ => "bad-op"
      | _ => "bad-op"
    | _, _, _, _, _, _, _, _, _ => "bad-op"
  | _ => "bad-op"

def compactD (D : DSys) : DSys := { D with pc := { D.pc with base := compact D.pc.base } }

def handleP (st : Option DSys) (cmd : List String) : Option DSys × String :=
  match cmd with
  | ["new"] => (some dinit, "ok")
  | ["new", _] => (some dinit, "ok")
  | "ev" :: toks =>
    match st with
    | none => (none, "skip")
    | some D =>
      match parseDEvent toks with
      | none => (none, "bad-op")
      | some (.inl e) =>
        match applyEventD D e with
        | .ok D' => (some D', "ok")
        | .error why => (none, "reject " ++ why)
      | some (.inr e) =>
        match applyEvent D.pc.base e with
        | .ok b => (some { D with pc := { D.pc with base := b } }, "ok")
        | .error why => (none, "reject " ++ why)
  | "view" :: toks =>
    match st with
    | none => (none, "skip")
    | some D => let D := compactD D; (some D, checkView D.pc.base toks)
  | ["end"] => (none, "ok")
  | _ => (none, "bad-op")

end RaftModel.Driver.PD
