/-
The abstract protocol **P** (DESIGN.md §4): a message-passing transition system over *logical* logs
with durable/volatile state, crash/restart, generation-vs-release of promise-carrying messages and
ghost history.  It deliberately says nothing about timers, flow control, priority, pre-vote, lease,
batching: every behaviour of those is allowed.

P is *executable*: `applyEvent` is both
  * the step relation the global theorems (RaftProofs/Proto*.lean, RaftProps/C0x.lean) induct over, and
  * the checker that the driver runs over every implementation trace: the harness decomposes each
    library call of the real code into P events (a refinement witness), `applyEvent` validates every
    event's precondition against the P state, and after every call the P state of the node is
    compared with the implementation's view (`p view` lines).
So "the implementation's history is a history of P" is checked on every run, and everything proved
for all histories of P applies to it.

Indexes are 1-based as in Raft: entry `k` of a log `l` is `l[k-1]`; `l.take k` is the prefix up to
index `k`.  Node ids are positive; `vote = 0` means "none".
-/
namespace RaftModel.P

structure LEntry where
  term : Nat
  kind : Nat   -- EntryType wire value
  dig : Nat    -- digest of (data, context): payload identity
  deriving DecidableEq, Repr, Inhabited

/-- ghost record of a vote decision: the voter's log when it decided, whether the term had no
elected leader yet, and the candidate's advertised last (term, index) it was compared against -/
structure VGhost where
  vlog : List LEntry := []
  early : Bool := true
  clt : Nat := 0
  cli : Nat := 0
  deriving DecidableEq, Repr, Inhabited

/-- messages that carry a promise and are *generated* first and *released* only once durable -/
inductive OMsg where
  | voteReq (term cand lastTerm lastIdx : Nat)
  | grant (term voter cand : Nat) (gh : VGhost)      -- `gh` is ghost (not on the wire)
  | ack (term frm idx : Nat) (pre : List LEntry)   -- `pre` = the acknowledged prefix (ghost)
  deriving DecidableEq, Repr

def OMsg.isAck : OMsg → Bool
  | .ack _ _ _ _ => true
  | _ => false

/-- a volatile image taken at a Ready boundary, waiting to be made durable -/
structure Image where
  term : Nat
  vote : Nat
  log : List LEntry
  commit : Nat
  acks : List OMsg := []   -- the acknowledgements generated so far: covered once this image is durable
  deriving DecidableEq, Repr, Inhabited

structure PNode where
  up : Bool := true
  term : Nat := 0
  vote : Nat := 0
  role : Nat := 0          -- 0 follower (incl. pre-candidate), 1 candidate, 2 leader
  log : List LEntry := []
  commit : Nat := 0
  dterm : Nat := 0
  dvote : Nat := 0
  dlog : List LEntry := []
  dcommit : Nat := 0
  pending : List Image := []
  outbox : List OMsg := []
  dacks : List OMsg := []   -- acknowledgements covered by the durable image
  deriving Repr, Inhabited

structure VoteReq where
  term : Nat
  cand : Nat
  lastTerm : Nat
  lastIdx : Nat
  deriving DecidableEq, Repr

structure Grant where
  term : Nat
  voter : Nat
  cand : Nat
  deriving DecidableEq, Repr

structure Ack where
  term : Nat
  frm : Nat
  idx : Nat
  pre : List LEntry
  deriving DecidableEq, Repr

structure App where
  term : Nat
  frm : Nat
  prev : Nat
  prevTerm : Nat
  es : List LEntry
  commit : Nat
  deriving DecidableEq, Repr

structure HB where
  term : Nat
  to : Nat
  commit : Nat
  deriving DecidableEq, Repr

structure Snap where
  term : Nat
  idx : Nat
  sterm : Nat
  pre : List LEntry
  deriving DecidableEq, Repr

/-- `(index, term)` commit evidence carried by vote traffic / read-index responses -/
structure Claim where
  idx : Nat
  term : Nat
  cterm : Nat := 0   -- the term of the node that released the evidence
  deriving DecidableEq, Repr

/-! read-index bookkeeping (ghost; no other part of the state depends on it) -/

/-- a read request as issued by the application on `node`; `ncm` / `nak` = how many leader commits /
released acknowledgements existed at that moment (both lists only grow at the head) -/
structure ReadRec where
  rid : Nat
  node : Nat
  ncm : Nat
  nak : Nat
  deriving DecidableEq, Repr

/-- leader `ldr` of `term` registered request `rid` with read index `idx` (its commit index then) -/
structure ReadStart where
  rid : Nat
  ldr : Nat
  term : Nat
  idx : Nat
  deriving DecidableEq, Repr

/-- node `frm` confirmed, while in `term`, a heartbeat sent after request `rid` was registered -/
structure HbAck where
  rid : Nat
  frm : Nat
  term : Nat
  deriving DecidableEq, Repr

/-- answer `idx` to request `rid` for node `to` (a released response, or a read state handed out) -/
structure ReadResp where
  rid : Nat
  to : Nat
  idx : Nat
  deriving DecidableEq, Repr

structure RdState where
  issued : List ReadRec := []
  started : List ReadStart := []
  hbacks : List HbAck := []
  resps : List ReadResp := []
  done : List ReadResp := []
  deriving Repr

/-- a (joint) voter configuration -/
structure Cfg where
  incoming : List Nat
  outgoing : List Nat
  deriving DecidableEq, Repr, Inhabited

structure PSys where
  nodes : Nat → PNode
  reqs : List VoteReq := []
  grants : List Grant := []
  acks : List Ack := []
  apps : List App := []
  hbs : List HB := []
  snaps : List Snap := []
  claims : List Claim := []
  -- ghost history
  llog : Nat → List LEntry        -- log of the leader of each term
  elected : List (Nat × Nat)      -- (term, node)
  elog : Nat → List LEntry := fun _ => []   -- the log each term's leader was elected with
  rgv : List (Grant × VGhost) := []         -- ghost records of the released grants
  cmts : List (Nat × Nat) := []             -- (term, index) of every leader commit
  rd : RdState := {}                        -- read-index bookkeeping
  ecfgs : List (Nat × Cfg) := []            -- ghost: (term, configuration the election of that term was decided under)
  ccfgs : List ((Nat × Nat) × Cfg) := []    -- ghost: configuration every leader commit was decided under (same order as `cmts`)

def init : PSys := { nodes := fun _ => {}, llog := fun _ => [], elected := [] }

def upd (f : Nat → PNode) (i : Nat) (n : PNode) : Nat → PNode := fun j => if j = i then n else f j
def updT (f : Nat → List LEntry) (t : Nat) (l : List LEntry) : Nat → List LEntry :=
  fun j => if j = t then l else f j

/-! ### log helpers -/

def lastTerm (l : List LEntry) : Nat := match l.getLast? with | some e => e.term | none => 0

/-- term of the entry at 1-based index `k` (0 for index 0 or out of range) -/
def termAt (l : List LEntry) (k : Nat) : Nat :=
  if k = 0 then 0 else match l[k - 1]? with | some e => e.term | none => 0

/-- `RaftLog::is_up_to_date(last_index, term)` against the voter's log `l` -/
def upToDate (candLastTerm candLastIdx : Nat) (l : List LEntry) : Bool :=
  decide (lastTerm l < candLastTerm) ||
    (decide (candLastTerm = lastTerm l) && decide (l.length ≤ candLastIdx))

/-- `maybe_append`'s rule: walk `es` from position `pos` (0-based), keep `l` while terms agree, at
the first conflict (or at the end of `l`) truncate and append the rest -/
def mergeAt : List LEntry → Nat → List LEntry → List LEntry
  | l, _, [] => l
  | l, pos, e :: es =>
    match l[pos]? with
    | some x => if x.term = e.term then mergeAt l (pos + 1) es else l.take pos ++ (e :: es)
    | none => l.take pos ++ (e :: es)

/-- 1-based index of the first conflicting entry (0 = none): `RaftLog::find_conflict` -/
def conflictAt : List LEntry → Nat → List LEntry → Nat
  | _, _, [] => 0
  | l, pos, e :: es =>
    match l[pos]? with
    | some x => if x.term = e.term then conflictAt l (pos + 1) es else pos + 1
    | none => pos + 1

/-! ### quorums -/

def countIn (vs q : List Nat) : Nat := (vs.filter (fun v => q.contains v)).length

def majOf (vs q : List Nat) : Bool := decide (vs.length / 2 + 1 ≤ countIn vs q)

/-- deciding quorum of a joint configuration (an empty half is always satisfied, as in
`MajorityConfig::vote_result` / `committed_index`) -/
def Cfg.isQuorum (c : Cfg) (q : List Nat) : Bool :=
  (c.incoming.isEmpty || majOf c.incoming q) && (c.outgoing.isEmpty || majOf c.outgoing q)

/-- a decidable sufficient condition for "every majority of `h1` meets every majority of `h2`":
both voter lists are duplicate-free and non-empty and the two majorities together are larger than
the union (holds for equal lists, lists that differ by one voter, and the halves a joint
configuration shares with its predecessor / successor) -/
def halfMeets (h1 h2 : List Nat) : Bool :=
  !h1.isEmpty && !h2.isEmpty && decide h1.Nodup && decide h2.Nodup &&
    decide (h1.length + (h2.filter (fun v => !h1.contains v)).length < (h1.length / 2 + 1) + (h2.length / 2 + 1))

/-- a decidable sufficient condition for "every deciding quorum of `c1` meets every deciding quorum
of `c2`": some half of `c1` and some half of `c2` always meet -/
def adjOk (c1 c2 : Cfg) : Bool :=
  halfMeets c1.incoming c2.incoming || halfMeets c1.incoming c2.outgoing ||
  halfMeets c1.outgoing c2.incoming || halfMeets c1.outgoing c2.outgoing

/-! ### events -/

/-- read-index events (Safe mode): the application issues a request on a node; the leader registers
it with its commit index as read index; nodes confirm heartbeats; the leader answers a remote
requester; a read state is handed to the application -/
inductive REvent where
  | issue (i rid : Nat)
  | start (i rid : Nat)
  | hback (v : Nat)
  | resp (i rid idx : Nat) (cfg : Cfg)
  | rstate (j rid idx : Nat) (cfg : Cfg)
  deriving Repr

inductive Event where
  | read (r : REvent)
  | bump (i t : Nat)
  | campaign (i : Nat)
  | grant (i c : Nat)
  | rdy (i : Nat)
  | persist (i n : Nat)
  | release (i : Nat) (key : OMsg)   -- for `ack` the ghost prefix of the key is ignored
  | crash (i : Nat)
  | restart (i : Nat)
  | win (i : Nat) (cfg : Cfg) (q : List Nat)
  | stepDown (i : Nat)
  | leaderAppend (i : Nat) (e : LEntry)
  | sendApp (i : Nat) (m : App)
  | recvApp (i : Nat) (m : App)
  | ackCommitted (i : Nat)
  | ackSelf (i idx : Nat)
  | commitLeader (i c : Nat) (cfg : Cfg) (q : List Nat)
  | commitApp (i c : Nat) (m : App)
  | commitHB (i c : Nat) (m : HB)
  | commitClaim (i : Nat) (m : Claim)
  | sendHB (i to c : Nat)
  | claim (i idx : Nat)
  | sendSnap (i idx : Nat)
  | installSnap (i t idx sterm : Nat)
  | commitSnap (i t idx sterm : Nat)
  | bootstrap (i donor idx : Nat)   -- a fresh node is started from another node's durable committed prefix
  deriving Repr

def image (n : PNode) : Image :=
  { term := n.term, vote := n.vote, log := n.log, commit := n.commit, acks := n.outbox.filter OMsg.isAck }

/-- may the `k`-th outbox message of `n` be released now?  ("released only after the hard state and
log entries it depends on have been reported persisted") -/
def releasable (n : PNode) : OMsg → Bool
  | .voteReq t c _ _ => decide (t < n.dterm) || (decide (n.dterm = t) && decide (n.dvote = c))
  | .grant t _ c _ => decide (t < n.dterm) || (decide (n.dterm = t) && decide (n.dvote = c))
  | .ack t f idx pre => n.dacks.contains (.ack t f idx pre)

def addReleased (s : PSys) : OMsg → PSys
  | .voteReq t c lt li => { s with reqs := ⟨t, c, lt, li⟩ :: s.reqs }
  | .grant t v c gh => { s with grants := ⟨t, v, c⟩ :: s.grants, rgv := (⟨t, v, c⟩, gh) :: s.rgv }
  | .ack t f idx pre => { s with acks := ⟨t, f, idx, pre⟩ :: s.acks }

def ok (s : PSys) : Except String PSys := .ok s

/-- outbox lookup: same kind and same wire-visible fields -/
def sameKey : OMsg → OMsg → Bool
  | .voteReq t c _ _, .voteReq t' c' _ _ => t == t' && c == c'
  | .grant t v c _, .grant t' v' c' _ => t == t' && v == v' && c == c'
  | .ack t f idx _, .ack t' f' idx' _ => t == t' && f == f' && idx == idx'
  | _, _ => false

/-- who confirmed leadership of `i` in `term` for request `rid`: `i` itself and every node whose
heartbeat confirmation was generated after `rid` was registered -/
def rdQuorum (s : PSys) (cfg : Cfg) (i term rid : Nat) : Bool :=
  cfg.isQuorum (i :: ((s.rd.hbacks.filter (fun h => h.rid = rid ∧ h.term = term)).map (·.frm)))

/-- every leader commit that existed when the request was issued was decided under a configuration
whose quorums meet those of `cfg`, or is of a term not beyond `term` anyway -/
def rdCfgOk (s : PSys) (cfg : Cfg) (term ncm : Nat) : Bool :=
  (s.ccfgs.drop (s.ccfgs.length - ncm)).all (fun p => adjOk p.2 cfg || decide (p.1.1 ≤ term))

/-- the read-index layer: only `s.rd` changes -/
def applyRead (s : PSys) : REvent → Except String RdState
  | .issue i rid =>
    if (s.nodes i).up ∧ ¬ s.rd.issued.any (fun r => r.rid = rid) then
      .ok { s.rd with issued := ⟨rid, i, s.cmts.length, s.acks.length⟩ :: s.rd.issued }
    else .error "read issue: node down or request context not unique"
  | .start i rid =>
    let n := s.nodes i
    if n.up ∧ n.role = 2 ∧ s.rd.issued.any (fun r => r.rid = rid) ∧ 0 < n.commit ∧ termAt n.log n.commit = n.term then
      .ok { s.rd with started := ⟨rid, i, n.term, n.commit⟩ :: s.rd.started }
    else .error "read start: not a leader that has committed an entry of its own term, or unknown request"
  | .hback v =>
    let n := s.nodes v
    if n.up then
      .ok { s.rd with hbacks := ((s.rd.started.filter (fun st => st.term = n.term)).map (fun st => ⟨st.rid, v, n.term⟩)) ++ s.rd.hbacks }
    else .error "read hback: node down"
  | .resp i rid idx cfg =>
    let n := s.nodes i
    match s.rd.issued.find? (fun r => r.rid = rid) with
    | some r =>
      if n.up ∧ n.role = 2 ∧ s.rd.started.contains ⟨rid, i, n.term, idx⟩ ∧ rdQuorum s cfg i n.term rid ∧
          rdCfgOk s cfg n.term r.ncm then
        .ok { s.rd with resps := ⟨rid, r.node, idx⟩ :: s.rd.resps }
      else .error "read resp: not the leader that registered the request with this index, or leadership not confirmed by a quorum since"
    | none => .error "read resp: unknown request"
  | .rstate j rid idx cfg =>
    let n := s.nodes j
    match s.rd.issued.find? (fun r => r.rid = rid) with
    | some r =>
      if n.up ∧ r.node = j ∧ (s.rd.resps.contains ⟨rid, j, idx⟩ ∨
          (n.role = 2 ∧ s.rd.started.contains ⟨rid, j, n.term, idx⟩ ∧ rdQuorum s cfg j n.term rid ∧
            rdCfgOk s cfg n.term r.ncm)) then
        .ok { s.rd with done := ⟨rid, j, idx⟩ :: s.rd.done }
      else .error "read state: not on the node where the request was issued, or neither a released response nor a confirmed local read"
    | none => .error "read state: unknown request"

/-- The step function of P.  `.error why` = the event is not a step of P from this state. -/
def applyEvent (s : PSys) : Event → Except String PSys
  | .read r =>
    match applyRead s r with
    | .ok rd => ok { s with rd := rd }
    | .error x => .error x
  | .bump i t =>
    let n := s.nodes i
    if n.up ∧ n.term < t then
      ok { s with nodes := upd s.nodes i { n with term := t, vote := 0, role := 0 } }
    else .error "bump: node down or term not higher"
  | .campaign i =>
    let n := s.nodes i
    if n.up ∧ n.vote = 0 ∧ n.role ≠ 2 ∧ 0 < i ∧ 0 < n.term then
      -- the self-vote is a grant to oneself: it is counted by `win` only once released (= durable)
      ok { s with nodes := upd s.nodes i { n with vote := i, role := 1, outbox := n.outbox ++ [.voteReq n.term i (lastTerm n.log) n.log.length, .grant n.term i i ⟨n.log, !(s.elected.any (fun p => p.1 = n.term)), lastTerm n.log, n.log.length⟩] } }
    else .error "campaign: node down, already voted in this term, or leader"
  | .grant i c =>
    let n := s.nodes i
    match s.reqs.find? (fun r => r.term = n.term ∧ r.cand = c ∧ upToDate r.lastTerm r.lastIdx n.log) with
    | some r =>
      if n.up ∧ c ≠ i ∧ 0 < c ∧ (n.vote = 0 ∨ n.vote = c) ∧ n.role ≠ 2 then
        ok { s with nodes := upd s.nodes i { n with vote := c, role := 0, outbox := n.outbox ++ [.grant n.term i c ⟨n.log, !(s.elected.any (fun p => p.1 = n.term)), r.lastTerm, r.lastIdx⟩] } }
      else .error "grant: node down, or already voted for another candidate in this term"
    | none => .error "grant: no released up-to-date vote request for this term"
  | .rdy i =>
    let n := s.nodes i
    if n.up then ok { s with nodes := upd s.nodes i { n with pending := n.pending ++ [image n] } }
    else .error "rdy: node down"
  | .persist i k =>
    let n := s.nodes i
    if n.up ∧ 0 < k ∧ k ≤ n.pending.length then
      match n.pending[k - 1]? with
      | some im =>
        ok { s with nodes := upd s.nodes i { n with dterm := im.term, dvote := im.vote, dlog := im.log, dcommit := im.commit, dacks := im.acks, pending := n.pending.drop k } }
      | none => .error "persist: no such pending image"
    else .error "persist: node down or no such pending image"
  | .release i key =>
    let n := s.nodes i
    if key.isAck then
      -- an acknowledgement is released once an image taken after its generation is durable; it stays
      -- known to the node (it is part of what the durable image covers)
      match n.dacks.find? (sameKey key) with
      | some m =>
        if n.up ∧ m.isAck then ok (addReleased s m)
        else .error "release: node down"
      | none => .error "release: this acknowledgement is not covered by the durable image yet"
    else
      match n.outbox.findIdx? (sameKey key) with
      | some k =>
        match n.outbox[k]? with
        | some m =>
          if n.up ∧ releasable n m ∧ !m.isAck then
            ok (addReleased { s with nodes := upd s.nodes i { n with outbox := n.outbox.eraseIdx k } } m)
          else .error "release: the promise this message carries is not durable yet"
        | none => .error "release: no such outbox message"
      | none => .error "release: this message was never generated by the node"
  | .crash i =>
    let n := s.nodes i
    if n.up then
      ok { s with nodes := upd s.nodes i { n with up := false, pending := [], outbox := [], role := 0 } }
    else .error "crash: node already down"
  | .restart i =>
    let n := s.nodes i
    if !n.up then
      ok { s with nodes := upd s.nodes i { n with up := true, term := n.dterm, vote := n.dvote, log := n.dlog, commit := n.dcommit, role := 0, pending := [], outbox := n.dacks.filter OMsg.isAck } }
    else .error "restart: node is up"
  | .win i cfg q =>
    let n := s.nodes i
    if n.up ∧ n.role = 1 ∧ n.vote = i ∧ cfg.isQuorum q ∧ s.grants.contains ⟨n.term, i, i⟩ ∧
        q.all (fun v => s.grants.contains ⟨n.term, v, i⟩) ∧
        -- ghost side of the same quorum: every counted grant was decided before any leader of this
        -- term existed, against the (last term, last index) of the log the winner holds now
        q.all (fun v => s.rgv.any (fun p => p.1 = ⟨n.term, v, i⟩ ∧ p.2.early ∧ p.2.clt = lastTerm n.log ∧ p.2.cli = n.log.length)) ∧
        -- configurations: every election of this term so far was decided under a configuration whose
        -- quorums meet ours; every earlier-term leader commit was decided under such a configuration,
        -- or else the winner's log demonstrably holds the committed prefix
        adjOk cfg cfg ∧
        s.ecfgs.all (fun p => p.1 ≠ n.term ∨ adjOk cfg p.2) ∧
        s.ccfgs.all (fun p => n.term ≤ p.1.1 ∨ adjOk p.2 cfg ∨ n.log.take p.1.2 = (s.llog p.1.1).take p.1.2) then
      ok { s with nodes := upd s.nodes i { n with role := 2 }, llog := updT s.llog n.term n.log, elog := updT s.elog n.term n.log, elected := (n.term, i) :: s.elected, ecfgs := (n.term, cfg) :: s.ecfgs }
    else .error "win: not a candidate with a quorum of released grants (its own durable self-vote included) decided against the log it holds"
  | .stepDown i =>
    let n := s.nodes i
    if n.up then ok { s with nodes := upd s.nodes i { n with role := 0 } }
    else .error "stepDown: node down"
  | .leaderAppend i e =>
    let n := s.nodes i
    if n.up ∧ n.role = 2 ∧ e.term = n.term then
      ok { s with nodes := upd s.nodes i { n with log := n.log ++ [e] }, llog := updT s.llog n.term (n.log ++ [e]) }
    else .error "leaderAppend: not leader, or entry not of the leader's term"
  | .sendApp i m =>
    let n := s.nodes i
    if n.up ∧ n.role = 2 ∧ m.term = n.term ∧ m.frm = i ∧ m.prev ≤ n.log.length ∧
        m.prevTerm = termAt n.log m.prev ∧ m.es = (n.log.drop m.prev).take m.es.length ∧
        m.commit ≤ n.commit then
      ok { s with apps := m :: s.apps }
    else .error "sendApp: not leader, or not a slice of the leader's log anchored in it, or commit above the leader's"
  | .recvApp i m =>
    let n := s.nodes i
    if n.up ∧ s.apps.contains m ∧ m.term = n.term ∧ n.role ≠ 2 ∧ m.prev ≤ n.log.length ∧
        termAt n.log m.prev = m.prevTerm ∧
        (conflictAt n.log m.prev m.es = 0 ∨ n.commit < conflictAt n.log m.prev m.es) then
      let log' := mergeAt n.log m.prev m.es
      let last := m.prev + m.es.length
      ok { s with nodes := upd s.nodes i { n with role := 0, log := log', outbox := n.outbox ++ [.ack n.term i last (log'.take last)] } }
    else .error "recvApp: message not released / wrong term / anchor mismatch / conflict at or below commit"
  | .ackCommitted i =>
    let n := s.nodes i
    if n.up ∧ n.role ≠ 2 ∧ s.apps.any (fun m => m.term = n.term) then
      ok { s with nodes := upd s.nodes i { n with outbox := n.outbox ++ [.ack n.term i n.commit (n.log.take n.commit)] } }
    else .error "ackCommitted: node down, leader, or no append of the current term was ever released"
  | .ackSelf i idx =>
    let n := s.nodes i
    if n.up ∧ n.role = 2 ∧ idx ≤ n.log.length then
      -- the leader's own acknowledgement: generated like a follower's, released once the image that
      -- contains it is durable ("counting the leader itself only for what it has itself persisted")
      ok { s with nodes := upd s.nodes i { n with outbox := n.outbox ++ [.ack n.term i idx (n.log.take idx)] } }
    else .error "ackSelf: not leader or index beyond the log"
  | .commitLeader i c cfg q =>
    let n := s.nodes i
    if n.up ∧ n.role = 2 ∧ n.commit < c ∧ c ≤ n.log.length ∧ termAt n.log c = n.term ∧ cfg.isQuorum q ∧
        q.all (fun v => s.acks.any (fun a => a.term = n.term ∧ a.frm = v ∧ c ≤ a.idx)) ∧
        -- every later-term election so far was decided under a configuration whose quorums meet
        -- ours, or else its leader was demonstrably elected with the prefix committed now
        adjOk cfg cfg ∧
        s.ecfgs.all (fun p => p.1 ≤ n.term ∨ adjOk cfg p.2 ∨ (s.elog p.1).take c = n.log.take c) then
      ok { s with nodes := upd s.nodes i { n with commit := c }, cmts := (n.term, c) :: s.cmts, ccfgs := ((n.term, c), cfg) :: s.ccfgs }
    else .error "commitLeader: not an own-term entry acknowledged (durably) by a quorum"
  | .commitApp i c m =>
    let n := s.nodes i
    if n.up ∧ s.apps.contains m ∧ m.term = n.term ∧ n.commit < c ∧ c ≤ m.commit ∧
        c ≤ m.prev + m.es.length ∧ c ≤ n.log.length ∧
        termAt n.log m.prev = m.prevTerm ∧ conflictAt n.log m.prev m.es = 0 then
      ok { s with nodes := upd s.nodes i { n with commit := c } }
    else .error "commitApp: commit index not covered by a matching released append of this term"
  | .commitHB i c m =>
    let n := s.nodes i
    if n.up ∧ s.hbs.contains m ∧ m.term = n.term ∧ m.to = i ∧ n.commit < c ∧ c ≤ m.commit ∧
        c ≤ n.log.length then
      ok { s with nodes := upd s.nodes i { n with commit := c } }
    else .error "commitHB: commit index not covered by a released heartbeat of this term"
  | .commitClaim i m =>
    let n := s.nodes i
    -- evidence released by a node whose own term is not beyond ours (`m.cterm` of the event is ignored)
    if n.up ∧ s.claims.any (fun c => c.idx = m.idx ∧ c.term = m.term ∧ c.cterm ≤ n.term) ∧ n.commit < m.idx ∧
        m.idx ≤ n.log.length ∧ termAt n.log m.idx = m.term then
      ok { s with nodes := upd s.nodes i { n with commit := m.idx } }
    else .error "commitClaim: no released (index, term) evidence from a term not beyond ours matching the local log"
  | .sendHB i to c =>
    let n := s.nodes i
    if n.up ∧ n.role = 2 ∧ c ≤ n.commit ∧
        (c = 0 ∨ s.acks.any (fun a => a.term = n.term ∧ a.frm = to ∧ c ≤ a.idx)) then
      ok { s with hbs := ⟨n.term, to, c⟩ :: s.hbs }
    else .error "sendHB: advertised commit above the leader's or above what the follower acknowledged"
  | .claim i idx =>
    let n := s.nodes i
    if n.up ∧ idx ≤ n.commit ∧ idx ≤ n.log.length then
      ok { s with claims := ⟨idx, termAt n.log idx, n.term⟩ :: s.claims }
    else .error "claim: advertised commit above the node's own"
  | .sendSnap i idx =>
    let n := s.nodes i
    if n.up ∧ n.role = 2 ∧ idx ≤ n.commit ∧ idx ≤ n.log.length then
      ok { s with snaps := ⟨n.term, idx, termAt n.log idx, n.log.take idx⟩ :: s.snaps }
    else .error "sendSnap: not leader or snapshot beyond the commit index"
  | .installSnap i t idx sterm =>
    let n := s.nodes i
    match s.snaps.find? (fun m => m.term = t ∧ m.idx = idx ∧ m.sterm = sterm) with
    | some m =>
      if n.up ∧ m.term = n.term ∧ n.role ≠ 2 ∧ n.commit ≤ m.idx ∧ m.pre.length = m.idx ∧
          (n.log.length ≤ m.idx ∨ termAt n.log m.idx ≠ m.sterm) then
        ok { s with nodes := upd s.nodes i { n with role := 0, log := m.pre, commit := m.idx, outbox := n.outbox ++ [.ack n.term i m.idx m.pre] } }
      else .error "installSnap: wrong term / leader / snapshot behind the commit index / snapshot matches the local log (it must only advance the commit index, not discard the entries behind it)"
    | none => .error "installSnap: no such released snapshot"
  | .commitSnap i t idx sterm =>
    let n := s.nodes i
    match s.snaps.find? (fun m => m.term = t ∧ m.idx = idx ∧ m.sterm = sterm) with
    | some m =>
      if n.up ∧ m.term = n.term ∧ n.commit < m.idx ∧ m.idx ≤ n.log.length ∧ termAt n.log m.idx = m.sterm then
        ok { s with nodes := upd s.nodes i { n with commit := m.idx } }
      else .error "commitSnap: snapshot (index, term) does not match the local log"
    | none => .error "commitSnap: no such released snapshot"

  | .bootstrap i donor idx =>
    let n := s.nodes i
    let d := s.nodes donor
    if n.term = 0 ∧ n.vote = 0 ∧ n.log = [] ∧ n.commit = 0 ∧ n.dterm = 0 ∧ n.dvote = 0 ∧ n.dlog = [] ∧
        n.dcommit = 0 ∧ n.outbox = [] ∧ n.pending = [] ∧ n.role = 0 ∧ i ≠ donor ∧
        0 < idx ∧ idx ≤ d.dcommit ∧ idx ≤ d.dlog.length ∧ n.dacks = [] then
      let t := d.dterm
      ok { s with nodes := upd s.nodes i { n with up := true, term := t, dterm := t, log := d.dlog.take idx, dlog := d.dlog.take idx, commit := idx, dcommit := idx } }
    else .error "bootstrap: node is not fresh, or the prefix is not durably committed at the donor"

/-- run a list of events -/
def run (s : PSys) : List Event → Except String PSys
  | [] => .ok s
  | e :: es => match applyEvent s e with
    | .ok s' => run s' es
    | .error x => .error x

/-- reachable states of P: every finite history of events accepted by `applyEvent` -/
inductive Reach : PSys → Prop where
  | init : Reach init
  | step {s s' : PSys} (e : Event) : Reach s → applyEvent s e = .ok s' → Reach s'

end RaftModel.P
