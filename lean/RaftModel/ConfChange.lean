import RaftModel.Basic

/-
Executable model of the configuration-change algebra:

* `src/confchange/changer.rs`  — `Changer::{enter_joint, leave_joint, simple, apply, make_voter,
  make_learner, remove, init_progress, check_and_copy}`, `check_invariants`, `IncrChangeMap`;
* `src/confchange/restore.rs`  — `to_conf_change_single`, `restore`;
* `src/confchange.rs`          — `joint`;
* `src/tracker.rs`             — `Configuration`, `Configuration::to_conf_state` (159-168),
  `ProgressTracker::apply_conf` (370-389);
* `proto/src/confchange.rs`    — `ConfChange::into_v2` (84-90), `ConfChangeV2::{enter_joint,
  leave_joint}` (120-146);
* `proto/src/confstate.rs`     — `conf_state_eq`;
* `src/raft.rs:2805-2817`      — the dispatch of `Raft::apply_conf_change` on the classification.

Sets (`HashSet<u64>`, the key set of `ProgressMap`) are duplicate-free lists kept sorted
(`NatSet`); the invariant `Sorted` is a separate lemma (RaftProofs/ConfChange.lean).  Hash
iteration order is not modelled; the only place where it could show — the order of the `Remove`
entries pushed by `leave_joint` and the order of the lists of `to_conf_state` — is irrelevant for
every observable (the removes concern distinct ids; `ConfState`s are compared as sets).

The `Changer` borrows the tracker immutably and returns `Result<(Configuration, MapChange)>`:
the model functions take the `Tracker` and return `Except ErrKind (Configuration × MapChange)`,
so a rejected change returns nothing and cannot have touched the tracker.

NOT modelled: the contents of a `Progress` (`matched`, `next_idx`, `state`, `ins`, `recent_active`,
… — `apply_conf` creates `Progress::new(next_idx, max_inflight)` with `recent_active = true` for
every `Add`); only the *key set* of the `ProgressMap` is.  Unlike etcd, raft-rs's `Progress` has no
`is_learner` flag: `init_progress(.., is_learner)` only chooses the set (`voters.incoming` or
`learners`) the id is put in, so "the learner flag of a tracked peer" is membership in
`conf.learners`.  Also not modelled: `votes`, `max_inflight`, `group_commit` of the tracker, the
error message texts (mapped to `ErrKind`), `ConfChange.id`.
-/
namespace RaftModel

/-- a set of ids: a strictly increasing list -/
abbrev NatSet := List Nat

namespace NatSet

/-- sorted insertion; no-op when present (`HashSet::insert`) -/
def insert (x : Nat) : NatSet → NatSet
  | [] => [x]
  | y :: ys => if x < y then x :: y :: ys else if x = y then y :: ys else y :: insert x ys

/-- `HashSet::remove` -/
def erase (x : Nat) (s : NatSet) : NatSet := s.filter (fun y => y != x)

/-- `iter().collect()` into a set -/
def ofList (l : List Nat) : NatSet := l.foldl (fun s x => insert x s) []

/-- `extend` -/
def union (a b : NatSet) : NatSet := b.foldl (fun s x => insert x s) a

/-- `symmetric_difference(..).count()` -/
def symmDiffCount (a b : NatSet) : Nat :=
  (a.filter (fun x => !decide (x ∈ b))).length + (b.filter (fun x => !decide (x ∈ a))).length

end NatSet

/-- `eraftpb::ConfChangeType` -/
inductive ConfChangeType where
  | addNode        -- 0
  | removeNode     -- 1
  | addLearnerNode -- 2
  deriving Repr, DecidableEq, Inhabited

/-- `eraftpb::ConfChangeTransition` -/
inductive ConfChangeTransition where
  | auto      -- 0
  | implicit  -- 1
  | explicit  -- 2
  deriving Repr, DecidableEq, Inhabited

structure ConfChangeSingle where
  ctype : ConfChangeType := .addNode
  nodeId : Nat := 0
  deriving Repr, DecidableEq, Inhabited

structure ConfChangeV2 where
  transition : ConfChangeTransition := .auto
  changes : List ConfChangeSingle := []
  context : Bytes := []
  deriving Repr, DecidableEq, Inhabited

/-- legacy `eraftpb::ConfChange` -/
structure ConfChange where
  id : Nat := 0
  ctype : ConfChangeType := .addNode
  nodeId : Nat := 0
  context : Bytes := []
  deriving Repr, DecidableEq, Inhabited

/-- `ConfChangeI for ConfChange :: into_v2` (proto/src/confchange.rs:84-90) -/
def ConfChange.intoV2 (c : ConfChange) : ConfChangeV2 :=
  { transition := .auto, changes := [{ ctype := c.ctype, nodeId := c.nodeId }], context := c.context }

/-- `ConfChangeV2::enter_joint` (proto/src/confchange.rs:120-137): `some autoLeave` iff the change
uses joint consensus -/
def ConfChangeV2.enterJoint (cc : ConfChangeV2) : Option Bool :=
  if cc.transition ≠ .auto || decide (cc.changes.length > 1) then
    match cc.transition with
    | .auto | .implicit => some true
    | .explicit => some false
  else none

/-- `ConfChangeV2::leave_joint` (proto/src/confchange.rs:143-145) -/
def ConfChangeV2.leaveJoint (cc : ConfChangeV2) : Bool :=
  cc.transition == .auto && cc.changes.isEmpty

/-- `tracker::Configuration` (src/tracker.rs:34-91); `voters : JointConfig` is the pair
`incoming`, `outgoing` -/
structure Configuration where
  incoming : NatSet := []
  outgoing : NatSet := []
  learners : NatSet := []
  learnersNext : NatSet := []
  autoLeave : Bool := false
  deriving Repr, DecidableEq, Inhabited

/-- the part of `ProgressTracker` the changer reads and `apply_conf` writes: the configuration and
the key set of the progress map -/
structure Tracker where
  conf : Configuration := {}
  progress : NatSet := []
  deriving Repr, DecidableEq, Inhabited

/-- `ProgressTracker::new(_)`: empty configuration, no progress -/
def Tracker.empty : Tracker := {}

inductive MapChangeType where
  | add
  | remove
  deriving Repr, DecidableEq, Inhabited

/-- `MapChange = Vec<(u64, MapChangeType)>` -/
abbrev MapChange := List (Nat × MapChangeType)

/-- the `Error::ConfChangeError(msg)` messages of changer.rs, as an enum -/
inductive ErrKind where
  | alreadyJoint    -- "config is already joint"
  | zeroVoterJoint  -- "can't make a zero-voter config joint"
  | notJoint        -- "can't leave a non-joint config"
  | notJointCopy    -- "configuration is not joint: …" (second test in leave_joint)
  | simpleInJoint   -- "can't apply simple config change in joint config"
  | multiVoter      -- "more than one voter changed without entering joint config"
  | removedAll      -- "removed all voters"
  | invariant       -- any failure of `check_invariants`
  deriving Repr, DecidableEq, Inhabited

/-- `IncrChangeMap` (changer.rs:18-35): pending updates on top of the tracker's progress map -/
structure IncrChangeMap where
  changes : MapChange := []
  base : NatSet := []
  deriving Repr, DecidableEq, Inhabited

/-- `IncrChangeMap::contains` (changer.rs:28-34): the *last* change for `id` decides -/
def IncrChangeMap.contains (m : IncrChangeMap) (id : Nat) : Bool :=
  match m.changes.reverse.find? (fun c => c.1 == id) with
  | some (_, .remove) => false
  | some (_, .add) => true
  | none => decide (id ∈ m.base)

def IncrChangeMap.push (m : IncrChangeMap) (id : Nat) (ty : MapChangeType) : IncrChangeMap :=
  { m with changes := m.changes ++ [(id, ty)] }

/-- `confchange::joint` (src/confchange.rs:13-15) -/
def joint (cfg : Configuration) : Bool := !cfg.outgoing.isEmpty

/-- `check_invariants` (changer.rs:281-350) as a boolean; every failure is `ErrKind.invariant` -/
def checkInvariantsB (cfg : Configuration) (prs : IncrChangeMap) : Bool :=
  -- for id in cfg.voters().ids(): progress present
  cfg.incoming.all (fun id => prs.contains id) &&
  cfg.outgoing.all (fun id => prs.contains id) &&
  -- for id in &cfg.learners: progress present, not a voter in either half
  cfg.learners.all (fun id =>
    prs.contains id && !decide (id ∈ cfg.outgoing) && !decide (id ∈ cfg.incoming)) &&
  -- for id in &cfg.learners_next: progress present, is an outgoing voter
  cfg.learnersNext.all (fun id => prs.contains id && decide (id ∈ cfg.outgoing)) &&
  -- if !joint(cfg): learners_next empty, auto_leave false
  (joint cfg || (cfg.learnersNext.isEmpty && !cfg.autoLeave))

def checkInvariants (cfg : Configuration) (prs : IncrChangeMap) : Except ErrKind Unit :=
  if checkInvariantsB cfg prs then .ok () else .error .invariant

/-- `Changer::check_and_copy` (changer.rs:268-275) -/
def checkAndCopy (t : Tracker) : Except ErrKind (Configuration × IncrChangeMap) :=
  let prs : IncrChangeMap := { changes := [], base := t.progress }
  match checkInvariants t.conf prs with
  | .error e => .error e
  | .ok () => .ok (t.conf, prs)

/-- `Changer::init_progress` (changer.rs:249-262) -/
def initProgress (cfg : Configuration) (prs : IncrChangeMap) (id : Nat) (isLearner : Bool) :
    Configuration × IncrChangeMap :=
  let cfg := if !isLearner then { cfg with incoming := NatSet.insert id cfg.incoming }
             else { cfg with learners := NatSet.insert id cfg.learners }
  (cfg, prs.push id .add)

/-- `Changer::make_voter` (changer.rs:180-189) -/
def makeVoter (cfg : Configuration) (prs : IncrChangeMap) (id : Nat) :
    Configuration × IncrChangeMap :=
  if !prs.contains id then initProgress cfg prs id false
  else
    ({ cfg with incoming := NatSet.insert id cfg.incoming,
                learners := NatSet.erase id cfg.learners,
                learnersNext := NatSet.erase id cfg.learnersNext }, prs)

/-- `Changer::make_learner` (changer.rs:203-229) -/
def makeLearner (cfg : Configuration) (prs : IncrChangeMap) (id : Nat) :
    Configuration × IncrChangeMap :=
  if !prs.contains id then initProgress cfg prs id true
  else if decide (id ∈ cfg.learners) then (cfg, prs)
  else
    let cfg := { cfg with incoming := NatSet.erase id cfg.incoming,
                          learners := NatSet.erase id cfg.learners,
                          learnersNext := NatSet.erase id cfg.learnersNext }
    if decide (id ∈ cfg.outgoing) then
      ({ cfg with learnersNext := NatSet.insert id cfg.learnersNext }, prs)
    else
      ({ cfg with learners := NatSet.insert id cfg.learners }, prs)

/-- `Changer::remove` (changer.rs:232-246) -/
def removeNode (cfg : Configuration) (prs : IncrChangeMap) (id : Nat) :
    Configuration × IncrChangeMap :=
  if !prs.contains id then (cfg, prs)
  else
    let cfg := { cfg with incoming := NatSet.erase id cfg.incoming,
                          learners := NatSet.erase id cfg.learners,
                          learnersNext := NatSet.erase id cfg.learnersNext }
    if !decide (id ∈ cfg.outgoing) then (cfg, prs.push id .remove) else (cfg, prs)

/-- one iteration of the loop of `Changer::apply` (changer.rs:160-172); node id 0 is skipped -/
def applyOne (st : Configuration × IncrChangeMap) (cc : ConfChangeSingle) :
    Configuration × IncrChangeMap :=
  if cc.nodeId = 0 then st
  else match cc.ctype with
    | .addNode => makeVoter st.1 st.2 cc.nodeId
    | .addLearnerNode => makeLearner st.1 st.2 cc.nodeId
    | .removeNode => removeNode st.1 st.2 cc.nodeId

/-- `Changer::apply` (changer.rs:154-177) -/
def applyAll (cfg : Configuration) (prs : IncrChangeMap) (ccs : List ConfChangeSingle) :
    Except ErrKind (Configuration × IncrChangeMap) :=
  let st := ccs.foldl applyOne (cfg, prs)
  if st.1.incoming.isEmpty then .error .removedAll else .ok st

/-- `Changer::simple` (changer.rs:128-149) -/
def simple (t : Tracker) (ccs : List ConfChangeSingle) : Except ErrKind (Configuration × MapChange) :=
  if joint t.conf then .error .simpleInJoint
  else match checkAndCopy t with
    | .error e => .error e
    | .ok (cfg, prs) =>
      match applyAll cfg prs ccs with
      | .error e => .error e
      | .ok (cfg, prs) =>
        if NatSet.symmDiffCount cfg.incoming t.conf.incoming > 1 then .error .multiVoter
        else match checkInvariants cfg prs with
          | .error e => .error e
          | .ok () => .ok (cfg, prs.changes)

/-- `Changer::enter_joint` (changer.rs:68-90) -/
def enterJoint (t : Tracker) (autoLeave : Bool) (ccs : List ConfChangeSingle) :
    Except ErrKind (Configuration × MapChange) :=
  if joint t.conf then .error .alreadyJoint
  else match checkAndCopy t with
    | .error e => .error e
    | .ok (cfg, prs) =>
      if cfg.incoming.isEmpty then .error .zeroVoterJoint
      else
        -- cfg.voters.outgoing.extend(cfg.voters.incoming)
        let cfg := { cfg with outgoing := NatSet.union cfg.outgoing cfg.incoming }
        match applyAll cfg prs ccs with
        | .error e => .error e
        | .ok (cfg, prs) =>
          let cfg := { cfg with autoLeave := autoLeave }
          match checkInvariants cfg prs with
          | .error e => .error e
          | .ok () => .ok (cfg, prs.changes)

/-- the `for id in &*cfg.voters.outgoing` loop of `leave_joint` (changer.rs:117-121) -/
def leaveRemovals (cfg : Configuration) (prs : IncrChangeMap) : IncrChangeMap :=
  cfg.outgoing.foldl (fun prs id =>
    if !decide (id ∈ cfg.incoming) && !decide (id ∈ cfg.learners) then prs.push id .remove else prs) prs

/-- `Changer::leave_joint` (changer.rs:104-127) -/
def leaveJoint (t : Tracker) : Except ErrKind (Configuration × MapChange) :=
  if !joint t.conf then .error .notJoint
  else match checkAndCopy t with
    | .error e => .error e
    | .ok (cfg, prs) =>
      if cfg.outgoing.isEmpty then .error .notJointCopy
      else
        -- cfg.learners.extend(cfg.learners_next.drain())
        let cfg := { cfg with learners := NatSet.union cfg.learners cfg.learnersNext, learnersNext := [] }
        let prs := leaveRemovals cfg prs
        let cfg := { cfg with outgoing := [], autoLeave := false }
        match checkInvariants cfg prs with
        | .error e => .error e
        | .ok () => .ok (cfg, prs.changes)

/-- the effect of a change list on a key set (the loop of `apply_conf`) -/
def applyChanges (p : NatSet) (changes : MapChange) : NatSet :=
  changes.foldl (fun p c => match c.2 with
    | .add => NatSet.insert c.1 p
    | .remove => NatSet.erase c.1 p) p

/-- `ProgressTracker::apply_conf` (src/tracker.rs:370-389) -/
def Tracker.applyConf (t : Tracker) (cfg : Configuration) (changes : MapChange) : Tracker :=
  { conf := cfg, progress := applyChanges t.progress changes }

/-- `Configuration::to_conf_state` (src/tracker.rs:159-168); the Rust lists come in hash order, the
model's sorted -/
def Configuration.toConfState (c : Configuration) : ConfState :=
  { voters := c.incoming, votersOutgoing := c.outgoing, learners := c.learners,
    learnersNext := c.learnersNext, autoLeave := c.autoLeave }

/-- `eq_without_order` (proto/src/confstate.rs:5-17) -/
def eqWithoutOrder (l r : List Nat) : Bool :=
  l.all (fun x => decide (x ∈ r)) && r.all (fun x => decide (x ∈ l))

/-- `conf_state_eq` (proto/src/confstate.rs:21-40) -/
def confStateEq (l r : ConfState) : Bool :=
  if l.voters = r.voters ∧ l.learners = r.learners ∧ l.votersOutgoing = r.votersOutgoing ∧
     l.learnersNext = r.learnersNext ∧ l.autoLeave = r.autoLeave then true
  else
    eqWithoutOrder l.voters r.voters && eqWithoutOrder l.learners r.learners &&
    eqWithoutOrder l.votersOutgoing r.votersOutgoing &&
    eqWithoutOrder l.learnersNext r.learnersNext && (l.autoLeave == r.autoLeave)

/-- `to_conf_change_single` (restore.rs:14-84): `(outgoing, incoming)` -/
def toConfChangeSingle (cs : ConfState) : List ConfChangeSingle × List ConfChangeSingle :=
  let outgoing := cs.votersOutgoing.map (fun id => ({ ctype := .addNode, nodeId := id } : ConfChangeSingle))
  let incoming :=
    cs.votersOutgoing.map (fun id => ({ ctype := .removeNode, nodeId := id } : ConfChangeSingle)) ++
    cs.voters.map (fun id => ({ ctype := .addNode, nodeId := id } : ConfChangeSingle)) ++
    cs.learners.map (fun id => ({ ctype := .addLearnerNode, nodeId := id } : ConfChangeSingle)) ++
    cs.learnersNext.map (fun id => ({ ctype := .addLearnerNode, nodeId := id } : ConfChangeSingle))
  (outgoing, incoming)

/-- the two `for … { simple(&[cc])?; apply_conf }` loops of `restore` (restore.rs:93-96, 98-101) -/
def restoreLoop (t : Tracker) : List ConfChangeSingle → Except ErrKind Tracker
  | [] => .ok t
  | cc :: rest =>
    match simple t [cc] with
    | .error e => .error e
    | .ok (cfg, changes) => restoreLoop (t.applyConf cfg changes) rest

/-- `confchange::restore` (restore.rs:90-107).  The Rust function mutates the tracker step by step
and stops at the first error (its only caller treats an error as fatal); the model returns the
final tracker or the error. -/
def restore (t : Tracker) (cs : ConfState) : Except ErrKind Tracker :=
  let (outgoing, incoming) := toConfChangeSingle cs
  if outgoing.isEmpty then restoreLoop t incoming
  else match restoreLoop t outgoing with
    | .error e => .error e
    | .ok t =>
      match enterJoint t cs.autoLeave incoming with
      | .error e => .error e
      | .ok (cfg, changes) => .ok (t.applyConf cfg changes)

/-- how `Raft::apply_conf_change` (src/raft.rs:2805-2813) picks the changer method -/
inductive ChangeKind where
  | leave
  | enter (autoLeave : Bool)
  | simple
  deriving Repr, DecidableEq, Inhabited

def ConfChangeV2.classify (cc : ConfChangeV2) : ChangeKind :=
  if cc.leaveJoint then .leave
  else match cc.enterJoint with
    | some al => .enter al
    | none => .simple

/-- the changer part of `Raft::apply_conf_change` (src/raft.rs:2805-2815) -/
def applyConfChangeV2 (t : Tracker) (cc : ConfChangeV2) : Except ErrKind Tracker :=
  let r := match cc.classify with
    | .leave => leaveJoint t
    | .enter al => enterJoint t al cc.changes
    | .simple => simple t cc.changes
  match r with
  | .error e => .error e
  | .ok (cfg, changes) => .ok (t.applyConf cfg changes)

end RaftModel
