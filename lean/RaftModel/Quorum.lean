import RaftModel.Basic
import RaftModel.Storage

/-
Executable model of the quorum arithmetic: `src/util.rs:117 majority`, `src/quorum.rs` (`Index`,
`VoteResult`, `AckedIndexer`), `src/quorum/majority.rs` (`committed_index` 70-124, `vote_result`
130-154), `src/quorum/joint.rs` (`committed_index` 47-51, `vote_result` 56-68, `contains` 89) and
the tracker-level wrappers `src/tracker.rs` (`maximal_committed_index` 284, `tally_votes` 303,
`vote_result` 328, `has_quorum` 357).

A `HashSet<u64>` of voters is a `List Nat` in ARBITRARY order (hash iteration order is not
modelled; `RaftProps.C11.committedIndex_perm` proves the order is irrelevant).  An `AckedIndexer` is a
function `Nat → Option Index`.

Not modelled: memory safety of the `MaybeUninit` stack buffer (majority.rs:77-85); the model is
the same function on lists, both the ≤7-voter and the >7-voter path are driven by the tie.
-/
namespace RaftModel

/-- `quorum::Index` (quorum.rs:37): a log position plus the commit group of the peer -/
structure Index where
  index : Nat := 0
  groupId : Nat := 0
  deriving Repr, DecidableEq, Inhabited

/-- `quorum::VoteResult` (quorum.rs:12) -/
inductive VoteResult where
  | pending | lost | won
  deriving Repr, DecidableEq, Inhabited

/-- `util::majority` (util.rs:117) -/
def majority (total : Nat) : Nat := total / 2 + 1

namespace Majority

/-- one step of the stable descending sort: `x` (which came *earlier* in the slice than everything
in the already sorted tail) goes in front of the first element that is not larger -/
def insertDesc (x : Index) : List Index → List Index
  | [] => [x]
  | y :: ys => if y.index ≤ x.index then x :: y :: ys else y :: insertDesc x ys

/-- `matched.sort_by(|a, b| b.index.cmp(&a.index))` (majority.rs:95): stable, descending by index
only (the group id does not take part in the comparison) -/
def sortDesc : List Index → List Index
  | [] => []
  | x :: xs => insertDesc x (sortDesc xs)

/-- `l.acked_index(*v).unwrap_or_default()` for every voter, in iteration order
(majority.rs:80/87) -/
def acks (voters : List Nat) (ack : Nat → Option Index) : List Index :=
  voters.map (fun v => (ack v).getD default)

/-- the group-commit scan, majority.rs:102-123 verbatim: `checked` is `checked_group_id`, `single`
is `single_group`; `lastIdx` is `matched.last().unwrap().index` -/
def gcScan (qci lastIdx : Nat) : Nat → Bool → List Index → Nat × Bool
  | _, single, [] => if single then (qci, false) else (lastIdx, false)
  | checked, single, m :: ms =>
    if m.groupId = 0 then gcScan qci lastIdx checked false ms
    else if checked = 0 then gcScan qci lastIdx m.groupId single ms
    else if checked = m.groupId then gcScan qci lastIdx checked single ms
    else (min m.index qci, true)

/-- `MajorityConfig::committed_index` (majority.rs:70-124) with its two index/unwrap sites explicit -/
def committedIndexR (voters : List Nat) (ack : Nat → Option Index) (useGroupCommit : Bool) :
    Res (Nat × Bool) :=
  if voters.isEmpty then .ok (U64_MAX, true)
  else
    let matched := sortDesc (acks voters ack)
    let quorum := majority matched.length
    match matched[quorum - 1]? with
    | none => .panic "quorum.majority.committed_index.index"
    | some qi =>
      if !useGroupCommit then .ok (qi.index, false)
      else match matched.getLast? with
        | none => .panic "quorum.majority.committed_index.last"
        | some last => .ok (gcScan qi.index last.index qi.groupId true matched)

/-- the same function as a total one (`RaftProps.C11.committedIndex_never_panics` shows the two
fall-back branches are unreachable for every input) -/
def committedIndex (voters : List Nat) (ack : Nat → Option Index) (useGroupCommit : Bool) :
    Nat × Bool :=
  if voters.isEmpty then (U64_MAX, true)
  else
    let matched := sortDesc (acks voters ack)
    let quorum := majority matched.length
    match matched[quorum - 1]? with
    | none => (0, false)
    | some qi =>
      if !useGroupCommit then (qi.index, false)
      else match matched.getLast? with
        | none => (0, false)
        | some last => gcScan qi.index last.index qi.groupId true matched

/-- the counting loop of `vote_result` (majority.rs:139-146): `(yes, missing)` -/
def voteCount (check : Nat → Option Bool) : List Nat → Nat × Nat → Nat × Nat
  | [], acc => acc
  | v :: vs, (yes, missing) =>
    match check v with
    | some true => voteCount check vs (yes + 1, missing)
    | none => voteCount check vs (yes, missing + 1)
    | some false => voteCount check vs (yes, missing)

/-- `MajorityConfig::vote_result` (majority.rs:130-154) -/
def voteResult (voters : List Nat) (check : Nat → Option Bool) : VoteResult :=
  if voters.isEmpty then .won
  else
    let (yes, missing) := voteCount check voters (0, 0)
    let q := majority voters.length
    if q ≤ yes then .won
    else if q ≤ yes + missing then .pending
    else .lost

end Majority

/-- `quorum::joint::Configuration` (joint.rs:12) -/
structure JointConfig where
  incoming : List Nat := []
  outgoing : List Nat := []
  deriving Repr, DecidableEq, Inhabited

namespace Joint

/-- `JointConfig::committed_index` (joint.rs:47-51) -/
def committedIndex (c : JointConfig) (ack : Nat → Option Index) (useGroupCommit : Bool) :
    Nat × Bool :=
  let (iIdx, iGc) := Majority.committedIndex c.incoming ack useGroupCommit
  let (oIdx, oGc) := Majority.committedIndex c.outgoing ack useGroupCommit
  (min iIdx oIdx, iGc && oGc)

/-- the panic-explicit variant used by the driver -/
def committedIndexR (c : JointConfig) (ack : Nat → Option Index) (useGroupCommit : Bool) :
    Res (Nat × Bool) :=
  match Majority.committedIndexR c.incoming ack useGroupCommit,
        Majority.committedIndexR c.outgoing ack useGroupCommit with
  | .ok (iIdx, iGc), .ok (oIdx, oGc) => .ok (min iIdx oIdx, iGc && oGc)
  | .panic s, _ => .panic s
  | _, .panic s => .panic s
  | _, _ => .panic "unreachable"

/-- `JointConfig::vote_result` (joint.rs:56-68) -/
def voteResult (c : JointConfig) (check : Nat → Option Bool) : VoteResult :=
  match Majority.voteResult c.incoming check, Majority.voteResult c.outgoing check with
  | .won, .won => .won
  | .lost, _ => .lost
  | _, .lost => .lost
  | _, _ => .pending

/-- `JointConfig::contains` (joint.rs:89) -/
def contains (c : JointConfig) (id : Nat) : Bool :=
  c.incoming.contains id || c.outgoing.contains id

end Joint

/- the tracker-level wrappers: the `ProgressMap` is an association list `id ↦ (matched,
commit_group_id)` (tracker.rs:178-185), `votes` an association list `id ↦ bool` -/
namespace Tracker

/-- `impl AckedIndexer for ProgressMap` (tracker.rs:178) -/
def ackOf (progress : List (Nat × Index)) : Nat → Option Index := fun id => progress.lookup id

/-- `ProgressTracker::maximal_committed_index` (tracker.rs:284) -/
def maximalCommittedIndex (c : JointConfig) (progress : List (Nat × Index)) (groupCommit : Bool) :
    Nat × Bool :=
  Joint.committedIndex c (ackOf progress) groupCommit

/-- `ProgressTracker::vote_result` (tracker.rs:328) -/
def voteResult (c : JointConfig) (votes : List (Nat × Bool)) : VoteResult :=
  Joint.voteResult c (fun id => votes.lookup id)

/-- `ProgressTracker::tally_votes` (tracker.rs:303-321): `(granted, rejected, result)`; votes of ids
outside the configuration are not counted -/
def tallyVotes (c : JointConfig) (votes : List (Nat × Bool)) : Nat × Nat × VoteResult :=
  let granted := votes.countP (fun p => Joint.contains c p.1 && p.2)
  let rejected := votes.countP (fun p => Joint.contains c p.1 && !p.2)
  (granted, rejected, voteResult c votes)

/-- `ProgressTracker::has_quorum` (tracker.rs:357) -/
def hasQuorum (c : JointConfig) (potentialQuorum : List Nat) : Bool :=
  Joint.voteResult c (fun id => if potentialQuorum.contains id then some true else none) == .won

end Tracker

end RaftModel
