import RaftModel.NodeOps

/-
`ClusterSem`: a cluster built from the executable node model.

Every node is a `Node.NState` (the model of `Raft<MemStorage>` of RaftCore/RaftStep plus the emulated
application's memory) and moves only through `Node.call` — the very function the free-running
correspondence `rvh raftnode` ties to `/repo` call by call.  Around the nodes there is what the library
leaves to its user:

* a **transport**: `net` is the set of all messages any node has handed over so far; it only grows, and
  a `deliver` step may pick *any* element *any* number of times for the node it is addressed to — which
  is loss, duplication, delay, reordering and partitions at once;
* an **application** per node that calls the node's entry points in any order with any arguments
  (`call`: tick, propose, campaign, read_index, transfer_leader, conf-change proposals, reports,
  persistence and apply steps, compaction, run-time knobs …) but offers to `RawNode::step` only messages
  taken from the transport (`deliver`), and hands the node's message queue to the transport (`send`)
  only when the node's current term and vote are in its storage (persist-before-send; the hard state is
  written by the `stabilize` step of the emulated application, synchronous persistence);
* **crashes**: `restart` may stop a node at any point and rebuild it with `RawNode::new` from *its own
  storage as it is then* (so whatever was not yet written there is lost) under any `Config` naming the
  same id.

Not in `ClusterSem` (stated, not hidden): asynchronous persistence (`advance_append_async`, where the
storage the node reads is ahead of what survives a crash) and the split of a Ready's messages into
immediate and persisted ones — those are the subject of the RawNode model (C06b / C07) and of the
cluster simulator's trace validation against P.
-/
namespace RaftModel
namespace Cluster
open Node

/-- the cluster: running nodes by id (an association list, every id at most once) and the transport -/
structure Sys where
  nodes : List (Nat × NState)
  net : List Message

namespace Sys

def node (s : Sys) (i : Nat) : Option NState := s.nodes.lookup i

/-- replace (or add) node `i` -/
def setNode (s : Sys) (i : Nat) (st : NState) : Sys :=
  { s with nodes := (i, st) :: s.nodes.filter (fun p => p.1 != i) }

end Sys

/-- calls that are not the application's to make freely: `step` is only offered messages of the transport
(`deliver`), `Raft::step` is not part of the `RawNode` API, and the queue is only emptied by `send` -/
def appOp : NodeOp → Bool
  | .step _ | .rstep _ | .drain => false
  | _ => true

/-- the node's term and vote are in its storage (what `stabilize` writes) -/
def hsPersisted (st : NState) : Prop :=
  st.raft.raftLog.store.hardState.term = st.raft.term ∧
  st.raft.raftLog.store.hardState.vote = st.raft.vote

/-- one step of the cluster -/
inductive Step : Sys → Sys → Prop where
  /-- the application of node `i` makes a call -/
  | call (s : Sys) (i : Nat) (st st' : NState) (rnd : Option Nat) (op : NodeOp) (res : OpRes) :
      s.node i = some st → appOp op = true → Node.call st rnd op = .ok (res, st') →
      Step s (s.setNode i st')
  /-- the transport delivers a message it was given (any one, any number of times) -/
  | deliver (s : Sys) (i : Nat) (st st' : NState) (rnd : Option Nat) (m : Message) (res : OpRes) :
      s.node i = some st → m ∈ s.net → m.to = i → Node.call st rnd (.step m) = .ok (res, st') →
      Step s (s.setNode i st')
  /-- the application hands the node's message queue to the transport — only with term and vote
  persisted — and clears it (and takes the read states) -/
  | send (s : Sys) (i : Nat) (st st' : NState) :
      s.node i = some st → hsPersisted st → Node.call st none .drain = .ok (.ok, st') →
      Step s { (s.setNode i st') with net := s.net ++ st.raft.msgs }
  /-- crash and restart from the node's own storage -/
  | restart (s : Sys) (i : Nat) (st st' : NState) (c : Config) (rnd : Option Nat) :
      s.node i = some st → c.id = i → Node.boot c st.raft.raftLog.store rnd = .ok (.ok st') →
      Step s (s.setNode i st')

/-- initial states: nobody has sent anything; every node was just built by `RawNode::new` from some
storage (any stored hard state, log, snapshot, configuration) under a `Config` with its id -/
def Init (s : Sys) : Prop :=
  s.net = [] ∧
  (∀ i st, s.node i = some st → ∃ c store rnd, c.id = i ∧ Node.boot c store rnd = .ok (.ok st))

/-- every node's voter configuration (both halves of the joint configuration) is `cfg` -/
def FixedCfg (cfg : JointConfig) (s : Sys) : Prop :=
  ∀ i st, s.node i = some st → st.raft.prs.voters = cfg

/-- histories: a list of states, oldest first, each a step from its predecessor -/
inductive History : List Sys → Prop where
  | init (s : Sys) : Init s → History [s]
  | step (h : List Sys) (s s' : Sys) : History (h ++ [s]) → Step s s' → History (h ++ [s, s'])

/-- node `i` is in the leader role for term `t` in state `s` -/
def leads (s : Sys) (i t : Nat) : Prop :=
  ∃ st, s.node i = some st ∧ st.raft.state = .leader ∧ st.raft.term = t

end Cluster
end RaftModel
