import RaftModel.Basic
import RaftModel.Storage
import RaftModel.Unstable
import RaftModel.ConfChange

/-
Shared types of the node model: `eraftpb::Message` (the 16 protobuf fields of
proto/proto/eraftpb.proto:71-98), `MessageType`, `StateRole` (raft.rs:60), `ReadState`
(read_only.rs:46), the message-type tables of raw_node.rs:62-83 and raft.rs:311, `new_message`
(raft.rs:292), `get_priority` (raft.rs:302), and a byte-level decoder for the protobuf encoding of
`ConfChange` / `ConfChangeV2` (what `merge_from_bytes` of rust-protobuf 2.28 accepts, used by the
proposal filter raft.rs:2111-2128).
-/
namespace RaftModel

/-- `eraftpb::MessageType` -/
inductive MsgType where
  | msgHup | msgBeat | msgPropose | msgAppend | msgAppendResponse | msgRequestVote
  | msgRequestVoteResponse | msgSnapshot | msgHeartbeat | msgHeartbeatResponse
  | msgUnreachable | msgSnapStatus | msgCheckQuorum | msgTransferLeader | msgTimeoutNow
  | msgReadIndex | msgReadIndexResp | msgRequestPreVote | msgRequestPreVoteResponse
  deriving Repr, DecidableEq, Inhabited

namespace MsgType

def toNat : MsgType → Nat
  | msgHup => 0 | msgBeat => 1 | msgPropose => 2 | msgAppend => 3 | msgAppendResponse => 4
  | msgRequestVote => 5 | msgRequestVoteResponse => 6 | msgSnapshot => 7 | msgHeartbeat => 8
  | msgHeartbeatResponse => 9 | msgUnreachable => 10 | msgSnapStatus => 11 | msgCheckQuorum => 12
  | msgTransferLeader => 13 | msgTimeoutNow => 14 | msgReadIndex => 15 | msgReadIndexResp => 16
  | msgRequestPreVote => 17 | msgRequestPreVoteResponse => 18

def ofNat? : Nat → Option MsgType
  | 0 => some msgHup | 1 => some msgBeat | 2 => some msgPropose | 3 => some msgAppend
  | 4 => some msgAppendResponse | 5 => some msgRequestVote | 6 => some msgRequestVoteResponse
  | 7 => some msgSnapshot | 8 => some msgHeartbeat | 9 => some msgHeartbeatResponse
  | 10 => some msgUnreachable | 11 => some msgSnapStatus | 12 => some msgCheckQuorum
  | 13 => some msgTransferLeader | 14 => some msgTimeoutNow | 15 => some msgReadIndex
  | 16 => some msgReadIndexResp | 17 => some msgRequestPreVote
  | 18 => some msgRequestPreVoteResponse | _ => none

end MsgType

/-- `eraftpb::Message`.  `snapshot` is a `SingularPtrField`; the code only uses `get_snapshot` /
`take_snapshot`, for which "unset" and "default" are the same. -/
structure Message where
  msgType : MsgType := .msgHup
  to : Nat := 0
  frm : Nat := 0
  term : Nat := 0
  logTerm : Nat := 0
  index : Nat := 0
  entries : List Entry := []
  commit : Nat := 0
  commitTerm : Nat := 0
  snapshot : Snapshot := {}
  requestSnapshot : Nat := 0
  reject : Bool := false
  rejectHint : Nat := 0
  context : Bytes := []
  deprecatedPriority : Nat := 0
  priority : Int := 0
  deriving Repr, DecidableEq, Inhabited

/-- raft.rs:60 -/
inductive StateRole where
  | follower | candidate | leader | preCandidate
  deriving Repr, DecidableEq, Inhabited

def StateRole.toNat : StateRole → Nat
  | .follower => 0 | .candidate => 1 | .leader => 2 | .preCandidate => 3

/-- read_only.rs:27 -/
inductive ReadOnlyOption where
  | safe | leaseBased
  deriving Repr, DecidableEq, Inhabited

/-- read_only.rs:46 -/
structure ReadState where
  index : Nat := 0
  requestCtx : Bytes := []
  deriving Repr, DecidableEq, Inhabited

def I64_MAX : Int := 9223372036854775807

/-- `b"CampaignPreElection"` -/
def campaignPreElection : Bytes := [67, 97, 109, 112, 97, 105, 103, 110, 80, 114, 101, 69, 108, 101, 99, 116, 105, 111, 110]
/-- `b"CampaignElection"` -/
def campaignElection : Bytes := [67, 97, 109, 112, 97, 105, 103, 110, 69, 108, 101, 99, 116, 105, 111, 110]
/-- `b"CampaignTransfer"` -/
def campaignTransfer : Bytes := [67, 97, 109, 112, 97, 105, 103, 110, 84, 114, 97, 110, 115, 102, 101, 114]

/-- which campaign `Raft::campaign` runs (the `&'static [u8]` argument) -/
inductive CampaignType where
  | preElection | election | transfer
  deriving Repr, DecidableEq, Inhabited

/-- `new_message` raft.rs:292 -/
def newMessage (to : Nat) (t : MsgType) (frm : Option Nat) : Message :=
  { msgType := t, to := to, frm := frm.getD 0 }

/-- `get_priority` raft.rs:302 (`i64::try_from(u64).unwrap_or(i64::MAX)`) -/
def getPriority (m : Message) : Int :=
  if m.priority ≠ 0 then m.priority
  else if (m.deprecatedPriority : Int) ≤ I64_MAX then (m.deprecatedPriority : Int) else I64_MAX

/-- `vote_resp_msg_type` raft.rs:311 (`none` = the `panic!` arm) -/
def voteRespMsgType : MsgType → Option MsgType
  | .msgRequestVote => some .msgRequestVoteResponse
  | .msgRequestPreVote => some .msgRequestPreVoteResponse
  | _ => none

/-- `is_local_msg` raw_node.rs:62 -/
def isLocalMsg : MsgType → Bool
  | .msgHup | .msgBeat | .msgUnreachable | .msgSnapStatus | .msgCheckQuorum => true
  | _ => false

/-- `is_response_msg` raw_node.rs:73 -/
def isResponseMsg : MsgType → Bool
  | .msgAppendResponse | .msgRequestVoteResponse | .msgHeartbeatResponse | .msgUnreachable
  | .msgRequestPreVoteResponse => true
  | _ => false

/-- `util::is_continuous_ents` util.rs:78 (with the anchor of an entry-less append, finding F8) -/
def isContinuousEnts (msg : Message) (ents : List Entry) : Bool :=
  match ents.head? with
  | some first =>
    let expected := match msg.entries.getLast? with
      | some last => last.index + 1
      | none => msg.index + 1
    expected == first.index
  | none => true

/-! ### protobuf wire decoding of `ConfChange` / `ConfChangeV2` (rust-protobuf 2.28 semantics)

Only what `merge_from_bytes` can observe: success or failure and the decoded fields.  Unknown
fields are skipped by wire type (groups by `skip_group`), a known field with the wrong wire type,
an enum value outside the enum, a truncated varint / field, a varint longer than 10 bytes, tag with
field number 0 or wire type 6/7 are errors.  One quirk is kept: the length of a *top level* nested
message is not checked against the remaining input (`push_limit` only compares with the enclosing
limit, which is "none" at top level), so a `ConfChangeSingle` whose declared length exceeds the
input is parsed from whatever is left. -/

namespace Pb

/-- `read_raw_varint64`: at most 10 bytes, value truncated to 64 bits -/
def varintGo : Bytes → Nat → Nat → Option (Nat × Bytes)
  | [], _, _ => none
  | b :: rest, i, acc =>
    if i = 10 then none
    else
      let acc := acc + (b.toNat % 128) * 2 ^ (i * 7)
      if b.toNat < 128 then some (acc % 2 ^ 64, rest) else varintGo rest (i + 1) acc

def varint (bs : Bytes) : Option (Nat × Bytes) := varintGo bs 0 0

/-- `read_tag_unpack`: `(field_number, wire_type, rest)` -/
def tag (bs : Bytes) : Option (Nat × Nat × Bytes) :=
  match varint bs with
  | none => none
  | some (v, rest) =>
    let t := v % 2 ^ 32
    let wire := t % 8
    let field := t / 8
    if wire > 5 ∨ field = 0 then none else some (field, wire, rest)

/-- `skip_field` = `read_unknown(wire_type)` for the non-group wire types -/
def skipField (wire : Nat) (bs : Bytes) : Option Bytes :=
  if wire = 0 then (varint bs).map (·.2)
  else if wire = 1 then (if bs.length < 8 then none else some (bs.drop 8))
  else if wire = 5 then (if bs.length < 4 then none else some (bs.drop 4))
  else if wire = 2 then
    match varint bs with
    | none => none
    | some (v, rest) =>
      let len := v % 2 ^ 32
      if rest.length < len then none else some (rest.drop len)
  else none

/-- `skip_group` (rt.rs:800) -/
def skipGroup : Nat → Bytes → Option Bytes
  | 0, _ => none
  | fuel + 1, bs =>
    match tag bs with
    | none => none
    | some (_, wire, rest) =>
      if wire = 4 then some rest
      else match skipField wire rest with
        | none => none
        | some rest' => skipGroup fuel rest'

/-- `read_unknown_or_skip_group` -/
def unknown (wire : Nat) (bs : Bytes) : Option Bytes :=
  if wire = 3 then skipGroup (bs.length + 1) bs else skipField wire bs

/-- `read_enum` of an enum with values 0, 1, 2 (`v as u32 as i32`) -/
def enum3 (bs : Bytes) : Option (Nat × Bytes) :=
  match varint bs with
  | none => none
  | some (v, rest) => let e := v % 2 ^ 32; if e ≤ 2 then some (e, rest) else none

def ccType : Nat → ConfChangeType
  | 1 => .removeNode
  | 2 => .addLearnerNode
  | _ => .addNode

def ccTransition : Nat → ConfChangeTransition
  | 1 => .implicit
  | 2 => .explicit
  | _ => .auto

/-- length-delimited `bytes` field (`read_carllerche_bytes`) -/
def bytesField (bs : Bytes) : Option (Bytes × Bytes) :=
  match varint bs with
  | none => none
  | some (v, rest) =>
    let len := v % 2 ^ 32
    if rest.length < len then none else some (rest.take len, rest.drop len)

/-- `ConfChangeSingle::merge_from` -/
def single : Nat → Bytes → ConfChangeSingle → Option ConfChangeSingle
  | 0, _, _ => none
  | fuel + 1, bs, acc =>
    if bs.isEmpty then some acc
    else match tag bs with
      | none => none
      | some (field, wire, rest) =>
        if field = 1 then
          (if wire ≠ 0 then none else match enum3 rest with
            | none => none
            | some (e, rest') => single fuel rest' { acc with ctype := ccType e })
        else if field = 2 then
          (if wire ≠ 0 then none else match varint rest with
            | none => none
            | some (v, rest') => single fuel rest' { acc with nodeId := v })
        else match unknown wire rest with
          | none => none
          | some rest' => single fuel rest' acc

/-- `ConfChangeV2::merge_from`; `total` is the length of the whole input (for `push_limit`'s
`pos + len` overflow test) -/
def v2 (total : Nat) : Nat → Bytes → ConfChangeV2 → Option ConfChangeV2
  | 0, _, _ => none
  | fuel + 1, bs, acc =>
    if bs.isEmpty then some acc
    else match tag bs with
      | none => none
      | some (field, wire, rest) =>
        if field = 1 then
          (if wire ≠ 0 then none else match enum3 rest with
            | none => none
            | some (e, rest') => v2 total fuel rest' { acc with transition := ccTransition e })
        else if field = 2 then
          (if wire ≠ 2 then none else match varint rest with
            | none => none
            | some (len, rest') =>
              if (total - rest'.length) + len > U64_MAX then none
              else match single (rest'.length + 1) (rest'.take len) {} with
                | none => none
                | some s => v2 total fuel (rest'.drop len) { acc with changes := acc.changes ++ [s] })
        else if field = 3 then
          (if wire ≠ 2 then none else match bytesField rest with
            | none => none
            | some (c, rest') => v2 total fuel rest' { acc with context := c })
        else match unknown wire rest with
          | none => none
          | some rest' => v2 total fuel rest' acc

/-- `ConfChange::merge_from` -/
def v1 : Nat → Bytes → ConfChange → Option ConfChange
  | 0, _, _ => none
  | fuel + 1, bs, acc =>
    if bs.isEmpty then some acc
    else match tag bs with
      | none => none
      | some (field, wire, rest) =>
        if field = 2 then
          (if wire ≠ 0 then none else match enum3 rest with
            | none => none
            | some (e, rest') => v1 fuel rest' { acc with ctype := ccType e })
        else if field = 3 then
          (if wire ≠ 0 then none else match varint rest with
            | none => none
            | some (v, rest') => v1 fuel rest' { acc with nodeId := v })
        else if field = 4 then
          (if wire ≠ 2 then none else match bytesField rest with
            | none => none
            | some (c, rest') => v1 fuel rest' { acc with context := c })
        else if field = 1 then
          (if wire ≠ 0 then none else match varint rest with
            | none => none
            | some (v, rest') => v1 fuel rest' { acc with id := v })
        else match unknown wire rest with
          | none => none
          | some rest' => v1 fuel rest' acc

end Pb

/-- `ConfChangeV2::default().merge_from_bytes(data)` -/
def decodeConfChangeV2 (data : Bytes) : Option ConfChangeV2 :=
  Pb.v2 data.length (data.length + 1) data {}

/-- `ConfChange::default().merge_from_bytes(data)` -/
def decodeConfChange (data : Bytes) : Option ConfChange :=
  Pb.v1 (data.length + 1) data {}

end RaftModel
