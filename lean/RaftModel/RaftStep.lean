import RaftModel.RaftFollower

/-
Executable model of the entry points of `src/raft.rs`: `Raft::new` (322), `step` (1350: term
preamble, lease, vote handling with priority, dispatch), `tick` / `tick_election` /
`tick_heartbeat` (1094-1149), and of the thin `RawNode` wrappers of `src/raw_node.rs` that build a
message and step it (`step` with its filter 415, `propose` 364, `propose_conf_change` 387,
`campaign` 357, `read_index` 783, `transfer_leader` 772, `report_unreachable` 745,
`report_snapshot` 754, `request_snapshot` 767, `ping` 378, `tick` 352, `apply_conf_change` 410).
-/
namespace RaftModel
namespace Raft

/-- the term preamble of `step` (raft.rs:1352-1482): `none` = the message is consumed here
(`return Ok(())`), `some r` = go on to the dispatch with state `r` -/
def stepTerm (r : Raft) (m : Message) : Res (Raft × Bool) :=
  if m.term = 0 then .ok (r, true)
  else if r.term < m.term then
    let isVoteReq := m.msgType = .msgRequestVote ∨ m.msgType = .msgRequestPreVote
    let force := m.context = campaignTransfer
    let inLease := r.checkQuorum ∧ r.leaderId ≠ 0 ∧ r.electionElapsed < r.electionTimeout
    if isVoteReq ∧ ¬ force ∧ inLease then .ok (r, false)
    else if m.msgType = .msgRequestPreVote ∨ (m.msgType = .msgRequestPreVoteResponse ∧ ¬ m.reject) then
      .ok (r, true)
    else if m.msgType = .msgAppend ∨ m.msgType = .msgHeartbeat ∨ m.msgType = .msgSnapshot then
      .ok (r.becomeFollower m.term m.frm, true)
    else .ok (r.becomeFollower m.term 0, true)
  else if m.term < r.term then
    if (r.checkQuorum ∨ r.preVote) ∧ (m.msgType = .msgHeartbeat ∨ m.msgType = .msgAppend) then
      match r.send (newMessage m.frm .msgAppendResponse none) with
      | .ok r => .ok (r, false)
      | .err e => .err e
      | .panic s => .panic s
    else if m.msgType = .msgRequestPreVote then
      match r.send { msgType := .msgRequestPreVoteResponse, to := m.frm, term := r.term, reject := true } with
      | .ok r => .ok (r, false)
      | .err e => .err e
      | .panic s => .panic s
    else .ok (r, false)
  else .ok (r, true)

/-- `can_vote` raft.rs:1491 -/
def canVote (r : Raft) (m : Message) : Bool :=
  r.vote == m.frm || (r.vote == 0 && r.leaderId == 0) ||
    (m.msgType == .msgRequestPreVote && decide (r.term < m.term))

/-- the condition of raft.rs:1497-1499 (evaluated left to right: `is_up_to_date` only if
`can_vote`) -/
def voteGranted (r : Raft) (m : Message) : Res Bool :=
  if r.canVote m then
    match r.raftLog.isUpToDate m.index m.logTerm with
    | .ok b => .ok (b && (decide (r.raftLog.lastIndex < m.index) || decide (r.priority ≤ getPriority m)))
    | .err _ => .panic "raft.step.is_up_to_date"
    | .panic s => .panic s
  else .ok false

/-- raft.rs:1510-1520: grant; only a real vote is recorded -/
def stepVoteGrant (r : Raft) (m : Message) (respType : MsgType) : Res Raft :=
  match r.send { msgType := respType, to := m.frm, reject := false, term := m.term } with
  | .ok r =>
    if m.msgType = .msgRequestVote then .ok { r with electionElapsed := 0, vote := m.frm } else .ok r
  | .err e => .err e
  | .panic s => .panic s

/-- raft.rs:1522-1531: reject, with our commit point as evidence -/
def stepVoteReject (r : Raft) (m : Message) (respType : MsgType) : Res Raft :=
  match r.raftLog.commitInfo with
  | .panic s => .panic s
  | .err _ => .panic "raft.step.commit_info"
  | .ok (commit, commitTerm) =>
    match r.send { msgType := respType, to := m.frm, reject := true, term := r.term,
                   commit := commit, commitTerm := commitTerm } with
    | .ok r =>
      -- the commit info of a pre-vote request is used only if the sender's term is not beyond ours (fix F12)
      if m.msgType ≠ .msgRequestPreVote ∨ m.term ≤ r.term + 1 then r.maybeCommitByVote m else .ok r
    | .err e => .err e
    | .panic s => .panic s

/-- the `MsgRequestVote | MsgRequestPreVote` arm of `step` (raft.rs:1489-1533) -/
def stepVote (r : Raft) (m : Message) : Res Raft :=
  match voteRespMsgType m.msgType with
  | none => .panic "raft.vote_resp_msg_type"
  | some respType =>
    match r.voteGranted m with
    | .ok true => r.stepVoteGrant m respType
    | .ok false => r.stepVoteReject m respType
    | .err e => .err e
    | .panic s => .panic s

/-- `Raft::step` raft.rs:1350 -/
def step (r : Raft) (m : Message) : Res (Raft × Option RaftError) :=
  match r.stepTerm m with
  | .panic s => .panic s
  | .err e => .err e
  | .ok (r, false) => .ok (r, none)
  | .ok (r, true) =>
    match m.msgType with
    | .msgHup => (r.hup false).bind (fun r => .ok (r, none))
    | .msgRequestVote | .msgRequestPreVote =>
      match r.stepVote m with
      | .ok r => .ok (r, none)
      | .err e => .err e
      | .panic s => .panic s
    | _ =>
      match r.state with
      | .preCandidate | .candidate => r.stepCandidate m
      | .follower => r.stepFollower m
      | .leader => r.stepLeader m

/-- `let _ = self.step(m)`: the `Result` is dropped, a panic is not -/
def stepIgnore (r : Raft) (m : Message) : Res Raft := (r.step m).bind (fun (r, _) => .ok r)

/-- `Raft::tick_election` raft.rs:1107 -/
def tickElection (r : Raft) : Res (Raft × Bool) :=
  let r := { r with electionElapsed := r.electionElapsed + 1 }
  if !r.passElectionTimeout || !r.promotable then .ok (r, false)
  else
    let r := { r with electionElapsed := 0 }
    (r.stepIgnore (newMessage 0 .msgHup (some r.id))).bind (fun r => .ok (r, true))

/-- `Raft::tick_heartbeat` raft.rs:1121 -/
def tickHeartbeat (r : Raft) : Res (Raft × Bool) :=
  let r := { r with heartbeatElapsed := r.heartbeatElapsed + 1, electionElapsed := r.electionElapsed + 1 }
  let r1 : Res (Raft × Bool) :=
    if r.electionTimeout ≤ r.electionElapsed then
      let r := { r with electionElapsed := 0 }
      let r2 : Res (Raft × Bool) :=
        if r.checkQuorum then
          (r.stepIgnore (newMessage 0 .msgCheckQuorum (some r.id))).bind (fun r => .ok (r, true))
        else .ok (r, false)
      r2.bind (fun (r, hasReady) =>
        if r.state = .leader ∧ r.leadTransferee.isSome then .ok (r.abortLeaderTransfer, hasReady)
        else .ok (r, hasReady))
    else .ok (r, false)
  r1.bind (fun (r, hasReady) =>
    if r.state ≠ .leader then .ok (r, hasReady)
    else if r.heartbeatTimeout ≤ r.heartbeatElapsed then
      let r := { r with heartbeatElapsed := 0 }
      (r.stepIgnore (newMessage 0 .msgBeat (some r.id))).bind (fun r => .ok (r, true))
    else .ok (r, hasReady))

/-- `Raft::tick` raft.rs:1094 -/
def tick (r : Raft) : Res (Raft × Bool) :=
  match r.state with
  | .follower | .preCandidate | .candidate => r.tickElection
  | .leader => r.tickHeartbeat

/-- `Raft::new` raft.rs:322 over a `MemStorage`; `rnd` is the draw of the first
`reset_randomized_election_timeout` -/
def new (c : Config) (store : MemStorage) (rnd : Option Nat) : Res (Except RaftError Raft) :=
  if !c.validate then .ok (.error .configInvalid)
  else
    let (hs, confState) := store.initialState
    match RaftLog.new store c.maxApplyUnpersistedLogLimit with
    | .panic s => .panic s
    | .err _ => .panic "raft.new.unexpected_error"
    | .ok log =>
      let r : Raft := {
        prs := ProgressTracker.new c.maxInflightMsgs, msgs := [], id := c.id, readStates := [],
        raftLog := log, maxInflight := c.maxInflightMsgs, maxMsgSize := c.maxSizePerMsg,
        pendingRequestSnapshot := 0, state := .follower, promotable := false,
        checkQuorum := c.checkQuorum, preVote := c.preVote, readOnly := ReadOnly.new c.readOnlyOption,
        heartbeatTimeout := c.heartbeatTick, electionTimeout := c.electionTick, leaderId := 0,
        leadTransferee := none, term := 0, electionElapsed := 0, pendingConfIndex := 0, vote := 0,
        heartbeatElapsed := 0, randomizedElectionTimeout := 0,
        minElectionTimeout := c.minElectionTick', maxElectionTimeout := c.maxElectionTick',
        skipBcastCommit := c.skipBcastCommit, batchAppend := c.batchAppend, priority := c.priority,
        uncommittedState := { maxUncommittedSize := c.maxUncommittedSize, uncommittedSize := 0,
                              lastLogTailIndex := 0 },
        maxCommittedSizePerReady := c.maxCommittedSizePerReady,
        disableProposalForwarding := c.disableProposalForwarding, nextRand := rnd }
      match r.prs.restore r.raftLog.lastIndex confState with
      | .error _ => .ok (.error .confChangeError)
      | .ok prs =>
        ({ r with prs := prs } : Raft).postConfChange.bind (fun (r, newCs) =>
          if !confStateEq newCs confState then .panic "raft.new.invalid_restore"
          else
            let r1 : Res Raft := if hs ≠ {} then r.loadState hs else .ok r
            r1.bind (fun r =>
              let r2 : Res Raft := if c.applied > 0 then r.commitApplyInternal c.applied true else .ok r
              r2.bind (fun r => .ok (.ok (r.becomeFollower r.term 0)))))

end Raft

/-! ### `RawNode` wrappers (raw_node.rs) -/
namespace RawNode
open Raft

/-- `RawNode::new` raw_node.rs:311 (`assert_ne!(config.id, 0)` precedes `Raft::new`) -/
def new (c : Config) (store : MemStorage) (rnd : Option Nat) : Res (Except RaftError Raft) :=
  if c.id = 0 then .panic "raw_node.new.assert_id" else Raft.new c store rnd

/-- `RawNode::step` raw_node.rs:415 -/
def step (r : Raft) (m : Message) : Res (Raft × Option RaftError) :=
  if isLocalMsg m.msgType then .ok (r, some .stepLocalMsg)
  else if (r.prs.get m.frm).isSome || !isResponseMsg m.msgType then r.step m
  else .ok (r, some .stepPeerNotFound)

/-- `RawNode::tick` raw_node.rs:352 -/
def tick (r : Raft) : Res (Raft × Bool) := r.tick

/-- `RawNode::campaign` raw_node.rs:357 -/
def campaign (r : Raft) : Res (Raft × Option RaftError) := r.step { msgType := .msgHup }

/-- `RawNode::propose` raw_node.rs:364 -/
def propose (r : Raft) (context data : Bytes) : Res (Raft × Option RaftError) :=
  r.step { msgType := .msgPropose, frm := r.id, entries := [{ data := data, context := context }] }

/-- `RawNode::propose_conf_change` raw_node.rs:387, after the protobuf encoding of the change
(`etype` 1 = `ConfChange`, 2 = `ConfChangeV2`, `data` = `write_to_bytes`) -/
def proposeConfChange (r : Raft) (context : Bytes) (etype : Nat) (data : Bytes) :
    Res (Raft × Option RaftError) :=
  r.step { msgType := .msgPropose, entries := [{ etype := etype, data := data, context := context }] }

/-- `RawNode::ping` raw_node.rs:378 -/
def ping (r : Raft) : Res Raft := r.ping

/-- `RawNode::apply_conf_change` raw_node.rs:410 (the argument already converted by `as_v2`) -/
def applyConfChange (r : Raft) (cc : ConfChangeV2) : Res (Raft × Except ErrKind ConfState) :=
  r.applyConfChange cc

/-- `RawNode::report_unreachable` raw_node.rs:745 -/
def reportUnreachable (r : Raft) (id : Nat) : Res Raft :=
  r.stepIgnore { msgType := .msgUnreachable, frm := id }

/-- `RawNode::report_snapshot` raw_node.rs:754 (`failure` = `SnapshotStatus::Failure`) -/
def reportSnapshot (r : Raft) (id : Nat) (failure : Bool) : Res Raft :=
  r.stepIgnore { msgType := .msgSnapStatus, frm := id, reject := failure }

/-- `RawNode::request_snapshot` raw_node.rs:767 -/
def requestSnapshot (r : Raft) : Res (Raft × Option RaftError) := r.requestSnapshot

/-- `RawNode::transfer_leader` raw_node.rs:772 -/
def transferLeader (r : Raft) (transferee : Nat) : Res Raft :=
  r.stepIgnore { msgType := .msgTransferLeader, frm := transferee }

/-- `RawNode::read_index` raw_node.rs:783 -/
def readIndex (r : Raft) (rctx : Bytes) : Res Raft :=
  r.stepIgnore { msgType := .msgReadIndex, entries := [{ data := rctx }] }

end RawNode
end RaftModel
