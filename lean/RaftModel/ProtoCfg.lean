import RaftModel.Proto

/-!
# PC — the configuration-aware layer over the abstract protocol P

P takes the voter configuration of every election (`win`) and of every leader commit
(`commitLeader`) as a parameter of the event and *demands*, as a guard, that the configurations of a
leader commit and of a later-term election that have to agree are adjacent (`adjOk`) or that the
agreement is exhibited directly.  That guard looks across the whole history.

PC replaces it by what raft-rs actually enforces, which is *local* to the node taking the step:

* configurations are numbered by the membership-change entries (`EntryConfChange`,
  `EntryConfChangeV2`) of the committed log: *version* `a` is the configuration in force after `a`
  such entries have been applied; `vtab` is the ghost table version ↦ configuration, filled in by
  the `applyConf` events (one per `RawNode::apply_conf_change` call) and checked to be deterministic
  (a second node applying the same entry must obtain the same configuration) and stepwise adjacent;
* a node wins an election / commits as leader under the configuration of the version given by the
  membership-change entries up to its *applied* index, and at that moment its log (for a commit:
  the prefix it commits) holds **at most one** membership-change entry beyond the applied index
  (raft-rs: `pending_conf_index` gates a new proposal on the previous one being applied
  `raft.rs step_leader`; `hup` refuses to campaign while a committed membership change is
  unapplied; a `MsgAppend` that carries a second membership-change entry carries a commit index
  covering the first).

`applyEventC` checks these local conditions and then runs P's `applyEvent` unchanged.  The theorems in
`RaftProofs/ProtoCfg*.lean` show that on every state reachable in PC the cross-history guards of P
are *implied* (never the reason for a rejection), so every PC history is a P history and every
theorem about P holds for PC without any assumption about how configurations relate.
-/
namespace RaftModel.P

/-- `EntryType::EntryConfChange = 1`, `EntryConfChangeV2 = 2` (eraftpb) -/
def isConf (e : LEntry) : Bool := e.kind == 1 || e.kind == 2

/-- number of membership-change entries in a log (prefix) -/
def confCount (l : List LEntry) : Nat := (l.filter isConf).length

structure CSys where
  base : PSys
  /-- ghost: `vtab[a]` = the configuration after `a` membership-change entries -/
  vtab : List Cfg := []
  /-- ghost: (term, version) of every election, newest first -/
  evs : List (Nat × Nat) := []
  /-- ghost: ((term, index), version) of every leader commit, newest first (in step with `base.cmts`) -/
  cvs : List ((Nat × Nat) × Nat) := []

def cinit : CSys := { base := init }

inductive CEvent where
  /-- any event of P other than `win` / `commitLeader` / read `resp` / read `rstate` -/
  | base (e : Event)
  /-- the configuration the group is bootstrapped with (version 0) -/
  | cfgInit (cfg : Cfg)
  /-- node `i` applies the membership-change entry at index `idx` and obtains `cfg` -/
  | applyConf (i idx : Nat) (cfg : Cfg)
  | win (i : Nat) (cfg : Cfg) (q : List Nat) (applied : Nat)
  | commitLeader (i c : Nat) (cfg : Cfg) (q : List Nat) (applied : Nat)
  /-- the leader answers a remote read request / hands out a read state (read-index layer) -/
  | resp (i rid idx : Nat) (cfg : Cfg) (applied : Nat)
  | rstate (j rid idx : Nat) (cfg : Cfg) (applied : Nat)
  deriving Repr

/-- adjacent in both directions -/
def adj2 (a b : Cfg) : Bool := adjOk a b && adjOk b a

def isWinOrCommit : Event → Bool
  | .win .. => true
  | .commitLeader .. => true
  | .read (.resp ..) => true
  | .read (.rstate ..) => true
  | _ => false

/-- a leader's version never decreases while it leads: `j` is not below the version it won its term
with, nor below the version of any of its own commits (raft-rs: the applied index only grows within
one incarnation, and a restarted node is not a leader) -/
def verMono (S : CSys) (term j : Nat) : Bool :=
  S.evs.all (fun p => p.1 != term || decide (p.2 ≤ j)) && S.cvs.all (fun p => p.1.1 != term || decide (p.2 ≤ j))

def applyEventC (S : CSys) : CEvent → Except String CSys
  | .base e =>
    if isWinOrCommit e then .error "win / commitLeader / read resp / read rstate: use the configuration-aware events"
    else match applyEvent S.base e with
      | .ok b => .ok { S with base := b }
      | .error x => .error x
  | .cfgInit cfg =>
    if S.vtab = [] ∧ adjOk cfg cfg then .ok { S with vtab := [cfg] }
    else .error "cfgInit: the bootstrap configuration is already recorded, or has an empty / duplicated voter list"
  | .applyConf i idx cfg =>
    let n := S.base.nodes i
    let a := confCount (n.log.take idx)
    if n.up ∧ 0 < idx ∧ idx ≤ n.commit ∧ (n.log[idx - 1]?.any isConf) ∧
        a ≤ S.vtab.length then
      if a < S.vtab.length then
        if S.vtab[a]? = some cfg then .ok S
        else .error "applyConf: this membership-change entry yielded a different configuration on another node"
      else
        match S.vtab[a - 1]? with
        | some prev =>
          if adj2 prev cfg ∧ adjOk cfg cfg then .ok { S with vtab := S.vtab ++ [cfg] }
          else .error "applyConf: the new configuration is not one membership-change step from its predecessor"
        | none => .error "applyConf: no bootstrap configuration recorded"
    else .error "applyConf: not a committed membership-change entry of a running node, or an earlier one was never applied anywhere"
  | .win i cfg q applied =>
    let n := S.base.nodes i
    let m := confCount (n.log.take applied)
    if applied ≤ n.commit ∧ confCount n.log ≤ m + 1 ∧ S.vtab[m]? = some cfg then
      match applyEvent S.base (.win i cfg q) with
      | .ok b => .ok { S with base := b, evs := (n.term, m) :: S.evs }
      | .error x => .error x
    else .error "win: not the configuration of the applied membership changes, or more than one unapplied membership change in the winner's log"
  | .commitLeader i c cfg q applied =>
    let n := S.base.nodes i
    let j := confCount (n.log.take applied)
    if applied ≤ n.commit ∧ confCount (n.log.take c) ≤ j + 1 ∧ S.vtab[j]? = some cfg ∧ verMono S n.term j then
      match applyEvent S.base (.commitLeader i c cfg q) with
      | .ok b => .ok { S with base := b, cvs := ((n.term, c), j) :: S.cvs }
      | .error x => .error x
    else .error "commitLeader: not the configuration of the applied membership changes, or more than one unapplied membership change in the committed prefix, or the leader's applied index went backwards"
  | .resp i rid idx cfg applied =>
    let n := S.base.nodes i
    let j := confCount (n.log.take applied)
    if applied ≤ n.commit ∧ S.vtab[j]? = some cfg ∧ verMono S n.term j then
      match applyEvent S.base (.read (.resp i rid idx cfg)) with
      | .ok b => .ok { S with base := b }
      | .error x => .error x
    else .error "read resp: not the configuration of the applied membership changes, or the leader's applied index went backwards"
  | .rstate j rid idx cfg applied =>
    let n := S.base.nodes j
    let v := confCount (n.log.take applied)
    -- a read state that hands on a released response needs no configuration; a leader-local one does
    if S.base.rd.resps.contains ⟨rid, j, idx⟩ ∨ (applied ≤ n.commit ∧ S.vtab[v]? = some cfg ∧ verMono S n.term v) then
      match applyEvent S.base (.read (.rstate j rid idx cfg)) with
      | .ok b => .ok { S with base := b }
      | .error x => .error x
    else .error "read state: not the configuration of the applied membership changes, or the leader's applied index went backwards"

def runC (S : CSys) : List CEvent → Except String CSys
  | [] => .ok S
  | e :: es => match applyEventC S e with
    | .ok S' => runC S' es
    | .error x => .error x

/-- reachable states of PC -/
inductive ReachPC : CSys → Prop where
  | init : ReachPC cinit
  | step {S S' : CSys} (e : CEvent) : ReachPC S → applyEventC S e = .ok S' → ReachPC S'

/-! ### the two cross-history guards of P, as predicates (what PC makes redundant) -/

/-- the configuration part of the guard of `win` in `applyEvent` -/
def winAdj (s : PSys) (i : Nat) (cfg : Cfg) : Bool :=
  let n := s.nodes i
  adjOk cfg cfg &&
  s.ecfgs.all (fun p => p.1 ≠ n.term ∨ adjOk cfg p.2) &&
  s.ccfgs.all (fun p => n.term ≤ p.1.1 ∨ adjOk p.2 cfg ∨ n.log.take p.1.2 = (s.llog p.1.1).take p.1.2)

/-- everything else in the guard of `win` -/
def winCore (s : PSys) (i : Nat) (cfg : Cfg) (q : List Nat) : Bool :=
  let n := s.nodes i
  n.up && decide (n.role = 1) && decide (n.vote = i) && cfg.isQuorum q && s.grants.contains ⟨n.term, i, i⟩ &&
  q.all (fun v => s.grants.contains ⟨n.term, v, i⟩) &&
  q.all (fun v => s.rgv.any (fun p => p.1 = ⟨n.term, v, i⟩ ∧ p.2.early ∧ p.2.clt = lastTerm n.log ∧ p.2.cli = n.log.length))

/-- the configuration part of the guard of `commitLeader` -/
def commitAdj (s : PSys) (i c : Nat) (cfg : Cfg) : Bool :=
  let n := s.nodes i
  adjOk cfg cfg &&
  s.ecfgs.all (fun p => p.1 ≤ n.term ∨ adjOk cfg p.2 ∨ (s.elog p.1).take c = n.log.take c)

/-- everything else in the guard of `commitLeader` -/
def commitCore (s : PSys) (i c : Nat) (cfg : Cfg) (q : List Nat) : Bool :=
  let n := s.nodes i
  n.up && decide (n.role = 2) && decide (n.commit < c) && decide (c ≤ n.log.length) && decide (termAt n.log c = n.term) &&
  cfg.isQuorum q &&
  q.all (fun v => s.acks.any (fun a => a.term = n.term ∧ a.frm = v ∧ c ≤ a.idx))

/-- everything but the configuration part in the guard of `resp` (and of a leader-local `rstate`) -/
def respCore (s : PSys) (i rid idx : Nat) (cfg : Cfg) : Bool :=
  let n := s.nodes i
  n.up && decide (n.role = 2) && s.rd.started.contains ⟨rid, i, n.term, idx⟩ && rdQuorum s cfg i n.term rid

end RaftModel.P
