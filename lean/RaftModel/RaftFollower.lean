import RaftModel.RaftLeader

/-
Executable model of the follower / candidate side of `src/raft.rs`: `has_unapplied_conf_changes`
(1610), `hup` (1543), `maybe_commit_by_vote` (2248), `send_request_snapshot` (2918),
`request_snapshot` (2486), `handle_append_entries` (2528), `handle_heartbeat` (2591), `restore`
(2640), `handle_snapshot` (2605), `step_candidate` (2320), `step_follower` (2377).
-/
namespace RaftModel
namespace Raft

def isConfEntry (e : Entry) : Bool := e.etype == 1 || e.etype == 2

/-- `RaftLog::scan` (raft_log.rs:611) with the callback of `has_unapplied_conf_changes`, which
stops at the first configuration-change entry.  An error of `slice`, or an empty page, is the
`fatal!` of raft.rs:1633. -/
def scanConf (l : RaftLog) (hi pageSize : Nat) : Nat → Nat → Res Bool
  | 0, _ => .ok false
  | fuel + 1, lo =>
    if lo < hi then
      match l.slice lo hi (some pageSize) false with
      | .ok [] => .panic "raft.has_unapplied_conf_changes.scan_error"
      | .ok ents => if ents.any isConfEntry then .ok true else scanConf l hi pageSize fuel (lo + ents.length)
      | .err _ => .panic "raft.has_unapplied_conf_changes.scan_error"
      | .panic s => .panic s
    else .ok false

/-- `Raft::has_unapplied_conf_changes` raft.rs:1610 -/
def hasUnappliedConfChanges (r : Raft) (lo hi : Nat) : Res Bool :=
  if r.raftLog.committed ≤ r.raftLog.applied then .ok false
  else scanConf r.raftLog hi r.maxCommittedSizePerReady (hi - lo + 1) lo

/-- where `hup` starts scanning for unapplied configuration changes (raft.rs, `hup`): behind the
applied index, and behind a snapshot that is pending or persisted but not yet reported applied
(`max(applied + 1, first_index)`, fix F11) -/
def hupScanLow (r : Raft) : Nat :=
  Nat.max (r.raftLog.applied + 1) r.raftLog.firstIndex

/-- `Raft::hup` raft.rs:1543 -/
def hup (r : Raft) (transferLeader : Bool) : Res Raft :=
  if r.state = .leader then .ok r
  else if !r.promotable then .ok r
  else
    match r.hasUnappliedConfChanges r.hupScanLow (r.raftLog.committed + 1) with
    | .panic s => .panic s
    | .err e => .err e
    | .ok true => .ok r
    | .ok false =>
      if r.raftLog.persisted < r.raftLog.lastIndex ∧ r.prs.hasQuorum [r.id] then .ok r
      else if transferLeader then r.campaign .transfer
      else if r.preVote then r.campaign .preElection
      else r.campaign .election

/-- `Raft::maybe_commit_by_vote` raft.rs:2248 -/
def maybeCommitByVote (r : Raft) (m : Message) : Res Raft :=
  if m.commit = 0 ∨ m.commitTerm = 0 then .ok r
  else
    let lastCommit := r.raftLog.committed
    if m.commit ≤ lastCommit ∨ r.state = .leader then .ok r
    else match r.raftLog.maybeCommit m.commit m.commitTerm with
      | .panic s => .panic s
      | .err e => .err e
      | .ok (_, false) => .ok r
      | .ok (log, true) =>
        let r := { r with raftLog := log }
        if r.state ≠ .candidate ∧ r.state ≠ .preCandidate then .ok r
        else match r.hasUnappliedConfChanges (lastCommit + 1) (r.raftLog.committed + 1) with
          | .panic s => .panic s
          | .err e => .err e
          | .ok true => .ok (r.becomeFollower r.term 0)
          | .ok false => .ok r

/-- `Raft::send_request_snapshot` raft.rs:2918 -/
def sendRequestSnapshot (r : Raft) : Res Raft :=
  let hint := r.raftLog.lastIndex
  match r.raftLog.term hint with
  | .ok t =>
    r.send { msgType := .msgAppendResponse, index := r.raftLog.committed, reject := true,
             rejectHint := hint, to := r.leaderId, requestSnapshot := r.pendingRequestSnapshot,
             logTerm := t }
  | .err _ => .panic "raft.send_request_snapshot.unwrap"
  | .panic s => .panic s

/-- `Raft::request_snapshot` raft.rs:2486 -/
def requestSnapshot (r : Raft) : Res (Raft × Option RaftError) :=
  if r.state = .leader then .ok (r, some .requestSnapshotDropped)
  else if r.leaderId = 0 then .ok (r, some .requestSnapshotDropped)
  else if r.raftLog.unstable.snapshot.isSome then .ok (r, some .requestSnapshotDropped)
  else if r.pendingRequestSnapshot ≠ 0 then .ok (r, some .requestSnapshotDropped)
  else
    let requestIndex := r.raftLog.lastIndex
    match r.raftLog.term requestIndex with
    | .panic s => .panic s
    | .err _ => .panic "raft.request_snapshot.unwrap"
    | .ok t =>
      if r.term = t then
        ({ r with pendingRequestSnapshot := requestIndex } : Raft).sendRequestSnapshot.bind
          (fun r => .ok (r, none))
      else .ok (r, some .requestSnapshotDropped)

/-- `Raft::handle_append_entries` raft.rs:2528 -/
def handleAppendEntries (r : Raft) (m : Message) : Res Raft :=
  if r.pendingRequestSnapshot ≠ 0 then r.sendRequestSnapshot
  else if m.index < r.raftLog.committed then
    r.send { msgType := .msgAppendResponse, to := m.frm, index := r.raftLog.committed,
             commit := r.raftLog.committed }
  else
    match r.raftLog.maybeAppend m.index m.logTerm m.commit m.entries with
    | .panic s => .panic s
    | .err _ => .panic "raft.handle_append_entries.unexpected_error"
    | .ok (log, some (_, lastIdx)) =>
      let r := { r with raftLog := log }
      r.send { msgType := .msgAppendResponse, to := m.frm, index := lastIdx, commit := r.raftLog.committed }
    | .ok (log, none) =>
      let r := { r with raftLog := log }
      let hintIndex := min m.index r.raftLog.lastIndex
      match r.raftLog.findConflictByTerm hintIndex m.logTerm with
      | .panic s => .panic s
      | .err _ => .panic "raft.handle_append_entries.unexpected_error"
      | .ok (_, none) => .panic "raft.handle_append_entries.hint_term"
      | .ok (hintIndex, some hintTerm) =>
        r.send { msgType := .msgAppendResponse, to := m.frm, index := m.index, reject := true,
                 rejectHint := hintIndex, logTerm := hintTerm, commit := r.raftLog.committed }

/-- `Raft::handle_heartbeat` raft.rs:2591 -/
def handleHeartbeat (r : Raft) (m : Message) : Res Raft :=
  match r.raftLog.commitTo m.commit with
  | .panic s => .panic s
  | .err _ => .panic "raft.handle_heartbeat.unexpected_error"
  | .ok log =>
    let r := { r with raftLog := log }
    if r.pendingRequestSnapshot ≠ 0 then r.sendRequestSnapshot
    else r.send { msgType := .msgHeartbeatResponse, to := m.frm, context := m.context,
                  commit := r.raftLog.committed }

/-- `Raft::restore` raft.rs:2640 -/
def restore (r : Raft) (snap : Snapshot) : Res (Raft × Bool) :=
  let md := snap.metadata
  if md.index < r.raftLog.committed then .ok (r, false)
  else if r.state ≠ .follower then
    if U64_MAX ≤ r.term then .panic "raft.restore.overflow"
    else .ok (r.becomeFollower (r.term + 1) 0, false)
  else
    let cs := md.confState
    if (cs.voters ++ cs.learners ++ cs.votersOutgoing).all (fun id => id != r.id) then .ok (r, false)
    else
      let fastForward : Res Bool :=
        -- a snapshot older than the requested index is treated like an unrequested one (fix F10)
        if r.pendingRequestSnapshot = 0 ∨ md.index < r.pendingRequestSnapshot then
          match r.raftLog.matchTerm md.index md.term with
          | .ok b => .ok b
          | .err _ => .ok false
          | .panic s => .panic s
        else .ok false
      match fastForward with
      | .panic s => .panic s
      | .err e => .err e
      | .ok true =>
        (match r.raftLog.commitTo md.index with
          | .ok log => .ok ({ r with raftLog := log }, false)
          | .err _ => .panic "raft.restore.unexpected_error"
          | .panic s => .panic s)
      | .ok false =>
        match r.raftLog.restore snap with
        | .panic s => .panic s
        | .err _ => .panic "raft.restore.unexpected_error"
        | .ok log =>
          let r := { r with raftLog := log, prs := r.prs.clear }
          let lastIndex := r.raftLog.lastIndex
          match r.prs.restore lastIndex cs with
          | .error _ => .panic "raft.restore.unable_to_restore_config"
          | .ok prs =>
            ({ r with prs := prs } : Raft).postConfChange.bind (fun (r, newCs) =>
              if !confStateEq cs newCs then .panic "raft.restore.invalid_restore"
              else match r.prs.get r.id with
                | none => .panic "raft.restore.unwrap"
                | some pr =>
                  if pr.nextIdx = 0 then .panic "raft.restore.underflow"
                  else (pr.maybeUpdate (pr.nextIdx - 1)).bind (fun (pr, _) =>
                    .ok ({ r with prs := r.prs.set r.id pr, pendingRequestSnapshot := 0 }, true)))

/-- `Raft::handle_snapshot` raft.rs:2605 -/
def handleSnapshot (r : Raft) (m : Message) : Res Raft :=
  (r.restore m.snapshot).bind (fun (r, ok) =>
    if ok then r.send { msgType := .msgAppendResponse, to := m.frm, index := r.raftLog.lastIndex }
    else r.send { msgType := .msgAppendResponse, to := m.frm, index := r.raftLog.committed })

/-- `Raft::step_candidate` raft.rs:2320 (the `debug_assert_eq!(self.term, m.term)` are live in the
build the check uses) -/
def stepCandidate (r : Raft) (m : Message) : Res (Raft × Option RaftError) :=
  match m.msgType with
  | .msgPropose => .ok (r, some .proposalDropped)
  | .msgAppend =>
    if r.term ≠ m.term then .panic "raft.step_candidate.debug_assert_term"
    else ((r.becomeFollower m.term m.frm).handleAppendEntries m).bind (fun r => .ok (r, none))
  | .msgHeartbeat =>
    if r.term ≠ m.term then .panic "raft.step_candidate.debug_assert_term"
    else ((r.becomeFollower m.term m.frm).handleHeartbeat m).bind (fun r => .ok (r, none))
  | .msgSnapshot =>
    if r.term ≠ m.term then .panic "raft.step_candidate.debug_assert_term"
    else ((r.becomeFollower m.term m.frm).handleSnapshot m).bind (fun r => .ok (r, none))
  | .msgRequestPreVoteResponse | .msgRequestVoteResponse =>
    if (r.state = .preCandidate ∧ m.msgType ≠ .msgRequestPreVoteResponse) ∨
       (r.state = .candidate ∧ m.msgType ≠ .msgRequestVoteResponse) then .ok (r, none)
    -- a granted pre-vote answers this pre-campaign only if it carries our term + 1 (fix F16;
    -- `checked_add`: no overflow)
    else if r.state = .preCandidate ∧ m.reject = false ∧ ¬ (r.term < U64_MAX ∧ m.term = r.term + 1) then .ok (r, none)
    else
      (r.poll m.frm m.msgType (!m.reject)).bind (fun (r, _) =>
        (r.maybeCommitByVote m).bind (fun r => .ok (r, none)))
  | _ => .ok (r, none)

/-- `Raft::step_follower` raft.rs:2377 -/
def stepFollower (r : Raft) (m : Message) : Res (Raft × Option RaftError) :=
  match m.msgType with
  | .msgPropose =>
    if r.leaderId = 0 then .ok (r, some .proposalDropped)
    else if r.disableProposalForwarding then .ok (r, some .proposalDropped)
    else (r.send { m with to := r.leaderId }).bind (fun r => .ok (r, none))
  | .msgAppend =>
    (({ r with electionElapsed := 0, leaderId := m.frm } : Raft).handleAppendEntries m).bind
      (fun r => .ok (r, none))
  | .msgHeartbeat =>
    (({ r with electionElapsed := 0, leaderId := m.frm } : Raft).handleHeartbeat m).bind
      (fun r => .ok (r, none))
  | .msgSnapshot =>
    (({ r with electionElapsed := 0, leaderId := m.frm } : Raft).handleSnapshot m).bind
      (fun r => .ok (r, none))
  | .msgTransferLeader =>
    if r.leaderId = 0 then .ok (r, none)
    else (r.send { m with to := r.leaderId }).bind (fun r => .ok (r, none))
  | .msgTimeoutNow =>
    if r.promotable then (r.hup true).bind (fun r => .ok (r, none)) else .ok (r, none)
  | .msgReadIndex =>
    if r.leaderId = 0 then .ok (r, none)
    else (r.send { m with to := r.leaderId }).bind (fun r => .ok (r, none))
  | .msgReadIndexResp =>
    match m.entries with
    | [e] =>
      let rs : ReadState := { index := m.index, requestCtx := e.data }
      let r := { r with readStates := r.readStates ++ [rs] }
      (match r.raftLog.maybeCommit m.index m.term with
        | .ok (log, _) => .ok ({ r with raftLog := log }, none)
        | .err e => .err e
        | .panic s => .panic s)
    | _ => .ok (r, none)
  | _ => .ok (r, none)

end Raft
end RaftModel
