import RaftProofs.Inflights
import RaftProofs.Quorum
import RaftProofs.ConfChange
import RaftProofs.RaftLog
