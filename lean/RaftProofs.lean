import RaftProofs.Inflights
