import RaftProps.C11
import RaftProps.C12
import RaftProps.C18
import RaftProps.C14
import RaftProps.C19
import RaftProps.C02
import RaftProps.C06
