import RaftProps.C18
