import RaftProps.C11
import RaftProps.C12
import RaftProps.C18
import RaftProps.C14
