import RaftModel.Basic
import RaftModel.Inflights
import RaftModel.Storage
