import RaftModel.Inflights
