import RaftModel.Basic
import RaftModel.Inflights
import RaftModel.Storage
import RaftModel.Quorum
import RaftModel.ConfChange
import RaftModel.Unstable
import RaftModel.RaftLog
import RaftModel.Proto
