import RaftModel.Basic
import RaftModel.Inflights
import RaftModel.Storage
import RaftModel.Quorum
import RaftModel.ConfChange
import RaftModel.Proto
