import RaftProofs.ClusterVoteH

/-!
# C02c — Election Safety of the cluster semantics built from the executable node model

`RaftModel/Cluster.lean` (`ClusterSem`) puts nodes that move only through `Node.call` (the function the
free-running correspondence ties to `/repo` call by call) around a lossy / duplicating / reordering
transport, an application that may call every entry point in any order but sends only with term and
vote persisted, and crashes that restart a node from its own storage.  Here: for every history of
`ClusterSem` whose states all have the voter configuration `cfg`,

* `C02_cluster_election_safety` — no two different nodes are ever leader of the same term;
* `C06_cluster_one_vote_per_term` — a node's granted vote responses of one term in the transport all
  go to the same candidate (no hypothesis on the configuration);
* `C06_cluster_grant_durable` — a granted response in the transport is backed by the sender's *stored*
  hard state, then and in every later state;
* `C06_cluster_step_term_vote`, `C06_cluster_promise_stable` — the `(term, vote)` discipline of every
  step, in memory and in the storage.

The proof is in `RaftProofs/ClusterVote{A..H}.lean`: a per-call invariant `VInv` pushed through every
function of the node model (A–F), the cluster invariants `Inv1` / `Inv2` (G, H).
-/
namespace RaftProps.C02
open RaftModel RaftModel.Cluster RaftModel.Raft RaftModel.Raft.CV RaftModel.Node

/-! ### one vote per term -/

/-- **C06 `cluster_one_vote_per_term`.**  In every state of every history of `ClusterSem` — whatever
the configurations of the nodes are —, two granted real-vote responses in the transport with the same
sender and the same term have the same addressee. -/
theorem C06_cluster_one_vote_per_term (h : List Sys) (hh : History h) (s : Sys) (hs : s ∈ h)
    (g g' : Message) (hg : g ∈ s.net) (hg' : g' ∈ s.net)
    (ht : g.msgType = .msgRequestVoteResponse) (ht' : g'.msgType = .msgRequestVoteResponse)
    (hr : g.reject = false) (hr' : g'.reject = false)
    (hfrm : g.frm = g'.frm) (hterm : g.term = g'.term) : g.to = g'.to := by
  have hinv := (hist_all hh).1 s hs
  have hrv : isRVm g = true := by unfold isRVm; simp [ht, hr]
  have hrv' : isRVm g' = true := by unfold isRVm; simp [ht', hr']
  obtain ⟨st, hn, _, _⟩ := hinv.net g hg hrv
  have := hinv.once g.frm st hn g g' (Or.inl hg) (Or.inl hg') hrv hrv' rfl hfrm.symm hterm
  rw [tgt_resp ht, tgt_resp ht'] at this
  exact this

/-! ### durability of a grant -/

/-- **C06 `cluster_grant_durable`.**  A granted vote response `j → i` of term `t` in the transport of
the `n`-th state of a history implies that, in that state and in every later one (`n ≤ n'`), node `j`
exists and both its **stored** hard state and its in-memory state hold `term > t`, or `term = t` and
`vote = i` (the promise survives every crash: persist-before-send). -/
theorem C06_cluster_grant_durable (h : List Sys) (hh : History h) (n n' : Nat) (s s' : Sys)
    (hn : h[n]? = some s) (hn' : h[n']? = some s') (hle : n ≤ n')
    (g : Message) (hg : g ∈ s.net) (ht : g.msgType = .msgRequestVoteResponse)
    (hr : g.reject = false) :
    ∃ st', s'.node g.frm = some st' ∧
      (g.term < st'.raft.raftLog.store.hardState.term ∨
        (st'.raft.raftLog.store.hardState.term = g.term ∧
          st'.raft.raftLog.store.hardState.vote = g.to)) ∧
      (g.term < st'.raft.term ∨ (st'.raft.term = g.term ∧ st'.raft.vote = g.to)) := by
  obtain ⟨all1, _, all3⟩ := hist_all hh
  have hsteps := all3 n n' s s' hle hn hn'
  have hg' := steps_net hsteps g hg
  have hrv : isRVm g = true := by unfold isRVm; simp [ht, hr]
  obtain ⟨st', h1, h2, h3⟩ := (all1 s' (List.mem_of_getElem? hn')).net g hg' hrv
  refine ⟨st', h1, ?_, ?_⟩
  · have := h3; unfold GeS at this; rw [tgt_resp ht] at this; exact this
  · have := h2.2.2.2.1; unfold Ge at this; rw [tgt_resp ht] at this; exact this

/-! ### the `(term, vote)` discipline of a step -/

/-- `(t, v) ⊑ (t', v')`: a later term, or the same term with the vote kept or cast -/
def LexLe (t v t' v' : Nat) : Prop := t < t' ∨ (t' = t ∧ (v' = v ∨ v = 0))

/-- node `k` is restarted from its own storage in this step -/
def IsRestart (k : Nat) (s s' : Sys) : Prop :=
  ∃ st st' c rnd, s.node k = some st ∧ c.id = k ∧
    Node.boot c st.raft.raftLog.store rnd = .ok (.ok st') ∧ s' = s.setNode k st'

/-- **C06 `cluster_step_term_vote`** (the per-step form of `cluster_term_monotone`).  In every step
of `ClusterSem`, every node `k` is still there, and

* **in memory** its `(term, vote)` does not decrease lexicographically (`LexLe`: the term rises, or
  it is kept and the vote is kept or goes from 0 to a value) — unless the step is a restart of `k`, in
  which case the in-memory pair becomes the stored one;
* **in the storage** the pair is unchanged, or becomes the current in-memory pair (`stabilize`), or
  its term is raised with the vote kept (`persist_snap` of a snapshot whose term is later than the
  stored one: `MemStorage::apply_snapshot` writes `max(term, snapshot term)`). -/
theorem C06_cluster_step_term_vote (s s' : Sys) (hstep : Step s s') (k : Nat) (st : NState)
    (hn : s.node k = some st) :
    ∃ st', s'.node k = some st' ∧
      (LexLe st.raft.term st.raft.vote st'.raft.term st'.raft.vote ∨
        (IsRestart k s s' ∧ st'.raft.term = st.raft.raftLog.store.hardState.term ∧
          st'.raft.vote = st.raft.raftLog.store.hardState.vote)) ∧
      HsRel st.raft st'.raft := by
  have hsame : ∀ (i : Nat) (sti : NState), k ≠ i → ∃ st', (s.setNode i sti).node k = some st' ∧
      (LexLe st.raft.term st.raft.vote st'.raft.term st'.raft.vote ∨
        (IsRestart k s (s.setNode i sti) ∧ st'.raft.term = st.raft.raftLog.store.hardState.term ∧
          st'.raft.vote = st.raft.raftLog.store.hardState.vote)) ∧
      HsRel st.raft st'.raft := by
    intro i sti hki
    refine ⟨st, by rw [node_setNode_ne s i k sti hki]; exact hn, Or.inl (Or.inr ⟨rfl, Or.inl rfl⟩),
      Or.inl ⟨rfl, rfl⟩⟩
  have hcall : ∀ (i : Nat) (sti sti' : NState) (m : Message), s.node i = some sti →
      NStep sti.raft m sti'.raft → ∃ st', (s.setNode i sti').node k = some st' ∧
      (LexLe st.raft.term st.raft.vote st'.raft.term st'.raft.vote ∨
        (IsRestart k s (s.setNode i sti') ∧ st'.raft.term = st.raft.raftLog.store.hardState.term ∧
          st'.raft.vote = st.raft.raftLog.store.hardState.vote)) ∧
      HsRel st.raft st'.raft := by
    intro i sti sti' m hni hns
    by_cases hki : k = i
    · subst hki
      rw [hn] at hni; cases hni
      exact ⟨sti', node_setNode_self s k sti', Or.inl hns.tv, hns.hs⟩
    · exact hsame i sti' hki
  cases hstep with
  | call i sti sti' rnd op res hni hop hc => exact hcall i sti sti' _ hni (call_nstep _ _ _ _ _ hc)
  | deliver i sti sti' rnd m res hni hm hto hc =>
    exact hcall i sti sti' _ hni (call_nstep _ _ _ _ _ hc)
  | send i sti sti' hni hp hc =>
    obtain ⟨hcore, _⟩ := drain_eq sti sti' hc
    have hnode : ({ (s.setNode i sti') with net := s.net ++ sti.raft.msgs } : Sys).node k =
        (s.setNode i sti').node k := rfl
    rw [hnode]
    by_cases hki : k = i
    · subst hki
      rw [hn] at hni; cases hni
      have e1 : sti'.raft.term = st.raft.term := congrArg NCore.term hcore
      have e2 : sti'.raft.vote = st.raft.vote := congrArg NCore.vote hcore
      have e8 : sti'.raft.raftLog.store.hardState = st.raft.raftLog.store.hardState :=
        congrArg NCore.hs hcore
      exact ⟨sti', node_setNode_self s k sti', Or.inl (Or.inr ⟨e1, Or.inl e2⟩),
        Or.inl ⟨by rw [e8], by rw [e8]⟩⟩
    · refine ⟨st, by rw [node_setNode_ne s i k sti' hki]; exact hn, Or.inl (Or.inr ⟨rfl, Or.inl rfl⟩),
        Or.inl ⟨rfl, rfl⟩⟩
  | restart i sti sti' c rnd hni hci hb =>
    by_cases hki : k = i
    · subst hki
      rw [hn] at hni; cases hni
      have hbt := boot_booted c _ rnd sti' hb
      exact ⟨sti', node_setNode_self s k sti',
        Or.inr ⟨⟨st, sti', c, rnd, hn, hci, hb, rfl⟩, hbt.term, hbt.vote⟩,
        Or.inl ⟨by rw [hbt.hs], by rw [hbt.hs]⟩⟩
    · exact hsame i sti' hki

/-- the storage part in the order `LexLe`: the stored pair does not decrease in a step whenever it
is not ahead of the in-memory pair before the step.  (It *can* be ahead — after `persist_snap` of a
snapshot whose term is later than the node's term — and the next `stabilize` then writes the smaller
in-memory pair: see the report; no promise is lost by that, `C06_cluster_promise_stable`.) -/
theorem C06_cluster_step_storage_monotone (s s' : Sys) (hstep : Step s s') (k : Nat)
    (st st' : NState) (hn : s.node k = some st) (hn' : s'.node k = some st')
    (hle : LexLe st.raft.raftLog.store.hardState.term st.raft.raftLog.store.hardState.vote
      st.raft.term st.raft.vote) :
    LexLe st.raft.raftLog.store.hardState.term st.raft.raftLog.store.hardState.vote
      st'.raft.raftLog.store.hardState.term st'.raft.raftLog.store.hardState.vote := by
  obtain ⟨st2, h1, _, h3⟩ := C06_cluster_step_term_vote s s' hstep k st hn
  rw [hn'] at h1; cases h1
  rcases h3 with ⟨e1, e2⟩ | ⟨e1, e2, e3, e4⟩ | ⟨e1, e2⟩
  · exact Or.inr ⟨e1, Or.inl e2⟩
  · rw [e1, e2, e3, e4]; exact hle
  · exact Or.inl e1

/-- a promise `(t, v)` (`v ≠ 0`) held by node `k` both in memory and in the storage -/
def Promised (s : Sys) (k t v : Nat) : Prop :=
  ∃ st, s.node k = some st ∧ Ge st.raft t v ∧ GeS st t v

theorem promised_step {s s' : Sys} (hstep : Step s s') {k t v : Nat} (hv : v ≠ 0)
    (hp : Promised s k t v) : Promised s' k t v := by
  obtain ⟨st, hn, h1, h2⟩ := hp
  obtain ⟨st', hn', hm, hs⟩ := C06_cluster_step_term_vote s s' hstep k st hn
  have hge : Ge st'.raft t v := by
    rcases hm with g | ⟨_, g1, g2⟩
    · exact Ge.mono h1 hv g
    · unfold Ge; rw [g1, g2]; exact h2
  exact ⟨st', hn', hge, GeS.mono h2 hs hge⟩

/-- **C06 `cluster_promise_stable`** (the history form of `cluster_term_monotone`).  Once node `k`
holds `term > t ∨ (term = t ∧ vote = v)` (`v ≠ 0`) both in memory and in its storage, it does so in
every later state of the history — across every call, `stabilize`, `persist_snap`, and restart. -/
theorem C06_cluster_promise_stable (h : List Sys) (hh : History h) (n n' : Nat) (s s' : Sys)
    (hn : h[n]? = some s) (hn' : h[n']? = some s') (hle : n ≤ n') (k t v : Nat) (hv : v ≠ 0)
    (hp : Promised s k t v) : Promised s' k t v := by
  have hsteps := (hist_all hh).2.2 n n' s s' hle hn hn'
  have key : ∀ a b, Steps a b → Promised a k t v → Promised b k t v := by
    intro a b hab
    induction hab with
    | refl => exact id
    | tail b c _ hs ih => exact fun hp => promised_step hs hv (ih hp)
  exact key s s' hsteps hp

theorem LexLe.refl (t v : Nat) : LexLe t v t v := Or.inr ⟨rfl, Or.inl rfl⟩

theorem LexLe.trans {t1 v1 t2 v2 t3 v3 : Nat} (h1 : LexLe t1 v1 t2 v2) (h2 : LexLe t2 v2 t3 v3) :
    LexLe t1 v1 t3 v3 := by
  unfold LexLe at *
  rcases h1 with h1 | ⟨h1, h1'⟩ <;> rcases h2 with h2 | ⟨h2, h2'⟩
  · left; omega
  · left; omega
  · left; omega
  · right
    refine ⟨h2.trans h1, ?_⟩
    rcases h1' with e | e
    · rcases h2' with f | f
      · exact Or.inl (f.trans e)
      · right; rw [← e]; exact f
    · exact Or.inr e

/-- **C06 `cluster_term_monotone`.**  Along a history, between the `n`-th and the `n'`-th state
(`n ≤ n'`) with no restart of node `k` in between, the in-memory `(term, vote)` of node `k` does not
decrease lexicographically: the term does not decrease, and while it stays the same the vote is kept
or goes from 0 to a value.  (For the stored pair see `C06_cluster_step_term_vote`,
`C06_cluster_step_storage_monotone`, `C06_cluster_promise_stable`.) -/
theorem C06_cluster_term_monotone (h : List Sys) (hh : History h) (k : Nat) :
    ∀ (d n : Nat) (s s' : Sys) (st st' : NState), h[n]? = some s → h[n + d]? = some s' →
      (∀ m a b, n ≤ m → m < n + d → h[m]? = some a → h[m + 1]? = some b → ¬ IsRestart k a b) →
      s.node k = some st → s'.node k = some st' →
      st.raft.term ≤ st'.raft.term ∧
      LexLe st.raft.term st.raft.vote st'.raft.term st'.raft.vote := by
  have hle_of : ∀ {t v t' v' : Nat}, LexLe t v t' v' → t ≤ t' := by
    intro t v t' v' hl
    rcases hl with g | ⟨g, _⟩ <;> omega
  intro d
  induction d with
  | zero =>
    intro n s s' st st' hn hn' _ hk hk'
    rw [Nat.add_zero, hn] at hn'
    cases hn'
    rw [hk] at hk'; cases hk'
    exact ⟨Nat.le_refl _, LexLe.refl _ _⟩
  | succ d ih =>
    intro n s s' st st' hn hn' hnr hk hk'
    -- the state before the last one
    have hlt : n + d < h.length := by
      have := (List.getElem?_eq_some_iff.1 hn').1
      omega
    obtain ⟨a, ha⟩ : ∃ a, h[n + d]? = some a := ⟨h[n + d], List.getElem?_eq_getElem hlt⟩
    have hsteps := (hist_all hh).2.2 n (n + d) s a (by omega) hn ha
    have hka : ∃ sta, a.node k = some sta := by
      have key : ∀ x y, Steps x y → (∃ stx, x.node k = some stx) → ∃ sty, y.node k = some sty := by
        intro x y hxy
        induction hxy with
        | refl => exact id
        | tail b c _ hs ih2 =>
          intro hx
          obtain ⟨stb, hb⟩ := ih2 hx
          exact step_node_some hs k stb hb
      exact key s a hsteps ⟨st, hk⟩
    obtain ⟨sta, hka⟩ := hka
    have h1 := ih n s a st sta hn ha
      (fun m x y h1 h2 h3 h4 => hnr m x y h1 (by omega) h3 h4) hk hka
    have hstep := hist_step_at hh (n + d) a s' ha (by rw [← Nat.add_assoc] at hn'; exact hn')
    obtain ⟨st2, e1, e2, _⟩ := C06_cluster_step_term_vote a s' hstep k sta hka
    rw [hk'] at e1; cases e1
    have hnr' := hnr (n + d) a s' (by omega) (by omega) ha
      (by rw [← Nat.add_assoc] at hn'; exact hn')
    have h2 : LexLe sta.raft.term sta.raft.vote st'.raft.term st'.raft.vote :=
      e2.resolve_right (fun hc => hnr' hc.1)
    have h3 := h1.2.trans h2
    exact ⟨hle_of h3, h3⟩

/-! ### Election Safety -/

theorem countP_eq_le_one (i : Nat) : ∀ vs : List Nat, vs.Nodup → vs.countP (fun v => v == i) ≤ 1 := by
  intro vs
  induction vs with
  | nil => intro _; simp
  | cons v rest ih =>
    intro hnd
    rw [List.nodup_cons] at hnd
    rw [List.countP_cons]
    by_cases hvi : v = i
    · subst hvi
      have : rest.countP (fun x => x == v) = 0 := by
        rw [List.countP_eq_zero]
        intro x hx
        have : x ≠ v := fun e => hnd.1 (e ▸ hx)
        simpa using this
      simp [this]
    · have : (v == i) = false := by simpa using hvi
      simp only [this]
      have := ih hnd.2
      simp
      exact this

/-- a quorum inside `{i}` of a duplicate-free voter list: `i` is the only voter -/
theorem lone_quorum_only_voter (vs Q : List Nat) (i j : Nat) (hnd : vs.Nodup) (hq : IsQuorum vs Q)
    (hQ : ∀ k ∈ Q, k = i) (hj : j ∈ vs) : j = i := by
  unfold IsQuorum at hq
  have h1 : vs.countP (fun v => decide (v ∈ Q)) ≤ vs.countP (fun v => v == i) := by
    apply List.countP_mono_left
    intro v _ hv
    have : v ∈ Q := by simpa using hv
    simpa using hQ v this
  have h2 := countP_eq_le_one i vs hnd
  have hlen : vs.length ≤ 1 := by
    unfold majority at hq; omega
  have hpos : 0 < vs.countP (fun v => decide (v ∈ Q)) := by
    have := majority_pos vs.length; omega
  obtain ⟨v, hv, hvq⟩ := List.countP_pos_iff.1 hpos
  have hvq' : v ∈ Q := by simpa using hvq
  have hvi := hQ v hvq'
  match vs, hlen, hj, hv with
  | [x], _, hj, hv =>
    simp only [List.mem_singleton] at hj hv
    rw [hj, ← hv, hvi]

theorem lone_joint_quorum_only_voter (cfg : JointConfig) (Q : List Nat) (i j : Nat)
    (hnd1 : cfg.incoming.Nodup) (hnd2 : cfg.outgoing.Nodup) (hq : IsJointQuorum cfg Q)
    (hQ : ∀ k ∈ Q, k = i) (hj : Joint.contains cfg j = true) : j = i := by
  unfold Joint.contains at hj
  simp only [Bool.or_eq_true, List.contains_eq_mem, decide_eq_true_eq] at hj
  rcases hj with g | g
  · exact lone_quorum_only_voter _ Q i j hnd1 (hq.1 (List.ne_nil_of_mem g)) hQ g
  · exact lone_quorum_only_voter _ Q i j hnd2 (hq.2 (List.ne_nil_of_mem g)) hQ g

/-- a leader `i` of term `t` (quorum `Q` backed in the transport) and a grant `i → j` of term `t` in
the transport, `j` a voter: `j = i` -/
theorem leader_grants_itself (cfg : JointConfig) (hnd1 : cfg.incoming.Nodup)
    (hnd2 : cfg.outgoing.Nodup) (s : Sys) (hinv : Inv1 s) (Q : List Nat) (i j t : Nat)
    (hq : IsJointQuorum cfg Q) (hQ : ∀ k ∈ Q, k = i ∨ Grant s.net k i t)
    (hg : Grant s.net i j t) (hjv : Joint.contains cfg j = true) : i = j := by
  by_cases hlone : ∀ k ∈ Q, k = i
  · exact (lone_joint_quorum_only_voter cfg Q i j hnd1 hnd2 hq hlone hjv).symm
  · -- somebody else granted `i`: the request of `i` for term `t` is in the transport
    have hex : ∃ k, k ∈ Q ∧ k ≠ i := by
      apply Classical.byContradiction
      intro hc
      apply hlone
      intro k hk
      apply Classical.byContradiction
      intro hne
      exact hc ⟨k, hk, hne⟩
    obtain ⟨k, hk, hki⟩ := hex
    obtain ⟨g1, m1, t1, r1, f1, to1, tm1⟩ := (hQ k hk).resolve_left hki
    have hrv1 : isRVm g1 = true := by unfold isRVm; simp [t1, r1]
    obtain ⟨_, _, hok1, _⟩ := hinv.net g1 m1 hrv1
    obtain ⟨q, mq, tq, fq, tmq⟩ := hok1.2.2.2.2 t1
    -- the request `q` of `i` and the grant `g2 : i → j`, both of term `t`
    obtain ⟨g2, m2, t2, r2, f2, to2, tm2⟩ := hg
    have hrvq : isRVm q = true := by unfold isRVm; simp [tq]
    have hrv2 : isRVm g2 = true := by unfold isRVm; simp [t2, r2]
    have hqi : q.frm = i := by rw [fq, to1]
    obtain ⟨sti, hni, _, _⟩ := hinv.net q mq hrvq
    rw [hqi] at hni
    have := hinv.once i sti hni q g2 (Or.inl mq) (Or.inl m2) hrvq hrv2 hqi f2
      (by rw [tmq, tm1, tm2])
    rw [tgt_req tq, tgt_resp t2, hqi, to2] at this
    exact this

/-- two leaders of one term, seen in two states whose transports are both contained in that of `s` -/
theorem two_leaders_core (cfg : JointConfig) (hne : cfg.incoming ≠ []) (hnd1 : cfg.incoming.Nodup)
    (hnd2 : cfg.outgoing.Nodup) (sa sb s : Sys) (hinv : Inv1 s) (ha : Inv2 cfg sa) (hb : Inv2 cfg sb)
    (hsa : ∀ x ∈ sa.net, x ∈ s.net) (hsb : ∀ x ∈ sb.net, x ∈ s.net) (i j t : Nat)
    (hi : leads sa i t) (hj : leads sb j t) : i = j := by
  obtain ⟨sti, hni, hli, hti⟩ := hi
  obtain ⟨stj, hnj, hlj, htj⟩ := hj
  obtain ⟨Q, q1, q2⟩ := ha.lead i sti hni hli
  obtain ⟨Q', q1', q2'⟩ := hb.lead j stj hnj hlj
  rw [hti] at q2; rw [htj] at q2'
  have hQ : ∀ k ∈ Q, k = i ∨ Grant s.net k i t := fun k hk => (q2 k hk).imp id (fun g => g.mono hsa)
  have hQ' : ∀ k ∈ Q', k = j ∨ Grant s.net k j t := fun k hk => (q2' k hk).imp id (fun g => g.mono hsb)
  have hiv : Joint.contains cfg i = true := ha.nonfol i sti hni (by rw [hli]; decide)
  have hjv : Joint.contains cfg j = true := hb.nonfol j stj hnj (by rw [hlj]; decide)
  obtain ⟨k, _, hk, hk'⟩ := joint_quorums_intersect cfg Q Q' (Or.inl hne) q1 q1'
  rcases hQ k hk with e | g <;> rcases hQ' k hk' with e' | g'
  · exact e.symm.trans e'
  · subst e
    exact leader_grants_itself cfg hnd1 hnd2 s hinv Q k j t q1 hQ g' hjv
  · subst e'
    exact (leader_grants_itself cfg hnd1 hnd2 s hinv Q' k i t q1' hQ' g hiv).symm
  · obtain ⟨g1, m1, t1, r1, f1, to1, tm1⟩ := g
    obtain ⟨g2, m2, t2, r2, f2, to2, tm2⟩ := g'
    have hrv1 : isRVm g1 = true := by unfold isRVm; simp [t1, r1]
    have hrv2 : isRVm g2 = true := by unfold isRVm; simp [t2, r2]
    obtain ⟨stk, hnk, _, _⟩ := hinv.net g1 m1 hrv1
    rw [f1] at hnk
    have := hinv.once k stk hnk g1 g2 (Or.inl m1) (Or.inl m2) hrv1 hrv2 f1 f2 (by rw [tm1, tm2])
    rw [tgt_resp t1, tgt_resp t2, to1, to2] at this
    exact this

/-- **C02 `cluster_leader_has_quorum`** (the invariant behind election safety).  In every state of a
history with the fixed voter configuration `cfg`, a node `i` in the leader role for term `t` is a voter
of `cfg`, and there is a joint quorum `Q` of `cfg` each member of which is `i` itself or has a granted
real-vote response `→ i` of term `t` **in the transport** (hence, by `C06_cluster_grant_durable`, a
persisted promise). -/
theorem C02_cluster_leader_has_quorum (cfg : JointConfig) (h : List Sys) (hh : History h)
    (hfix : ∀ s ∈ h, FixedCfg cfg s) (s : Sys) (hs : s ∈ h) (i t : Nat) (hi : leads s i t) :
    Joint.contains cfg i = true ∧
    ∃ Q, IsJointQuorum cfg Q ∧ ∀ j ∈ Q, j = i ∨
      ∃ g ∈ s.net, g.msgType = .msgRequestVoteResponse ∧ g.reject = false ∧ g.frm = j ∧ g.to = i ∧
        g.term = t := by
  obtain ⟨st, hn, hl, ht⟩ := hi
  have hinv := (hist_all hh).2.1 cfg hfix s hs
  refine ⟨hinv.nonfol i st hn (by rw [hl]; decide), ?_⟩
  obtain ⟨Q, q1, q2⟩ := hinv.lead i st hn hl
  rw [ht] at q2
  exact ⟨Q, q1, q2⟩

/-- **C02 `cluster_election_safety`.**  For every history of `ClusterSem` all of whose states have
the voter configuration `cfg` (a joint configuration with duplicate-free halves, the incoming half
non-empty): if node `i` is in the leader role for term `t` in some state of the history and node `j`
is in the leader role for term `t` in some (other, earlier or later) state of the same history, then
`i = j` — across crashes and restarts, message loss / duplication / reordering, and every behaviour
of the applications that `Step` allows. -/
theorem C02_cluster_election_safety (cfg : JointConfig) (hne : cfg.incoming ≠ [])
    (hnd1 : cfg.incoming.Nodup) (hnd2 : cfg.outgoing.Nodup)
    (h : List Sys) (hh : History h) (hfix : ∀ s ∈ h, FixedCfg cfg s)
    (s1 s2 : Sys) (h1 : s1 ∈ h) (h2 : s2 ∈ h) (i j t : Nat)
    (hi : leads s1 i t) (hj : leads s2 j t) : i = j := by
  obtain ⟨all1, all2, all3⟩ := hist_all hh
  obtain ⟨n1, hn1⟩ := List.mem_iff_getElem?.1 h1
  obtain ⟨n2, hn2⟩ := List.mem_iff_getElem?.1 h2
  have ha := all2 cfg hfix s1 h1
  have hb := all2 cfg hfix s2 h2
  by_cases hle : n1 ≤ n2
  · have hst := all3 n1 n2 s1 s2 hle hn1 hn2
    exact two_leaders_core cfg hne hnd1 hnd2 s1 s2 s2 (all1 s2 h2) ha hb (steps_net hst)
      (fun _ hx => hx) i j t hi hj
  · have hst := all3 n2 n1 s2 s1 (by omega) hn2 hn1
    exact two_leaders_core cfg hne hnd1 hnd2 s1 s2 s1 (all1 s1 h1) ha hb (fun _ hx => hx)
      (steps_net hst) i j t hi hj

/-! ### Non-vacuity: a concrete 3-node cluster that elects a leader (kernel-evaluated) -/

section Examples

/-- storage of the example nodes: empty log, voters 1, 2, 3 -/
def c02x_store : MemStorage := { confState := { voters := [1, 2, 3] } }
def c02x_config (i : Nat) : Config := { id := i, electionTick := 10, heartbeatTick := 1 }
def c02x_cfg : JointConfig := { incoming := [1, 2, 3], outgoing := [] }
/-- `RawNode::new` of node `i` -/
def c02x_boot (i : Nat) : NState :=
  match Node.boot (c02x_config i) c02x_store none with
  | .ok (.ok st) => st
  | _ => default
def c02x_st (x : Out) : NState := match x with | .ok (_, st) => st | _ => default
def c02x_res (x : Out) : OpRes := match x with | .ok (r, _) => r | _ => default
def c02x_ok (x : Out) : Bool := match x with | .ok _ => true | _ => false
theorem c02x_out (x : Out) (h : c02x_ok x = true) : x = .ok (c02x_res x, c02x_st x) := by
  cases x with
  | ok p => rfl
  | err e => cases h
  | panic s => cases h
def c02x_fixed (s : Sys) : Bool := s.nodes.all (fun p => decide (p.2.raft.prs.voters = c02x_cfg))
theorem c02x_fixed_ok (s : Sys) (h : c02x_fixed s = true) : FixedCfg c02x_cfg s := by
  intro i st hn
  have hm := c02_lookup_mem s.nodes i st hn
  unfold c02x_fixed at h
  rw [List.all_eq_true] at h
  simpa using h _ hm

/-- node 1 campaigns, persists term 1 / vote 1, and sends its two vote requests -/
def c02x_a1 := c02x_st (Node.call (c02x_boot 1) none .campaign)
def c02x_a2 := c02x_st (Node.call c02x_a1 none .stabilize)
def c02x_a3 := c02x_st (Node.call c02x_a2 none .drain)
def c02x_req := c02x_a2.raft.msgs.head!
/-- node 2 is offered the request, grants, persists term 1 / vote 1, sends the response -/
def c02x_b1 := c02x_st (Node.call (c02x_boot 2) none (.step c02x_req))
def c02x_b2 := c02x_st (Node.call c02x_b1 none .stabilize)
def c02x_b3 := c02x_st (Node.call c02x_b2 none .drain)
def c02x_resp := c02x_b2.raft.msgs.head!
/-- node 1 is offered the response: leader of term 1 -/
def c02x_a4 := c02x_st (Node.call c02x_a3 none (.step c02x_resp))

def c02x_s0 : Sys := { nodes := [(1, c02x_boot 1), (2, c02x_boot 2), (3, c02x_boot 3)], net := [] }
def c02x_s1 : Sys := c02x_s0.setNode 1 c02x_a1
def c02x_s2 : Sys := c02x_s1.setNode 1 c02x_a2
def c02x_s3 : Sys := { (c02x_s2.setNode 1 c02x_a3) with net := c02x_s2.net ++ c02x_a2.raft.msgs }
def c02x_s4 : Sys := c02x_s3.setNode 2 c02x_b1
def c02x_s5 : Sys := c02x_s4.setNode 2 c02x_b2
def c02x_s6 : Sys := { (c02x_s5.setNode 2 c02x_b3) with net := c02x_s5.net ++ c02x_b2.raft.msgs }
def c02x_s7 : Sys := c02x_s6.setNode 1 c02x_a4

theorem c02x_head_mem (l : List Message) (h : l ≠ []) : l.head! ∈ l := by
  cases l with
  | nil => exact absurd rfl h
  | cons a t => exact List.mem_cons_self

set_option maxRecDepth 100000 in
theorem c02x_init : Init c02x_s0 := by
  refine ⟨rfl, ?_⟩
  intro i st hn
  have hm := c02_lookup_mem _ i st hn
  simp only [c02x_s0, List.mem_cons, Prod.mk.injEq, List.not_mem_nil, or_false] at hm
  have hb : ∀ k, c02x_ok (match Node.boot (c02x_config k) c02x_store none with
      | .ok (.ok st) => (.ok (.ok, st) : Out) | _ => .panic "") = true →
      Node.boot (c02x_config k) c02x_store none = .ok (.ok (c02x_boot k)) := by
    intro k hk
    unfold c02x_boot
    split at hk
    · rename_i st heq; rw [heq]
    · cases hk
  rcases hm with ⟨rfl, rfl⟩ | ⟨rfl, rfl⟩ | ⟨rfl, rfl⟩
  · exact ⟨c02x_config 1, c02x_store, none, rfl, hb 1 (by decide)⟩
  · exact ⟨c02x_config 2, c02x_store, none, rfl, hb 2 (by decide)⟩
  · exact ⟨c02x_config 3, c02x_store, none, rfl, hb 3 (by decide)⟩

set_option maxRecDepth 100000 in
theorem c02x_steps :
    Step c02x_s0 c02x_s1 ∧ Step c02x_s1 c02x_s2 ∧ Step c02x_s2 c02x_s3 ∧ Step c02x_s3 c02x_s4 ∧
    Step c02x_s4 c02x_s5 ∧ Step c02x_s5 c02x_s6 ∧ Step c02x_s6 c02x_s7 := by
  refine ⟨?_, ?_, ?_, ?_, ?_, ?_, ?_⟩
  · exact Step.call _ 1 (c02x_boot 1) c02x_a1 none .campaign _ rfl rfl (c02x_out _ (by decide))
  · exact Step.call _ 1 c02x_a1 c02x_a2 none .stabilize _ rfl rfl (c02x_out _ (by decide))
  · exact Step.send _ 1 c02x_a2 c02x_a3 rfl ⟨by decide, by decide⟩ rfl
  · exact Step.deliver _ 2 (c02x_boot 2) c02x_b1 none c02x_req _ rfl
      (c02x_head_mem _ (by decide)) (by decide) (c02x_out _ (by decide))
  · exact Step.call _ 2 c02x_b1 c02x_b2 none .stabilize _ rfl rfl (c02x_out _ (by decide))
  · exact Step.send _ 2 c02x_b2 c02x_b3 rfl ⟨by decide, by decide⟩ rfl
  · exact Step.deliver _ 1 c02x_a3 c02x_a4 none c02x_resp _ rfl
      (List.mem_append_right _ (c02x_head_mem _ (by decide))) (by decide) (c02x_out _ (by decide))


/-- the history `s0 … s7`: boot; node 1 campaigns, persists, sends; node 2 is offered the request,
grants, persists, sends; node 1 is offered the response -/
def c02x_hist : List Sys :=
  [c02x_s0, c02x_s1, c02x_s2, c02x_s3, c02x_s4, c02x_s5, c02x_s6, c02x_s7]

theorem c02x_history : History c02x_hist := by
  obtain ⟨k1, k2, k3, k4, k5, k6, k7⟩ := c02x_steps
  have h0 : History [c02x_s0] := History.init _ c02x_init
  have h1 : History [c02x_s0, c02x_s1] := History.step [] _ _ h0 k1
  have h2 : History [c02x_s0, c02x_s1, c02x_s2] := History.step [c02x_s0] _ _ h1 k2
  have h3 : History [c02x_s0, c02x_s1, c02x_s2, c02x_s3] :=
    History.step [c02x_s0, c02x_s1] _ _ h2 k3
  have h4 : History [c02x_s0, c02x_s1, c02x_s2, c02x_s3, c02x_s4] :=
    History.step [c02x_s0, c02x_s1, c02x_s2] _ _ h3 k4
  have h5 : History [c02x_s0, c02x_s1, c02x_s2, c02x_s3, c02x_s4, c02x_s5] :=
    History.step [c02x_s0, c02x_s1, c02x_s2, c02x_s3] _ _ h4 k5
  have h6 : History [c02x_s0, c02x_s1, c02x_s2, c02x_s3, c02x_s4, c02x_s5, c02x_s6] :=
    History.step [c02x_s0, c02x_s1, c02x_s2, c02x_s3, c02x_s4] _ _ h5 k6
  exact History.step [c02x_s0, c02x_s1, c02x_s2, c02x_s3, c02x_s4, c02x_s5] _ _ h6 k7

set_option maxRecDepth 100000 in
theorem c02x_fixed_all : ∀ s ∈ c02x_hist, FixedCfg c02x_cfg s := by
  intro s hs
  simp only [c02x_hist, List.mem_cons, List.not_mem_nil, or_false] at hs
  rcases hs with rfl | rfl | rfl | rfl | rfl | rfl | rfl | rfl <;>
    exact c02x_fixed_ok _ (by decide)

set_option maxRecDepth 100000 in
/-- **non-vacuity of `C02_cluster_election_safety`**: there is a history of `ClusterSem` over three
nodes, all of whose states have the voter configuration `{1, 2, 3}` (duplicate-free, non-empty), that
starts in an `Init` state with an empty transport and in whose last state node 1 is leader of term 1,
elected by the granted response of node 2 that the transport carries. -/
theorem C02_cluster_nonvacuous :
    ∃ h : List Sys, History h ∧ (∀ s ∈ h, FixedCfg c02x_cfg s) ∧
      c02x_cfg.incoming ≠ [] ∧ c02x_cfg.incoming.Nodup ∧ c02x_cfg.outgoing.Nodup ∧
      (∃ s ∈ h, leads s 1 1) ∧
      (∃ s ∈ h, ∃ g ∈ s.net, g.msgType = .msgRequestVoteResponse ∧ g.reject = false ∧
        g.frm = 2 ∧ g.to = 1 ∧ g.term = 1) :=
  ⟨c02x_hist, c02x_history, c02x_fixed_all, by decide, by decide, by decide,
    ⟨c02x_s7, by simp [c02x_hist], c02x_a4, rfl, by decide, by decide⟩,
    ⟨c02x_s7, by simp [c02x_hist], c02x_resp,
      List.mem_append_right _ (c02x_head_mem _ (by decide)), by decide, by decide, by decide,
      by decide, by decide⟩⟩

/-- … and the theorem applies to it: whoever leads term 1 anywhere in this history is node 1 -/
example (s : Sys) (hs : s ∈ c02x_hist) (j : Nat) (hj : leads s j 1) : j = 1 :=
  (C02_cluster_election_safety c02x_cfg (by decide) (by decide) (by decide) c02x_hist c02x_history
    c02x_fixed_all c02x_s7 s (by simp [c02x_hist]) hs 1 j 1
    ⟨c02x_a4, rfl, by decide, by decide⟩ hj).symm

/-! ### The stored pair is not monotone: `persist_snap` of a snapshot of a later term, then `stabilize` -/

/-- a follower of term 2 that voted for node 1 (both persisted) and holds a pending snapshot of term 7
(reachable: the storage of an `Init` state is arbitrary, so a leader may ship a snapshot whose term
is later than every term of the cluster) -/
def c02x_snap7 : Snapshot := { metadata := { index := 5, term := 7, confState := { voters := [1, 2] } } }
def c02x_snapStore : MemStorage := { hardState := { term := 2, vote := 1 }, confState := { voters := [1, 2] } }
def c02x_snapLog : RaftLog :=
  { store := c02x_snapStore, unstable := { snapshot := some c02x_snap7, offset := 6 }, committed := 5,
    persisted := 0, applied := 0, maxApplyUnpersistedLogLimit := 0 }
def c02x_snapNode : NState :=
  { raft := { id := 2, term := 2, vote := 1, raftLog := c02x_snapLog }, appCs := { voters := [1, 2] } }

set_option maxRecDepth 100000 in
/-- `persist_snap` raises the *stored* term to the snapshot's term 7 and keeps the stored vote 1
(`MemStorage::apply_snapshot`: `term = max(term, snapshot term)`), the in-memory pair stays `(2, 1)`;
the next `stabilize` writes `(2, 1)` back: the stored pair went `(2, 1) → (7, 1) → (2, 1)`. -/
example :
    let p1 := c02x_st (Node.call c02x_snapNode none .persistSnap)
    let p2 := c02x_st (Node.call p1 none .stabilize)
    c02x_ok (Node.call c02x_snapNode none .persistSnap) = true ∧
    c02x_ok (Node.call p1 none .stabilize) = true ∧
    (p1.raft.raftLog.store.hardState.term, p1.raft.raftLog.store.hardState.vote) = (7, 1) ∧
    (p1.raft.term, p1.raft.vote) = (2, 1) ∧
    (p2.raft.raftLog.store.hardState.term, p2.raft.raftLog.store.hardState.vote) = (2, 1) := by
  decide

end Examples

end RaftProps.C02
