import RaftProofs.ClusterXferD
import RaftProps.C01d

/-!
# C17c — leadership transfer, cluster level (`ClusterSem`)

`RaftProps/C17.lean` proves, for ONE call on ONE node, that a leader queues a `MsgTimeoutNow` only for a
peer whose progress has `matched = last_index`.  Here the statement is lifted to every history of the
cluster semantics `RaftModel/Cluster.lean` (nodes that move only through `Node.call`, a lossy /
duplicating / reordering transport, crashes and restarts) under the hypotheses of the commit layer
(`Hyp3w`, `RaftProofs/ClusterCommit2P.lean`; the weaker `Hyp` where it suffices):

* `C17_cluster_timeout_now_target_caught_up` — every `MsgTimeoutNow` in the transport or in a queue, in
  every state of the history, was queued by its sender `L` while `L` led the message's term `t`, at a
  point `h[n0]` at which `L`'s progress for the addressee `j` had `matched = last_index`; and that
  `matched` is backed: an accepting `MsgAppendResponse` of `j` for term `t` that covers `L`'s last index
  is in the transport at `h[n0]`, `j` queued it at some `h[n1]`, `n1 ≤ n0`, in term `t` with a log that
  held **the whole of `L`'s log** (as it is at `h[n0]`), and the **storage** of `j` holds the whole of
  `L`'s log in every state in which that response is in the transport and `j`'s stored term is `t`
  (`…_storage`: in particular in the state in which the `MsgTimeoutNow` is delivered, if `j` is still in
  term `t`).  The unconditional "the storage of `j` held it at some point" is **false** for
  `ClusterSem`: a follower may acknowledge in memory, be truncated by a leader of a later term before it
  persists, and then persist and send both responses (finding of `C01c.REPORT.md`); the stale leader
  `L` then counts an acknowledgement whose entries never reached `j`'s storage —
  `C17_cluster_timeout_now_target_storage_conditional` is such a history, kernel-evaluated, under `Hyp3w`.
* `C17_cluster_timeout_now_target_caught_up_partial` — the `matched = last_index` half under the
  weaker bundle `Hyp` (no `nolone`, `shape`, `initc`, `snapt0`).
* `C17_cluster_transfer_winner_holds_committed` — Leader Completeness for the transfer: if the
  addressee of a `MsgTimeoutNow` of term `t` leads a term `t' > t` anywhere in the history, it holds
  every entry that a leader of a term `≤ t` (in particular the old leader) has committed anywhere in the
  history.
* `C17_cluster_one_leader_per_term` — Election Safety for the transfer: the old leader and the
  transferee are never both leader of the same term, and the transferee never leads the term of the
  `MsgTimeoutNow`.
* `C17_cluster_transfer_nonvacuous` — a 25-state kernel-evaluated history satisfying `Hyp3w` in which
  `transfer_leader(2)` makes leader 1 queue a `MsgTimeoutNow` for the caught-up node 2, the message is in
  the transport, node 2 campaigns on receiving it and wins term 2.

Proof: `RaftProofs/ClusterXferA.lean` (`XF.call_tn`: what one `Node.call` — every `NodeOp` — does to the
`MsgTimeoutNow`s of the queue, from `RaftProps.C17.step_tn`), `ClusterXferB.lean` (`tn_prov` by the
provenance induction of the commit layer; `matched_backed` from the invariants `MOKc`, `ack_inv`,
`ack_prov`, `Sm.a2m`, `Sm.a2s`, `ll_eq`), `ClusterXferC.lean` (the example), `ClusterXferD.lean` (the five-node history of
`C17_cluster_timeout_now_target_storage_conditional`).
-/
namespace RaftProps.C17c
open RaftModel RaftModel.Cluster RaftModel.Node RaftModel.Raft RaftModel.Raft.CC

/-- **C17 `cluster_timeout_now_target_caught_up`, the `matched = last_index` half** (under `Hyp`: a
history of `ClusterSem` with a fixed voter configuration, `KStep`s, no batching, no snapshot traffic).
In every state `h[n]`, every `MsgTimeoutNow` `x` in the transport or in some node's queue was queued by
its sender `x.from` at an earlier-or-equal point `h[n0]` at which that node was leader of term `x.term`
and its progress for `x.to` had `matched = last_index` of its log. -/
theorem C17_cluster_timeout_now_target_caught_up_partial (cfg : JointConfig) (h : List Sys)
    (H : Hyp cfg h) (n : Nat) (s : Sys) (hn : h[n]? = some s) (x : Message)
    (hx : x ∈ s.net ∨ ∃ i st, s.node i = some st ∧ x ∈ st.raft.msgs)
    (hty : x.msgType = .msgTimeoutNow) :
    ∃ (n0 : Nat) (s0 : Sys) (stL : NState) (pr : Progress), n0 ≤ n ∧ h[n0]? = some s0 ∧
      s0.node x.frm = some stL ∧ stL.raft.state = .leader ∧ stL.raft.term = x.term ∧
      stL.raft.prs.get x.to = some pr ∧ pr.matched = stL.raft.raftLog.lastIndex :=
  tn_source H hn hx hty

/-- **C17 `cluster_timeout_now_target_caught_up`** (property text: *"A leader tells a transfer target to
campaign immediately only once the target has acknowledged the leader's entire log"*).  In every state
`h[n]` of a history under `Hyp3w`, for every `MsgTimeoutNow` `x` in the transport or in a queue there is
a point `n0 ≤ n` at which `L = x.from` was leader of term `t = x.term` with `matched = last_index` for
`j = x.to`, and — unless the leader's log is empty above the common snapshot point `c0`, or `j = L` (then
`last_index ≤ persisted`) — an accepting `MsgAppendResponse` `a` of `j` for term `t` with
`index ≥ last_index` is in the transport at `h[n0]` such that

* `j` queued `a` at some `h[n1]`, `n1 ≤ n0`, being in term `t`, **with a log equal to `L`'s log (of
  `h[n0]`) at every index up to `L`'s last index** — the whole of the leader's log;
* in every state of the history whose transport holds `a` and in which the **stored** term of `j` is
  `t`, the **storage** of `j` equals `L`'s log at every index up to `L`'s last index. -/
theorem C17_cluster_timeout_now_target_caught_up (cfg : JointConfig) (c0 : Nat) (h : List Sys)
    (H : Hyp3w cfg c0 h) (n : Nat) (s : Sys) (hn : h[n]? = some s) (x : Message)
    (hx : x ∈ s.net ∨ ∃ i st, s.node i = some st ∧ x ∈ st.raft.msgs)
    (hty : x.msgType = .msgTimeoutNow) :
    ∃ (n0 : Nat) (s0 : Sys) (stL : NState) (pr : Progress), n0 ≤ n ∧ h[n0]? = some s0 ∧
      s0.node x.frm = some stL ∧ stL.raft.state = .leader ∧ stL.raft.term = x.term ∧
      stL.raft.prs.get x.to = some pr ∧ pr.matched = stL.raft.raftLog.lastIndex ∧
      (stL.raft.raftLog.lastIndex ≤ c0 ∨
       (x.to = x.frm ∧ stL.raft.raftLog.lastIndex ≤ stL.raft.raftLog.persisted) ∨
       ∃ a ∈ s0.net, a.msgType = .msgAppendResponse ∧ a.reject = false ∧ a.frm = x.to ∧
        a.term = x.term ∧ stL.raft.raftLog.lastIndex ≤ a.index ∧
        (∃ (n1 : Nat) (s1 : Sys) (stj : NState), n1 ≤ n0 ∧ h[n1]? = some s1 ∧
          s1.node x.to = some stj ∧ a ∈ stj.raft.msgs ∧ stj.raft.term = x.term ∧
          ∀ k, k ≤ stL.raft.raftLog.lastIndex →
            stj.raft.raftLog.abs.entryAt k = stL.raft.raftLog.abs.entryAt k) ∧
        (∀ (m : Nat) (s' : Sys) (stj : NState), h[m]? = some s' → a ∈ s'.net →
          s'.node x.to = some stj → stj.raft.raftLog.store.hardState.term = x.term →
          ∀ k, k ≤ stL.raft.raftLog.lastIndex →
            (storeLog stj.raft.raftLog.store).entryAt k = stL.raft.raftLog.abs.entryAt k)) := by
  obtain ⟨n0, s0, stL, pr, hle, hn0, hL, hs, ht, hg, hm⟩ :=
    tn_source H.toHyp2w.toHyp hn hx hty
  refine ⟨n0, s0, stL, pr, hle, hn0, hL, hs, ht, hg, hm, ?_⟩
  rcases matched_backed H hn0 hL hs hg hm with c | c | ⟨a, a1, a2, a3, a4, a5, a6, a7, a8⟩
  · exact .inl c
  · exact .inr (.inl c)
  · rw [ht] at a5 a7 a8
    exact .inr (.inr ⟨a, a1, a2, a3, a4, a5, a6, a7, a8⟩)

/-- … in particular **when the `MsgTimeoutNow` is delivered**: in the state `h[n]` whose transport holds
the `MsgTimeoutNow` `x` (of leader `L ≠ j`, term `t`), if the stored term of the addressee `j` is still
`t`, then the **storage** of `j` holds the whole log that `L` had when it queued `x`. -/
theorem C17_cluster_timeout_now_target_storage (cfg : JointConfig) (c0 : Nat) (h : List Sys)
    (H : Hyp3w cfg c0 h) (n : Nat) (s : Sys) (hn : h[n]? = some s) (x : Message)
    (hx : x ∈ s.net ∨ ∃ i st, s.node i = some st ∧ x ∈ st.raft.msgs)
    (hty : x.msgType = .msgTimeoutNow) (hne : x.to ≠ x.frm) :
    ∃ (n0 : Nat) (s0 : Sys) (stL : NState), n0 ≤ n ∧ h[n0]? = some s0 ∧
      s0.node x.frm = some stL ∧ stL.raft.state = .leader ∧ stL.raft.term = x.term ∧
      ∀ stj, s.node x.to = some stj → stj.raft.raftLog.store.hardState.term = x.term →
        ∀ k, k ≤ stL.raft.raftLog.lastIndex →
          (storeLog stj.raft.raftLog.store).entryAt k = stL.raft.raftLog.abs.entryAt k := by
  obtain ⟨n0, s0, stL, pr, hle, hn0, hL, hs, ht, _, _, hb⟩ :=
    C17_cluster_timeout_now_target_caught_up cfg c0 h H n s hn x hx hty
  refine ⟨n0, s0, stL, hle, hn0, hL, hs, ht, fun stj hj hst k hk => ?_⟩
  have H2 := H.toHyp2w
  rcases hb with c | ⟨c, _⟩ | ⟨a, ha, _, _, _, _, _, _, hdur⟩
  · have o1 := node_ok H2 hn hj
    have o2 := node_ok H2 hn0 hL
    unfold LLog.entryAt
    rw [if_pos (by rw [o1.ssnap]; omega), if_pos (by rw [o2.snapIdx]; omega)]
  · exact absurd c hne
  · exact hdur n s stj hn (hist_net_mono H2.hist hn0 hn hle a ha) hj hst k hk

/-- **C17 `cluster_transfer_winner_holds_committed`** (property text: *"when a transfer completes … the
target leads a higher term holding every committed entry"*).  Let `x` be a `MsgTimeoutNow` of term `t`
found anywhere in the history.  If its addressee `j = x.to` is leader of a term `t' > t` in any state
`h[m]`, then `j` holds, at every index up to the committed one, the entries of every commit step
`h[nc] → h[nc+1]` of a leader of a term `≤ t` — in particular everything the old leader `x.from` (which
did lead `t`, first conjunct) ever committed.  An application of Leader Completeness
(`C03_cluster_leader_completeness`). -/
theorem C17_cluster_transfer_winner_holds_committed (cfg : JointConfig) (c0 : Nat) (h : List Sys)
    (H : Hyp3w cfg c0 h) (n : Nat) (s : Sys) (hn : h[n]? = some s) (x : Message)
    (hx : x ∈ s.net ∨ ∃ i st, s.node i = some st ∧ x ∈ st.raft.msgs)
    (hty : x.msgType = .msgTimeoutNow)
    (m : Nat) (sm : Sys) (hm : h[m]? = some sm) (stj : NState) (hj : sm.node x.to = some stj)
    (hsj : stj.raft.state = .leader) (htj : x.term < stj.raft.term) :
    (∃ n0 s0, n0 ≤ n ∧ h[n0]? = some s0 ∧ leads s0 x.frm x.term) ∧
    ∀ (nc : Nat) (a b : Sys) (l : Nat) (sta stb : NState), h[nc]? = some a →
      h[nc + 1]? = some b → a.node l = some sta → b.node l = some stb →
      stb.raft.state = .leader → stb.raft.term ≤ x.term →
      sta.raft.raftLog.committed < stb.raft.raftLog.committed →
      ∀ k, k ≤ stb.raft.raftLog.committed →
        stj.raft.raftLog.abs.entryAt k = stb.raft.raftLog.abs.entryAt k := by
  obtain ⟨n0, s0, stL, _, hle, hn0, hL, hs, ht, _, _⟩ := tn_source H.toHyp2w.toHyp hn hx hty
  refine ⟨⟨n0, s0, hle, hn0, stL, hL, hs, ht⟩, ?_⟩
  intro nc a b l sta stb ha hb hla hlb hsl htl hc
  exact RaftProps.C01d.C03_cluster_leader_completeness cfg c0 h H nc a b ha hb l sta stb hla hlb hsl
    hc m sm hm x.to stj hj hsj (Nat.lt_of_le_of_lt htl htj)

/-- **C17 `cluster_one_leader_per_term`** (Election Safety, `C02_cluster_election_safety`, for the
transfer): for a `MsgTimeoutNow` `x` found anywhere in the history with `x.to ≠ x.from`, the old leader
`x.from` and the transferee `x.to` are never both leader of the same term (in any two states of the
history), and the transferee never leads the term `x.term` of the message — that term was led by
`x.from`. -/
theorem C17_cluster_one_leader_per_term (cfg : JointConfig) (h : List Sys) (H : Hyp cfg h)
    (n : Nat) (s : Sys) (hn : h[n]? = some s) (x : Message)
    (hx : x ∈ s.net ∨ ∃ i st, s.node i = some st ∧ x ∈ st.raft.msgs)
    (hty : x.msgType = .msgTimeoutNow) (hne : x.to ≠ x.frm) :
    (∀ s1 ∈ h, ∀ s2 ∈ h, ∀ T, leads s1 x.frm T → ¬ leads s2 x.to T) ∧
    (∀ s2 ∈ h, ¬ leads s2 x.to x.term) := by
  have es := RaftProps.C02.C02_cluster_election_safety cfg H.ne H.nd1 H.nd2 h H.hist H.fix
  refine ⟨fun s1 h1 s2 h2 T hl1 hl2 => hne (es s1 s2 h1 h2 x.frm x.to T hl1 hl2).symm, ?_⟩
  intro s2 h2 hl2
  obtain ⟨n0, s0, stL, _, _, hn0, hL, hs, ht, _, _⟩ := tn_source H hn hx hty
  exact hne (es s0 s2 (mem_of_get hn0) h2 x.frm x.to x.term ⟨stL, hL, hs, ht⟩ hl2).symm

/-! ## Non-vacuity: a completed transfer (kernel-evaluated, `RaftProofs/ClusterXferC.lean`) -/

section Examples
open RaftProps.C02 RaftProps.C05

set_option maxRecDepth 100000 in
/-- **non-vacuity**: there is a history of `ClusterSem` that satisfies `Hyp3w` (voters `{1, 2, 3}`,
`c0 = 0`) in which the application of leader 1 (term 1) calls `transfer_leader(2)` for the caught-up
follower 2 (`matched = last_index = 1`) and the call queues a `MsgTimeoutNow` for node 2; the message
**is in the transport** of `h[16]`; the step `h[16] → h[17]` delivers it to node 2, which campaigns
(candidate of term 2); and in the last state `h[24]` node 2 leads term 2. -/
theorem C17_cluster_transfer_nonvacuous :
    ∃ h : List Sys, Hyp3w c02x_cfg 0 h ∧
      ∃ (a b c d e : Sys) (sta stb stc std ste : NState) (pr : Progress) (x : Message),
        h[14]? = some a ∧ h[15]? = some b ∧ h[16]? = some c ∧ h[17]? = some d ∧ h[24]? = some e ∧
        a.node 1 = some sta ∧ b.node 1 = some stb ∧ c.node 2 = some stc ∧ d.node 2 = some std ∧
        e.node 2 = some ste ∧
        -- the transfer request at the caught-up leader queues the `MsgTimeoutNow`
        sta.raft.state = .leader ∧ sta.raft.term = 1 ∧ sta.raft.prs.get 2 = some pr ∧
        pr.matched = sta.raft.raftLog.lastIndex ∧ sta.raft.raftLog.lastIndex = 1 ∧
        (∃ res, Node.call sta none (.transferLeader 2) = .ok (res, stb)) ∧
        x ∉ sta.raft.msgs ∧ x ∈ stb.raft.msgs ∧
        -- it is in the transport
        x ∈ c.net ∧ x.msgType = .msgTimeoutNow ∧ x.frm = 1 ∧ x.to = 2 ∧ x.term = 1 ∧
        -- it is delivered and the target campaigns
        (∃ res, Node.call stc none (.step x) = .ok (res, std)) ∧
        stc.raft.state = .follower ∧ stc.raft.term = 1 ∧
        std.raft.state = .candidate ∧ std.raft.term = 2 ∧
        -- and wins
        ste.raft.state = .leader ∧ ste.raft.term = 2 :=
  ⟨c17x_hist, c17x_hyp3w, c01x_s14, c17x_s15, c17x_s16, c17x_s17, c17x_s24,
    c01x_a8, c17x_a9, c01x_b6, c17x_b7, c17x_b11, (c01x_a8.raft.prs.get 2).get!, c17x_tn,
    rfl, rfl, rfl, rfl, rfl, rfl, rfl, rfl, rfl, rfl,
    by decide, by decide, by decide, by decide, by decide, ⟨_, c02x_out _ (by decide)⟩,
    by decide, tail_head_mem _ (by decide),
    List.mem_append_right _ (tail_head_mem _ (by decide)), by decide, by decide, by decide,
    by decide, ⟨_, c02x_out _ (by decide)⟩, by decide, by decide, by decide, by decide, by decide,
    by decide⟩

/-- … and the theorems apply to it: the `MsgTimeoutNow` in the transport of `h[16]` has a source -/
example : ∃ (n0 : Nat) (s0 : Sys) (stL : NState) (pr : Progress), n0 ≤ 16 ∧
    c17x_hist[n0]? = some s0 ∧ s0.node c17x_tn.frm = some stL ∧ stL.raft.state = .leader ∧
    stL.raft.term = c17x_tn.term ∧ stL.raft.prs.get c17x_tn.to = some pr ∧
    pr.matched = stL.raft.raftLog.lastIndex :=
  C17_cluster_timeout_now_target_caught_up_partial c02x_cfg c17x_hist c17x_hyp3w.toHyp2w.toHyp 16
    c17x_s16 rfl c17x_tn (.inl (List.mem_append_right _ (tail_head_mem _ (by decide)))) (by decide)

/-- … and the winner of the transfer (node 2, leader of term 2 in `h[24]`) holds the entry that node 1
committed in term 1 by the step `h[13] → h[14]` -/
example (k : Nat) (hk : k ≤ c01x_a8.raft.raftLog.committed) :
    c17x_b11.raft.raftLog.abs.entryAt k = c01x_a8.raft.raftLog.abs.entryAt k :=
  (C17_cluster_transfer_winner_holds_committed c02x_cfg 0 c17x_hist c17x_hyp3w 16 c17x_s16 rfl
    c17x_tn (.inl (List.mem_append_right _ (tail_head_mem _ (by decide)))) (by decide)
    24 c17x_s24 rfl c17x_b11 rfl (by decide) (by decide)).2
    13 c01x_s13 c01x_s14 1 c01x_a7 c01x_a8 rfl rfl rfl rfl (by decide) (by decide) (by decide) k hk

set_option maxRecDepth 100000 in
/-- **the durable half of `C17_cluster_timeout_now_target_caught_up` cannot be unconditional**
(kernel-evaluated, `RaftProofs/ClusterXferD.lean`): there is a history of `ClusterSem` satisfying `Hyp3w`
(five voters, `c0 = 0`) with a `MsgTimeoutNow` of leader 1 (term 1) for node 2 **in the transport**,
queued while node 1 led term 1 with `matched = last_index = 1` for node 2 and the entry `(1, term 1)` at
its last index — and **in no state of the history does the storage of node 2 hold an entry of term 1 at
index 1**.  (Node 2 acknowledged `(1, term 1)` in memory, was truncated by the leader of term 2 before it
persisted, then persisted `(1, term 2)` and sent both acknowledgements; node 1 never heard of term 2.)
So "the storage of the target held the leader's last entry at some point" is false without the premise
"the stored term of the target is the leader's term". -/
theorem C17_cluster_timeout_now_target_storage_conditional :
    ∃ (cfg : JointConfig) (h : List Sys), Hyp3w cfg 0 h ∧
      ∃ (n n0 : Nat) (s s0 : Sys) (x : Message) (stL : NState) (pr : Progress) (e : Entry),
        h[n]? = some s ∧ x ∈ s.net ∧ x.msgType = .msgTimeoutNow ∧ x.frm = 1 ∧ x.to = 2 ∧
        x.term = 1 ∧ n0 ≤ n ∧ h[n0]? = some s0 ∧ s0.node 1 = some stL ∧
        stL.raft.state = .leader ∧ stL.raft.term = 1 ∧ stL.raft.prs.get 2 = some pr ∧
        pr.matched = stL.raft.raftLog.lastIndex ∧ stL.raft.raftLog.lastIndex = 1 ∧
        stL.raft.raftLog.abs.entryAt 1 = some e ∧ e.term = 1 ∧
        ∀ s' ∈ h, ∀ stj, s'.node 2 = some stj →
          ∀ e', (storeLog stj.raft.raftLog.store).entryAt 1 = some e' → e'.term ≠ 1 :=
  ⟨c17y_cfg, c17y_hist, c17y_hyp3w, 33, 32, c17y_s33, c17y_s32, c17y_tn, c17y_a9,
    (c17y_a9.raft.prs.get 2).get!, (c17y_a9.raft.raftLog.abs.entryAt 1).get!,
    rfl, List.mem_append_right _ (tail_head_mem _ (by decide)), by decide, by decide, by decide,
    by decide, by decide, rfl, rfl, by decide, by decide, by decide, by decide, by decide, by decide,
    by decide, c17y_never_stored⟩

end Examples

end RaftProps.C17c
