import RaftProofs.RaftNode
import RaftProps.C18
import RaftProps.C14

/-!
# C13 (node model) — flow control and well-formed append / heartbeat / snapshot messages

`RaftProps/C13.lean` proves C13 on the abstract protocol P and on the window (C18).  This file
proves the *leader-side, node-local* half on the executable model of `src/raft.rs` /
`src/tracker/progress.rs` (`RaftModel.Raft*`, tied to the code by the free-running correspondence):
what `maybe_send_append`, `prepare_send_entries`, `prepare_send_snapshot`, `send_heartbeat`,
`try_batching`, the `Progress` transitions and the uncommitted-size accounting do, for **all**
states (no reachability hypothesis) unless a hypothesis is named.

Contents (property text → theorem):
* paused followers get nothing — `C13_isPaused_char`, `C13_no_send_when_paused(_wrappers)`;
* heartbeat advertises `min(matched, committed)` — `C13_heartbeat_commit(_le)`;
* progress within the log — `ProgressOk`, `ProgressOk.{mono,reset,maybeUpdate,maybeDecrTo,
  optimisticUpdate,updateState,become,becomeProbe_from_snapshot}`, the necessity lemmas
  `C13_maybeUpdate_beyond_log`, `C13_optimisticUpdate_needs_lower_bound`,
  `C13_becomeProbe_needs_snapshot_in_log`, node level `C13_progress_within_log_send`,
  `C13_append_response_uses_message_index`;
* uncommitted size — `Refuses`, `C13_uncommitted_increase`, `C13_uncommitted_refuses_iff`,
  `C13_uncommitted_reduce`, `C13_appendEntry_false_iff`, `C13_appendEntry_accepted`,
  `C13_proposal_dropped_iff`;
* shape of an append — `appendMsg`, `SentUpdate`, `C13_updateState_spec`, `C13_append_shape`,
  `C13_entries_contiguous_bounded` (contiguity, within the log, size limit: proved here from the C14
  invariant because the size-limited read of `C14_entries_full_statement` is not proved in C14),
  `C13_send_classification` (every outcome of `maybe_send_append`, batching on or off);
* snapshot instead of entries — `viaSnapshot`, `C13_prepareSendSnapshot_{inactive,empty_panics,spec}`,
  `viaSnapshot_spec`, `C13_snapshot_instead_of_entries`, `entries_compacted`;
* batching — `C13_isContinuousEnts_char`, `tryBatchingLoop_spec`, `C13_batching`,
  `C13_batching_keeps_contiguity`, `maybeSendAppend_batching`; **restated**: there is no
  `max_size_per_msg` bound on a batched message (`C13_batching_ignores_size_limit` and the last but
  one example);
* non-vacuity examples on a concrete leader, and one surprising behaviour of the real code
  (a dropped proposal still moves `pending_conf_index`).
-/
namespace RaftProps.C13
open RaftModel RaftModel.Raft

/-! ## 1. paused followers get nothing -/

/-- `Progress::is_paused` (progress.rs:203) per state: a probing follower is paused after one
un-acknowledged append (`paused` flag), a replicating follower when its window is full, a follower
that is being sent a snapshot always. -/
theorem C13_isPaused_char (pr : Progress) :
    pr.isPaused = true ↔
      (pr.state = .probe ∧ pr.paused = true) ∨ (pr.state = .replicate ∧ pr.ins.full = true) ∨
      pr.state = .snapshot := by
  unfold Progress.isPaused
  cases pr.state <;> simp

/-- **C13 `no_send_when_paused`** (raft.rs:801-808).  `maybe_send_append` to a paused follower
sends nothing: the message queue, the log (no storage access at all), the progress are unchanged and
the result is `false` — whatever `allow_empty`, with or without batching, with or without a pending
snapshot request. -/
theorem C13_no_send_when_paused (r : Raft) (to : Nat) (pr : Progress) (allowEmpty : Bool)
    (h : pr.isPaused = true) : r.maybeSendAppend to pr allowEmpty = .ok (r, pr, false) := by
  unfold Raft.maybeSendAppend; simp [h]

/-- … hence `send_append` and the `while maybe_send_append(..) {}` loop of
`send_append_aggressively` (raft.rs:779-787) are no-ops on a paused follower. -/
theorem C13_no_send_when_paused_wrappers (r : Raft) (to : Nat) (pr : Progress) (fuel : Nat)
    (h : pr.isPaused = true) :
    r.sendAppendPr to pr = .ok (r, pr) ∧
    sendAppendAggressivelyPr (fuel + 1) r to pr = .ok (r, pr) := by
  constructor
  · unfold Raft.sendAppendPr; rw [C13_no_send_when_paused r to pr true h]; rfl
  · unfold Raft.sendAppendAggressivelyPr; rw [C13_no_send_when_paused r to pr false h]

/-- the three instances of the characterisation, as used below -/
theorem C13_snapshot_state_is_paused (pr : Progress) (h : pr.state = .snapshot) :
    pr.isPaused = true := (C13_isPaused_char pr).2 (Or.inr (Or.inr h))

/-! ## 3. heartbeats -/

/-- the heartbeat `send_heartbeat` queues (after `send` filled in sender and term) -/
def heartbeatMsg (r : Raft) (to : Nat) (pr : Progress) (ctx : Option Bytes) : Message :=
  { msgType := .msgHeartbeat, to := to, frm := r.id, term := r.term,
    commit := min pr.matched r.raftLog.committed, context := ctx.getD [] }

/-- **C13 `heartbeat_commit`** (raft.rs:855-877).  `send_heartbeat` never fails and queues exactly one
message: a `MsgHeartbeat` to `to` from this node in its term, advertising
`min(pr.matched, committed)` (the leader must not move a follower's commit index to an index the
follower is not known to match) and carrying the given context (empty when `None`); nothing else of
the node changes. -/
theorem C13_heartbeat_commit (r : Raft) (to : Nat) (pr : Progress) (ctx : Option Bytes) :
    r.sendHeartbeat to pr ctx = .ok { r with msgs := r.msgs ++ [heartbeatMsg r to pr ctx] } := by
  simp [Raft.sendHeartbeat, Raft.send, Raft.sendFill, isVoteMsg, heartbeatMsg]

/-- the advertised commit index is at most the leader's and at most what the follower matched -/
theorem C13_heartbeat_commit_le (r : Raft) (to : Nat) (pr : Progress) (ctx : Option Bytes) :
    (heartbeatMsg r to pr ctx).commit ≤ r.raftLog.committed ∧
    (heartbeatMsg r to pr ctx).commit ≤ pr.matched :=
  ⟨Nat.min_le_right _ _, Nat.min_le_left _ _⟩

/-! ## 5. progress never runs beyond the leader's log -/

/-- progress within a log whose last index is `lastIndex`: what the follower is known to have is in
the log, and the next index to send is above it and at most one past the end -/
def ProgressOk (lastIndex : Nat) (pr : Progress) : Prop :=
  pr.matched ≤ lastIndex ∧ pr.matched < pr.nextIdx ∧ pr.nextIdx ≤ lastIndex + 1

/-- the leader's log only grows while it leads: `ProgressOk` is monotone in the last index -/
theorem ProgressOk.mono {li li' : Nat} {pr : Progress} (h : ProgressOk li pr) (hle : li ≤ li') :
    ProgressOk li' pr := by
  obtain ⟨a, b, c⟩ := h; exact ⟨by omega, b, by omega⟩

/-- `Progress::reset(last_index + 1)` (raft.rs:1027, `Raft::reset`) and a fresh
`Progress::new(last_index + 1, ..)` start within the log -/
theorem ProgressOk.reset (li : Nat) (pr : Progress) (cap : Nat) :
    ProgressOk li (pr.reset (li + 1)) ∧ ProgressOk li (Progress.new (li + 1) cap) := by
  simp [ProgressOk, Progress.reset, Progress.new]

/-- `Progress::maybe_update(n)` (progress.rs:136) keeps the progress within the log **provided
`n ≤ last_index`**; it never fails below `u64::MAX`. -/
theorem ProgressOk.maybeUpdate {li : Nat} {pr : Progress} (h : ProgressOk li pr) (n : Nat)
    (hn : n ≤ li) (hu : n < U64_MAX) :
    ∃ pr', pr.maybeUpdate n = .ok (pr', decide (pr.matched < n)) ∧ ProgressOk li pr' ∧
      pr'.matched = max pr.matched n ∧ pr'.nextIdx = max pr.nextIdx (n + 1) := by
  obtain ⟨a, b, c⟩ := h
  unfold Progress.maybeUpdate
  have hu' : ¬ U64_MAX ≤ n := by omega
  simp only [hu', if_false]
  refine ⟨_, rfl, ?_⟩
  by_cases h1 : pr.matched < n <;> by_cases h2 : pr.nextIdx < n + 1 <;>
    simp [h1, h2, ProgressOk] <;> omega

/-- the hypothesis `n ≤ last_index` of `ProgressOk.maybeUpdate` is necessary: an acknowledgement
beyond the log is taken at face value (`matched := n`) and breaks the bound. -/
theorem C13_maybeUpdate_beyond_log (li : Nat) (pr : Progress) (n : Nat) (h : ProgressOk li pr)
    (hn : li < n) (pr' : Progress) (b : Bool) (hr : pr.maybeUpdate n = .ok (pr', b)) :
    pr'.matched = n ∧ ¬ ProgressOk li pr' := by
  obtain ⟨a, _, _⟩ := h
  unfold Progress.maybeUpdate at hr
  have h1 : pr.matched < n := by omega
  simp only [h1, decide_true, if_true] at hr
  split at hr
  · cases hr
  · have hm : pr'.matched = n := by
      cases hr; split <;> rfl
    exact ⟨hm, fun hok => by have := hok.1; omega⟩

/-- `Progress::maybe_decr_to` (progress.rs:166) keeps the progress within the log, whatever the
rejected index, the hint and the snapshot request are (it only ever moves `next_idx` down to a value
above `matched`, or leaves it alone). -/
theorem ProgressOk.maybeDecrTo {li : Nat} {pr : Progress} (h : ProgressOk li pr)
    (rejected hint req : Nat) (pr' : Progress) (b : Bool)
    (hr : pr.maybeDecrTo rejected hint req = .ok (pr', b)) :
    ProgressOk li pr' ∧ pr'.matched = pr.matched ∧ pr'.nextIdx ≤ pr.nextIdx := by
  obtain ⟨a, b1, c⟩ := h
  unfold Progress.maybeDecrTo at hr
  split at hr
  · split at hr
    · cases hr; exact ⟨⟨a, b1, c⟩, rfl, Nat.le_refl _⟩
    · split at hr
      · cases hr; exact ⟨⟨a, by simp, by simp; omega⟩, rfl, by simp; omega⟩
      · cases hr; exact ⟨⟨a, b1, c⟩, rfl, Nat.le_refl _⟩
  · split at hr
    · cases hr; exact ⟨⟨a, b1, c⟩, rfl, Nat.le_refl _⟩
    · rename_i hg
      split at hr
      · rename_i hq
        split at hr
        · cases hr
        · cases hr
          have hrej : pr.nextIdx ≠ 0 ∧ pr.nextIdx - 1 = rejected := by
            apply Classical.byContradiction
            intro hc
            apply hg
            refine ⟨?_, hq⟩
            by_cases h0 : pr.nextIdx = 0
            · exact Or.inl h0
            · right; intro he; exact hc ⟨h0, he⟩
          have hmin : min rejected (hint + 1) ≤ rejected := Nat.min_le_left _ _
          refine ⟨⟨a, ?_, ?_⟩, rfl, ?_⟩ <;> (dsimp only; split <;> omega)
      · split at hr
        · cases hr; exact ⟨⟨a, b1, c⟩, rfl, Nat.le_refl _⟩
        · cases hr; exact ⟨⟨a, b1, c⟩, rfl, Nat.le_refl _⟩

/-- `Progress::optimistic_update(n)` (progress.rs:159) keeps the progress within the log provided
`matched ≤ n ≤ last_index` (the caller passes the index of the last entry it just sent, which is
`≥ next_idx > matched`).  *The lower bound is needed*: `optimistic_update(n)` with `n < matched`
sets `next_idx ≤ matched`. -/
theorem ProgressOk.optimisticUpdate {li : Nat} {pr : Progress} (h : ProgressOk li pr) (n : Nat)
    (hlo : pr.matched ≤ n) (hhi : n ≤ li) : ProgressOk li (pr.optimisticUpdate n) := by
  obtain ⟨a, _, _⟩ := h
  simp [ProgressOk, Progress.optimisticUpdate]; omega

/-- `optimistic_update(n)` below `matched` breaks the bound (why the lower bound is a hypothesis) -/
theorem C13_optimisticUpdate_needs_lower_bound (li : Nat) (pr : Progress) (n : Nat)
    (hn : n < pr.matched) : ¬ ProgressOk li (pr.optimisticUpdate n) := by
  intro h; have := h.2.1; simp [Progress.optimisticUpdate] at this; omega

/-- `Progress::update_state(last)` (progress.rs:225) after sending entries up to `last`
(`matched ≤ last ≤ last_index`): the optimistic update in `Replicate` stays within the log, `Probe`
does not move `next_idx`. -/
theorem ProgressOk.updateState {li : Nat} {pr : Progress} (h : ProgressOk li pr) (last : Nat)
    (hlo : pr.matched ≤ last) (hhi : last ≤ li) (pr' : Progress)
    (hr : pr.updateState last = .ok pr') : ProgressOk li pr' := by
  unfold Progress.updateState at hr
  split at hr
  · split at hr
    · cases hr
    · split at hr
      · cases hr; exact ProgressOk.optimisticUpdate h last hlo hhi
      · cases hr
  · cases hr; exact h
  · cases hr

/-- `become_replicate` (progress.rs:110) and `become_probe` outside `Snapshot` (progress.rs:94)
restart at `matched + 1`; `become_snapshot` (progress.rs:117) does not touch `matched` / `next_idx`. -/
theorem ProgressOk.become {li : Nat} {pr : Progress} (h : ProgressOk li pr) :
    ProgressOk li pr.becomeReplicate ∧
    (pr.state ≠ .snapshot → ProgressOk li pr.becomeProbe) ∧
    (∀ s, ProgressOk li (pr.becomeSnapshot s)) := by
  obtain ⟨a, b, c⟩ := h
  refine ⟨?_, ?_, ?_⟩
  · simp [ProgressOk, Progress.becomeReplicate, Progress.resetState]; omega
  · intro hs; simp [ProgressOk, Progress.becomeProbe, Progress.resetState, hs]; omega
  · intro s; exact ⟨a, b, c⟩

/-- `become_probe` out of `Snapshot` (progress.rs:97-104) restarts at
`max(matched + 1, pending_snapshot + 1)`: within the log **provided the pending snapshot index is
within the log** (`prepare_send_snapshot` records the index of a snapshot of this node's own
storage, which is `≤ committed ≤ last_index`). -/
theorem ProgressOk.becomeProbe_from_snapshot {li : Nat} {pr : Progress} (h : ProgressOk li pr)
    (hs : pr.state = .snapshot) (hp : pr.pendingSnapshot ≤ li) : ProgressOk li pr.becomeProbe := by
  obtain ⟨a, b, c⟩ := h
  simp only [ProgressOk, Progress.becomeProbe, Progress.resetState, hs, if_true]
  refine ⟨a, ?_, ?_⟩
  · exact Nat.lt_of_lt_of_le (Nat.lt_succ_self _) (Nat.le_max_left _ _)
  · exact Nat.max_le.2 ⟨by omega, by omega⟩

/-- the side condition is needed: a pending snapshot index beyond the log puts `next_idx` beyond
`last_index + 1` -/
theorem C13_becomeProbe_needs_snapshot_in_log (li : Nat) (pr : Progress)
    (hs : pr.state = .snapshot) (hp : li < pr.pendingSnapshot) : ¬ ProgressOk li pr.becomeProbe := by
  intro h
  have h3 := h.2.2
  simp only [Progress.becomeProbe, Progress.resetState, hs, if_true] at h3
  have := Nat.le_max_right (pr.matched + 1) (pr.pendingSnapshot + 1)
  omega

/-! ## 6. uncommitted-size accounting -/

/-- the refusal condition of `maybe_increase_uncommitted_size` (raft.rs:109-129): a limit is
configured, the proposal carries data, something is already uncommitted, and the sum would exceed
the limit -/
def Refuses (u : UncommittedState) (ents : List Entry) : Prop :=
  u.isNoLimit = false ∧ 0 < UncommittedState.dataSize ents ∧ 0 < u.uncommittedSize ∧
    u.maxUncommittedSize < UncommittedState.dataSize ents + u.uncommittedSize

instance (u : UncommittedState) (ents : List Entry) : Decidable (Refuses u ents) := by
  unfold Refuses; exact inferInstance

/-- **C13 `uncommitted_size` (increase).**  `maybe_increase_uncommitted_size` refuses (returns
`false`, state unchanged) exactly when `Refuses`; otherwise it accepts and — unless no limit is
configured, the fast path that does no accounting at all — adds the data size.  In particular an
entry without data (leader election, auto-leave) is never refused and a proposal is always accepted
when nothing is uncommitted, however large. -/
theorem C13_uncommitted_increase (u : UncommittedState) (ents : List Entry) :
    (Refuses u ents → u.maybeIncreaseUncommittedSize ents = (u, false)) ∧
    (¬ Refuses u ents → u.isNoLimit = false → u.maybeIncreaseUncommittedSize ents =
        ({ u with uncommittedSize := u.uncommittedSize + UncommittedState.dataSize ents }, true)) ∧
    (u.isNoLimit = true → u.maybeIncreaseUncommittedSize ents = (u, true)) := by
  unfold Refuses UncommittedState.maybeIncreaseUncommittedSize
  refine ⟨?_, ?_, ?_⟩
  · rintro ⟨h1, h2, h3, h4⟩
    have : ¬ (UncommittedState.dataSize ents = 0 ∨ u.uncommittedSize = 0 ∨
        UncommittedState.dataSize ents + u.uncommittedSize ≤ u.maxUncommittedSize) := by omega
    simp [h1, this]
  · intro hn h1
    have : (UncommittedState.dataSize ents = 0 ∨ u.uncommittedSize = 0 ∨
        UncommittedState.dataSize ents + u.uncommittedSize ≤ u.maxUncommittedSize) := by
      apply Classical.byContradiction; intro hc; apply hn; refine ⟨h1, ?_⟩; omega
    simp [h1, this]
  · intro h1; simp [h1]

/-- the refusal as an equivalence on the returned flag -/
theorem C13_uncommitted_refuses_iff (u : UncommittedState) (ents : List Entry) :
    (u.maybeIncreaseUncommittedSize ents).2 = false ↔ Refuses u ents := by
  have h := C13_uncommitted_increase u ents
  by_cases hr : Refuses u ents
  · rw [h.1 hr]; simp [hr]
  · cases hl : u.isNoLimit
    · rw [h.2.1 hr hl]; simp [hr]
    · rw [h.2.2 hl]; simp [hr]

/-- **C13 `uncommitted_size` (reduce)** (raft.rs:131-152).  `maybe_reduce_uncommitted_size` never
underflows: it subtracts the data size of the entries above `last_log_tail_index` (entries from
before this leadership were never counted) and saturates at 0, reporting `false` exactly when it
had to saturate; with no limit, or no entries, it does nothing. -/
theorem C13_uncommitted_reduce (u : UncommittedState) (ents : List Entry) :
    (u.isNoLimit = true ∨ ents = [] → u.maybeReduceUncommittedSize ents = (u, true)) ∧
    (u.isNoLimit = false → ents ≠ [] →
      u.maybeReduceUncommittedSize ents =
        ({ u with uncommittedSize := (u.uncommittedSize - UncommittedState.dataSize
            (ents.dropWhile (fun e => decide (e.index ≤ u.lastLogTailIndex)))) },
         decide (UncommittedState.dataSize
            (ents.dropWhile (fun e => decide (e.index ≤ u.lastLogTailIndex))) ≤ u.uncommittedSize))) ∧
    (u.maybeReduceUncommittedSize ents).1.uncommittedSize ≤ u.uncommittedSize := by
  unfold UncommittedState.maybeReduceUncommittedSize
  refine ⟨?_, ?_, ?_⟩
  · rintro (h | h)
    · simp [h]
    · simp [h]
  · intro h1 h2
    have h3 : ents.isEmpty = false := by cases ents <;> simp_all
    simp only [h1, h3, Bool.false_eq_true, or_self, if_false]
    split
    · rename_i hlt
      have : ¬ (UncommittedState.dataSize
        (ents.dropWhile (fun e => decide (e.index ≤ u.lastLogTailIndex))) ≤ u.uncommittedSize) := by omega
      simp only [this, decide_false]
      congr 2; omega
    · rename_i hlt
      have : (UncommittedState.dataSize
        (ents.dropWhile (fun e => decide (e.index ≤ u.lastLogTailIndex))) ≤ u.uncommittedSize) := by omega
      simp only [this, decide_true]
  · split
    · exact Nat.le_refl _
    · simp only; split
      · exact Nat.zero_le _
      · exact Nat.sub_le _ _

/-- **C13 `uncommitted_size` (`append_entry`, raft.rs:1043-1057).**  `append_entry` returns `false`
exactly when the accounting refuses, and then the node is untouched: nothing appended, no size
added. -/
theorem C13_appendEntry_false_iff (r r' : Raft) (es : List Entry) :
    r.appendEntry es = .ok (r', false) ↔ Refuses r.uncommittedState es ∧ r' = r := by
  unfold Raft.appendEntry Raft.maybeIncreaseUncommittedSize
  have hiff := C13_uncommitted_refuses_iff r.uncommittedState es
  cases hm : r.uncommittedState.maybeIncreaseUncommittedSize es with
  | mk u b =>
    rw [hm] at hiff
    cases b with
    | false =>
      have hr : Refuses r.uncommittedState es := hiff.1 rfl
      constructor
      · intro h; simp only at h; cases h; exact ⟨hr, rfl⟩
      · intro h; rw [h.2]
    | true =>
      have hn : ¬ Refuses r.uncommittedState es := fun hr => by
        have := hiff.2 hr; simp at this
      simp only [hn, false_and, iff_false]
      intro h
      split at h <;> cases h

/-- when the accounting accepts, `append_entry` does not report `false`, and the only things it
changes are the log and the uncommitted size (`+ data size`, or nothing with no limit) -/
theorem C13_appendEntry_accepted (r r' : Raft) (es : List Entry) (b : Bool)
    (hn : ¬ Refuses r.uncommittedState es) (h : r.appendEntry es = .ok (r', b)) :
    b = true ∧ r'.msgs = r.msgs ∧ r'.prs = r.prs ∧
    r'.uncommittedState = (r.uncommittedState.maybeIncreaseUncommittedSize es).1 := by
  cases b with
  | false => exact absurd ((C13_appendEntry_false_iff r r' es).1 h).1 hn
  | true =>
    unfold Raft.appendEntry Raft.maybeIncreaseUncommittedSize at h
    cases hm : r.uncommittedState.maybeIncreaseUncommittedSize es with
    | mk u b =>
      rw [hm] at h
      cases b with
      | false => simp at h
      | true =>
        simp only at h
        split at h
        · cases h; exact ⟨rfl, rfl, rfl, rfl⟩
        · cases h
        · cases h

/-- the proposal filter (raft.rs:2111-2159) only ever writes `pending_conf_index` -/
theorem filterProposalEntry_frame (r r1 : Raft) (i : Nat) (e e' : Entry)
    (h : r.filterProposalEntry i e = some (r1, e')) :
    r1 = { r with pendingConfIndex := r1.pendingConfIndex } := by
  unfold Raft.filterProposalEntry at h
  simp only at h
  split at h
  · cases h
  · cases h; rfl
  · generalize (if r.hasPendingConf = true then true else _) = refuse at h
    cases refuse
    · simp only [Bool.not_false, if_true] at h; cases h; rfl
    · simp only [Bool.not_true, Bool.false_eq_true, if_false] at h; cases h; rfl

theorem filterProposal_frame (es : List Entry) : ∀ (r : Raft) (i : Nat),
    (r.filterProposal i es).1 = { r with pendingConfIndex := (r.filterProposal i es).1.pendingConfIndex } := by
  induction es with
  | nil => intro r i; rfl
  | cons e es ih =>
    intro r i
    unfold Raft.filterProposal
    cases hf : r.filterProposalEntry i e with
    | none => rfl
    | some p =>
      obtain ⟨r1, e'⟩ := p
      have h1 := filterProposalEntry_frame r r1 i e e' hf
      have h2 := ih r1 (i + 1)
      simp only
      cases hf2 : r1.filterProposal (i + 1) es with
      | mk r2 o =>
        rw [hf2] at h2
        simp only at h2
        cases o <;> (simp only; rw [h2, h1])

/-- **C13 `uncommitted_size` (proposals, raft.rs:2097-2170).**  A proposal that reaches the
accounting on a leader (non-empty, the leader is in its own configuration, no transfer in progress,
every configuration-change payload decodes: `filterProposal` yields the entries `es` to append) is
dropped with `ProposalDropped` **iff** the accounting refuses `es`; then nothing is appended, nothing
is sent, nothing is accounted — the node differs from the one before the call at most in
`pending_conf_index` (which it does keep: see the last example of this file). -/
theorem C13_proposal_dropped_iff (r : Raft) (m : Message) (hm : m.msgType = .msgPropose)
    (hne : m.entries ≠ []) (hself : (r.prs.get r.id).isSome) (ht : r.leadTransferee = none)
    (r1 : Raft) (es : List Entry) (hf : r.filterProposal 0 m.entries = (r1, some es)) :
    r1 = { r with pendingConfIndex := r1.pendingConfIndex } ∧
    (Refuses r.uncommittedState es → r.stepLeader m = .ok (r1, some .proposalDropped)) ∧
    (¬ Refuses r.uncommittedState es → ∀ r' res, r.stepLeader m = .ok (r', res) → res = none) := by
  have hfr := filterProposal_frame m.entries r 0
  rw [hf] at hfr
  simp only at hfr
  have hu : r1.uncommittedState = r.uncommittedState := by rw [hfr]
  have h1 : m.entries.isEmpty = false := by
    cases hme : m.entries with
    | nil => exact absurd hme hne
    | cons _ _ => rfl
  have h2 : (r.prs.get r.id).isNone = false := by
    cases hg : r.prs.get r.id with
    | none => rw [hg] at hself; cases hself
    | some _ => rfl
  refine ⟨hfr, ?_, ?_⟩
  · intro href
    have ha : r1.appendEntry es = .ok (r1, false) :=
      (C13_appendEntry_false_iff r1 r1 es).2 ⟨by rw [hu]; exact href, rfl⟩
    unfold Raft.stepLeader
    simp [hm, h1, h2, ht, hf, ha]
  · intro hnr r' res hs
    unfold Raft.stepLeader at hs
    simp only [hm, h1, h2, ht, hf, Bool.false_eq_true, if_false, Option.isSome_none] at hs
    cases ha : r1.appendEntry es with
    | ok p =>
      obtain ⟨r2, b⟩ := p
      have := (C13_appendEntry_accepted r1 r2 es b (by rw [hu]; exact hnr) ha).1
      subst this
      rw [ha] at hs
      simp only at hs
      cases hb : r2.bcastAppend with
      | ok r3 => rw [hb] at hs; simp only [Res.bind] at hs; cases hs; rfl
      | err e => rw [hb] at hs; simp only [Res.bind] at hs; cases hs
      | panic s => rw [hb] at hs; simp only [Res.bind] at hs; cases hs
    | err e => rw [ha] at hs; cases hs
    | panic s => rw [ha] at hs; cases hs

/-! ## 2 and 4. what `maybe_send_append` sends -/

/-- the `MsgAppend` that `prepare_send_entries` + `send` queue -/
def appendMsg (r : Raft) (to : Nat) (pr : Progress) (t : Nat) (es : List Entry) : Message :=
  { msgType := .msgAppend, to := to, frm := r.id, term := r.term, index := pr.nextIdx - 1,
    logTerm := t, entries := es, commit := r.raftLog.committed }

/-- what `prepare_send_entries` does to the progress: nothing for an empty append, `update_state`
with the index of the last entry otherwise -/
def SentUpdate (pr : Progress) (es : List Entry) (pr' : Progress) : Prop :=
  match es.getLast? with
  | none => pr' = pr
  | some last => pr.updateState last.index = .ok pr'

/-- the snapshot path of `maybe_send_append` (raft.rs:812-815, 841-846, 849) -/
def viaSnapshot (r : Raft) (to : Nat) (pr : Progress) : Res (Raft × Progress × Bool) :=
  match r.prepareSendSnapshot { to := to } pr to with
  | .ok (r, m, pr, true) => (r.send m).bind (fun r => .ok (r, pr, true))
  | .ok (r, _, pr, false) => .ok (r, pr, false)
  | .err e => .err e
  | .panic s => .panic s

theorem send_appendMsg (r : Raft) (to : Nat) (pr : Progress) (t : Nat) (es : List Entry) :
    r.send { to := to, msgType := .msgAppend, index := pr.nextIdx - 1, logTerm := t, entries := es,
             commit := r.raftLog.committed } =
      .ok { r with msgs := r.msgs ++ [appendMsg r to pr t es] } := by
  simp [Raft.send, Raft.sendFill, isVoteMsg, appendMsg]

theorem maybeSendAppend_entries (r : Raft) (to : Nat) (pr : Progress) (allowEmpty : Bool)
    (hp : pr.isPaused = false) (hq : pr.pendingRequestSnapshot = 0) (hb : r.batchAppend = false)
    (hn : pr.nextIdx ≠ 0) (t : Nat) (es : List Entry)
    (ht : r.raftLog.term (pr.nextIdx - 1) = .ok t)
    (he : r.raftLog.entries pr.nextIdx (some r.maxMsgSize) true = .ok es)
    (hae : allowEmpty = true ∨ es ≠ []) :
    r.maybeSendAppend to pr allowEmpty =
      match es.getLast? with
      | none => .ok ({ r with msgs := r.msgs ++ [appendMsg r to pr t es] }, pr, true)
      | some last =>
        match pr.updateState last.index with
        | .ok pr' => .ok ({ r with msgs := r.msgs ++ [appendMsg r to pr t es] }, pr', true)
        | .err e => .err e
        | .panic s => .panic s := by
  have hae' : (!allowEmpty && es.isEmpty) = false := by
    rcases hae with h | h
    · simp [h]
    · cases es with
      | nil => exact absurd rfl h
      | cons _ _ => simp
  unfold Raft.maybeSendAppend
  simp only [hp, hq, he, ht, hb, hn, hae', Raft.prepareSendEntries, Bool.false_eq_true, if_false,
    ne_eq, not_true_eq_false]
  cases hl : es.getLast? with
  | none => simp only [send_appendMsg, Res.bind, hb]
  | some last =>
    simp only
    cases hu : pr.updateState last.index with
    | ok pr' => simp only [send_appendMsg, Res.bind, hb]
    | err e => rfl
    | panic s => rfl

/-- the `MsgSnapshot` that `prepare_send_snapshot` + `send` queue -/
def snapMsg (r : Raft) (to : Nat) (sn : Snapshot) : Message :=
  { msgType := .msgSnapshot, to := to, frm := r.id, term := r.term, snapshot := sn }

theorem send_snapMsg (r : Raft) (to : Nat) (sn : Snapshot) :
    r.send { to := to, msgType := .msgSnapshot, snapshot := sn } =
      .ok { r with msgs := r.msgs ++ [snapMsg r to sn] } := by
  simp [Raft.send, Raft.sendFill, isVoteMsg, snapMsg]

theorem C13_prepareSendSnapshot_inactive (r : Raft) (m : Message) (pr : Progress) (to : Nat)
    (h : pr.recentActive = false) : r.prepareSendSnapshot m pr to = .ok (r, m, pr, false) := by
  unfold Raft.prepareSendSnapshot; simp [h]

theorem C13_prepareSendSnapshot_empty_panics (r : Raft) (m : Message) (pr : Progress) (to : Nat)
    (ha : pr.recentActive = true) (sn : Snapshot)
    (hs : (r.raftLog.snapshot pr.pendingRequestSnapshot).2 = .ok sn) (h0 : sn.metadata.index = 0) :
    r.prepareSendSnapshot m pr to = .panic "raft.prepare_send_snapshot.empty_snapshot" := by
  unfold Raft.prepareSendSnapshot
  cases hsn : r.raftLog.snapshot pr.pendingRequestSnapshot with
  | mk log sr =>
    rw [hsn] at hs
    simp only at hs
    subst hs
    simp [ha, h0]

theorem C13_prepareSendSnapshot_spec (r r1 : Raft) (m m1 : Message) (pr pr1 : Progress) (to : Nat)
    (b : Bool) (h : r.prepareSendSnapshot m pr to = .ok (r1, m1, pr1, b)) :
    (b = true → pr.recentActive = true ∧
      r.raftLog.snapshot pr.pendingRequestSnapshot = (r1.raftLog, .ok m1.snapshot) ∧
      m1.snapshot.metadata.index ≠ 0 ∧
      r1 = { r with raftLog := r1.raftLog } ∧
      m1 = { m with msgType := .msgSnapshot, snapshot := m1.snapshot } ∧
      pr1 = pr.becomeSnapshot m1.snapshot.metadata.index) ∧
    (b = false → pr1 = pr ∧ r1 = { r with raftLog := r1.raftLog } ∧
      (pr.recentActive = false ∨
        (r.raftLog.snapshot pr.pendingRequestSnapshot).2 = .err .snapshotTemporarilyUnavailable)) := by
  unfold Raft.prepareSendSnapshot at h
  cases ha : pr.recentActive with
  | false =>
    simp only [ha, Bool.not_false, if_true] at h
    cases h
    exact ⟨(fun hb => nomatch hb), fun _ => ⟨rfl, rfl, Or.inl rfl⟩⟩
  | true =>
    simp only [ha, Bool.not_true, Bool.false_eq_true, if_false] at h
    cases hsn : r.raftLog.snapshot pr.pendingRequestSnapshot with
    | mk log sr =>
      rw [hsn] at h
      simp only at h
      cases sr with
      | ok sn =>
        simp only at h
        split at h
        · cases h
        · rename_i h0
          cases h
          exact ⟨fun _ => ⟨rfl, rfl, h0, rfl, rfl, rfl⟩, (fun hb => nomatch hb)⟩
      | err e =>
        cases e <;> simp only at h <;> first
          | (cases h; exact ⟨(fun hb => nomatch hb), fun _ => ⟨rfl, rfl, Or.inr rfl⟩⟩)
          | cases h
      | panic s => cases h

/-- what the snapshot path yields -/
theorem viaSnapshot_spec (r r' : Raft) (to : Nat) (pr pr' : Progress) (sent : Bool)
    (h : viaSnapshot r to pr = .ok (r', pr', sent)) :
    (sent = true → pr.recentActive = true ∧ ∃ sn,
      r.raftLog.snapshot pr.pendingRequestSnapshot = (r'.raftLog, .ok sn) ∧
      sn.metadata.index ≠ 0 ∧
      r' = { r with raftLog := r'.raftLog, msgs := r.msgs ++ [snapMsg r to sn] } ∧
      pr' = pr.becomeSnapshot sn.metadata.index) ∧
    (sent = false → pr' = pr ∧ r' = { r with raftLog := r'.raftLog } ∧
      (pr.recentActive = false ∨
        (r.raftLog.snapshot pr.pendingRequestSnapshot).2 = .err .snapshotTemporarilyUnavailable)) := by
  unfold viaSnapshot at h
  cases hp : r.prepareSendSnapshot { to := to } pr to with
  | ok q =>
    obtain ⟨r1, m1, pr1, b⟩ := q
    have hs := C13_prepareSendSnapshot_spec r r1 _ m1 pr pr1 to b hp
    rw [hp] at h
    cases b with
    | true =>
      obtain ⟨h1, h2, h3, h4, h5, h6⟩ := hs.1 rfl
      simp only at h
      rw [h5, send_snapMsg] at h
      simp only [Res.bind] at h
      cases h
      refine ⟨fun _ => ⟨h1, m1.snapshot, h2, h3, ?_, h6⟩, (fun hb => nomatch hb)⟩
      rw [h4]; rfl
    | false =>
      simp only at h
      cases h
      exact ⟨(fun hb => nomatch hb), fun _ => hs.2 rfl⟩
  | err e => rw [hp] at h; cases h
  | panic s => rw [hp] at h; cases h


theorem maybeSendAppend_request_snapshot (r : Raft) (to : Nat) (pr : Progress) (allowEmpty : Bool)
    (hp : pr.isPaused = false) (hq : pr.pendingRequestSnapshot ≠ 0) :
    r.maybeSendAppend to pr allowEmpty = viaSnapshot r to pr := by
  unfold Raft.maybeSendAppend viaSnapshot
  simp only [hp, hq, Bool.false_eq_true, if_false, ne_eq, not_false_eq_true, if_true]
  rfl

theorem maybeSendAppend_entries_err (r : Raft) (to : Nat) (pr : Progress)
    (hp : pr.isPaused = false) (hq : pr.pendingRequestSnapshot = 0) (hn : pr.nextIdx ≠ 0)
    (e : StorageError) (he : r.raftLog.entries pr.nextIdx (some r.maxMsgSize) true = .err e)
    (hne : e ≠ .logTemporarilyUnavailable) (hnp : ∀ s, r.raftLog.term (pr.nextIdx - 1) ≠ .panic s) :
    r.maybeSendAppend to pr true = viaSnapshot r to pr := by
  unfold Raft.maybeSendAppend viaSnapshot
  simp only [hp, hq, he, hn, Bool.false_eq_true, if_false, ne_eq, not_true_eq_false,
    Bool.not_true, Bool.false_and]
  cases ht : r.raftLog.term (pr.nextIdx - 1) with
  | panic s => exact absurd ht (hnp s)
  | ok t => cases e <;> first | exact absurd rfl hne | rfl
  | err e2 => cases e <;> first | exact absurd rfl hne | rfl

theorem maybeSendAppend_term_err (r : Raft) (to : Nat) (pr : Progress) (allowEmpty : Bool)
    (hp : pr.isPaused = false) (hq : pr.pendingRequestSnapshot = 0) (hn : pr.nextIdx ≠ 0)
    (es : List Entry) (he : r.raftLog.entries pr.nextIdx (some r.maxMsgSize) true = .ok es)
    (hae : allowEmpty = true ∨ es ≠ [])
    (e : StorageError) (ht : r.raftLog.term (pr.nextIdx - 1) = .err e) :
    r.maybeSendAppend to pr allowEmpty = viaSnapshot r to pr := by
  have hae' : (!allowEmpty && es.isEmpty) = false := by
    rcases hae with h | h
    · simp [h]
    · cases es with
      | nil => exact absurd rfl h
      | cons _ _ => simp
  unfold Raft.maybeSendAppend viaSnapshot
  simp only [hp, hq, he, ht, hn, hae', Bool.false_eq_true, if_false, ne_eq, not_true_eq_false]
  rfl


/-- the three ways `maybe_send_append` returns without sending although the follower is not paused
and no snapshot was attempted (raft.rs:826-828, 837-840) -/
theorem maybeSendAppend_nothing (r : Raft) (to : Nat) (pr : Progress) (allowEmpty : Bool)
    (hp : pr.isPaused = false) (hq : pr.pendingRequestSnapshot = 0) :
    (allowEmpty = false → r.raftLog.entries pr.nextIdx (some r.maxMsgSize) true = .ok [] →
      r.maybeSendAppend to pr allowEmpty = .ok (r, pr, false)) ∧
    (allowEmpty = false → ∀ e, r.raftLog.entries pr.nextIdx (some r.maxMsgSize) true = .err e →
      r.maybeSendAppend to pr allowEmpty = .ok (r, pr, false)) ∧
    (pr.nextIdx ≠ 0 → (∀ s, r.raftLog.term (pr.nextIdx - 1) ≠ .panic s) →
      r.raftLog.entries pr.nextIdx (some r.maxMsgSize) true = .err .logTemporarilyUnavailable →
      r.maybeSendAppend to pr allowEmpty = .ok (r, pr, false)) := by
  refine ⟨?_, ?_, ?_⟩
  · intro ha he
    unfold Raft.maybeSendAppend
    simp [hp, hq, he, ha]
  · intro ha e he
    unfold Raft.maybeSendAppend
    simp [hp, hq, he, ha]
  · intro hn hnp he
    unfold Raft.maybeSendAppend
    cases allowEmpty with
    | false => simp [hp, hq, he]
    | true =>
      simp only [hp, hq, he, hn, Bool.false_eq_true, if_false, ne_eq, not_true_eq_false,
        Bool.not_true, Bool.false_and]

/-! ## the entries handed to `maybe_send_append` are contiguous, within the log, within the size limit -/

theorem limitSize_take (l : List Entry) (mx : Option Nat) : ∃ n, limitSize l mx = l.take n := by
  unfold limitSize
  split
  · exact ⟨l.length, (List.take_length).symm⟩
  · split
    · exact ⟨l.length, (List.take_length).symm⟩
    · split
      · exact ⟨l.length, (List.take_length).symm⟩
      · exact ⟨_, rfl⟩

theorem limitSize_contig {s : Nat} {l : List Entry} (h : ContigFrom s l) (mx : Option Nat) :
    ContigFrom s (limitSize l mx) ∧ (limitSize l mx).length ≤ l.length := by
  obtain ⟨n, hn⟩ := limitSize_take l mx
  rw [hn]; exact ⟨h.take n, by rw [List.length_take]; omega⟩

theorem contig_nil (s : Nat) : ContigFrom s [] := by
  intro k e hk; simp at hk

/-- `MemStorage::entries` returns a size-limited prefix of a contiguous run starting at `low` -/
theorem entriesQ_shape (s : MemStorage) (hs : s.WF) (low high : Nat) (mx : Option Nat) (ca : Bool)
    (es : List Entry) (h : s.entriesQ low high mx ca = .ok es) :
    ∃ S, es = limitSize S mx ∧ ContigFrom low S ∧ S.length ≤ high - low := by
  unfold MemStorage.entriesQ at h
  split at h
  · cases h
  · rename_i h1
    split at h
    · cases h
    · split at h
      · cases h
      · split at h
        · cases h
        · rename_i e0 he0
          have hf : s.firstIndex = e0.index := by simp [MemStorage.firstIndex, he0]
          split at h
          · cases h
          · split at h
            · cases h
            · split at h
              · cases h
              · split at h
                · cases h
                · cases h
                  refine ⟨_, rfl, ?_, ?_⟩
                  · have hc : ContigFrom s.firstIndex s.entries := hs.contig
                    have := (hc.drop (low - e0.index)).take (high - low)
                    have he : s.firstIndex + (low - e0.index) = low := by omega
                    rw [he] at this; exact this
                  · rw [List.length_take]; omega

theorem sliceStore_shape (l : RaftLog) (hs : l.store.WF) (lo hi : Nat) (mx : Option Nat) (ca : Bool)
    (es1 : List Entry) (b : Bool) (h : l.sliceStore lo hi mx ca = .ok (es1, b)) :
    (lo < l.unstable.offset → ContigFrom lo es1 ∧ es1.length ≤ min hi l.unstable.offset - lo ∧
        (∃ S, es1 = limitSize S mx ∧ ContigFrom lo S ∧ S.length ≤ min hi l.unstable.offset - lo) ∧
        b = decide (es1.length < min hi l.unstable.offset - lo)) ∧
    (¬ lo < l.unstable.offset → es1 = [] ∧ b = false) := by
  unfold RaftLog.sliceStore at h
  split at h
  · rename_i hlt
    refine ⟨fun _ => ?_, fun hn => absurd hlt hn⟩
    simp only at h
    split at h
    · rename_i es hq
      cases h
      obtain ⟨S, h1, h2, h3⟩ := entriesQ_shape l.store hs lo _ mx ca es1 hq
      have := limitSize_contig h2 mx
      rw [← h1] at this
      exact ⟨this.1, by omega, ⟨S, h1, h2, h3⟩, rfl⟩
    all_goals cases h
  · rename_i hlt
    cases h
    exact ⟨fun hc => absurd hc hlt, fun _ => ⟨rfl, rfl⟩⟩

theorem unstableSlice_shape (u : Unstable) (hu : u.WF) (lo hi : Nat) (us : List Entry)
    (h : u.slice lo hi = .ok us) : ContigFrom lo us ∧ us.length ≤ hi - lo := by
  unfold Unstable.slice at h
  split at h
  · rename_i hm
    cases h
    unfold Unstable.mustCheckOutOfBounds at hm
    split at hm
    · cases hm
    · split at hm
      · cases hm
      · rename_i h1 h2
        have hc : ContigFrom u.offset u.entries := hu.contig
        have := (hc.drop (lo - u.offset)).take (hi - lo)
        have he : u.offset + (lo - u.offset) = lo := by omega
        rw [he] at this
        exact ⟨this, by rw [List.length_take]; omega⟩
  · cases h
  · cases h

/-- **`RaftLog::slice` returns a size-limited prefix of a contiguous run of the log starting at
`lo` and ending below `hi`** (raft_log.rs:638-686).  This is the part of the unproved
`C14_slice_full_statement` that C13 needs; it holds with or without a temporarily unavailable
storage. -/
theorem slice_shape (l : RaftLog) (hs : l.store.WF) (hu : l.unstable.WF) (lo hi : Nat)
    (mx : Option Nat) (ca : Bool) (es : List Entry) (h : l.slice lo hi mx ca = .ok es) :
    ∃ X, es = limitSize X mx ∧ ContigFrom lo X ∧ lo + X.length ≤ hi := by
  unfold RaftLog.slice at h
  split at h
  · cases h
  · rename_i hm
    have hle : lo ≤ hi := by
      unfold RaftLog.mustCheckOutOfBounds at hm
      split at hm
      · cases hm
      · omega
    split at h
    · cases h
      exact ⟨[], by simp [limitSize], contig_nil lo, by simp; omega⟩
    · split at h
      · -- early return
        rename_i es1 hss
        cases h
        have hsh := sliceStore_shape l hs lo hi mx ca es true hss
        by_cases hlt : lo < l.unstable.offset
        · obtain ⟨_, _, ⟨S, h1, h2, h3⟩, _⟩ := hsh.1 hlt
          exact ⟨S, h1, h2, by have := Nat.min_le_left hi l.unstable.offset; omega⟩
        · have := (hsh.2 hlt).2; cases this
      · rename_i es1 hss
        have hsh := sliceStore_shape l hs lo hi mx ca es1 false hss
        by_cases hlt : lo < l.unstable.offset
        · obtain ⟨hc1, hl1, _, hb⟩ := hsh.1 hlt
          have hlen : es1.length = min hi l.unstable.offset - lo := by
            have : ¬ es1.length < min hi l.unstable.offset - lo := by
              intro hc; simp [hc] at hb
            omega
          split at h
          · rename_i hoh
            split at h
            · rename_i us hus
              cases h
              obtain ⟨hc2, hl2⟩ := unstableSlice_shape l.unstable hu _ hi us hus
              have hmin : min hi l.unstable.offset = l.unstable.offset := by
                rw [Nat.min_def]; split <;> omega
              have hmax : max lo l.unstable.offset = l.unstable.offset := by
                rw [Nat.max_def]; split <;> omega
              rw [hmax] at hc2 hl2
              rw [hmin] at hlen
              refine ⟨es1 ++ us, rfl, hc1.append ?_, ?_⟩
              · have : lo + es1.length = l.unstable.offset := by omega
                rw [this]; exact hc2
              · rw [List.length_append]; omega
            · cases h
            · cases h
          · cases h
            refine ⟨es1, rfl, hc1, ?_⟩
            have := Nat.min_le_left hi l.unstable.offset; omega
        · obtain ⟨he1, _⟩ := hsh.2 hlt
          subst he1
          split at h
          · rename_i hoh
            split at h
            · rename_i us hus
              cases h
              obtain ⟨hc2, hl2⟩ := unstableSlice_shape l.unstable hu _ hi us hus
              have hmax : max lo l.unstable.offset = lo := by
                rw [Nat.max_def]; split <;> omega
              rw [hmax] at hc2 hl2
              exact ⟨[] ++ us, rfl, by simpa using hc2, by simp; omega⟩
            · cases h
            · cases h
          · cases h
            exact ⟨[], rfl, contig_nil lo, by simp; omega⟩
      · cases h
      · cases h
  · cases h
  · cases h


/-- the size `util::limit_size` measures: the sum of the protobuf sizes of the entries -/
def msgSize (es : List Entry) : Nat := (es.map Entry.computeSize).sum

theorem computeSize_pos (e : Entry) (h : e.index ≠ 0) : e.computeSize ≠ 0 := by
  unfold Entry.computeSize
  simp only [h, ne_eq, not_false_eq_true, if_true]
  omega

theorem limitCount_bound (m : Nat) : ∀ (l : List Entry) (size : Nat), size ≠ 0 →
    limitCount m size l = 0 ∨ size + msgSize (l.take (limitCount m size l)) ≤ m := by
  intro l
  induction l with
  | nil => intro size _; left; rfl
  | cons e es ih =>
    intro size hs
    unfold limitCount
    simp only [hs, if_false]
    split
    · rename_i hle
      right
      have hne : size + e.computeSize ≠ 0 := by omega
      rcases ih (size + e.computeSize) hne with h0 | h1
      · rw [h0]; simp [msgSize]; omega
      · rw [Nat.add_comm 1, List.take_succ_cons]
        simp only [msgSize, List.map_cons, List.sum_cons] at h1 ⊢
        omega
    · left; rfl

/-- `util::limit_size` (util.rs:49-76): the result is a single entry (or none), or unlimited, or its
total size is within the limit — provided the first entry has a non-zero size (every entry with a
non-zero index has). -/
theorem limitSize_bound (l : List Entry) (m : Nat)
    (hpos : ∀ e, l.head? = some e → e.computeSize ≠ 0) :
    (limitSize l (some m)).length ≤ 1 ∨ m = NO_LIMIT ∨ msgSize (limitSize l (some m)) ≤ m := by
  unfold limitSize
  split
  · left; assumption
  · simp only
    split
    · right; left; assumption
    · cases l with
      | nil => left; simp
      | cons e es =>
        have hp := hpos e rfl
        unfold limitCount
        simp only [if_true, Nat.zero_add]
        rcases limitCount_bound m es e.computeSize hp with h0 | h1
        · left; rw [h0]; simp
        · right; right
          rw [Nat.add_comm 1, List.take_succ_cons]
          simp only [msgSize, List.map_cons, List.sum_cons] at h1 ⊢
          exact h1

/-- **What `RaftLog::entries(idx, max_size)` hands to `maybe_send_append`** (raft_log.rs:401-413),
under the C14 representation invariant: a contiguous run of entries numbered `idx, idx+1, …`, all
within the log, and — for `idx ≠ 0` — either at most one entry, or no limit, or of total size within
`max_size`. -/
theorem C13_entries_contiguous_bounded (l : RaftLog) (h : RaftProps.C14.RaftLogInv l) (idx : Nat)
    (mx : Option Nat) (ca : Bool) (es : List Entry) (he : l.entries idx mx ca = .ok es) :
    ContigFrom idx es ∧ (∀ e ∈ es, idx ≤ e.index ∧ e.index ≤ l.lastIndex) ∧
    (idx ≠ 0 → ∀ m, mx = some m → es.length ≤ 1 ∨ m = NO_LIMIT ∨ msgSize es ≤ m) := by
  unfold RaftLog.entries at he
  split at he
  · cases he
    exact ⟨contig_nil idx, by simp, fun _ _ _ => Or.inl (by simp)⟩
  · obtain ⟨X, h1, h2, h3⟩ := slice_shape l h.storeWF h.unstWF idx _ mx ca es he
    have hc := limitSize_contig h2 mx
    rw [← h1] at hc
    refine ⟨hc.1, ?_, ?_⟩
    · intro e hm
      obtain ⟨k, hk, hke⟩ := List.getElem_of_mem hm
      have := hc.1 k e (List.getElem?_eq_some_iff.2 ⟨hk, hke⟩)
      omega
    · intro hi m hmx
      subst hmx
      rw [h1]
      apply limitSize_bound
      intro e hh
      apply computeSize_pos
      have : X[0]? = some e := by rw [← List.head?_eq_getElem?]; exact hh
      have := h2 0 e this
      omega


/-! ## 2. the shape of an append and of the progress afterwards -/

/-- **`Progress::update_state(last)`** (progress.rs:225-238), per state: `Probe` pauses (one
un-acknowledged append at a time); `Replicate` moves `next_idx` to `last + 1` and appends `last` to
the in-flight window (no panic when the window satisfies its invariant and is not full, i.e. when
the progress is not paused); `Snapshot` is the `panic!` arm. -/
theorem C13_updateState_spec (pr : Progress) (last : Nat) :
    (pr.state = .probe → pr.updateState last = .ok pr.pause ∧ pr.pause.isPaused = true) ∧
    (pr.state = .replicate → last < U64_MAX → pr.ins.Inv → pr.ins.full = false →
      ∃ ins', pr.ins.add last = .ok ins' ∧ ins'.Inv ∧ ins'.contents = pr.ins.contents ++ [last] ∧
        ins'.count = pr.ins.count + 1 ∧
        pr.updateState last = .ok { pr with nextIdx := last + 1, ins := ins' }) ∧
    (pr.state = .snapshot → pr.updateState last = .panic "progress.update_state.snapshot") := by
  refine ⟨?_, ?_, ?_⟩
  · intro hs
    unfold Progress.updateState
    simp [hs, Progress.isPaused, Progress.pause]
  · intro hs hl hi hf
    obtain ⟨ins', h1, h2, _⟩ := Inflights.add_refines pr.ins hi last hf
    obtain ⟨ins'', h3, h4, h5⟩ := RaftProps.C18.C18_add_succeeds pr.ins hi last hf
    rw [h1] at h3
    cases h3
    refine ⟨ins', h1, h2, h4, h5, ?_⟩
    unfold Progress.updateState
    have : ¬ U64_MAX ≤ last := by omega
    simp only [hs, this, if_false, Progress.optimisticUpdate, h1]
  · intro hs
    unfold Progress.updateState
    simp [hs]

/-- **C13 `append_shape`** (raft.rs:816-835, 729-745; batching off).  A follower that is not paused
and has no snapshot request pending, whose next entries and anchor term are available, is sent
exactly one `MsgAppend`: `index = next_idx - 1`, `log_term = term(index)`, `commit = committed`,
`entries =` what `raft_log.entries(next_idx, max_size_per_msg)` returned (contiguous from `next_idx`,
within the log and within the size limit unless a single entry: `C13_entries_contiguous_bounded`),
from this node in its term.  Afterwards: an empty append leaves the progress alone; otherwise a
probing follower is paused and a replicating follower has `next_idx = last sent + 1` with the last
index appended to its window (`hins`, `hov`: the window invariant and `last < u64::MAX` rule out the
two panic sites of `update_state`). -/
theorem C13_append_shape (r : Raft) (to : Nat) (pr : Progress) (allowEmpty : Bool)
    (hp : pr.isPaused = false) (hq : pr.pendingRequestSnapshot = 0) (hb : r.batchAppend = false)
    (hn : pr.nextIdx ≠ 0) (t : Nat) (es : List Entry)
    (ht : r.raftLog.term (pr.nextIdx - 1) = .ok t)
    (he : r.raftLog.entries pr.nextIdx (some r.maxMsgSize) true = .ok es)
    (hae : allowEmpty = true ∨ es ≠ [])
    (hins : pr.ins.Inv) (hov : ∀ e ∈ es, e.index < U64_MAX) :
    ∃ pr', r.maybeSendAppend to pr allowEmpty =
        .ok ({ r with msgs := r.msgs ++ [appendMsg r to pr t es] }, pr', true) ∧
      (es = [] → pr' = pr) ∧
      (∀ last, es.getLast? = some last →
        (pr.state = .probe → pr' = pr.pause ∧ pr'.isPaused = true) ∧
        (pr.state = .replicate → pr' = { pr with nextIdx := last.index + 1, ins := pr'.ins } ∧
          pr'.ins.contents = pr.ins.contents ++ [last.index] ∧ pr'.ins.Inv)) := by
  rw [maybeSendAppend_entries r to pr allowEmpty hp hq hb hn t es ht he hae]
  cases hl : es.getLast? with
  | none =>
    exact ⟨pr, rfl, fun _ => rfl, (fun last h => nomatch h)⟩
  | some last =>
    have hne : es ≠ [] := by intro h; subst h; simp at hl
    have hmem : last ∈ es := List.mem_of_getLast? hl
    have hspec := C13_updateState_spec pr last.index
    cases hst : pr.state with
    | probe =>
      obtain ⟨h1, h2⟩ := hspec.1 hst
      refine ⟨pr.pause, by simp only [h1], fun h => absurd h hne, ?_⟩
      intro l' hl'; cases hl'
      exact ⟨fun _ => ⟨rfl, h2⟩, (fun h => nomatch h)⟩
    | replicate =>
      have hf : pr.ins.full = false := by
        have := hp; unfold Progress.isPaused at this; rw [hst] at this; exact this
      obtain ⟨ins', h1, h2, h3, _, h5⟩ := hspec.2.1 hst (hov last hmem) hins hf
      refine ⟨{ pr with nextIdx := last.index + 1, ins := ins' }, by simp only [h5],
        fun h => absurd h hne, ?_⟩
      intro l' hl'; cases hl'
      exact ⟨(fun h => nomatch h), fun _ => ⟨by simp only [hst], h3, h2⟩⟩
    | snapshot =>
      have := C13_snapshot_state_is_paused pr hst
      rw [hp] at this; cases this


/-! ## 7. batching -/

/-- the queued `MsgAppend` after `try_batching` glued `ents` onto it and refreshed its commit index -/
def batchedMsg (committed : Nat) (msg : Message) (ents : List Entry) : Message :=
  { msg with entries := msg.entries ++ ents, commit := committed }

/-- "a queued append to `to`" -/
def IsAppendTo (to : Nat) (m : Message) : Prop := m.msgType = .msgAppend ∧ m.to = to

/-- `util::is_continuous_ents` (util.rs:78, with the repair of finding F8): an empty batch is always
continuous; otherwise its first index must be one past the last entry of the queued message, or —
when the queued message carries no entries — one past the index the message is anchored at. -/
theorem C13_isContinuousEnts_char (msg : Message) (ents : List Entry) :
    isContinuousEnts msg ents = true ↔
      ents = [] ∨ ∃ first, ents.head? = some first ∧
        first.index = (match msg.entries.getLast? with
          | some last => last.index + 1
          | none => msg.index + 1) := by
  unfold isContinuousEnts
  cases ents with
  | nil => simp
  | cons e es =>
    simp only [List.head?_cons, beq_iff_eq, reduceCtorEq, false_or, Option.some.injEq, exists_eq_left']
    constructor <;> intro h <;> exact h.symm

theorem tryBatchingLoop_spec (committed to : Nat) (pr : Progress) (ents : List Entry) :
    ∀ (msgs msgs' : List Message) (pr' : Progress) (b : Bool),
    tryBatchingLoop committed to pr ents msgs = .ok (msgs', pr', b) →
    (b = true → ∃ pre msg post, msgs = pre ++ msg :: post ∧
        (∀ m ∈ pre, ¬ IsAppendTo to m) ∧ IsAppendTo to msg ∧ isContinuousEnts msg ents = true ∧
        msgs' = pre ++ batchedMsg committed msg ents :: post ∧ SentUpdate pr ents pr') ∧
    (b = false → msgs' = msgs ∧ pr' = pr ∧
        ((∀ m ∈ msgs, ¬ IsAppendTo to m) ∨
         (ents ≠ [] ∧ ∃ pre msg post, msgs = pre ++ msg :: post ∧
            (∀ m ∈ pre, ¬ IsAppendTo to m) ∧ IsAppendTo to msg ∧
            isContinuousEnts msg ents = false))) := by
  intro msgs
  induction msgs with
  | nil =>
    intro msgs' pr' b h
    unfold tryBatchingLoop at h
    cases h
    exact ⟨(fun hb => nomatch hb), fun _ => ⟨rfl, rfl, Or.inl (by simp)⟩⟩
  | cons msg rest ih =>
    intro msgs' pr' b h
    unfold tryBatchingLoop at h
    split at h
    · rename_i hto
      have hto' : IsAppendTo to msg := hto
      cases hemp : ents.isEmpty with
      | true =>
        have hnil : ents = [] := by simpa using hemp
        subst hnil
        simp only [List.isEmpty_nil, Bool.not_true, Bool.false_eq_true, if_false] at h
        cases h
        refine ⟨fun _ => ⟨[], msg, rest, rfl, by simp, hto', rfl, ?_, ?_⟩, (fun hb => nomatch hb)⟩
        · simp [batchedMsg]
        · show pr = pr; rfl
      | false =>
        have hne : ents ≠ [] := by intro hc; subst hc; simp at hemp
        simp only [hemp, Bool.not_false, if_true] at h
        cases hc : isContinuousEnts msg ents with
        | false =>
          simp only [hc, Bool.not_false, if_true] at h
          cases h
          exact ⟨(fun hb => nomatch hb), fun _ => ⟨rfl, rfl,
            Or.inr ⟨hne, [], msg, rest, rfl, by simp, hto', hc⟩⟩⟩
        | true =>
          simp only [hc, Bool.not_true, Bool.false_eq_true, if_false] at h
          obtain ⟨x, hx⟩ : ∃ x, ents.getLast? = some x := by
            cases hg : ents.getLast? with
            | none => simp at hg; exact absurd hg hne
            | some x => exact ⟨x, rfl⟩
          have hlast : (msg.entries ++ ents).getLast? = some x := by
            rw [List.getLast?_append, hx]; rfl
          rw [hlast] at h
          simp only at h
          split at h
          · rename_i p hu
            cases h
            refine ⟨fun _ => ⟨[], msg, rest, rfl, by simp, hto', hc, rfl, ?_⟩, (fun hb => nomatch hb)⟩
            unfold SentUpdate; rw [hx]; exact hu
          · cases h
          · cases h
    · rename_i hto
      have hto' : ¬ IsAppendTo to msg := hto
      split at h
      · rename_i rest' p b' hrec
        cases h
        have := ih rest' pr' b hrec
        refine ⟨fun hb => ?_, fun hb => ?_⟩
        · obtain ⟨pre, m0, post, h1, h2, h3, h4, h5, h6⟩ := this.1 hb
          refine ⟨msg :: pre, m0, post, by rw [h1]; rfl, ?_, h3, h4, by rw [h5]; rfl, h6⟩
          intro m hm
          rcases List.mem_cons.1 hm with h | h
          · subst h; exact hto'
          · exact h2 m h
        · obtain ⟨h1, h2, h3⟩ := this.2 hb
          refine ⟨by rw [h1], h2, ?_⟩
          rcases h3 with h3 | ⟨hne, pre, m0, post, h4, h5, h6, h7⟩
          · left
            intro m hm
            rcases List.mem_cons.1 hm with h | h
            · subst h; exact hto'
            · exact h3 m h
          · right
            refine ⟨hne, msg :: pre, m0, post, by rw [h4]; rfl, ?_, h6, h7⟩
            intro m hm
            rcases List.mem_cons.1 hm with h | h
            · subst h; exact hto'
            · exact h5 m h
      · cases h
      · cases h


/-- **C13 `batching`** (raft.rs:747-774).  `try_batching` either leaves the queue and the progress
alone (`false`: no append to this peer is queued, or the first one queued is not continued by the new
entries), or rewrites **exactly one** queued message — the first `MsgAppend` to the same peer — and
only when the new entries start exactly one past that message's last entry (or, for an entry-less
message, one past its anchor `msg.index`: the repaired case of finding F8): the new entries are
appended, the commit index refreshed, everything else in the queue is untouched, and the progress is
updated as if the entries had been sent on their own (`SentUpdate`). -/
theorem C13_batching (r r' : Raft) (to : Nat) (pr pr' : Progress) (ents : List Entry) (b : Bool)
    (h : r.tryBatching to pr ents = .ok (r', pr', b)) :
    r' = { r with msgs := r'.msgs } ∧
    (b = true → ∃ pre msg post, r.msgs = pre ++ msg :: post ∧
        (∀ m ∈ pre, ¬ IsAppendTo to m) ∧ IsAppendTo to msg ∧ isContinuousEnts msg ents = true ∧
        r'.msgs = pre ++ batchedMsg r.raftLog.committed msg ents :: post ∧ SentUpdate pr ents pr') ∧
    (b = false → r' = r ∧ pr' = pr ∧
        ((∀ m ∈ r.msgs, ¬ IsAppendTo to m) ∨
         (ents ≠ [] ∧ ∃ pre msg post, r.msgs = pre ++ msg :: post ∧
            (∀ m ∈ pre, ¬ IsAppendTo to m) ∧ IsAppendTo to msg ∧
            isContinuousEnts msg ents = false))) := by
  unfold Raft.tryBatching at h
  split at h
  · rename_i msgs p b' hl
    cases h
    have := tryBatchingLoop_spec r.raftLog.committed to pr ents r.msgs msgs pr' b hl
    refine ⟨rfl, this.1, fun hb => ?_⟩
    obtain ⟨h1, h2, h3⟩ := this.2 hb
    refine ⟨?_, h2, h3⟩
    rw [h1]
  · cases h
  · cases h

/-- batching keeps a queued append a contiguous slice: if the queued message carries entries
numbered from `msg.index + 1` and the new entries are numbered consecutively, the glued message
carries entries numbered from `msg.index + 1` — the anchor `(index, log_term)` stays right. -/
theorem C13_batching_keeps_contiguity (committed : Nat) (msg : Message) (ents : List Entry)
    (s : Nat) (hm : ContigFrom (msg.index + 1) msg.entries) (he : ContigFrom s ents)
    (hc : isContinuousEnts msg ents = true) :
    ContigFrom ((batchedMsg committed msg ents).index + 1) (batchedMsg committed msg ents).entries ∧
    (batchedMsg committed msg ents).index = msg.index ∧
    (batchedMsg committed msg ents).logTerm = msg.logTerm := by
  refine ⟨?_, rfl, rfl⟩
  show ContigFrom (msg.index + 1) (msg.entries ++ ents)
  cases ents with
  | nil => simpa using hm
  | cons e es =>
    apply hm.append
    have hs : e.index = s := he.head
    rcases (C13_isContinuousEnts_char msg (e :: es)).1 hc with h | ⟨f, hf, hidx⟩
    · cases h
    · simp only [List.head?_cons, Option.some.injEq] at hf
      subst hf
      have : msg.index + 1 + msg.entries.length = s := by
        cases hl : msg.entries.getLast? with
        | none =>
          have : msg.entries = [] := by simpa using hl
          rw [hl] at hidx; simp only at hidx
          rw [this]; simp; omega
        | some last =>
          rw [hl] at hidx; simp only at hidx
          have := hm.getLast hl
          omega
      rw [this]; exact he

/-- **Restated part of `batching`: there is no size limit on a batched message.**  The property text
says "within `max_size_per_msg`"; the code does not check it: `try_batching` does not look at
`max_msg_size` at all (it is not an input of the loop, and changing it changes nothing), so every
*chunk* glued on is within the limit (`C13_entries_contiguous_bounded`) but the queued message grows
by one chunk per call (per proposal, with `send_append` after each) without bound until the
application takes the Ready.  This matches upstream behaviour (the limit bounds what is read from
the log per call, not the message). -/
theorem C13_batching_ignores_size_limit (r : Raft) (n to : Nat) (pr : Progress) (ents : List Entry) :
    ({ r with maxMsgSize := n } : Raft).tryBatching to pr ents =
      match r.tryBatching to pr ents with
      | .ok (r', pr', b) => .ok ({ r' with maxMsgSize := n }, pr', b)
      | .err e => .err e
      | .panic s => .panic s := by
  unfold Raft.tryBatching
  simp only
  cases tryBatchingLoop r.raftLog.committed to pr ents r.msgs with
  | ok p => rfl
  | err e => rfl
  | panic s => rfl


/-- sending `es` on their own: queue `appendMsg`, update the progress (`prepare_send_entries` + `send`) -/
def sendEntries (r : Raft) (to : Nat) (pr : Progress) (t : Nat) (es : List Entry) :
    Res (Raft × Progress × Bool) :=
  match es.getLast? with
  | none => .ok ({ r with msgs := r.msgs ++ [appendMsg r to pr t es] }, pr, true)
  | some last =>
    match pr.updateState last.index with
    | .ok pr' => .ok ({ r with msgs := r.msgs ++ [appendMsg r to pr t es] }, pr', true)
    | .err e => .err e
    | .panic s => .panic s

theorem sendEntries_spec (r r' : Raft) (to : Nat) (pr pr' : Progress) (t : Nat) (es : List Entry)
    (b : Bool) (h : sendEntries r to pr t es = .ok (r', pr', b)) :
    b = true ∧ r' = { r with msgs := r.msgs ++ [appendMsg r to pr t es] } ∧ SentUpdate pr es pr' := by
  unfold sendEntries at h
  unfold SentUpdate
  cases hl : es.getLast? with
  | none =>
    rw [hl] at h; simp only at h; cases h
    refine ⟨rfl, rfl, ?_⟩; show pr = pr; rfl
  | some last =>
    rw [hl] at h; simp only at h
    cases hu : pr.updateState last.index with
    | ok p =>
      rw [hu] at h; simp only at h; cases h
      refine ⟨rfl, rfl, ?_⟩; show pr.updateState last.index = .ok _; exact hu
    | err e => rw [hu] at h; cases h
    | panic s => rw [hu] at h; cases h

/-- `maybe_send_append` with batching on (raft.rs:830-834): if `try_batching` glued the entries onto
a queued append nothing new is queued; otherwise (`try_batching` changed nothing) the entries are
sent exactly as without batching. -/
theorem maybeSendAppend_batching (r : Raft) (to : Nat) (pr : Progress) (allowEmpty : Bool)
    (hp : pr.isPaused = false) (hq : pr.pendingRequestSnapshot = 0) (hb : r.batchAppend = true)
    (hn : pr.nextIdx ≠ 0) (t : Nat) (es : List Entry)
    (ht : r.raftLog.term (pr.nextIdx - 1) = .ok t)
    (he : r.raftLog.entries pr.nextIdx (some r.maxMsgSize) true = .ok es)
    (hae : allowEmpty = true ∨ es ≠ []) :
    r.maybeSendAppend to pr allowEmpty =
      match r.tryBatching to pr es with
      | .ok (r1, pr1, true) => .ok (r1, pr1, true)
      | .ok (_, _, false) => sendEntries r to pr t es
      | .err e => .err e
      | .panic s => .panic s := by
  have hae' : (!allowEmpty && es.isEmpty) = false := by
    rcases hae with h | h
    · simp [h]
    · cases es with
      | nil => exact absurd rfl h
      | cons _ _ => simp
  cases htb : r.tryBatching to pr es with
  | ok q =>
    obtain ⟨r1, pr1, b⟩ := q
    cases b with
    | true =>
      unfold Raft.maybeSendAppend
      simp only [hp, hq, he, ht, hb, hn, hae', htb, Bool.false_eq_true, if_false, if_true, ne_eq,
        not_true_eq_false]
    | false =>
      obtain ⟨h1, h2, _⟩ := (C13_batching r r1 to pr pr1 es false htb).2.2 rfl
      subst h1; subst h2
      simp only
      unfold Raft.maybeSendAppend sendEntries
      simp only [hp, hq, he, ht, hb, hn, hae', htb, Bool.false_eq_true, if_false, if_true, ne_eq,
        not_true_eq_false, Raft.prepareSendEntries]
      cases hl : es.getLast? with
      | none =>
        simp only [send_appendMsg, Res.bind, hb]
      | some last =>
        simp only
        cases hu : pr1.updateState last.index with
        | ok pr' => simp only [send_appendMsg, Res.bind, hb]
        | err e => rfl
        | panic s => rfl
  | err e =>
    unfold Raft.maybeSendAppend
    simp only [hp, hq, he, ht, hb, hn, hae', htb, Bool.false_eq_true, if_false, if_true, ne_eq,
      not_true_eq_false]
  | panic s =>
    unfold Raft.maybeSendAppend
    simp only [hp, hq, he, ht, hb, hn, hae', htb, Bool.false_eq_true, if_false, if_true, ne_eq,
      not_true_eq_false]

theorem maybeSendAppend_entries' (r : Raft) (to : Nat) (pr : Progress) (allowEmpty : Bool)
    (hp : pr.isPaused = false) (hq : pr.pendingRequestSnapshot = 0) (hb : r.batchAppend = false)
    (hn : pr.nextIdx ≠ 0) (t : Nat) (es : List Entry)
    (ht : r.raftLog.term (pr.nextIdx - 1) = .ok t)
    (he : r.raftLog.entries pr.nextIdx (some r.maxMsgSize) true = .ok es)
    (hae : allowEmpty = true ∨ es ≠ []) :
    r.maybeSendAppend to pr allowEmpty = sendEntries r to pr t es :=
  maybeSendAppend_entries r to pr allowEmpty hp hq hb hn t es ht he hae

/-- **Classification of every successful `maybe_send_append`** (raft.rs:794-851): nothing for a paused
follower; an append of exactly the entries the log returned (queued on its own, or — batching on —
glued onto a queued append by `try_batching`); nothing when there is nothing to send and empty
appends are not wanted, or the storage fetches asynchronously; otherwise the snapshot path. -/
theorem C13_send_classification (r r' : Raft) (to : Nat) (pr pr' : Progress) (allowEmpty sent : Bool)
    (h : r.maybeSendAppend to pr allowEmpty = .ok (r', pr', sent)) :
    (pr.isPaused = true ∧ r' = r ∧ pr' = pr ∧ sent = false) ∨
    (pr.isPaused = false ∧ pr.pendingRequestSnapshot = 0 ∧ pr.nextIdx ≠ 0 ∧ ∃ t es,
        r.raftLog.term (pr.nextIdx - 1) = .ok t ∧
        r.raftLog.entries pr.nextIdx (some r.maxMsgSize) true = .ok es ∧
        (allowEmpty = true ∨ es ≠ []) ∧ sent = true ∧ SentUpdate pr es pr' ∧
        ((r.batchAppend = true ∧ r.tryBatching to pr es = .ok (r', pr', true)) ∨
         ((r.batchAppend = false ∨ r.tryBatching to pr es = .ok (r, pr, false)) ∧
           r' = { r with msgs := r.msgs ++ [appendMsg r to pr t es] }))) ∨
    (pr.isPaused = false ∧ pr.pendingRequestSnapshot = 0 ∧ r' = r ∧ pr' = pr ∧ sent = false ∧
        ((allowEmpty = false ∧
            (r.raftLog.entries pr.nextIdx (some r.maxMsgSize) true = .ok [] ∨
             ∃ e, r.raftLog.entries pr.nextIdx (some r.maxMsgSize) true = .err e)) ∨
         r.raftLog.entries pr.nextIdx (some r.maxMsgSize) true = .err .logTemporarilyUnavailable)) ∨
    (pr.isPaused = false ∧
        (pr.pendingRequestSnapshot ≠ 0 ∨
         (∃ e, r.raftLog.term (pr.nextIdx - 1) = .err e) ∨
         (∃ e, r.raftLog.entries pr.nextIdx (some r.maxMsgSize) true = .err e ∧
            e ≠ .logTemporarilyUnavailable)) ∧
        viaSnapshot r to pr = .ok (r', pr', sent)) := by
  cases hp : pr.isPaused with
  | true =>
    rw [C13_no_send_when_paused r to pr allowEmpty hp] at h
    cases h; exact Or.inl ⟨rfl, rfl, rfl, rfl⟩
  | false =>
    right
    by_cases hq : pr.pendingRequestSnapshot = 0
    · cases he : r.raftLog.entries pr.nextIdx (some r.maxMsgSize) true with
      | panic s => unfold Raft.maybeSendAppend at h; simp [hp, hq, he] at h
      | ok es =>
        by_cases hae : allowEmpty = true ∨ es ≠ []
        · by_cases hn : pr.nextIdx = 0
          · have hae' : (!allowEmpty && es.isEmpty) = false := by
              rcases hae with h1 | h1
              · simp [h1]
              · cases es with
                | nil => exact absurd rfl h1
                | cons _ _ => simp
            rw [hn] at he
            unfold Raft.maybeSendAppend at h; simp [hp, hq, he, hn, hae'] at h
          · cases ht : r.raftLog.term (pr.nextIdx - 1) with
            | panic s =>
              have hae' : (!allowEmpty && es.isEmpty) = false := by
                rcases hae with h1 | h1
                · simp [h1]
                · cases es with
                  | nil => exact absurd rfl h1
                  | cons _ _ => simp
              unfold Raft.maybeSendAppend at h; simp [hp, hq, he, hn, hae', ht] at h
            | ok t =>
              left
              refine ⟨rfl, hq, hn, t, es, rfl, rfl, hae, ?_⟩
              rcases Bool.eq_false_or_eq_true r.batchAppend with hb | hb
              rotate_left
              · rw [maybeSendAppend_entries' r to pr allowEmpty hp hq hb hn t es ht he hae] at h
                obtain ⟨h1, h2, h3⟩ := sendEntries_spec r r' to pr pr' t es sent h
                exact ⟨h1, h3, Or.inr ⟨Or.inl hb, h2⟩⟩
              · rw [maybeSendAppend_batching r to pr allowEmpty hp hq hb hn t es ht he hae] at h
                cases htb : r.tryBatching to pr es with
                | ok q =>
                  obtain ⟨r1, pr1, b⟩ := q
                  rw [htb] at h
                  cases b with
                  | true =>
                    simp only at h
                    cases h
                    have := (C13_batching r r' to pr pr' es true htb).2.1 rfl
                    obtain ⟨_, _, _, _, _, _, _, _, hsu⟩ := this
                    exact ⟨rfl, hsu, Or.inl ⟨hb, rfl⟩⟩
                  | false =>
                    simp only at h
                    obtain ⟨h1, h2, h3⟩ := sendEntries_spec r r' to pr pr' t es sent h
                    obtain ⟨h4, h5, _⟩ := (C13_batching r r1 to pr pr1 es false htb).2.2 rfl
                    subst h4; subst h5
                    exact ⟨h1, h3, Or.inr ⟨Or.inr rfl, h2⟩⟩
                | err e => rw [htb] at h; cases h
                | panic s => rw [htb] at h; cases h
            | err e =>
              right; right
              rw [maybeSendAppend_term_err r to pr allowEmpty hp hq hn es he hae e ht] at h
              exact ⟨rfl, Or.inr (Or.inl ⟨e, rfl⟩), h⟩
        · right; left
          have ha : allowEmpty = false := by
            cases allowEmpty with
            | false => rfl
            | true => exact absurd (Or.inl rfl) hae
          have hes : es = [] := by
            apply Classical.byContradiction; intro hc; exact hae (Or.inr hc)
          subst hes
          rw [(maybeSendAppend_nothing r to pr allowEmpty hp hq).1 ha he] at h
          cases h
          exact ⟨rfl, hq, rfl, rfl, rfl, Or.inl ⟨ha, Or.inl rfl⟩⟩
      | err e =>
        cases ha : allowEmpty with
        | false =>
          right; left
          rw [ha] at h
          rw [(maybeSendAppend_nothing r to pr false hp hq).2.1 rfl e he] at h
          cases h
          exact ⟨rfl, hq, rfl, rfl, rfl, Or.inl ⟨rfl, Or.inr ⟨e, rfl⟩⟩⟩
        | true =>
          rw [ha] at h
          by_cases hn : pr.nextIdx = 0
          · rw [hn] at he
            unfold Raft.maybeSendAppend at h; simp [hp, hq, he, hn] at h
          · have hnp : ∀ s, r.raftLog.term (pr.nextIdx - 1) ≠ .panic s := by
              intro s ht
              unfold Raft.maybeSendAppend at h; simp [hp, hq, he, hn, ht] at h
            by_cases hlt : e = .logTemporarilyUnavailable
            · right; left
              subst hlt
              rw [(maybeSendAppend_nothing r to pr true hp hq).2.2 hn hnp he] at h
              cases h
              exact ⟨rfl, hq, rfl, rfl, rfl, Or.inr rfl⟩
            · right; right
              rw [maybeSendAppend_entries_err r to pr hp hq hn e he hlt hnp] at h
              exact ⟨rfl, Or.inr (Or.inr ⟨e, rfl, hlt⟩), h⟩
    · right; right
      rw [maybeSendAppend_request_snapshot r to pr allowEmpty hp hq] at h
      exact ⟨rfl, Or.inl hq, h⟩




/-! ## 4. snapshots instead of entries -/

/-- `RaftLog::entries` below the first index answers `Compacted` (raft_log.rs:401-413, 501-512): the
needed entries are gone. -/
theorem entries_compacted (l : RaftLog) (idx : Nat) (mx : Option Nat) (ca : Bool)
    (h1 : idx ≤ l.lastIndex) (h2 : idx < l.firstIndex) : l.entries idx mx ca = .err .compacted := by
  unfold RaftLog.entries RaftLog.slice RaftLog.mustCheckOutOfBounds
  have h3 : ¬ l.lastIndex < idx := by omega
  have h4 : ¬ l.lastIndex + 1 < idx := by omega
  simp [h3, h4, h2]

/-- **C13 `snapshot_instead_of_entries`** (raft.rs:809-815, 836-847, 679-727).  For a follower that
is not paused, `maybe_send_append` takes the snapshot path — and never reads or sends entries —
when (a) the follower asked for a snapshot (`pending_request_snapshot ≠ 0`), or (b) reading the
entries from `next_idx` failed with anything but "temporarily unavailable" (`Compacted`: see
`entries_compacted`) and an empty append would be allowed, or (c) the anchor term
`term(next_idx - 1)` is not available (compacted away).  On that path (`viaSnapshot`):
* a follower that is not `recent_active` gets nothing, nothing changes;
* a temporarily unavailable snapshot sends nothing and leaves the progress alone;
* an empty snapshot (index 0) is the `fatal!` site (`C13_prepareSendSnapshot_empty_panics`);
* otherwise exactly one `MsgSnapshot` carrying the storage's snapshot is queued and the progress
  moves to `Snapshot` with `pending_snapshot =` the snapshot's index — which pauses it
  (`C13_snapshot_state_is_paused`) until the snapshot is acknowledged or fails; `matched` and
  `next_idx` are untouched. -/
theorem C13_snapshot_instead_of_entries (r : Raft) (to : Nat) (pr : Progress) (allowEmpty : Bool)
    (hp : pr.isPaused = false)
    (hc : pr.pendingRequestSnapshot ≠ 0 ∨
      (pr.pendingRequestSnapshot = 0 ∧ pr.nextIdx ≠ 0 ∧ allowEmpty = true ∧
        (∀ s, r.raftLog.term (pr.nextIdx - 1) ≠ .panic s) ∧
        ∃ e, r.raftLog.entries pr.nextIdx (some r.maxMsgSize) true = .err e ∧
          e ≠ .logTemporarilyUnavailable) ∨
      (pr.pendingRequestSnapshot = 0 ∧ pr.nextIdx ≠ 0 ∧
        ∃ es e, r.raftLog.entries pr.nextIdx (some r.maxMsgSize) true = .ok es ∧
          (allowEmpty = true ∨ es ≠ []) ∧ r.raftLog.term (pr.nextIdx - 1) = .err e)) :
    r.maybeSendAppend to pr allowEmpty = viaSnapshot r to pr ∧
    (pr.recentActive = false → viaSnapshot r to pr = .ok (r, pr, false)) ∧
    ∀ r' pr' sent, viaSnapshot r to pr = .ok (r', pr', sent) →
      (sent = true → pr.recentActive = true ∧ ∃ sn,
        r.raftLog.snapshot pr.pendingRequestSnapshot = (r'.raftLog, .ok sn) ∧
        sn.metadata.index ≠ 0 ∧
        r' = { r with raftLog := r'.raftLog, msgs := r.msgs ++ [snapMsg r to sn] } ∧
        pr' = pr.becomeSnapshot sn.metadata.index ∧
        pr'.state = .snapshot ∧ pr'.pendingSnapshot = sn.metadata.index ∧ pr'.isPaused = true ∧
        pr'.matched = pr.matched ∧ pr'.nextIdx = pr.nextIdx) ∧
      (sent = false → pr' = pr ∧ r' = { r with raftLog := r'.raftLog }) := by
  refine ⟨?_, ?_, ?_⟩
  · rcases hc with hq | ⟨hq, hn, ha, hnp, e, he, hne⟩ | ⟨hq, hn, es, e, he, hae, ht⟩
    · exact maybeSendAppend_request_snapshot r to pr allowEmpty hp hq
    · subst ha; exact maybeSendAppend_entries_err r to pr hp hq hn e he hne hnp
    · exact maybeSendAppend_term_err r to pr allowEmpty hp hq hn es he hae e ht
  · intro ha
    unfold viaSnapshot
    rw [C13_prepareSendSnapshot_inactive r _ pr to ha]
  · intro r' pr' sent h
    have hs := viaSnapshot_spec r r' to pr pr' sent h
    refine ⟨fun hb => ?_, fun hb => ⟨(hs.2 hb).1, (hs.2 hb).2.1⟩⟩
    obtain ⟨h1, sn, h2, h3, h4, h5⟩ := hs.1 hb
    refine ⟨h1, sn, h2, h3, h4, h5, ?_⟩
    subst h5
    exact ⟨rfl, rfl, rfl, rfl, rfl⟩

/-! ## 5 (node level). sending keeps the progress within the log -/

/-- taking a snapshot does not change the last index (only the storage's "unavailable" trigger is
consumed) -/
theorem snapshot_lastIndex (l : RaftLog) (ri : Nat) : (l.snapshot ri).1.lastIndex = l.lastIndex := by
  have hst : ∀ (s : MemStorage), (s.snapshot ri).1.lastIndex = s.lastIndex := by
    intro s
    unfold MemStorage.snapshot
    split
    · rfl
    · split <;> rfl
  unfold RaftLog.snapshot
  split
  · split
    · rfl
    · simp only [RaftLog.lastIndex]; rw [hst]
  · simp only [RaftLog.lastIndex]; rw [hst]

/-- how `maybe_send_append` can change a progress, batching on or off: not at all, or the update for
the entries the log returned, or the move to `Snapshot`. -/
theorem C13_send_progress_cases (r r' : Raft) (to : Nat) (pr pr' : Progress)
    (allowEmpty sent : Bool) (h : r.maybeSendAppend to pr allowEmpty = .ok (r', pr', sent)) :
    r'.raftLog.lastIndex = r.raftLog.lastIndex ∧
    (pr' = pr ∨
     (pr.isPaused = false ∧ ∃ es, r.raftLog.entries pr.nextIdx (some r.maxMsgSize) true = .ok es ∧
        SentUpdate pr es pr') ∨
     (pr.isPaused = false ∧ ∃ idx, pr' = pr.becomeSnapshot idx)) := by
  rcases C13_send_classification r r' to pr pr' allowEmpty sent h with
    ⟨_, h1, h2, _⟩ | ⟨hp, _, _, t, es, _, he, _, _, hsu, hr⟩ | ⟨_, _, h1, h2, _⟩ | ⟨hp, _, hv⟩
  · subst h1; exact ⟨rfl, Or.inl h2⟩
  · refine ⟨?_, Or.inr (Or.inl ⟨hp, es, he, hsu⟩)⟩
    rcases hr with ⟨_, htb⟩ | ⟨_, h2⟩
    · have := (C13_batching r r' to pr pr' es true htb).1
      rw [this]
    · rw [h2]
  · subst h1; exact ⟨rfl, Or.inl h2⟩
  · have hs := viaSnapshot_spec r r' to pr pr' sent hv
    cases sent with
    | true =>
      obtain ⟨_, sn, h2, _, _, h5⟩ := hs.1 rfl
      refine ⟨?_, Or.inr (Or.inr ⟨hp, _, h5⟩)⟩
      have := snapshot_lastIndex r.raftLog pr.pendingRequestSnapshot
      rw [h2] at this; exact this
    | false =>
      obtain ⟨h1, h2, _⟩ := hs.2 rfl
      refine ⟨?_, Or.inl h1⟩
      have hl : r'.raftLog = (r.raftLog.snapshot pr.pendingRequestSnapshot).1 ∨ r'.raftLog = r.raftLog := by
        unfold viaSnapshot at hv
        cases hps : r.prepareSendSnapshot { to := to } pr to with
        | ok q =>
          obtain ⟨r1, m1, pr1, b⟩ := q
          rw [hps] at hv
          cases b with
          | true =>
            simp only at hv
            cases hsd : r1.send m1 with
            | ok r2 => rw [hsd] at hv; simp only [Res.bind] at hv; cases hv
            | err e => rw [hsd] at hv; cases hv
            | panic s => rw [hsd] at hv; cases hv
          | false =>
            simp only at hv
            cases hv
            unfold Raft.prepareSendSnapshot at hps
            split at hps
            · cases hps; exact Or.inr rfl
            · simp only at hps
              split at hps
              · cases hps; exact Or.inl rfl
              · cases hps
              · cases hps
              · split at hps <;> cases hps
        | err e => rw [hps] at hv; cases hv
        | panic s => rw [hps] at hv; cases hv
      rcases hl with hl | hl
      · rw [hl]; exact snapshot_lastIndex _ _
      · rw [hl]

/-- **C13 `progress_within_log` (sending).**  Under the C14 representation invariant of the log,
`maybe_send_append` (batching on or off, any path) keeps a progress within the leader's log: the
optimistic `next_idx` never runs past `last_index + 1`, because the entries sent are entries of the
log (`C13_entries_contiguous_bounded`). -/
theorem C13_progress_within_log_send (r r' : Raft) (to : Nat) (pr pr' : Progress)
    (allowEmpty sent : Bool) (hinv : RaftProps.C14.RaftLogInv r.raftLog)
    (hok : ProgressOk r.raftLog.lastIndex pr)
    (h : r.maybeSendAppend to pr allowEmpty = .ok (r', pr', sent)) :
    ProgressOk r'.raftLog.lastIndex pr' := by
  obtain ⟨hl, hc⟩ := C13_send_progress_cases r r' to pr pr' allowEmpty sent h
  rw [hl]
  rcases hc with h1 | ⟨_, es, he, hsu⟩ | ⟨_, idx, h1⟩
  · rw [h1]; exact hok
  · unfold SentUpdate at hsu
    cases hg : es.getLast? with
    | none => rw [hg] at hsu; simp only at hsu; rw [hsu]; exact hok
    | some last =>
      rw [hg] at hsu; simp only at hsu
      have hm := (C13_entries_contiguous_bounded r.raftLog hinv pr.nextIdx _ true es he).2.1 last
        (List.mem_of_getLast? hg)
      have := hok.2.1
      exact ProgressOk.updateState hok last.index (by omega) hm.2 pr' hsu
  · rw [h1]; exact (ProgressOk.become hok).2.2 idx

/-- **C13 `progress_within_log` (acknowledgements).**  `handle_append_response` (raft.rs:1676) feeds
the index of an accepted `MsgAppendResponse` straight into `Progress::maybe_update`: there is no
check against `last_index` on the leader.  So the leader-level guarantee `matched ≤ last_index`
needs `m.index ≤ last_index` of every accepted response — a *cluster-level* fact (a follower only
acknowledges what a leader of that term sent it: `C13_append_is_leader_slice`), validated on traces
by the cluster-level checker; `C13_maybeUpdate_beyond_log` shows the bound does break without it.
A rejection goes through `maybe_decr_to`, which keeps the bound unconditionally
(`ProgressOk.maybeDecrTo`). -/
theorem C13_append_response_uses_message_index (r : Raft) (m : Message) (pr : Progress)
    (hg : r.prs.get m.frm = some pr) (hr : m.reject = false) :
    r.handleAppendResponse m =
      match (({ pr with recentActive := true } : Progress).updateCommitted m.commit).maybeUpdate m.index with
      | .panic s => .panic s
      | .err e => .err e
      | .ok (pr', false) => .ok { r with prs := r.prs.set m.frm pr' }
      | .ok (pr', true) => r.handleAppendResponseAccepted m pr'
          (({ pr with recentActive := true } : Progress).updateCommitted m.commit).isPaused := by
  unfold Raft.handleAppendResponse
  simp only [hr, Bool.false_eq_true, false_and, if_false, Res.bind, hg]
  rfl


/-! ## 8. non-vacuity: concrete states -/

/-- a storage like the C14 witness: snapshot point (2, 1); entries 3 (term 1, 5 data bytes) and 4
(term 2, 20 data bytes); the commit index 2 is recorded, so that it can produce a snapshot -/
def st1 : MemStorage :=
  { snapshotMetadata := { index := 2, term := 1 }, hardState := { commit := 2 },
    entries := [RaftProps.C14.ent 3 1 5, RaftProps.C14.ent 4 2 20] }

theorem st1_wf : st1.WF := by
  refine ⟨?_, by decide⟩
  intro k e hk
  match k, hk with
  | 0, hk => simp [st1] at hk; subst hk; rfl
  | 1, hk => simp [st1] at hk; subst hk; rfl
  | n + 2, hk => simp [st1] at hk

def log1 : RaftLog :=
  { store := st1, unstable := Unstable.new 5, committed := 2, persisted := 4, applied := 2,
    maxApplyUnpersistedLogLimit := 0 }

/-- the C14 representation invariant holds on the witness log (it is `RaftLog::new(st1)`) -/
theorem log1_inv : RaftProps.C14.RaftLogInv log1 := by
  obtain ⟨l, e, hi, _, _⟩ := RaftProps.C14.C14_new_inv st1 st1_wf 0
  have : RaftLog.new st1 0 = .ok log1 := rfl
  rw [this] at e; cases e; exact hi

/-- a leader (id 1, term 2) over that log, with an uncommitted-size limit of 10 bytes of which 8 are
used -/
def leader1 : Raft :=
  { raftLog := log1, id := 1, term := 2, state := .leader, maxMsgSize := 1000,
    prs := { progress := [(1, { matched := 4, nextIdx := 5, state := .replicate,
                                 ins := Inflights.new 2 })] },
    uncommittedState := { maxUncommittedSize := 10, uncommittedSize := 8, lastLogTailIndex := 4 } }

/-- a replicating follower that has everything up to the snapshot point, window of 2 -/
def prRep : Progress :=
  { matched := 2, nextIdx := 3, state := .replicate, ins := Inflights.new 2, recentActive := true }

/-- what a test looks at: the queued messages (type, to, from, term, index, log term, commit, entry
indexes, snapshot index) and the progress (next index, state, window, pending snapshot, paused) -/
def view (x : Res (Raft × Progress × Bool)) :
    Option (List (MsgType × Nat × Nat × Nat × Nat × Nat × Nat × List Nat × Nat) × Nat ×
      ProgressState × List Nat × Nat × Bool × Bool) :=
  match x with
  | .ok (r, pr, b) =>
    some (r.msgs.map (fun (m : Message) => (m.msgType, m.to, m.frm, m.term, m.index, m.logTerm,
        m.commit, m.entries.map (fun (e : Entry) => e.index), m.snapshot.metadata.index)),
      pr.nextIdx, pr.state, pr.ins.contents, pr.pendingSnapshot, pr.isPaused, b)
  | _ => none

/-- the hypotheses of `C13_append_shape` / `C13_progress_within_log_send` hold on the witness -/
example : prRep.isPaused = false ∧ prRep.pendingRequestSnapshot = 0 ∧ leader1.batchAppend = false ∧
    prRep.nextIdx ≠ 0 ∧ leader1.raftLog.term (prRep.nextIdx - 1) = .ok 1 ∧
    (∃ es, leader1.raftLog.entries prRep.nextIdx (some leader1.maxMsgSize) true = .ok es ∧
      es.map (·.index) = [3, 4]) ∧
    prRep.ins.Inv ∧ RaftProps.C14.RaftLogInv leader1.raftLog ∧
    ProgressOk leader1.raftLog.lastIndex prRep := by
  refine ⟨rfl, rfl, rfl, by decide, rfl, ⟨_, rfl, rfl⟩,
    Inflights.inv_new 2, log1_inv, by unfold ProgressOk; decide⟩

/-- replicate: one `MsgAppend` anchored at (2, term 1) with entries 3, 4 and commit 2; `next_idx`
moves to 5, index 4 enters the window -/
example : view (leader1.maybeSendAppend 2 prRep true) =
    some ([(.msgAppend, 2, 1, 2, 2, 1, 2, [3, 4], 0)], 5, .replicate, [4], 0, false, true) := by
  rfl

/-- the size limit: with `max_size_per_msg = 10` only entry 3 goes out — and it goes out although its
own size (11 bytes) exceeds the limit: "unless it is a single entry" -/
example : view (({ leader1 with maxMsgSize := 10 } : Raft).maybeSendAppend 2 prRep true) =
      some ([(.msgAppend, 2, 1, 2, 2, 1, 2, [3], 0)], 4, .replicate, [3], 0, false, true) ∧
    msgSize [RaftProps.C14.ent 3 1 5] = 11 := ⟨by rfl, by rfl⟩

/-- probe: the same append, and the follower is paused afterwards; a second call sends nothing -/
example : view (leader1.maybeSendAppend 2 { prRep with state := .probe } true) =
      some ([(.msgAppend, 2, 1, 2, 2, 1, 2, [3, 4], 0)], 3, .probe, [], 0, true, true) ∧
    view (leader1.maybeSendAppend 2 { prRep with state := .probe, paused := true } true) =
      some ([], 3, .probe, [], 0, true, false) := ⟨by rfl, by rfl⟩

/-- a full window pauses a replicating follower (hypothesis of `C13_no_send_when_paused`) -/
example : ({ prRep with ins := { (Inflights.new 1) with count := 1, buffer := [3], alloc := true } } :
    Progress).isPaused = true := by decide

/-- compacted: a follower that needs entry 2 (below the first index 3) gets the snapshot at index 2
and its progress moves to `Snapshot` with `pending_snapshot = 2`; one that is not recently active
gets nothing -/
example : leader1.raftLog.entries 2 (some 1000) true = .err .compacted ∧
    view (leader1.maybeSendAppend 2 { prRep with nextIdx := 2, matched := 1 } true) =
      some ([(.msgSnapshot, 2, 1, 2, 0, 0, 0, [], 2)], 2, .snapshot, [], 2, true, true) ∧
    view (leader1.maybeSendAppend 2 { prRep with nextIdx := 2, matched := 1, recentActive := false } true) =
      some ([], 2, .replicate, [], 0, false, false) := ⟨by rfl, by rfl, by rfl⟩

/-- uncommitted-size accounting: with 8 of 10 bytes used a 4-byte proposal is refused, an empty one
is not, and anything is accepted when nothing is uncommitted -/
example : Refuses leader1.uncommittedState [{ data := [1, 2, 3, 4] }] ∧
    ¬ Refuses leader1.uncommittedState [{ data := [] }] ∧
    ¬ Refuses { leader1.uncommittedState with uncommittedSize := 0 }
      [{ data := List.replicate 100 0 }] := by decide

/-- batching, the repaired case of finding F8: an entry-less append anchored at index 4 is continued
by entries starting at 5 and not by entries starting at 6 -/
example : isContinuousEnts { msgType := .msgAppend, index := 4 } [{ index := 5 }] = true ∧
    isContinuousEnts { msgType := .msgAppend, index := 4 } [{ index := 6 }] = false ∧
    isContinuousEnts { msgType := .msgAppend, index := 1, entries := [{ index := 2 }] }
      [{ index := 3 }] = true := by decide

/-- batching end to end, and *no size limit on the batched message*: with `max_size_per_msg = 10`
entry 3 (11 bytes) is queued alone; the next call glues entry 4 (26 bytes) onto it — one queued
message of 37 bytes -/
example :
    (match ({ leader1 with maxMsgSize := 10, batchAppend := true } : Raft).maybeSendAppend 2 prRep true with
     | .ok (r, pr, _) => view (r.maybeSendAppend 2 pr true)
     | _ => none) =
      some ([(.msgAppend, 2, 1, 2, 2, 1, 2, [3, 4], 0)], 5, .replicate, [3, 4], 0, true, true) ∧
    msgSize [RaftProps.C14.ent 3 1 5, RaftProps.C14.ent 4 2 20] = 37 := ⟨by rfl, by rfl⟩

/-- a proposal of one `ConfChangeV2` adding node 2 (protobuf: field 2, length 2, `node_id = 2`) -/
def ccProposal : Message :=
  { msgType := .msgPropose, entries := [{ etype := 2, data := [0x12, 0x02, 0x10, 0x02] }] }

/-- **Surprising (not a safety problem): a dropped proposal still moves `pending_conf_index`.**
`step_leader` records `pending_conf_index = last_index + i + 1` for an acceptable configuration
change *before* `append_entry` runs (raft.rs:2150 vs 2166); when the uncommitted-size limit then
drops the whole proposal nothing is appended, but `pending_conf_index` now names an index (5) that
the *next* accepted proposal of any kind will occupy, and until that index is applied every further
configuration change is silently replaced by an empty entry ("possible unapplied conf change").
The same happens in etcd/raft.  Here: limit 10, 8 used, a 4-byte `ConfChangeV2` adding node 2. -/
example :
    (match leader1.stepLeader ccProposal with
     | .ok (r, e) => some (e, r.raftLog.lastIndex, r.msgs.length, leader1.pendingConfIndex,
         r.pendingConfIndex, r.hasPendingConf)
     | _ => none) = some (some .proposalDropped, 4, 0, 0, 5, true) := by rfl


end RaftProps.C13
