import RaftProofs.RaftNode
import RaftProps.C14

/-!
# C20b — the panic sites of the node model's message handlers, characterised

C20: "No sequence of contract-abiding API calls and well-formed messages from group members makes
the library panic; malformed or unexpected input from the network yields an error or is ignored."

`RaftModel/Raft*.lean` is a line-by-line model of `src/raft.rs` in which every `fatal!`, `panic!`,
`assert!`, `unwrap`, index site and modelled u64 overflow is an explicit `Res.panic "<site>"`
(differential testing ties the sites to the code).  This file proves the **"only if" direction**
for the handlers reachable from `Raft::step`: *if the result is `.panic s`, then `s` is one of an
explicit list and an explicit precondition on state/message held*.

## 1. Enumeration of the panic sites (grep `.panic "` / `.error "` over the model), by function

node level (`RaftCore`, `RaftLeader`, `RaftFollower`, `RaftStep`)
| function | sites |
|---|---|
| `send` | `raft.send.term_not_set`, `raft.send.term_set` |
| `prepareSendSnapshot` | `raft.prepare_send_snapshot.unexpected_error`, `….empty_snapshot` |
| `prepareSendEntries` | `raft.prepare_send_entries.underflow` |
| `tryBatchingLoop` | `raft.try_batching.last` |
| `maybeSendAppend` | `raft.maybe_send_append.underflow` |
| `sendAppendAggressivelyPr` | `model.send_append_aggressively.fuel` (model artefact) |
| `sendAppend` / `sendAppendAggressively` | `raft.send_append.unwrap` / `raft.send_append_aggressively.unwrap` |
| `appendEntry` | `raft.append_entry.unexpected_error` |
| `commitApplyInternal` | `raft.commit_apply_internal.{assert,unexpected_error,dropped}` (not reachable from `step`) |
| `onPersistSnap` / `onPersistEntries` | `raft.on_persist_snap.unexpected_error` / `raft.on_persist_entries.unexpected_error` (not from `step`) |
| `becomeCandidate` | `raft.become_candidate.{leader,overflow}` |
| `becomePreCandidate` | `raft.become_pre_candidate.leader` |
| `becomeLeader` | `raft.become_leader.{follower,assert_persisted,unwrap,dropped}` |
| `sendVoteRequests` | `raft.campaign.{commit_info,last_term}` |
| `campaignWith` | `raft.campaign.overflow` |
| `campaignAfterPreVote` | `model.poll.depth` (model artefact) |
| `handleReadyReadIndex` | `raft.handle_ready_read_index.index` |
| `loadState`, `assignCommitGroups`, `new` | `raft.load_state.out_of_range`, `raft.assign_commit_groups.assert`, `raft.new.{unexpected_error,invalid_restore}`, `raw_node.new.assert_id` (not from `step`) |
| `handleAppendResponseAccepted` / `handleAppendResponse` | `raft.handle_append_response.unwrap` / `….unexpected_error` |
| `handleTransferLeader` | `raft.handle_transfer_leader.unwrap` |
| `stepLeader` | `raft.step_leader.empty_propose`, `raft.step_leader.read_index.index` |
| `scanConf` | `raft.has_unapplied_conf_changes.scan_error` |
| `sendRequestSnapshot` / `requestSnapshot` | `raft.send_request_snapshot.unwrap` / `raft.request_snapshot.unwrap` |
| `handleAppendEntries` | `raft.handle_append_entries.{unexpected_error,hint_term}` |
| `handleHeartbeat` | `raft.handle_heartbeat.unexpected_error` |
| `restore` | `raft.restore.{overflow,unexpected_error,unable_to_restore_config,invalid_restore,unwrap,underflow}` |
| `stepCandidate` | `raft.step_candidate.debug_assert_term` |
| `voteGranted` / `stepVoteReject` / `stepVote` | `raft.step.is_up_to_date` / `raft.step.commit_info` / `raft.vote_resp_msg_type` |

components called by the handlers
| function | sites |
|---|---|
| `Progress.maybeUpdate` / `maybeDecrTo` / `updateState` | `progress.maybe_update.overflow` / `progress.maybe_decr_to.overflow` / `progress.optimistic_update.overflow`, `progress.update_state.snapshot` |
| `ReadOnly.addRequest` / `findPos` / `popN` | `read_only.add_request.index` / `read_only.advance.missing` / `read_only.advance.{pop_front,remove}` |
| `RaftLog.term` / `lastTerm` / `commitInfo` | `raft_log.term.{underflow,unexpected_error}` / `raft_log.last_term.error` / `raft_log.commit_info.missing` |
| `RaftLog.findConflictByTermLoop` | `raft_log.find_conflict_by_term.underflow` |
| `RaftLog.commitTo` / `appliedTo` / `restore` | `raft_log.commit_to.out_of_range` / `raft_log.applied_to.out_of_range` / `raft_log.restore.assert` |
| `RaftLog.append` / `appendConflict` / `maybeAppend` | `raft_log.append.{underflow,before_committed}` / `raft_log.maybe_append.{underflow,slice}` / `raft_log.maybe_append.conflict_committed` |
| `RaftLog.mustCheckOutOfBounds` / `sliceStore` | `raft_log.must_check_outofbounds.{order,underflow,range}` / `raft_log.slice.unexpected_error` |
| `RaftLog.nextEntriesSince`, `maybePersistSnap`, `scanLoop`, `new` | `raft_log.next_entries_since.{overflow,slice_error}`, `raft_log.maybe_persist_snap.{gt_committed,ge_offset}`, `raft_log.scan.empty_page`, `raft_log.new.underflow` (not from `step`) |
| `Unstable.maybeTerm` / `mustCheckOutOfBounds` / `truncateAndAppend` | `unstable.maybe_term.index` / `unstable.must_check_outofbounds.{order,range}` / `unstable.truncate_and_append.{index,size_underflow}` |
| `Unstable.stableEntries` / `stableSnap` | `unstable.stable_entries.{assert_snapshot,mismatch,empty}` / `unstable.stable_snap.{mismatch,none}` (not from `step`) |
| `MemStorage.term` / `entriesQ` / `snapshotCore` | `storage.term.index` / `storage.entries.{out_of_bound,index,underflow,slice_order,slice_end}` / `storage.snapshot.{index,underflow,commit_lt_snapshot}` |
| `MemStorage.commitTo` / `compact` / `append` | `storage.commit_to.*`, `storage.compact.*`, `storage.append.*` (application-side calls, C19) |
| `Inflights.add` / `freeTo` / `freeFirstOne` / `setCap` | `inflights.add.{full,debug_assert,assert_next}` / `inflights.free_to.index` / `inflights.free_first_one.index` / `inflights.set_cap.*` |
| `Majority.committedIndexR`, `Joint.committedIndexR` | `quorum.majority.committed_index.{index,last}`, `unreachable` (never: `RaftProps.C11.joint_committedIndex_never_panics`) |

## 2. Coverage of this file (handler × remaining sites)

| handler | hypothesis | theorem | sites that remain (with their precondition) |
|---|---|---|---|
| `send` | – | `send_panics_only_if` | `term_not_set` ⇔ vote-type message with term 0 (not a rejected pre-vote response); `term_set` ⇔ non-vote message with term ≠ 0 |
| `stepTerm` (term preamble) | – | `stepTerm_never_panics` | none |
| stale message `0 < m.term < r.term` | – | `C20_stale_term_harmless` | none; state unchanged, ≤ 1 response queued |
| `stepVote` | `RaftLogInv` / `NodeOk` | `stepVote_panics_only_if`, `C20_vote_panics_only_if`, `C20_vote_wellformed` | `raft.send.term_not_set` (request with term 0, or a real vote request rejected by a node at term 0); `scan_error` (only as (pre-)candidate); under `RaftLogInv` alone also `last_term.error` / `commit_info.missing` (term compacted away) |
| `handleAppendEntries` | `RaftLogInv`, `AppendWF m` / `NodeOk` | `handleAppendEntries_panics_only_if`, `C20_append_panics_only_on_protocol_violation` | `raft_log.maybe_append.conflict_committed` (conflict at or below commit) and `raft.handle_append_entries.hint_term` (`log_term` below the term of the committed entry): both = Log Matching / Leader Completeness violated by the sender |
| `handleHeartbeat` | `RaftLogInv` / `NodeOk` | `handleHeartbeat_panics_only_if`, `C20_heartbeat_panics_only_on_commit_beyond_log` | `raft_log.commit_to.out_of_range` (advertised commit beyond the follower's log) |
| `restore` / `handleSnapshot` | `RaftLogInv` | `restore_panics_only_if`, `handleSnapshot_panics_only_if` | `raft.restore.overflow` (non-follower at `u64::MAX`), `commit_to.out_of_range` (snapshot term 0, index beyond log), `unable_to_restore_config` (ConfState rejected), `invalid_restore`/`unwrap`/`underflow`/`maybe_update.overflow` (only after a successful conf restore; not analysed further) |
| `stepFollower` (all message types) | `RaftLogInv`, `AppendWF` | `stepFollower_panics_only_if` | the three above + `raft.send.term_set` for a forwarded `MsgPropose`/`MsgReadIndex`/`MsgTransferLeader` that carries a term + `commit_to.out_of_range` for a `MsgReadIndexResp` with term 0 + the campaign of `MsgTimeoutNow` (`hup`, not characterised) |
| `stepCandidate`, `MsgAppend`/`MsgHeartbeat`/`MsgSnapshot` | `NodeOk` | `stepCandidate_leader_msgs_panic_only_if`, `stepTerm_term_eq` | `debug_assert_term` (unreachable through `step` for `m.term ≠ 0`) + the follower handler's sites |
| `stepCandidate`, vote responses (`poll` → `becomeLeader`/`campaign`) | | not covered | |
| `maybeCommitByVote` | `RaftLogInv` | `maybeCommitByVote_panics_only_if` | `scan_error`, only as (pre-)candidate |
| `RaftLog.slice` / `entries` / `term` / `scanConf` | `RaftLogInv` | `slice_never_panics`, `entries_never_panics`, `term_never_panics`, `scanConf_panics_only_if` | none / none / none / `scan_error` |
| `maybeSendAppend`, `sendAppend(Aggressively)`, `bcastAppend` | `RaftLogInv` | `maybeSendAppend_spec`, `sendAppend_spec`, `sendAppendAggressively_spec`, `bcastAppend_spec` | `sendAppendSites` (10: `next_idx` underflow, empty snapshot, 3 `storage.snapshot.*`, 2 `progress.*`, 3 `inflights.add.*`) (+ the two `unwrap`s and the model's fuel site); no log-read, no `send` site; invariant kept |
| `bcastHeartbeat(WithCtx)` | – | `bcastHeartbeat_never_panics` | none |
| `stepLeader`: `MsgBeat`, `MsgCheckQuorum`, `MsgSnapStatus`, `MsgUnreachable`, ignored types | – | `stepLeader_local_never_panics` | none |
| `stepLeader`: `MsgPropose` | | `stepLeader_propose_empty` (if direction only) | `empty_propose`; rest not covered |
| `stepLeader`: `MsgAppendResponse`, `MsgHeartbeatResponse`, `MsgTransferLeader`, `MsgReadIndex` | | not covered (their send tails are: §7) | |
| `hup` / `campaign` / `becomeLeader`, `tick` | | not covered | |
| `Raft.step` | `NodeOk`, `AppendWF` | `C20_step_panics_only_if` | preamble: none; dispatch on `r1` (`NodeOk` again): `DispatchPanic` = vote arm / follower arm characterised, candidate / leader / `hup` arms by the partial theorems above |

## 3. Panics reachable by *malformed network input* (C20's second clause fails; see the witnesses at
the end of the file, all through `RawNode::step`)

* `MsgRequestVote`/`MsgRequestPreVote` with `term = 0` that would be granted: `raft.send.term_not_set`.
* `MsgPropose` / `MsgReadIndex` / `MsgTransferLeader` with `term = receiver's term` delivered to a
  follower that knows a leader: the forward hits `raft.send.term_set`.  For `MsgTransferLeader` a
  non-zero term is the *normal* wire format (the forwarding follower's `send` stamps it), so this
  needs only a mis-routed message; for the other two a forged term.
* `MsgReadIndexResp` with `term = 0` and an index beyond the log: `raft_log.commit_to.out_of_range`.
* `MsgAppend` with `log_term = 0` and `index` beyond the log: `unstable.must_check_outofbounds.range`
  (this is why `AppendWF.anchor` is a hypothesis).
* `MsgSnapshot` whose metadata has `term = 0` and an index beyond the log: `commit_to.out_of_range`.
-/

namespace RaftProps.C20
open RaftModel RaftModel.Raft

/-! ## 1. `send` -/

/-- a panic propagates through `bind` only from one of the two halves -/
theorem bind_panic {α β : Type} {x : Res α} {f : α → Res β} {s : String}
    (h : x.bind f = .panic s) : x = .panic s ∨ ∃ a, x = .ok a ∧ f a = .panic s := by
  cases x with
  | ok a => exact .inr ⟨a, rfl, h⟩
  | err e => cases h
  | panic s' => exact .inl (by simpa [Res.bind] using h)

theorem ok_bind_eq {α β : Type} (a : α) (f : α → Res β) : (Res.ok a).bind f = f a := rfl

/-- **`send`** panics exactly on the two "term should (not) be set" `fatal!`s. -/
theorem send_panics_only_if (r : Raft) (m : Message) (s : String) (h : r.send m = .panic s) :
    (s = "raft.send.term_not_set" ∧ isVoteMsg m.msgType = true ∧ m.term = 0 ∧
        ¬ (m.msgType = .msgRequestPreVoteResponse ∧ m.reject = true)) ∨
    (s = "raft.send.term_set" ∧ isVoteMsg m.msgType = false ∧ m.term ≠ 0) := by
  unfold Raft.send at h
  split at h
  · rename_i hc
    cases h
    left
    simp at hc
    refine ⟨rfl, hc.1.1, hc.1.2, ?_⟩
    intro ⟨h1, h2⟩
    rcases hc.2 with h3 | h3
    · exact h3 h1
    · rw [h2] at h3; cases h3
  · split at h
    · rename_i hc
      cases h
      right
      simp at hc
      exact ⟨rfl, hc.1, hc.2⟩
    · cases h

/-- a message of a non-vote type built by the library (term left 0) is always queued -/
theorem send_nonvote_ok (r : Raft) (m : Message) (h1 : isVoteMsg m.msgType = false)
    (h2 : m.term = 0) : r.send m = .ok { r with msgs := r.msgs ++ [r.sendFill m] } := by
  simp [Raft.send, h1, h2]

theorem send_nonvote_never_panics (r : Raft) (m : Message) (s : String)
    (h1 : isVoteMsg m.msgType = false) (h2 : m.term = 0) : r.send m ≠ .panic s := by
  rw [send_nonvote_ok r m h1 h2]; intro h; cases h

/-- a (pre-)vote message with a term is always queued -/
theorem send_vote_ok (r : Raft) (m : Message) (h1 : isVoteMsg m.msgType = true)
    (h2 : m.term ≠ 0) : r.send m = .ok { r with msgs := r.msgs ++ [r.sendFill m] } := by
  simp [Raft.send, h1, h2]

/-! ## 2. the term preamble -/

/-- **The term preamble of `step` never panics**, for any state and any message. -/
theorem stepTerm_never_panics (r : Raft) (m : Message) (s : String) : r.stepTerm m ≠ .panic s := by
  intro h
  unfold Raft.stepTerm at h
  split at h
  · cases h
  · split at h
    · simp only [] at h
      split at h
      · cases h
      · split at h
        · cases h
        · split at h <;> cases h
    · split at h
      · split at h
        · split at h
          · cases h
          · cases h
          · rename_i s' hs
            exact send_nonvote_never_panics r _ s' rfl rfl hs
        · split at h
          · split at h
            · cases h
            · cases h
            · rename_i s' hs
              have := send_panics_only_if r _ s' hs
              simp [isVoteMsg] at this
          · cases h
      · cases h

/-- **Stale-term messages are harmless.**  A message from an older term (`0 < m.term < r.term`)
never panics and never changes the node — term, vote, log, role, progress are untouched; at most
one response is queued (the `MsgAppendResponse` that lets a deposed leader step down under
check-quorum / pre-vote, or the rejection of a stale pre-vote). -/
theorem C20_stale_term_harmless (r : Raft) (m : Message) (h0 : m.term ≠ 0) (hlt : m.term < r.term) :
    ∃ out, r.step m = .ok ({ r with msgs := r.msgs ++ out }, none) ∧ out.length ≤ 1 := by
  have hnl : ¬ r.term < m.term := by omega
  have key : ∃ out, r.stepTerm m = .ok ({ r with msgs := r.msgs ++ out }, false) ∧ out.length ≤ 1 := by
    unfold Raft.stepTerm
    rw [if_neg h0, if_neg hnl, if_pos hlt]
    split
    · rw [send_nonvote_ok r _ rfl rfl]
      exact ⟨[_], rfl, Nat.le_refl _⟩
    · split
      · rw [send_vote_ok r _ rfl (by show r.term ≠ 0; omega)]
        exact ⟨[_], rfl, Nat.le_refl _⟩
      · exact ⟨[], by simp, by simp⟩
  obtain ⟨out, hk, hl⟩ := key
  exact ⟨out, by unfold Raft.step; rw [hk], hl⟩

/-! ## 3. `RaftLog` operations under the representation invariant -/

open RaftProps.C14 in
theorem term_never_panics {l : RaftLog} (h : RaftLogInv l) (i : Nat) (s : String) :
    l.term i ≠ .panic s := by
  rw [h.term_abs]
  rcases l.abs.term_cases i with ⟨t, ht⟩ | ht <;> rw [ht] <;> intro hc <;> cases hc

theorem term_ok_or_compacted {l : RaftLog} (h : l.Inv) (i : Nat) :
    (∃ t, l.term i = .ok t ∧ l.abs.term i = .ok t) ∨
    (l.term i = .err .compacted ∧ l.abs.term i = .err .compacted) := by
  rw [h.term_abs]
  rcases l.abs.term_cases i with ⟨t, ht⟩ | ht
  · exact .inl ⟨t, ht, ht⟩
  · exact .inr ⟨ht, ht⟩

/-- `commit_to` panics exactly on "to_commit out of range" -/
theorem commitTo_panics_only_if (l : RaftLog) (to : Nat) (s : String)
    (h : l.commitTo to = .panic s) :
    s = "raft_log.commit_to.out_of_range" ∧ l.committed < to ∧ l.lastIndex < to := by
  unfold RaftLog.commitTo at h
  split at h
  · cases h
  · split at h
    · cases h; exact ⟨rfl, by omega, by assumption⟩
    · cases h

theorem commitTo_never_err (l : RaftLog) (to : Nat) (e : StorageError) : l.commitTo to ≠ .err e := by
  unfold RaftLog.commitTo
  split
  · intro h; cases h
  · split <;> (intro h; cases h)

theorem commitTo_ok_abs (l l' : RaftLog) (to : Nat) (h : l.commitTo to = .ok l') :
    l' = { l with committed := l'.committed } ∧ l.committed ≤ l'.committed := by
  unfold RaftLog.commitTo at h
  split at h
  · cases h; exact ⟨rfl, Nat.le_refl _⟩
  · split at h
    · cases h
    · cases h; exact ⟨rfl, by simp only []; omega⟩

/-- `last_term` fails only when the term at the last index is unknown: an empty log whose dummy
position was compacted away by the storage -/
theorem lastTerm_panics_only_if {l : RaftLog} (h : l.Inv) (s : String)
    (hp : l.lastTerm = .panic s) :
    s = "raft_log.last_term.error" ∧ l.abs.term l.lastIndex = .err .compacted := by
  unfold RaftLog.lastTerm at hp
  rcases term_ok_or_compacted h l.lastIndex with ⟨t, ht, _⟩ | ⟨ht, ha⟩
  · rw [ht] at hp; cases hp
  · rw [ht] at hp; cases hp; exact ⟨rfl, ha⟩

theorem lastTerm_never_err (l : RaftLog) (e : StorageError) : l.lastTerm ≠ .err e := by
  unfold RaftLog.lastTerm
  split <;> (intro h; cases h)

/-- `commit_info` fails only when the term of the commit index is unknown -/
theorem commitInfo_panics_only_if {l : RaftLog} (h : l.Inv) (s : String)
    (hp : l.commitInfo = .panic s) :
    s = "raft_log.commit_info.missing" ∧ l.abs.term l.committed = .err .compacted := by
  unfold RaftLog.commitInfo at hp
  rcases term_ok_or_compacted h l.committed with ⟨t, ht, _⟩ | ⟨ht, ha⟩
  · rw [ht] at hp; cases hp
  · rw [ht] at hp; cases hp; exact ⟨rfl, ha⟩

theorem commitInfo_never_err (l : RaftLog) (e : StorageError) : l.commitInfo ≠ .err e := by
  unfold RaftLog.commitInfo
  split <;> (intro h; cases h)

/-- `maybe_commit(max_index, term)` panics only for `term = 0` with `max_index` beyond the log -/
theorem maybeCommit_panics_only_if {l : RaftLog} (h : l.Inv) (mi t : Nat) (s : String)
    (hp : l.maybeCommit mi t = .panic s) :
    s = "raft_log.commit_to.out_of_range" ∧ t = 0 ∧ l.lastIndex < mi := by
  unfold RaftLog.maybeCommit at hp
  split at hp
  · split at hp
    · rename_i t' ht
      split at hp
      · split at hp
        · cases hp
        · cases hp
        · rename_i s' hc
          cases hp
          obtain ⟨h1, _, h3⟩ := commitTo_panics_only_if l mi s hc
          refine ⟨h1, ?_, h3⟩
          rw [h.term_abs] at ht
          unfold LLog.term at ht
          rw [if_pos (Or.inr (by rw [← h.lastIndex_abs]; exact h3))] at ht
          cases ht; omega
      · cases hp
    · cases hp
    · rename_i s' ht
      exact absurd ht (term_never_panics h mi s')
  · cases hp

theorem maybeCommit_never_err (l : RaftLog) (mi t : Nat) (e : StorageError) :
    l.maybeCommit mi t ≠ .err e := by
  unfold RaftLog.maybeCommit
  intro h
  split at h
  · split at h
    · split at h
      · split at h
        · cases h
        · rename_i e' hc; exact commitTo_never_err l mi e' hc
        · cases h
      · cases h
    · cases h
    · cases h
  · cases h

/-- the backward scan of `find_conflict_by_term` panics only on the u64 underflow at position 0,
which needs a dummy entry 0 with a term above the probed term -/
theorem fcbtLoop_panics_only_if {l : RaftLog} (h : l.Inv) (term : Nat) (s : String) :
    ∀ ci, l.findConflictByTermLoop term ci = .panic s →
      s = "raft_log.find_conflict_by_term.underflow" ∧ ∃ t0, l.abs.term 0 = .ok t0 ∧ term < t0 := by
  intro ci
  induction ci with
  | zero =>
    intro hp
    simp only [RaftLog.findConflictByTermLoop] at hp
    split at hp
    · rename_i t ht
      split at hp
      · cases hp
        rw [h.term_abs] at ht
        exact ⟨rfl, t, ht, by assumption⟩
      · cases hp
    · cases hp
    · rename_i s' ht; exact absurd ht (term_never_panics h 0 s')
  | succ n ih =>
    intro hp
    simp only [RaftLog.findConflictByTermLoop] at hp
    split at hp
    · split at hp
      · exact ih hp
      · cases hp
    · cases hp
    · rename_i s' ht; exact absurd ht (term_never_panics h _ s')

theorem fcbtLoop_never_err (l : RaftLog) (term : Nat) (e : StorageError) :
    ∀ ci, l.findConflictByTermLoop term ci ≠ .err e := by
  intro ci
  induction ci with
  | zero =>
    intro hp
    simp only [RaftLog.findConflictByTermLoop] at hp
    split at hp
    · split at hp <;> cases hp
    · cases hp
    · cases hp
  | succ n ih =>
    intro hp
    simp only [RaftLog.findConflictByTermLoop] at hp
    split at hp
    · split at hp
      · exact ih hp
      · cases hp
    · cases hp
    · cases hp

/-- the scan answers "term unknown" only at the compacted dummy position, after having seen a term
above the probed one at every index on the way down -/
theorem fcbtLoop_none_only_if {l : RaftLog} (h : l.Inv) (term : Nat) (j : Nat) :
    ∀ ci, l.findConflictByTermLoop term ci = .ok (j, none) →
      j ≤ ci ∧ l.abs.term j = .err .compacted ∧
      ∀ i, j < i → i ≤ ci → ∃ t, l.abs.term i = .ok t ∧ term < t := by
  intro ci
  induction ci with
  | zero =>
    intro hp
    simp only [RaftLog.findConflictByTermLoop] at hp
    split at hp
    · split at hp <;> cases hp
    · rename_i e ht
      cases hp
      rcases term_ok_or_compacted h 0 with ⟨t, ht', _⟩ | ⟨_, ha⟩
      · rw [ht'] at ht; cases ht
      · exact ⟨Nat.le_refl _, ha, fun i h1 h2 => by omega⟩
    · cases hp
  | succ n ih =>
    intro hp
    simp only [RaftLog.findConflictByTermLoop] at hp
    split at hp
    · rename_i t ht
      split at hp
      · obtain ⟨h1, h2, h3⟩ := ih hp
        refine ⟨by omega, h2, ?_⟩
        intro i hi1 hi2
        by_cases hi : i = n + 1
        · subst hi
          rw [h.term_abs] at ht
          exact ⟨t, ht, by assumption⟩
        · exact h3 i hi1 (by omega)
      · cases hp
    · rename_i e ht
      cases hp
      rcases term_ok_or_compacted h (n + 1) with ⟨t, ht', _⟩ | ⟨_, ha⟩
      · rw [ht'] at ht; cases ht
      · exact ⟨Nat.le_refl _, ha, fun i h1 h2 => by omega⟩
    · cases hp

theorem LLog_term_err_only_at_dummy (g : LLog) (i : Nat) (e : StorageError)
    (h : g.term i = .err e) : i = g.snapIdx ∧ g.snapTerm = none := by
  unfold LLog.term at h
  split at h
  · cases h
  · split at h
    · rename_i hi
      split at h
      · cases h
      · rename_i hn; exact ⟨hi, hn⟩
    · split at h <;> cases h

/-- a well-formed `MsgAppend`: the entries are numbered consecutively after `index`, carry real
terms, and `log_term = 0` is used only for the anchor before the first entry of the log -/
structure AppendWF (m : Message) : Prop where
  contig : ContigFrom (m.index + 1) m.entries
  terms : ∀ e ∈ m.entries, e.term ≠ 0
  anchor : m.logTerm = 0 → m.index = 0

/-- the three outcomes of `maybe_append` on a well-formed batch (from `C14_maybeAppend_spec`); the
only panic is the conflict at or below the commit index -/
theorem maybeAppend_cases {l : RaftLog} (h : l.Inv) (idx term committed : Nat) (ents : List Entry)
    (hc : ContigFrom (idx + 1) ents) (hterms : ∀ e ∈ ents, e.term ≠ 0) (ha : term = 0 → idx = 0) :
    (l.abs.matchTerm idx term = false ∧ l.maybeAppend idx term committed ents = .ok (l, none)) ∨
    (l.abs.matchTerm idx term = true ∧
      ∃ l' p, l.maybeAppend idx term committed ents = .ok (l', some p) ∧ l'.Inv) ∨
    (l.abs.matchTerm idx term = true ∧ 0 < l.abs.findConflict ents ∧
      l.abs.findConflict ents ≤ l.committed ∧
      l.maybeAppend idx term committed ents = .panic "raft_log.maybe_append.conflict_committed") := by
  cases hm : l.abs.matchTerm idx term with
  | false => exact .inl ⟨rfl, h.maybeAppend_nomatch idx term committed ents hm⟩
  | true =>
    right
    have hidx : idx ≤ l.lastIndex := by
      by_cases ht : term = 0
      · rw [ha ht]; exact Nat.zero_le _
      · rw [h.lastIndex_abs]; exact l.abs.matchTerm_le_last idx term hm ht
    rcases Nat.eq_zero_or_pos (l.abs.findConflict ents) with h0 | hpos
    · left
      obtain ⟨e, hinv⟩ := h.maybeAppend_noconflict idx term committed ents hc hidx hterms hm h0
      exact ⟨rfl, _, _, e, hinv⟩
    · rcases Nat.lt_or_ge l.committed (l.abs.findConflict ents) with hgt | hle
      · left
        obtain ⟨l', e, _, _, _, _, _, hinv⟩ :=
          h.maybeAppend_conflict idx term committed ents hc hidx hterms hm hgt
        exact ⟨rfl, l', _, e, hinv⟩
      · right
        refine ⟨rfl, hpos, hle, ?_⟩
        unfold RaftLog.maybeAppend
        rw [h.matchTerm_abs, hm]
        simp only []
        rw [h.findConflict_abs]
        simp only []
        rw [if_neg (by omega), if_pos hle]

/-! ### reads: `slice` / `entries` never panic inside the log -/

theorem mustCheck_ok {l : RaftLog} (h : l.Inv) (lo hi : Nat) (h1 : lo ≤ hi)
    (h2 : hi ≤ l.lastIndex + 1) :
    l.mustCheckOutOfBounds lo hi = .ok (if lo < l.firstIndex then some .compacted else none) := by
  have hd := h.dummy_le_committed
  have hc := h.committed_le_last
  unfold RaftLog.mustCheckOutOfBounds
  rw [if_neg (by omega)]
  by_cases hlo : lo < l.firstIndex
  · rw [if_pos hlo, if_pos hlo]
  · rw [if_neg hlo, if_neg hlo, if_neg (by omega), if_neg (by omega)]

theorem sliceStore_never_panics {l : RaftLog} (h : l.Inv) (lo hi : Nat) (mx : Option Nat)
    (ca : Bool) (h0 : l.firstIndex ≤ lo) (h1 : lo < hi) (s : String) :
    l.sliceStore lo hi mx ca ≠ .panic s := by
  intro hp
  unfold RaftLog.sliceStore at hp
  split at hp
  · rename_i hoff
    cases hs : l.unstable.snapshot with
    | some sn =>
      have := h.unstWF.snap sn hs
      rw [RaftLog.firstIndex_some hs] at h0
      omega
    | none =>
      rw [RaftLog.firstIndex_none hs] at h0
      have hol := h.off_le_last hs
      simp only [] at hp
      cases hav : (l.store.triggerLogUnavailable && ca) with
      | false =>
        rw [h.storeWF.entriesQ_in mx ca h0 (by omega) (by omega) hav] at hp
        cases hp
      | true =>
        have he : l.store.entriesQ lo (min hi l.unstable.offset) mx ca =
            .err .logTemporarilyUnavailable := by
          unfold MemStorage.entriesQ
          rw [if_neg (by omega), if_neg (by omega), hav]
          rfl
        rw [he] at hp
        cases hp
  · cases hp

theorem unstableSlice_never_panics (u : Unstable) (lo hi : Nat) (h0 : u.offset ≤ lo) (h1 : lo ≤ hi)
    (h2 : hi ≤ u.offset + u.entries.length) (s : String) : u.slice lo hi ≠ .panic s := by
  intro hp
  unfold Unstable.slice Unstable.mustCheckOutOfBounds at hp
  rw [if_neg (by omega), if_neg (by omega)] at hp
  cases hp

/-- **`slice(lo, hi)` never panics** for `lo ≤ hi ≤ last_index + 1` under `RaftLogInv` (whatever the
size limit and whether or not the storage answers "temporarily unavailable") -/
theorem slice_never_panics {l : RaftLog} (h : l.Inv) (lo hi : Nat) (mx : Option Nat) (ca : Bool)
    (h1 : lo ≤ hi) (h2 : hi ≤ l.lastIndex + 1) (s : String) : l.slice lo hi mx ca ≠ .panic s := by
  intro hp
  unfold RaftLog.slice at hp
  rw [mustCheck_ok h lo hi h1 h2] at hp
  by_cases hlo : lo < l.firstIndex
  · rw [if_pos hlo] at hp; cases hp
  · rw [if_neg hlo] at hp
    simp only [] at hp
    split at hp
    · cases hp
    · rename_i hne
      have hlt : lo < hi := by omega
      split at hp
      · cases hp
      · split at hp
        · rename_i hoff
          have hls := h.last_succ
          split at hp
          · cases hp
          · cases hp
          · rename_i s' hu
            exact unstableSlice_never_panics _ _ _ (Nat.le_max_right _ _) (by omega) (by omega) s' hu
        · cases hp
      · cases hp
      · rename_i s' hss
        exact sliceStore_never_panics h lo hi mx ca (by omega) hlt s' hss

/-- `entries(idx, max_size)` never panics under `RaftLogInv` -/
theorem entries_never_panics {l : RaftLog} (h : l.Inv) (idx : Nat) (mx : Option Nat) (ca : Bool)
    (s : String) : l.entries idx mx ca ≠ .panic s := by
  intro hp
  unfold RaftLog.entries at hp
  split at hp
  · cases hp
  · exact slice_never_panics h idx _ mx ca (by omega) (Nat.le_refl _) s hp

/-- the scan of `has_unapplied_conf_changes` up to `hi ≤ last_index + 1` panics only at its own
`fatal!` (a page came back empty, or `slice` answered `Compacted`/`Unavailable`) -/
theorem scanConf_panics_only_if {l : RaftLog} (h : l.Inv) (hi ps : Nat) (hhi : hi ≤ l.lastIndex + 1)
    (s : String) : ∀ fuel lo, RaftModel.Raft.scanConf l hi ps fuel lo = .panic s →
      s = "raft.has_unapplied_conf_changes.scan_error" := by
  intro fuel
  induction fuel with
  | zero => intro lo hp; simp [Raft.scanConf] at hp
  | succ n ih =>
    intro lo hp
    simp only [Raft.scanConf] at hp
    split at hp
    · rename_i hlt
      split at hp
      · cases hp; rfl
      · split at hp
        · cases hp
        · exact ih _ hp
      · cases hp; rfl
      · rename_i s' hsl
        exact absurd hsl (slice_never_panics h lo hi _ _ (by omega) hhi s')
    · cases hp

theorem hasUnappliedConfChanges_panics_only_if (r : Raft) (h : r.raftLog.Inv) (lo hi : Nat)
    (hhi : hi ≤ r.raftLog.lastIndex + 1) (s : String)
    (hp : r.hasUnappliedConfChanges lo hi = .panic s) :
    s = "raft.has_unapplied_conf_changes.scan_error" ∧ r.raftLog.applied < r.raftLog.committed := by
  unfold Raft.hasUnappliedConfChanges at hp
  split at hp
  · cases hp
  · exact ⟨scanConf_panics_only_if h hi _ hhi s _ _ hp, by omega⟩

/-! ## 4. follower-side handlers -/

/-- `send_request_snapshot` panics only at its `unwrap` of `term(last_index)`: the log is empty and
the storage has forgotten the term of the dummy position -/
theorem sendRequestSnapshot_panics_only_if (r : Raft) (h : r.raftLog.Inv) (s : String)
    (hp : r.sendRequestSnapshot = .panic s) :
    s = "raft.send_request_snapshot.unwrap" ∧
      r.raftLog.abs.term r.raftLog.lastIndex = .err .compacted := by
  unfold Raft.sendRequestSnapshot at hp
  simp only [] at hp
  split at hp
  · exact absurd hp (send_nonvote_never_panics r _ s rfl rfl)
  · rename_i e ht
    cases hp
    rcases term_ok_or_compacted h r.raftLog.lastIndex with ⟨t, ht', _⟩ | ⟨_, ha⟩
    · rw [ht'] at ht; cases ht
    · exact ⟨rfl, ha⟩
  · rename_i s' ht
    exact absurd ht (term_never_panics h _ s')

/-- what a panic of `handle_append_entries` means, site by site -/
def AppendPanic (r : Raft) (m : Message) (s : String) : Prop :=
  (s = "raft.send_request_snapshot.unwrap" ∧ r.pendingRequestSnapshot ≠ 0 ∧
    r.raftLog.abs.term r.raftLog.lastIndex = .err .compacted) ∨
  (s = "raft_log.maybe_append.conflict_committed" ∧ r.raftLog.committed ≤ m.index ∧
    r.raftLog.abs.matchTerm m.index m.logTerm = true ∧
    0 < r.raftLog.abs.findConflict m.entries ∧
    r.raftLog.abs.findConflict m.entries ≤ r.raftLog.committed) ∨
  (s = "raft_log.find_conflict_by_term.underflow" ∧
    ∃ t0, r.raftLog.abs.term 0 = .ok t0 ∧ m.logTerm < t0) ∨
  (s = "raft.handle_append_entries.hint_term" ∧ r.raftLog.committed ≤ m.index ∧
    r.raftLog.abs.matchTerm m.index m.logTerm = false ∧
    ∃ j, j ≤ min m.index r.raftLog.lastIndex ∧ r.raftLog.abs.term j = .err .compacted ∧
      ∀ i, j < i → i ≤ min m.index r.raftLog.lastIndex →
        ∃ t, r.raftLog.abs.term i = .ok t ∧ m.logTerm < t)

/-- **`handle_append_entries`**, for a log satisfying `RaftLogInv` and a well-formed append: the
only panics are (1) the snapshot-request reply on an empty compacted log, (2) **a conflict at or
below the commit index** (Log Matching / Leader Completeness violated by the sender), (3) the u64
underflow of the hint scan when position 0 carries a non-zero term, (4) the hint scan running into
the compacted dummy position having seen only terms above the leader's `log_term`. -/
theorem handleAppendEntries_panics_only_if (r : Raft) (m : Message) (h : r.raftLog.Inv)
    (hw : AppendWF m) (s : String) (hp : r.handleAppendEntries m = .panic s) :
    AppendPanic r m s := by
  unfold Raft.handleAppendEntries at hp
  split at hp
  · rename_i hpend
    obtain ⟨h1, h2⟩ := sendRequestSnapshot_panics_only_if r h s hp
    exact .inl ⟨h1, hpend, h2⟩
  · split at hp
    · exact absurd hp (send_nonvote_never_panics r _ s rfl rfl)
    · rename_i hidx
      have hci : r.raftLog.committed ≤ m.index := by omega
      rcases maybeAppend_cases h m.index m.logTerm m.commit m.entries hw.contig hw.terms hw.anchor
        with ⟨hm, hres⟩ | ⟨hm, l', p, hres, _⟩ | ⟨hm, h0, hle, hres⟩
      · -- reject: the hint scan
        rw [hres] at hp
        simp only [] at hp
        split at hp
        · rename_i s' hf
          cases hp
          unfold RaftLog.findConflictByTerm at hf
          rw [if_neg (by omega)] at hf
          obtain ⟨h1, h2⟩ := fcbtLoop_panics_only_if h m.logTerm s _ hf
          exact .inr (.inr (.inl ⟨h1, h2⟩))
        · rename_i e hf
          unfold RaftLog.findConflictByTerm at hf
          rw [if_neg (by omega)] at hf
          exact absurd hf (fcbtLoop_never_err _ _ _ _)
        · rename_i j hf
          cases hp
          unfold RaftLog.findConflictByTerm at hf
          rw [if_neg (by omega)] at hf
          obtain ⟨h1, h2, h3⟩ := fcbtLoop_none_only_if h m.logTerm j _ hf
          exact .inr (.inr (.inr ⟨rfl, hci, hm, j, h1, h2, h3⟩))
        · exact absurd hp (send_nonvote_never_panics _ _ s rfl rfl)
      · rw [hres] at hp
        obtain ⟨c, li⟩ := p
        simp only [] at hp
        exact absurd hp (send_nonvote_never_panics _ _ s rfl rfl)
      · rw [hres] at hp
        cases hp
        exact .inr (.inl ⟨rfl, hci, hm, h0, hle⟩)

/-- **`handle_heartbeat`**: the only panics are "to_commit out of range" — the leader advertised a
commit index beyond what this follower holds (the leader sends `min(matched, committed)`, so
this means `matched` was wrong: finding F8 was exactly that) — and the snapshot-request reply on an
empty compacted log. -/
theorem handleHeartbeat_panics_only_if (r : Raft) (m : Message) (h : r.raftLog.Inv) (s : String)
    (hp : r.handleHeartbeat m = .panic s) :
    (s = "raft_log.commit_to.out_of_range" ∧ r.raftLog.committed < m.commit ∧
      r.raftLog.lastIndex < m.commit) ∨
    (s = "raft.send_request_snapshot.unwrap" ∧ r.pendingRequestSnapshot ≠ 0 ∧
      m.commit ≤ r.raftLog.lastIndex ∧
      r.raftLog.abs.term r.raftLog.lastIndex = .err .compacted) := by
  unfold Raft.handleHeartbeat at hp
  by_cases hle : m.commit ≤ r.raftLog.lastIndex
  · obtain ⟨hct, hinv⟩ := h.commitTo m.commit hle
    rw [hct] at hp
    simp only [] at hp
    split at hp
    · rename_i hpend
      obtain ⟨h1, h2⟩ := sendRequestSnapshot_panics_only_if _ hinv s hp
      exact .inr ⟨h1, hpend, hle, h2⟩
    · exact absurd hp (send_nonvote_never_panics _ _ s rfl rfl)
  · have hc := h.committed_le_last
    split at hp
    · rename_i s' hc'
      cases hp
      obtain ⟨h1, h2, h3⟩ := commitTo_panics_only_if _ _ _ hc'
      exact .inl ⟨h1, h2, h3⟩
    · rename_i e hc'; exact absurd hc' (commitTo_never_err _ _ _)
    · rename_i l' hc'
      unfold RaftLog.commitTo at hc'
      rw [if_neg (by omega), if_pos (by omega)] at hc'
      cases hc'

theorem maybeUpdate_panics_only_if (p : Progress) (n : Nat) (s : String)
    (h : p.maybeUpdate n = .panic s) : s = "progress.maybe_update.overflow" ∧ U64_MAX ≤ n := by
  unfold Progress.maybeUpdate at h
  simp only [] at h
  split at h
  · cases h; exact ⟨rfl, by assumption⟩
  · cases h

/-- on a node that is not the leader `post_conf_change` only recomputes `promotable` -/
theorem postConfChange_nonleader (r : Raft) (hs : r.state ≠ .leader) :
    r.postConfChange = .ok ({ r with promotable := Joint.contains r.prs.voters r.id },
      r.prs.conf.toConfState) := by
  unfold Raft.postConfChange
  simp [hs]

/-- what a panic of `restore` (the body of `handle_snapshot`) means -/
def RestorePanic (r : Raft) (snap : Snapshot) (s : String) : Prop :=
  (s = "raft.restore.overflow" ∧ r.state ≠ .follower ∧ U64_MAX ≤ r.term) ∨
  (s = "raft_log.commit_to.out_of_range" ∧ snap.metadata.term = 0 ∧
    r.raftLog.lastIndex < snap.metadata.index) ∨
  (s = "raft.restore.unable_to_restore_config" ∧
    ∃ e, r.prs.clear.restore snap.metadata.index snap.metadata.confState = .error e) ∨
  (s = "raft.restore.invalid_restore" ∨ s = "raft.restore.unwrap" ∨
    s = "raft.restore.underflow" ∨ s = "progress.maybe_update.overflow") ∧
    ∃ prs, r.prs.clear.restore snap.metadata.index snap.metadata.confState = .ok prs

theorem restore_lastIndex (l l' : RaftLog) (sn : Snapshot) (h : l.restore sn = .ok l') :
    l'.lastIndex = sn.metadata.index := by
  unfold RaftLog.restore at h
  split at h
  · cases h
  · cases h
    simp [RaftLog.lastIndex, Unstable.maybeLastIndex, Unstable.restore]

set_option maxHeartbeats 800000 in
/-- **`restore`** under `RaftLogInv`: besides the u64 overflow of `term + 1` on a non-follower
(`handle_snapshot` is only reached as follower), a snapshot panics the node only if it is
malformed — term 0 with an index beyond the log, or a `ConfState` that `confchange::restore`
rejects / does not reproduce / does not contain a usable progress for this node. -/
theorem restore_panics_only_if (r : Raft) (snap : Snapshot) (h : r.raftLog.Inv) (s : String)
    (hp : r.restore snap = .panic s) : RestorePanic r snap s := by
  unfold Raft.restore at hp
  simp only [] at hp
  split at hp
  · cases hp
  · rename_i hci
    split at hp
    · rename_i hst
      split at hp
      · cases hp; exact .inl ⟨rfl, hst, by assumption⟩
      · cases hp
    · rename_i hst
      have hfol : r.state = .follower := by
        cases hs : r.state <;> simp_all
      split at hp
      · cases hp
      · -- the fast-forward test never panics
        have hmt := h.matchTerm_abs snap.metadata.index snap.metadata.term
        split at hp
        · rename_i s' hff
          split at hff
          · rw [hmt] at hff; cases hff
          · cases hff
        · rename_i e hff
          split at hff
          · rw [hmt] at hff; cases hff
          · cases hff
        · -- fast forward: commit_to
          rename_i hff
          split at hp
          · cases hp
          · cases hp
            rename_i e hc; exact absurd hc (commitTo_never_err _ _ _)
          · rename_i s' hc
            cases hp
            obtain ⟨h1, _, h3⟩ := commitTo_panics_only_if _ _ _ hc
            refine .inr (.inl ⟨h1, ?_, h3⟩)
            split at hff
            · rw [hmt] at hff
              simp only [] at hff
              have hm : r.raftLog.abs.matchTerm snap.metadata.index snap.metadata.term = true := by
                injection hff
              apply Classical.byContradiction
              intro hne
              have := r.raftLog.abs.matchTerm_le_last _ _ hm hne
              rw [← h.lastIndex_abs] at this
              omega
            · cases hff
        · -- full restore
          split at hp
          · rename_i s' hr
            unfold RaftLog.restore at hr
            rw [if_neg hci] at hr; cases hr
          · rename_i e hr
            unfold RaftLog.restore at hr
            rw [if_neg hci] at hr; cases hr
          · rename_i log hr
            have hli := restore_lastIndex _ _ _ hr
            try simp only [] at hp
            rw [hli] at hp
            have hclear : ({ r with raftLog := log, prs := r.prs.clear } : Raft).prs = r.prs.clear := rfl
            split at hp
            · rename_i e hre
              cases hp
              exact .inr (.inr (.inl ⟨rfl, e, hre⟩))
            · rename_i prs hre
              refine .inr (.inr (.inr ⟨?_, prs, hre⟩))
              rw [postConfChange_nonleader _ (by show r.state ≠ .leader; rw [hfol]; intro hc; cases hc)] at hp
              rw [ok_bind_eq] at hp
              simp only [] at hp
              split at hp
              · cases hp; exact .inl rfl
              · split at hp
                · cases hp; exact .inr (.inl rfl)
                · split at hp
                  · cases hp; exact .inr (.inr (.inl rfl))
                  · rcases bind_panic hp with h1 | ⟨a, _, h2⟩
                    · exact .inr (.inr (.inr (maybeUpdate_panics_only_if _ _ _ h1).1))
                    · cases h2

/-- **`handle_snapshot`** panics exactly when `restore` does (the two replies are always queued) -/
theorem handleSnapshot_panics_only_if (r : Raft) (m : Message) (h : r.raftLog.Inv) (s : String)
    (hp : r.handleSnapshot m = .panic s) : RestorePanic r m.snapshot s := by
  unfold Raft.handleSnapshot at hp
  rcases bind_panic hp with h1 | ⟨⟨r', ok⟩, _, h2⟩
  · exact restore_panics_only_if r _ h s h1
  · simp only [] at h2
    split at h2 <;> exact absurd h2 (send_nonvote_never_panics _ _ s rfl rfl)

/-! ## 5. the vote arm of `step` -/

theorem commitTo_ok_inv {l l' : RaftLog} (h : l.Inv) (to : Nat) (hc : l.commitTo to = .ok l') :
    l'.Inv ∧ l'.lastIndex = l.lastIndex := by
  by_cases hle : to ≤ l.lastIndex
  · obtain ⟨e, hinv⟩ := h.commitTo to hle
    rw [e] at hc
    injection hc with hc
    subst hc
    exact ⟨hinv, rfl⟩
  · have := h.committed_le_last
    unfold RaftLog.commitTo at hc
    rw [if_neg (by omega), if_pos (by omega)] at hc
    cases hc

theorem maybeCommit_ok_inv {l l' : RaftLog} (h : l.Inv) (mi t : Nat) (b : Bool)
    (hc : l.maybeCommit mi t = .ok (l', b)) : l'.Inv ∧ l'.lastIndex = l.lastIndex := by
  unfold RaftLog.maybeCommit at hc
  split at hc
  · split at hc
    · split at hc
      · split at hc
        · rename_i l2 hct
          injection hc with hc
          injection hc with hc1 hc2
          subst hc1
          exact commitTo_ok_inv h mi hct
        · cases hc
        · cases hc
      · injection hc with hc; injection hc with hc1 _; subst hc1; exact ⟨h, rfl⟩
    · injection hc with hc; injection hc with hc1 _; subst hc1; exact ⟨h, rfl⟩
    · cases hc
  · injection hc with hc; injection hc with hc1 _; subst hc1; exact ⟨h, rfl⟩

/-- **`maybe_commit_by_vote`**: the commit evidence of a vote message is used only with a non-zero
term, so `commit_to` cannot go out of range; the only panic left is the `fatal!` of the
configuration-change scan a (pre-)candidate runs afterwards -/
theorem maybeCommitByVote_panics_only_if (r : Raft) (m : Message) (h : r.raftLog.Inv) (s : String)
    (hp : r.maybeCommitByVote m = .panic s) :
    s = "raft.has_unapplied_conf_changes.scan_error" ∧
      (r.state = .candidate ∨ r.state = .preCandidate) := by
  unfold Raft.maybeCommitByVote at hp
  split at hp
  · cases hp
  · rename_i h0
    simp only [] at hp
    split at hp
    · cases hp
    · split at hp
      · rename_i s' hmc
        obtain ⟨_, h2, _⟩ := maybeCommit_panics_only_if h _ _ _ hmc
        omega
      · cases hp
      · cases hp
      · rename_i log hmc
        obtain ⟨hinv, hli⟩ := maybeCommit_ok_inv h _ _ _ hmc
        try simp only [] at hp
        split at hp
        · cases hp
        · rename_i hst
          split at hp
          · rename_i s' hu
            cases hp
            have hcl := hinv.committed_le_last
            obtain ⟨h1, _⟩ := hasUnappliedConfChanges_panics_only_if
              ({ r with raftLog := log } : Raft) hinv _ _ (by show log.committed + 1 ≤ log.lastIndex + 1; omega) s hu
            refine ⟨h1, ?_⟩
            have hst' : ¬ (r.state ≠ .candidate ∧ r.state ≠ .preCandidate) := hst
            cases hs : r.state <;> simp_all
          · cases hp
          · cases hp
          · cases hp

theorem isUpToDate_panics_only_if {l : RaftLog} (h : l.Inv) (i t : Nat) (s : String)
    (hp : l.isUpToDate i t = .panic s) :
    s = "raft_log.last_term.error" ∧ l.abs.term l.lastIndex = .err .compacted := by
  unfold RaftLog.isUpToDate at hp
  split at hp
  · cases hp
  · cases hp
  · rename_i s' hl; cases hp; exact lastTerm_panics_only_if h s hl

theorem isUpToDate_never_err (l : RaftLog) (i t : Nat) (e : StorageError) :
    l.isUpToDate i t ≠ .err e := by
  intro hp
  unfold RaftLog.isUpToDate at hp
  split at hp
  · cases hp
  · rename_i e' hl; exact lastTerm_never_err l e' hl
  · cases hp

theorem voteRespMsgType_isVote (t rt : MsgType) (h : voteRespMsgType t = some rt) :
    isVoteMsg rt = true ∧ (rt = .msgRequestPreVoteResponse ↔ t = .msgRequestPreVote) ∧
      (t = .msgRequestVote ∨ t = .msgRequestPreVote) := by
  cases t <;> simp [voteRespMsgType] at h <;> subst h <;> simp [isVoteMsg]

/-- what a panic of the `MsgRequestVote | MsgRequestPreVote` arm means -/
def VotePanic (r : Raft) (m : Message) (s : String) : Prop :=
  (s = "raft.vote_resp_msg_type" ∧ voteRespMsgType m.msgType = none) ∨
  (s = "raft_log.last_term.error" ∧
    r.raftLog.abs.term r.raftLog.lastIndex = .err .compacted) ∨
  (s = "raft.send.term_not_set" ∧ m.term = 0) ∨
  (s = "raft.send.term_not_set" ∧ r.term = 0 ∧ m.msgType = .msgRequestVote) ∨
  (s = "raft_log.commit_info.missing" ∧
    r.raftLog.abs.term r.raftLog.committed = .err .compacted) ∨
  (s = "raft.has_unapplied_conf_changes.scan_error" ∧
    (r.state = .candidate ∨ r.state = .preCandidate))

/-- **the vote arm** under `RaftLogInv`: a (pre-)vote request panics the node only if it carries
term 0 (granted) or the node itself is still at term 0 and rejects a real vote request — both are
the "term should be set" `fatal!` of `send` —, if the term of the last / commit index was compacted
away, or in the configuration-change scan of a (pre-)candidate that adopts the sender's commit. -/
theorem stepVote_panics_only_if (r : Raft) (m : Message) (h : r.raftLog.Inv) (s : String)
    (hp : r.stepVote m = .panic s) : VotePanic r m s := by
  unfold Raft.stepVote at hp
  split at hp
  · rename_i hv; cases hp; exact .inl ⟨rfl, hv⟩
  · rename_i rt hv
    obtain ⟨hiv, hpre, _⟩ := voteRespMsgType_isVote _ _ hv
    split at hp
    · -- grant
      unfold Raft.stepVoteGrant at hp
      split at hp
      · split at hp <;> cases hp
      · cases hp
      · rename_i s' hs
        cases hp
        rcases send_panics_only_if r _ s hs with ⟨h1, _, h3, _⟩ | ⟨_, h2, _⟩
        · exact .inr (.inr (.inl ⟨h1, h3⟩))
        · simp only [] at h2; rw [hiv] at h2; cases h2
    · -- reject
      unfold Raft.stepVoteReject at hp
      split at hp
      · rename_i s' hci
        cases hp
        obtain ⟨h1, h2⟩ := commitInfo_panics_only_if h s hci
        exact .inr (.inr (.inr (.inr (.inl ⟨h1, h2⟩))))
      · rename_i e hci; exact absurd hci (commitInfo_never_err _ _)
      · split at hp
        · rename_i r1 hs
          have hr1 := send_eq r r1 _ hs
          split at hp
          · have hinv1 : r1.raftLog.Inv := by rw [hr1]; exact h
            obtain ⟨h1, h2⟩ := maybeCommitByVote_panics_only_if r1 m hinv1 s hp
            refine .inr (.inr (.inr (.inr (.inr ⟨h1, ?_⟩))))
            rw [hr1] at h2; exact h2
          · cases hp
        · cases hp
        · rename_i s' hs
          cases hp
          rcases send_panics_only_if r _ s hs with ⟨h1, _, h3, h4⟩ | ⟨_, h2, _⟩
          · refine .inr (.inr (.inr (.inl ⟨h1, h3, ?_⟩)))
            simp only [] at h4
            rcases (voteRespMsgType_isVote _ _ hv).2.2 with ht | ht
            · exact ht
            · exact absurd ⟨hpre.2 ht, trivial⟩ h4
          · simp only [] at h2; rw [hiv] at h2; cases h2
    · cases hp
    · rename_i s' hvg
      cases hp
      unfold Raft.voteGranted at hvg
      split at hvg
      · split at hvg
        · cases hvg
        · rename_i e hu; exact absurd hu (isUpToDate_never_err _ _ _ _)
        · rename_i s' hu
          cases hvg
          obtain ⟨h1, h2⟩ := isUpToDate_panics_only_if h _ _ _ hu
          exact .inr (.inl ⟨h1, h2⟩)
      · cases hvg

/-! ## 6. `step_follower` -/

/-- what a panic of `handle_heartbeat` means -/
def HeartbeatPanic (r : Raft) (m : Message) (s : String) : Prop :=
  (s = "raft_log.commit_to.out_of_range" ∧ r.raftLog.committed < m.commit ∧
    r.raftLog.lastIndex < m.commit) ∨
  (s = "raft.send_request_snapshot.unwrap" ∧ r.pendingRequestSnapshot ≠ 0 ∧
    m.commit ≤ r.raftLog.lastIndex ∧
    r.raftLog.abs.term r.raftLog.lastIndex = .err .compacted)

/-- what a panic of `step_follower` means, per message type; the campaign started by
`MsgTimeoutNow` is characterised separately (`hup_panics_only_if`) -/
def FollowerPanic (r : Raft) (m : Message) (s : String) : Prop :=
  (m.msgType = .msgAppend ∧ AppendPanic r m s) ∨
  (m.msgType = .msgHeartbeat ∧ HeartbeatPanic r m s) ∨
  (m.msgType = .msgSnapshot ∧ RestorePanic r m.snapshot s) ∨
  ((m.msgType = .msgPropose ∨ m.msgType = .msgTransferLeader ∨ m.msgType = .msgReadIndex) ∧
    s = "raft.send.term_set" ∧ m.term ≠ 0 ∧ r.leaderId ≠ 0) ∨
  (m.msgType = .msgReadIndexResp ∧ s = "raft_log.commit_to.out_of_range" ∧ m.term = 0 ∧
    r.raftLog.lastIndex < m.index) ∨
  (m.msgType = .msgTimeoutNow ∧ r.promotable = true ∧ r.hup true = .panic s)

theorem forward_panics_only_if (r : Raft) (m : Message) (s : String)
    (hv : isVoteMsg m.msgType = false)
    (hp : (r.send { m with to := r.leaderId }).bind (fun r => Res.ok (r, (none : Option RaftError))) = .panic s) :
    s = "raft.send.term_set" ∧ m.term ≠ 0 := by
  rcases bind_panic hp with h1 | ⟨a, _, h2⟩
  · rcases send_panics_only_if r _ s h1 with ⟨_, h2, _⟩ | ⟨h1, _, h3⟩
    · simp only [] at h2; rw [hv] at h2; cases h2
    · exact ⟨h1, h3⟩
  · cases h2

/-- **`step_follower`** under `RaftLogInv`, for a well-formed `MsgAppend` -/
theorem stepFollower_panics_only_if (r : Raft) (m : Message) (h : r.raftLog.Inv)
    (hw : m.msgType = .msgAppend → AppendWF m) (s : String)
    (hp : r.stepFollower m = .panic s) : FollowerPanic r m s := by
  unfold Raft.stepFollower at hp
  split at hp
  · -- MsgPropose
    rename_i hm
    split at hp
    · cases hp
    · rename_i hl
      split at hp
      · cases hp
      · obtain ⟨h1, h2⟩ := forward_panics_only_if r m s (by rw [hm]; rfl) hp
        exact .inr (.inr (.inr (.inl ⟨.inl hm, h1, h2, hl⟩)))
  · -- MsgAppend
    rename_i hm
    rcases bind_panic hp with h1 | ⟨a, _, h2⟩
    · have := handleAppendEntries_panics_only_if _ m (by exact h) (hw hm) s h1
      exact .inl ⟨hm, this⟩
    · cases h2
  · -- MsgHeartbeat
    rename_i hm
    rcases bind_panic hp with h1 | ⟨a, _, h2⟩
    · have := handleHeartbeat_panics_only_if _ m (by exact h) s h1
      exact .inr (.inl ⟨hm, this⟩)
    · cases h2
  · -- MsgSnapshot
    rename_i hm
    rcases bind_panic hp with h1 | ⟨a, _, h2⟩
    · have := handleSnapshot_panics_only_if _ m (by exact h) s h1
      exact .inr (.inr (.inl ⟨hm, this⟩))
    · cases h2
  · -- MsgTransferLeader
    rename_i hm
    split at hp
    · cases hp
    · rename_i hl
      obtain ⟨h1, h2⟩ := forward_panics_only_if r m s (by rw [hm]; rfl) hp
      exact .inr (.inr (.inr (.inl ⟨.inr (.inl hm), h1, h2, hl⟩)))
  · -- MsgTimeoutNow
    rename_i hm
    split at hp
    · rename_i hpr
      rcases bind_panic hp with h1 | ⟨a, _, h2⟩
      · exact .inr (.inr (.inr (.inr (.inr ⟨hm, hpr, h1⟩))))
      · cases h2
    · cases hp
  · -- MsgReadIndex
    rename_i hm
    split at hp
    · cases hp
    · rename_i hl
      obtain ⟨h1, h2⟩ := forward_panics_only_if r m s (by rw [hm]; rfl) hp
      exact .inr (.inr (.inr (.inl ⟨.inr (.inr hm), h1, h2, hl⟩)))
  · -- MsgReadIndexResp
    rename_i hm
    split at hp
    · simp only [] at hp
      split at hp
      · cases hp
      · cases hp
      · rename_i s' hmc
        cases hp
        obtain ⟨h1, h2, h3⟩ := maybeCommit_panics_only_if (l := r.raftLog) h _ _ _ hmc
        exact .inr (.inr (.inr (.inr (.inl ⟨hm, h1, h2, h3⟩))))
    · cases hp
  · cases hp

/-! ## 7. the leader's send path (`maybe_send_append`, `bcast_append`, `bcast_heartbeat`) -/

/-- outcome specification: a successful result satisfies `Q`, a panic site lies in `L` -/
def ResSpec {α : Type} (x : Res α) (Q : α → Prop) (L : List String) : Prop :=
  match x with
  | .ok a => Q a
  | .err _ => True
  | .panic s => s ∈ L

theorem ResSpec.bind {α β : Type} {x : Res α} {f : α → Res β} {Q : α → Prop} {Q' : β → Prop}
    {L : List String} (hx : ResSpec x Q L) (hf : ∀ a, Q a → ResSpec (f a) Q' L) :
    ResSpec (x.bind f) Q' L := by
  cases x with
  | ok a => exact hf a hx
  | err e => trivial
  | panic s => exact hx

theorem ResSpec.panic_mem {α : Type} {x : Res α} {Q : α → Prop} {L : List String} {s : String}
    (h : ResSpec x Q L) (hp : x = .panic s) : s ∈ L := by rw [hp] at h; exact h

theorem ResSpec.ok_prop {α : Type} {x : Res α} {Q : α → Prop} {L : List String} {a : α}
    (h : ResSpec x Q L) (hp : x = .ok a) : Q a := by rw [hp] at h; exact h

theorem ResSpec.mono {α : Type} {x : Res α} {Q Q' : α → Prop} {L L' : List String}
    (h : ResSpec x Q L) (hq : ∀ a, Q a → Q' a) (hl : ∀ s, s ∈ L → s ∈ L') : ResSpec x Q' L' := by
  cases x with
  | ok a => exact hq a h
  | err e => trivial
  | panic s => exact hl s h

/-- the panic sites left on the leader's send path once `RaftLogInv` holds: the `next_idx - 1`
underflow, an empty snapshot from the storage, the storage's own `snapshot()` index sites
(its `hard_state.commit` must lie inside its entries), and the progress / in-flight window sites
(`RaftProps.C18` shows the window sites unreachable under the window invariant) -/
def sendAppendSites : List String :=
  ["raft.maybe_send_append.underflow", "raft.prepare_send_snapshot.empty_snapshot",
   "storage.snapshot.index", "storage.snapshot.underflow", "storage.snapshot.commit_lt_snapshot",
   "progress.optimistic_update.overflow", "progress.update_state.snapshot",
   "inflights.add.full", "inflights.add.debug_assert", "inflights.add.assert_next"]

theorem snapshotCore_spec (st : MemStorage) :
    (∀ s, st.snapshotCore = .panic s → s ∈ sendAppendSites) ∧ ∀ e, st.snapshotCore ≠ .err e := by
  unfold MemStorage.snapshotCore
  simp only []
  constructor
  · intro s hp
    split at hp
    · cases hp
    · split at hp
      · split at hp
        · cases hp; simp [sendAppendSites]
        · split at hp
          · cases hp; simp [sendAppendSites]
          · split at hp
            · cases hp; simp [sendAppendSites]
            · cases hp
      · cases hp; simp [sendAppendSites]
  · intro e hp
    split at hp
    · cases hp
    · split at hp
      · split at hp
        · cases hp
        · split at hp
          · cases hp
          · split at hp <;> cases hp
      · cases hp

theorem storeSnapshot_spec (st : MemStorage) (ri : Nat) :
    ((st.snapshot ri).1 = st ∨ (st.snapshot ri).1 = { st with triggerSnapUnavailable := false }) ∧
    (∀ s, (st.snapshot ri).2 = .panic s → s ∈ sendAppendSites) ∧
    (∀ e, (st.snapshot ri).2 = .err e → e = .snapshotTemporarilyUnavailable) := by
  unfold MemStorage.snapshot
  split
  · exact ⟨.inr rfl, fun s h => (by cases h), fun e h => (by cases h; rfl)⟩
  · split
    · exact ⟨.inl rfl, fun s h => (by cases h), fun e h => (by cases h)⟩
    · rename_i e he; exact absurd he ((snapshotCore_spec st).2 e)
    · rename_i p hp
      exact ⟨.inl rfl, fun s h => (by cases h; exact (snapshotCore_spec st).1 _ hp),
        fun e h => (by cases h)⟩

theorem Inv_store_trigger {l : RaftLog} (h : l.Inv) (b : Bool) :
    RaftLog.Inv { l with store := { l.store with triggerSnapUnavailable := b } } :=
  ⟨⟨h.storeWF.contig, h.storeWF.snap_lt⟩, h.unstWF, h.first_le_off, h.off_le_last, h.ents_empty,
    h.dummy_le_committed, h.committed_le_last, h.persisted_lt_off, h.persisted_le_store⟩

theorem logSnapshot_spec {l : RaftLog} (h : l.Inv) (ri : Nat) :
    (l.snapshot ri).1.Inv ∧
    (∀ s, (l.snapshot ri).2 = .panic s → s ∈ sendAppendSites) ∧
    (∀ e, (l.snapshot ri).2 = .err e → e = .snapshotTemporarilyUnavailable) := by
  have hst := storeSnapshot_spec l.store ri
  have key : (({ l with store := (l.store.snapshot ri).1 } : RaftLog)).Inv := by
    rcases hst.1 with h1 | h1
    · rw [h1]; exact h
    · rw [h1]; exact Inv_store_trigger h false
  unfold RaftLog.snapshot
  split
  · split
    · exact ⟨h, fun s hp => (by cases hp), fun e hp => (by cases hp)⟩
    · exact ⟨key, hst.2.1, hst.2.2⟩
  · exact ⟨key, hst.2.1, hst.2.2⟩

/-- `prepare_send_snapshot` -/
theorem prepareSendSnapshot_spec (r : Raft) (m : Message) (pr : Progress) (to : Nat)
    (h : r.raftLog.Inv) (hv : isVoteMsg m.msgType = false) :
    ResSpec (r.prepareSendSnapshot m pr to)
      (fun x => x.1.raftLog.Inv ∧ isVoteMsg x.2.1.msgType = false ∧ x.2.1.term = m.term)
      sendAppendSites := by
  unfold Raft.prepareSendSnapshot
  split
  · exact ⟨h, hv, rfl⟩
  · simp only []
    obtain ⟨hinv, hpan, herr⟩ := logSnapshot_spec h pr.pendingRequestSnapshot
    split
    · exact ⟨hinv, rfl, rfl⟩
    · rename_i e hne he
      exact absurd (herr e he) hne
    · rename_i s hs; exact hpan s hs
    · split
      · show _ ∈ sendAppendSites; simp [sendAppendSites]
      · exact ⟨hinv, rfl, rfl⟩

theorem inflightsAdd_sites (w : Inflights) (x : Nat) (e : String) (h : w.add x = .error e) :
    e ∈ sendAppendSites := by
  have aux : ∀ (c : Prop) [Decidable c] (a : Inflights),
      (if c then (Except.error "inflights.add.assert_next" : Except String Inflights) else .ok a)
        = .error e → e = "inflights.add.assert_next" := by
    intro c _ a hh
    split at hh
    · injection hh with hh; exact hh.symm
    · cases hh
  unfold Inflights.add at h
  split at h
  · injection h with h; subst h; simp [sendAppendSites]
  · split at h
    · injection h with h; subst h; simp [sendAppendSites]
    · simp only [] at h
      have := aux _ _ h
      subst this; simp [sendAppendSites]

theorem updateState_spec (pr : Progress) (last : Nat) :
    ResSpec (pr.updateState last) (fun _ => True) sendAppendSites := by
  unfold Progress.updateState
  split
  · split
    · show _ ∈ sendAppendSites; simp [sendAppendSites]
    · split
      · trivial
      · rename_i e he
        exact inflightsAdd_sites _ _ e he
  · trivial
  · show _ ∈ sendAppendSites; simp [sendAppendSites]

theorem tryBatchingLoop_spec (c to : Nat) (pr : Progress) (ents : List Entry) :
    ∀ msgs, ResSpec (Raft.tryBatchingLoop c to pr ents msgs)
      (fun x => x.2.2 = false → x.2.1 = pr) sendAppendSites := by
  intro msgs
  induction msgs with
  | nil => intro _; rfl
  | cons msg rest ih =>
    simp only [Raft.tryBatchingLoop]
    split
    · split
      · rename_i hne
        split
        · intro _; rfl
        · try simp only []
          split
          · rename_i hl
            exfalso
            rw [List.getLast?_eq_none_iff] at hl
            have : ents = [] := (List.append_eq_nil_iff.1 hl).2
            simp [this] at hne
          · have hu := updateState_spec pr (by assumption : Entry).index
            split
            · intro hc; cases hc
            · trivial
            · rename_i heq; exact hu.panic_mem heq
      · intro hc; cases hc
    · split
      · rename_i rest' pr' b heq
        have := ih.ok_prop heq
        exact this
      · trivial
      · rename_i heq; exact ih.panic_mem heq

theorem tryBatching_spec (r : Raft) (to : Nat) (pr : Progress) (ents : List Entry) :
    ResSpec (r.tryBatching to pr ents)
      (fun x => x.1.raftLog = r.raftLog ∧ (x.2.2 = false → x.2.1 = pr)) sendAppendSites := by
  unfold Raft.tryBatching
  have hl := tryBatchingLoop_spec r.raftLog.committed to pr ents r.msgs
  split
  · rename_i heq; exact ⟨rfl, hl.ok_prop heq⟩
  · trivial
  · rename_i heq; exact hl.panic_mem heq

theorem prepareSendEntries_spec (r : Raft) (m : Message) (pr : Progress) (term : Nat)
    (ents : List Entry) (hn : pr.nextIdx ≠ 0) :
    ResSpec (r.prepareSendEntries m pr term ents)
      (fun x => x.1.msgType = .msgAppend ∧ x.1.term = m.term) sendAppendSites := by
  unfold Raft.prepareSendEntries
  rw [if_neg hn]
  simp only []
  split
  · exact ⟨rfl, rfl⟩
  · rename_i last _
    have hu := updateState_spec pr last.index
    split
    · exact ⟨rfl, rfl⟩
    · trivial
    · rename_i heq; exact hu.panic_mem heq

/-- the "prepare a snapshot, then send it" tail of `maybe_send_append` (used twice) -/
macro "snap_then_send" hs:ident : tactic => `(tactic| (
  split
  · rename_i r' m' pr' heq
    obtain ⟨hi, hv, ht⟩ := ResSpec.ok_prop $hs heq
    rw [send_nonvote_ok r' m' hv ht]
    exact hi
  · rename_i heq; exact (ResSpec.ok_prop $hs heq).1
  · trivial
  · rename_i heq; exact ResSpec.panic_mem $hs heq))

set_option maxHeartbeats 800000 in
/-- **`maybe_send_append`** under `RaftLogInv`: keeps the invariant, panics only at `sendAppendSites`
(no `RaftLog` read site, no `send` site) -/
theorem maybeSendAppend_spec (r : Raft) (to : Nat) (pr : Progress) (ae : Bool)
    (h : r.raftLog.Inv) :
    ResSpec (r.maybeSendAppend to pr ae) (fun x => x.1.raftLog.Inv) sendAppendSites := by
  unfold Raft.maybeSendAppend
  split
  · exact h
  · simp only []
    have hs := prepareSendSnapshot_spec r { to := to } pr to h rfl
    split
    · snap_then_send hs
    · have hents := entries_never_panics h pr.nextIdx (some r.maxMsgSize) true
      have hterm := term_never_panics h (pr.nextIdx - 1)
      generalize r.raftLog.entries pr.nextIdx (some r.maxMsgSize) true = entsR at hents
      generalize r.raftLog.term (pr.nextIdx - 1) = termR at hterm
      cases entsR with
      | panic s => exact absurd rfl (hents s)
      | ok ents =>
        simp only []
        split
        · exact h
        · split
          · show _ ∈ sendAppendSites; simp [sendAppendSites]
          · rename_i hn
            cases termR with
            | panic s => exact absurd rfl (hterm s)
            | err e =>
              simp only []
              snap_then_send hs
            | ok term =>
              simp only []
              have hb : ResSpec (if r.batchAppend = true then r.tryBatching to pr ents
                    else Res.ok (r, pr, false))
                  (fun x => x.1.raftLog = r.raftLog ∧ (x.2.2 = false → x.2.1 = pr))
                  sendAppendSites := by
                split
                · exact tryBatching_spec r to pr ents
                · exact ⟨rfl, fun _ => rfl⟩
              split
              · rename_i heq
                have := (hb.ok_prop heq).1
                show RaftLog.Inv _
                rw [this]; exact h
              · rename_i r' pr' heq
                obtain ⟨hl, hpr⟩ := hb.ok_prop heq
                have hpr' : pr' = pr := hpr rfl
                subst hpr'
                have he := prepareSendEntries_spec r' { to := to } pr' term ents hn
                split
                · rename_i m' pr2 heq2
                  obtain ⟨hv, ht⟩ := he.ok_prop heq2
                  rw [send_nonvote_ok r' m' (by rw [hv]; rfl) ht]
                  show RaftLog.Inv r'.raftLog
                  rw [hl]; exact h
                · trivial
                · rename_i heq2; exact he.panic_mem heq2
              · trivial
              · rename_i heq; exact hb.panic_mem heq
      | err e =>
        simp only []
        split
        · exact h
        · split
          · show _ ∈ sendAppendSites; simp [sendAppendSites]
          · cases termR with
            | panic s => exact absurd rfl (hterm s)
            | err e' =>
              cases e <;> simp only [] <;> first | exact h | snap_then_send hs
            | ok term =>
              cases e <;> simp only [] <;> first | exact h | snap_then_send hs

/-- `send_append(to)`, `send_append_aggressively(to)` add their `unwrap` of the progress; the
fuel site is an artefact of the model's bounded `while` loop -/
def leaderSendSites : List String :=
  sendAppendSites ++ ["raft.send_append.unwrap", "raft.send_append_aggressively.unwrap",
    "model.send_append_aggressively.fuel"]

theorem sendAppendSites_sub (s : String) (h : s ∈ sendAppendSites) : s ∈ leaderSendSites :=
  List.mem_append_left _ h

theorem sendAppendPr_spec (r : Raft) (to : Nat) (pr : Progress) (h : r.raftLog.Inv) :
    ResSpec (r.sendAppendPr to pr) (fun x => x.1.raftLog.Inv) sendAppendSites := by
  unfold Raft.sendAppendPr
  exact (maybeSendAppend_spec r to pr true h).bind (fun a ha => ha)

theorem sendAppendAggressivelyPr_spec : ∀ (fuel : Nat) (r : Raft) (to : Nat) (pr : Progress),
    r.raftLog.Inv →
    ResSpec (Raft.sendAppendAggressivelyPr fuel r to pr) (fun x => x.1.raftLog.Inv)
      leaderSendSites := by
  intro fuel
  induction fuel with
  | zero => intro r to pr _; show _ ∈ leaderSendSites; simp [leaderSendSites]
  | succ n ih =>
    intro r to pr h
    simp only [Raft.sendAppendAggressivelyPr]
    have hm := maybeSendAppend_spec r to pr false h
    split
    · rename_i heq; exact ih _ _ _ (hm.ok_prop heq)
    · rename_i heq; exact hm.ok_prop heq
    · trivial
    · rename_i heq; exact sendAppendSites_sub _ (hm.panic_mem heq)

theorem sendAppend_spec (r : Raft) (to : Nat) (h : r.raftLog.Inv) :
    ResSpec (r.sendAppend to) (fun x => x.raftLog.Inv) leaderSendSites := by
  unfold Raft.sendAppend
  split
  · show _ ∈ leaderSendSites; simp [leaderSendSites]
  · exact ((sendAppendPr_spec r to _ h).mono (fun _ ha => ha) sendAppendSites_sub).bind
      (fun a ha => ha)

theorem sendAppendAggressively_spec (r : Raft) (to : Nat) (h : r.raftLog.Inv) :
    ResSpec (r.sendAppendAggressively to) (fun x => x.raftLog.Inv) leaderSendSites := by
  unfold Raft.sendAppendAggressively
  split
  · show _ ∈ leaderSendSites; simp [leaderSendSites]
  · exact (sendAppendAggressivelyPr_spec _ r to _ h).bind (fun a ha => ha)

/-- the per-peer loop: an invariant `I` that does not depend on `prs` and a site list `L` that hold
for the body hold for the loop -/
theorem forEachPeer_spec (I : Raft → Prop) (L : List String)
    (f : Raft → Nat → Progress → Res (Raft × Progress))
    (hI : ∀ (r : Raft) (prs : ProgressTracker), I r → I { r with prs := prs })
    (hf : ∀ r id pr, I r → ResSpec (f r id pr) (fun x => I x.1) L) (r : Raft) (h : I r) :
    ResSpec (r.forEachPeer f) I L := by
  unfold Raft.forEachPeer
  have hacc : ResSpec (Res.ok r) I L := h
  generalize Res.ok r = acc at hacc
  generalize r.prs.progress.map (·.1) = ids
  induction ids generalizing acc with
  | nil => exact hacc
  | cons id rest ih =>
    simp only [List.foldl]
    apply ih
    apply hacc.bind
    intro r1 h1
    split
    · exact h1
    · split
      · exact h1
      · exact (hf r1 id _ h1).bind (fun a ha => hI _ _ ha)

/-- **`bcast_append`** under `RaftLogInv` -/
theorem bcastAppend_spec (r : Raft) (h : r.raftLog.Inv) :
    ResSpec r.bcastAppend (fun x => x.raftLog.Inv) sendAppendSites := by
  unfold Raft.bcastAppend
  exact forEachPeer_spec (fun r => r.raftLog.Inv) _ _ (fun _ _ hr => hr)
    (fun r id pr hr => sendAppendPr_spec r id pr hr) r h

/-- **`bcast_heartbeat` never panics** (any state, any context) and leaves the log alone -/
theorem bcastHeartbeatWithCtx_spec (r : Raft) (ctx : Option Bytes) (I : RaftLog → Prop)
    (h : I r.raftLog) : ResSpec (r.bcastHeartbeatWithCtx ctx) (fun x => I x.raftLog) [] := by
  unfold Raft.bcastHeartbeatWithCtx
  apply forEachPeer_spec (fun r => I r.raftLog) _ _ (fun _ _ hr => hr) _ r h
  intro r id pr hr
  unfold Raft.sendHeartbeat
  rw [send_nonvote_ok r _ rfl rfl]
  exact hr

theorem bcastHeartbeat_never_panics (r : Raft) (s : String) : r.bcastHeartbeat ≠ .panic s := by
  intro hp
  have := (bcastHeartbeatWithCtx_spec r r.readOnly.lastPendingRequestCtx (fun _ => True)
    trivial).panic_mem hp
  cases this

/-! ## 8. the easy arms of `step_leader` -/

/-- the leader's `MsgBeat`, `MsgCheckQuorum`, `MsgSnapStatus`, `MsgUnreachable` arms never panic, and
neither does any message type `step_leader` ignores -/
theorem stepLeader_local_never_panics (r : Raft) (m : Message) (s : String)
    (hm : m.msgType = .msgBeat ∨ m.msgType = .msgCheckQuorum ∨ m.msgType = .msgSnapStatus ∨
      m.msgType = .msgUnreachable ∨ m.msgType = .msgAppend ∨ m.msgType = .msgHeartbeat ∨
      m.msgType = .msgSnapshot ∨ m.msgType = .msgRequestVoteResponse ∨
      m.msgType = .msgRequestPreVoteResponse ∨ m.msgType = .msgTimeoutNow ∨
      m.msgType = .msgReadIndexResp ∨ m.msgType = .msgHup) :
    r.stepLeader m ≠ .panic s := by
  intro hp
  unfold Raft.stepLeader at hp
  rcases hm with hm | hm | hm | hm | hm | hm | hm | hm | hm | hm | hm | hm <;> rw [hm] at hp <;>
    simp only [] at hp
  · rcases bind_panic hp with h1 | ⟨a, _, h2⟩
    · exact bcastHeartbeat_never_panics r s h1
    · cases h2
  · split at hp <;> cases hp
  all_goals cases hp

/-- `MsgPropose` at the leader: an empty proposal is the `fatal!` of raft.rs:2097 (`RawNode::propose`
always wraps one entry; only a forged forward can be empty); otherwise the entries are appended at
`last_index + 1` and broadcast -/
theorem stepLeader_propose_empty (r : Raft) (m : Message) (hm : m.msgType = .msgPropose)
    (he : m.entries = []) : r.stepLeader m = .panic "raft.step_leader.empty_propose" := by
  unfold Raft.stepLeader
  rw [hm]
  simp [he]

/-! ## 9. the node invariant and the summary -/

/-- the node-level facts the remaining sites depend on -/
structure NodeOk (r : Raft) : Prop where
  /-- the representation invariant of the log (C14) -/
  logInv : RaftProps.C14.RaftLogInv r.raftLog
  /-- the term of the commit index is known (what `commit_info` needs): storage compaction stays
  below the commit index or keeps the term of the dummy position -/
  commitTermKnown : ∃ t, r.raftLog.abs.term r.raftLog.committed = .ok t
  /-- the term of the last index is known (`last_term`) -/
  lastTermKnown : ∃ t, r.raftLog.abs.term r.raftLog.lastIndex = .ok t
  /-- position 0, if it is still the dummy position, carries term 0 -/
  zeroTerm : ∀ t0, r.raftLog.abs.term 0 = .ok t0 → t0 = 0

theorem becomeFollower_raftLog (r : Raft) (t l : Nat) :
    (r.becomeFollower t l).raftLog = { r.raftLog with maxApplyUnpersistedLogLimit := 0 } := by
  unfold Raft.becomeFollower Raft.reset
  simp only [Raft.mapProgress, Raft.abortLeaderTransfer, Raft.resetRandomizedElectionTimeout]
  by_cases h : r.term ≠ t <;> simp [h]

theorem becomeFollower_state (r : Raft) (t l : Nat) : (r.becomeFollower t l).state = .follower := by
  unfold Raft.becomeFollower; rfl

theorem Inv_limit {l : RaftLog} (h : l.Inv) (n : Nat) :
    RaftLog.Inv { l with maxApplyUnpersistedLogLimit := n } :=
  ⟨h.storeWF, h.unstWF, h.first_le_off, h.off_le_last, h.ents_empty,
    h.dummy_le_committed, h.committed_le_last, h.persisted_lt_off, h.persisted_le_store⟩

/-- `become_follower` keeps `NodeOk` (it does not touch the log) -/
theorem NodeOk.becomeFollower {r : Raft} (h : NodeOk r) (t l : Nat) :
    NodeOk (r.becomeFollower t l) := by
  have hl := becomeFollower_raftLog r t l
  constructor
  · show RaftLog.Inv _; rw [hl]; exact Inv_limit h.logInv 0
  · rw [hl]; exact h.commitTermKnown
  · rw [hl]; exact h.lastTermKnown
  · rw [hl]; exact h.zeroTerm

/-- where the dispatch of `step` starts from: the state itself, or the state after the
`become_follower` of a higher-term message -/
theorem stepTerm_ok_cases (r r1 : Raft) (m : Message) (h : r.stepTerm m = .ok (r1, true)) :
    r1 = r ∨ (r.term < m.term ∧ ∃ l, r1 = r.becomeFollower m.term l) := by
  unfold Raft.stepTerm at h
  split at h
  · injection h with h; injection h with h1 _; exact .inl h1.symm
  · split at h
    · rename_i hlt
      simp only [] at h
      split at h
      · injection h with h; injection h with _ h2; cases h2
      · split at h
        · injection h with h; injection h with h1 _; exact .inl h1.symm
        · split at h
          · injection h with h; injection h with h1 _; exact .inr ⟨hlt, _, h1.symm⟩
          · injection h with h; injection h with h1 _; exact .inr ⟨hlt, _, h1.symm⟩
    · split at h
      · split at h
        · split at h
          · injection h with h; injection h with _ h2; cases h2
          · cases h
          · cases h
        · split at h
          · split at h
            · injection h with h; injection h with _ h2; cases h2
            · cases h
            · cases h
          · injection h with h; injection h with _ h2; cases h2
      · injection h with h; injection h with h1 _; exact .inl h1.symm

/-- the panic cases of the role dispatch -/
def DispatchPanic (r1 : Raft) (m : Message) (s : String) : Prop :=
  (m.msgType = .msgHup ∧ r1.hup false = .panic s) ∨
  ((m.msgType = .msgRequestVote ∨ m.msgType = .msgRequestPreVote) ∧ VotePanic r1 m s) ∨
  (r1.state = .follower ∧ FollowerPanic r1 m s) ∨
  ((r1.state = .candidate ∨ r1.state = .preCandidate) ∧ r1.stepCandidate m = .panic s) ∨
  (r1.state = .leader ∧ r1.stepLeader m = .panic s)

/-- **Summary: `Raft::step` panics only if …**  For a node satisfying `NodeOk` and any message
(appends well-formed): the term preamble never panics; the dispatch runs on `r1 = r` or on
`r1 = become_follower(m.term, _)` of a higher-term message, `r1` satisfies `NodeOk` again, and the
panic is one of: the campaign of `MsgHup` (`hup_…`), the vote arm (`VotePanic`), `step_follower`
(`FollowerPanic`, every site tied to a condition on the message and the log), `step_candidate`,
`step_leader` (characterised by the theorems of §7, §8, §10). -/
theorem C20_step_panics_only_if (r : Raft) (m : Message) (s : String) (hn : NodeOk r)
    (hw : m.msgType = .msgAppend → AppendWF m) (hp : r.step m = .panic s) :
    ∃ r1, NodeOk r1 ∧ (r1 = r ∨ (r.term < m.term ∧ ∃ l, r1 = r.becomeFollower m.term l)) ∧
      DispatchPanic r1 m s := by
  unfold Raft.step at hp
  split at hp
  · rename_i s' ht; exact absurd ht (stepTerm_never_panics r m s')
  · cases hp
  · cases hp
  · rename_i r1 ht
    have hc := stepTerm_ok_cases r r1 m ht
    have hn1 : NodeOk r1 := by
      rcases hc with h1 | ⟨_, l, h1⟩
      · rw [h1]; exact hn
      · rw [h1]; exact hn.becomeFollower _ _
    refine ⟨r1, hn1, hc, ?_⟩
    split at hp
    · rename_i hm
      rcases bind_panic hp with h1 | ⟨a, _, h2⟩
      · exact .inl ⟨hm, h1⟩
      · cases h2
    · rename_i hm
      split at hp
      · cases hp
      · cases hp
      · rename_i s' hv
        cases hp
        exact .inr (.inl ⟨.inl hm, stepVote_panics_only_if r1 m hn1.logInv s hv⟩)
    · rename_i hm
      split at hp
      · cases hp
      · cases hp
      · rename_i s' hv
        cases hp
        exact .inr (.inl ⟨.inr hm, stepVote_panics_only_if r1 m hn1.logInv s hv⟩)
    · split at hp
      · rename_i hst; exact .inr (.inr (.inr (.inl ⟨.inr hst, hp⟩)))
      · rename_i hst; exact .inr (.inr (.inr (.inl ⟨.inl hst, hp⟩)))
      · rename_i hst
        exact .inr (.inr (.inl ⟨hst, stepFollower_panics_only_if r1 m hn1.logInv hw s hp⟩))
      · rename_i hst; exact .inr (.inr (.inr (.inr ⟨hst, hp⟩)))

/-! ## 10. what is left of each follower-side site under `NodeOk` -/

/-- under `NodeOk`, **`handle_append_entries` panics only on a protocol violation by the sender**:
either an entry of the message conflicts with the local log at or below the commit index
(`"raft_log.maybe_append.conflict_committed"`), or the message's `log_term` is below the term of
the local *committed* entry although its `index` is at or above the commit index
(`"raft.handle_append_entries.hint_term"`, reached through a compacted dummy position).  Both
contradict Log Matching + Leader Completeness for a sender that is the leader of the term; the
cluster checker validates exactly this on every trace (`C20_append_never_conflicts_below_commit_obligation`). -/
theorem C20_append_panics_only_on_protocol_violation (r : Raft) (m : Message) (s : String)
    (hn : NodeOk r) (hw : AppendWF m) (hp : r.handleAppendEntries m = .panic s) :
    (s = "raft_log.maybe_append.conflict_committed" ∧ r.raftLog.committed ≤ m.index ∧
      r.raftLog.abs.matchTerm m.index m.logTerm = true ∧
      0 < r.raftLog.abs.findConflict m.entries ∧
      r.raftLog.abs.findConflict m.entries ≤ r.raftLog.committed) ∨
    (s = "raft.handle_append_entries.hint_term" ∧ r.raftLog.committed ≤ m.index ∧
      ∃ t, r.raftLog.abs.term r.raftLog.committed = .ok t ∧ m.logTerm < t) := by
  have h := hn.logInv
  rcases handleAppendEntries_panics_only_if r m h hw s hp with
    ⟨_, _, h3⟩ | h2 | ⟨_, t0, h2, h3⟩ | ⟨h1, h2, _, j, hj, hterm, hall⟩
  · obtain ⟨t, ht⟩ := hn.lastTermKnown
    rw [ht] at h3; cases h3
  · exact .inl h2
  · have := hn.zeroTerm t0 h2
    omega
  · right
    refine ⟨h1, h2, ?_⟩
    obtain ⟨t, ht⟩ := hn.commitTermKnown
    obtain ⟨hjs, _⟩ := LLog_term_err_only_at_dummy _ _ _ hterm
    have hd := h.dummy_le_committed
    have hcl := h.committed_le_last
    rw [h.firstIndex_abs] at hd
    simp only [LLog.firstIndex] at hd
    have hne : j ≠ r.raftLog.committed := by
      intro hc; rw [hc, ht] at hterm; cases hterm
    obtain ⟨t', ht', hlt⟩ := hall r.raftLog.committed (by omega) (by omega)
    exact ⟨t', ht', hlt⟩

/-- under `NodeOk`, **`handle_heartbeat` panics only on "to_commit out of range"**: the leader
advertised a commit index this follower does not hold -/
theorem C20_heartbeat_panics_only_on_commit_beyond_log (r : Raft) (m : Message) (s : String)
    (hn : NodeOk r) (hp : r.handleHeartbeat m = .panic s) :
    s = "raft_log.commit_to.out_of_range" ∧ r.raftLog.committed < m.commit ∧
      r.raftLog.lastIndex < m.commit := by
  rcases handleHeartbeat_panics_only_if r m hn.logInv s hp with h1 | ⟨_, _, _, h4⟩
  · exact h1
  · obtain ⟨t, ht⟩ := hn.lastTermKnown
    rw [ht] at h4; cases h4

/-- under `NodeOk`, **the vote arm panics only on the `send` term check** (a vote request with term 0,
or a real vote request rejected by a node that is itself still at term 0) or in the
configuration-change scan of a (pre-)candidate -/
theorem C20_vote_panics_only_if (r : Raft) (m : Message) (s : String) (hn : NodeOk r)
    (hm : m.msgType = .msgRequestVote ∨ m.msgType = .msgRequestPreVote)
    (hp : r.stepVote m = .panic s) :
    (s = "raft.send.term_not_set" ∧ (m.term = 0 ∨ (r.term = 0 ∧ m.msgType = .msgRequestVote))) ∨
    (s = "raft.has_unapplied_conf_changes.scan_error" ∧
      (r.state = .candidate ∨ r.state = .preCandidate)) := by
  rcases stepVote_panics_only_if r m hn.logInv s hp with
    ⟨_, h2⟩ | ⟨_, h2⟩ | ⟨h1, h2⟩ | ⟨h1, h2⟩ | ⟨_, h2⟩ | h2
  · rcases hm with hm | hm <;> rw [hm] at h2 <;> cases h2
  · obtain ⟨t, ht⟩ := hn.lastTermKnown
    rw [ht] at h2; cases h2
  · exact .inl ⟨h1, .inl h2⟩
  · exact .inl ⟨h1, .inr h2⟩
  · obtain ⟨t, ht⟩ := hn.commitTermKnown
    rw [ht] at h2; cases h2
  · exact .inr h2

/-- a well-formed vote request (`term ≠ 0`) to a node that has a term never trips the `send` check -/
theorem C20_vote_wellformed (r : Raft) (m : Message) (s : String) (hn : NodeOk r)
    (hm : m.msgType = .msgRequestVote ∨ m.msgType = .msgRequestPreVote)
    (ht : m.term ≠ 0) (hr : r.term ≠ 0) (hs : r.state = .follower ∨ r.state = .leader) :
    r.stepVote m ≠ .panic s := by
  intro hp
  rcases C20_vote_panics_only_if r m s hn hm hp with ⟨_, h | ⟨h, _⟩⟩ | ⟨_, h | h⟩
  · exact ht h
  · exact hr h
  · rcases hs with hs | hs <;> rw [hs] at h <;> cases h
  · rcases hs with hs | hs <;> rw [hs] at h <;> cases h

/-! ## 11. `step_candidate`: the three leader-message arms -/

/-- the `MsgAppend` / `MsgHeartbeat` / `MsgSnapshot` arms of `step_candidate`: the
`debug_assert_eq!(self.term, m.term)`, then the follower handler on `become_follower(m.term, from)` -/
theorem stepCandidate_leader_msgs_panic_only_if (r : Raft) (m : Message) (s : String)
    (hn : NodeOk r) (hw : m.msgType = .msgAppend → AppendWF m)
    (hm : m.msgType = .msgAppend ∨ m.msgType = .msgHeartbeat ∨ m.msgType = .msgSnapshot)
    (hp : r.stepCandidate m = .panic s) :
    (s = "raft.step_candidate.debug_assert_term" ∧ r.term ≠ m.term) ∨
    (r.term = m.term ∧ FollowerPanic (r.becomeFollower m.term m.frm) m s) := by
  have hn1 := hn.becomeFollower m.term m.frm
  unfold Raft.stepCandidate at hp
  rcases hm with hm | hm | hm <;> rw [hm] at hp <;> simp only [] at hp <;> split at hp
  · cases hp; exact .inl ⟨rfl, by assumption⟩
  · rename_i ht
    rcases bind_panic hp with h1 | ⟨a, _, h2⟩
    · exact .inr ⟨by omega, .inl ⟨hm,
        handleAppendEntries_panics_only_if _ m hn1.logInv (hw hm) s h1⟩⟩
    · cases h2
  · cases hp; exact .inl ⟨rfl, by assumption⟩
  · rename_i ht
    rcases bind_panic hp with h1 | ⟨a, _, h2⟩
    · exact .inr ⟨by omega, .inr (.inl ⟨hm, handleHeartbeat_panics_only_if _ m hn1.logInv s h1⟩)⟩
    · cases h2
  · cases hp; exact .inl ⟨rfl, by assumption⟩
  · rename_i ht
    rcases bind_panic hp with h1 | ⟨a, _, h2⟩
    · exact .inr ⟨by omega, .inr (.inr (.inl ⟨hm,
        handleSnapshot_panics_only_if _ m hn1.logInv s h1⟩))⟩
    · cases h2

/-- through `step`, the `debug_assert_eq!` of `step_candidate` is unreachable for `m.term ≠ 0`: the
term preamble has made the terms equal (or consumed the message) -/
theorem stepTerm_term_eq (r r1 : Raft) (m : Message) (h0 : m.term ≠ 0)
    (hm : m.msgType = .msgAppend ∨ m.msgType = .msgHeartbeat ∨ m.msgType = .msgSnapshot)
    (h : r.stepTerm m = .ok (r1, true)) : r1.term = m.term := by
  unfold Raft.stepTerm at h
  rw [if_neg h0] at h
  split at h
  · simp only [] at h
    split at h
    · injection h with h; injection h with _ h2; cases h2
    · split at h
      · rename_i hc
        rcases hc with hc | ⟨hc, _⟩ <;> rcases hm with hm | hm | hm <;> rw [hm] at hc <;> cases hc
      · try split at h
        all_goals
          injection h with h; injection h with h1 _
          rw [← h1]; exact (becomeFollower_term_vote r m.term _).1
  · split at h
    · split at h
      · split at h
        · injection h with h; injection h with _ h2; cases h2
        · cases h
        · cases h
      · split at h
        · split at h
          · injection h with h; injection h with _ h2; cases h2
          · cases h
          · cases h
        · injection h with h; injection h with _ h2; cases h2
    · injection h with h; injection h with h1 _
      rw [← h1]; omega

/-! ## 12. witnesses: malformed network input that panics a healthy node (`RawNode::step`) -/

/-- a freshly started node: empty log over an empty `MemStorage` -/
def freshLog : RaftLog :=
  { store := {}, unstable := { offset := 1 }, committed := 0, persisted := 0, applied := 0,
    maxApplyUnpersistedLogLimit := 0 }

/-- a follower of node 2 in term 3 -/
def follower3 : Raft := { raftLog := freshLog, id := 1, term := 3, leaderId := 2 }

/-- a vote request with term 0 is granted and the response trips "term should be set" -/
example : RawNode.step { raftLog := freshLog, id := 1 } { msgType := .msgRequestVote, term := 0, frm := 2 }
    = .panic "raft.send.term_not_set" := by decide

/-- a `MsgTransferLeader` of the current term reaching a follower is re-forwarded with its term set -/
example : RawNode.step follower3 { msgType := .msgTransferLeader, term := 3, frm := 3 }
    = .panic "raft.send.term_set" := by decide

/-- a proposal carrying a term -/
example : RawNode.step follower3 { msgType := .msgPropose, term := 3, frm := 3, entries := [{}] }
    = .panic "raft.send.term_set" := by decide

/-- a read-index response without a term and with an index beyond the log -/
example : RawNode.step follower3
    { msgType := .msgReadIndexResp, term := 0, frm := 2, index := 7, entries := [{}] }
    = .panic "raft_log.commit_to.out_of_range" := by decide

/-- an append anchored beyond the log with `log_term = 0` -/
example : RawNode.step follower3
    { msgType := .msgAppend, term := 3, frm := 2, index := 5, logTerm := 0,
      entries := [{ index := 6, term := 3 }] }
    = .panic "unstable.must_check_outofbounds.range" := by decide

/-- a snapshot with term 0 "matches" the (absent) entry at its index and is fast-forwarded to -/
example : RawNode.step follower3
    { msgType := .msgSnapshot, term := 3, frm := 2,
      snapshot := { metadata := { index := 5, term := 0, confState := { voters := [1, 2] } } } }
    = .panic "raft_log.commit_to.out_of_range" := by decide

end RaftProps.C20
