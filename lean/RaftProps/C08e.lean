import RaftProofs.ClusterRead3B

/-!
# C08, cluster level — Safe ReadIndex for FORWARDED reads (`ClusterSem`): bundle, the two proved halves, F17 excluded

`RaftProps/C08c.lean` proves Safe-ReadIndex linearizability for reads issued at the leader under `RdHyp`,
whose field `nori` (no `MsgReadIndex` in the transport) excludes every read forwarded by a follower, and
shows (`C08_cluster_forwarded_read_counterexample`, finding F17) that `nori` cannot simply be dropped: a
SECOND delivery of a forwarded `MsgReadIndex` re-registers an old context behind newer requests.

This file states the bundle for forwarded reads, `RdHypF cfg c0 h` (`RaftProofs/ClusterRead3B.lean`):
`Hyp3w`, `safe`, and in place of `nori` / `norir`
* `once`: no two steps of the history deliver the same `MsgReadIndex` value to the same node
  (`DeliverAt`, an existential reading of a `KStep.deliver` step);
* `uniqc` / `nonempty`: unique non-empty contexts over ALL `read_index` calls (`ReadCallAt`).

**What is proved (PARTIAL — the full `C08_cluster_forwarded_read_index_safe` is NOT proved):**
* `C08_cluster_forwarded_read_leader_side_partial`: a delivered `MsgReadIndex` that registers its context at
  step `k` does so on a leader that has committed in its term, with that leader's commit index as read
  index; that index covers every commit index of every node in every earlier-or-equal state `h[n]`,
  `n ≤ k`, PROVIDED no term above the leader's is led at or before `h[n]`;
* `C08_cluster_forwarded_read_follower_side_partial`: the step that adds a read state to a node either
  delivers a `MsgReadIndexResp` of the transport to that node — a follower; the response carries no term
  or the follower's term; the read state is `(resp.index, resp.entries[0].data)` — or answers a request
  filed at that very node (`Ans`, the C08c case);
* `C08_cluster_forwarded_counterexample_violates_once`: F17's history delivers the same `MsgReadIndex` to
  node 1 at steps 16 and 40, hence is not an `RdHypF` history;
* `C08_cluster_forwarded_partial_inhabited`: the premises `FwdAt` / `FwdRegAt` of the statements are
  inhabited (steps 14 / 16 of F17's history, whose prefix up to the second delivery is an honest run).

**Missing** for the full theorem (see `C08e.REPORT.md`): the proviso of the leader-side half (C08c
discharges it by `quorum_no_higher`, whose invariants `pend_ok` / `occ_issued` / `hbr_floor` / `tgt_inv`
are stated for requests with `req.from = 0` and must be re-proved with `once` for registrations caused by
deliveries), and the link "queued `MsgReadIndexResp` ↔ released pending request" (the per-call invariant
`RInv` of the read layer puts no constraint on queued `MsgReadIndexResp`s).
-/
namespace RaftProps.C08
open RaftModel RaftModel.Cluster RaftModel.Node RaftModel.Raft RaftModel.Raft.CC RaftModel.Raft.RD
open RaftProps.C02 RaftProps.C05

/-- **C08 forwarded reads, leader side (partial).**  Let the step `h[k] → h[k+1]` deliver the
`MsgReadIndex` `m` to node `l` and register the context `K` with read index `idx` (`FwdRegAt`: `K` was not
pending on `l` before, and is pending afterwards with index `idx`).  Then `K` is the context `m` carries,
`l` is a leader in `h[k]` that has committed an entry of its term, `idx` is its commit index in `h[k]`,
`idx` covers every commit event before `h[k]` of a term up to `l`'s (`IdxOK`), and for every `n ≤ k` — in
particular the step of the follower's `read_index` call that forwarded `m` — **`idx` is at least the commit
index of every node in `h[n]`, provided no term above `l`'s is led in any state up to `h[n]`**.
Only `Hyp3w` and `safe` of `RdHypF` are used. -/
theorem C08_cluster_forwarded_read_leader_side_partial (cfg : JointConfig) (c0 : Nat) (h : List Sys)
    (H : RdHypF cfg c0 h) (k l : Nat) (m : Message) (K : Bytes) (idx : Nat)
    (hreg : FwdRegAt h k l m K idx) :
    reqCtx m = some K ∧
    ∃ a st, h[k]? = some a ∧ a.node l = some st ∧ st.raft.state = .leader ∧
      st.raft.commitToCurrentTerm = .ok true ∧
      idx = st.raft.raftLog.committed ∧ IdxOK h c0 k st.raft.term idx ∧
      ∀ n sn, n ≤ k → h[n]? = some sn →
        (∀ n1 s1 l' t', h[n1]? = some s1 → n1 ≤ n → leads s1 l' t' → t' ≤ st.raft.term) →
        ∀ u stu, sn.node u = some stu → stu.raft.raftLog.committed ≤ idx :=
  fwd_reg_covers H.toHyp3w H.safe hreg

/-- **C08 forwarded reads, follower side (partial).**  If the step `h[n] → h[n+1]` adds the read state `x`
to node `j`, then either the step delivers a `MsgReadIndexResp` `y` of the transport to `j`, `j` is a
follower afterwards, `y` carries no term or `j`'s term, has exactly one entry, and
`x = (y.index, y.entries[0].data)`; or node `j` answers a request of its own queue that was filed at `j`
itself (`Ans`: `req.from = 0 ∨ req.from = j`, released by a joint quorum of acknowledgements — the case
C08c covers).  Only `Hyp3w` and `safe` of `RdHypF` are used. -/
theorem C08_cluster_forwarded_read_follower_side_partial (cfg : JointConfig) (c0 : Nat) (h : List Sys)
    (H : RdHypF cfg c0 h) (n : Nat) (a b : Sys) (ha : h[n]? = some a) (hb : h[n + 1]? = some b)
    (j : Nat) (st st' : NState) (hja : a.node j = some st) (hjb : b.node j = some st')
    (x : ReadState) (hx : x ∈ st'.raft.readStates) (hnew : x ∉ st.raft.readStates) :
    (∃ y, y ∈ a.net ∧ y.to = j ∧ y.msgType = .msgReadIndexResp ∧ DeliverAt h n j y ∧
      st'.raft.state = .follower ∧ (y.term = 0 ∨ y.term = st'.raft.term) ∧
      ∃ en, y.entries = [en] ∧ x = { index := y.index, requestCtx := en.data }) ∨
    (∃ m, Ans cfg st.raft m x) :=
  read_state_source H.toHyp3w H.safe ha hb hja hjb hx hnew

/-- the hypotheses of C08c stated over calls (`RdHyp.of_calls`) give `RdHypF`: a transport without any
`MsgReadIndex` delivers none twice -/
theorem C08_cluster_rdHypF_of_nori (cfg : JointConfig) (c0 : Nat) (h : List Sys) (H3 : Hyp3w cfg c0 h)
    (safe : ∀ s ∈ h, ∀ i st, s.node i = some st → st.raft.readOnly.option = .safe)
    (nori : ∀ s ∈ h, ∀ x ∈ s.net, x.msgType ≠ .msgReadIndex)
    (uniqc : ∀ n1 n2 i1 i2 K, ReadCallAt h n1 i1 K → ReadCallAt h n2 i2 K → n1 = n2)
    (nec : ∀ n i K, ReadCallAt h n i K → K ≠ []) : RdHypF cfg c0 h :=
  RdHypF.of_nori H3 safe nori uniqc nec

/-- **F17's history violates `once`** (kernel-evaluated): the history of
`C08_cluster_forwarded_read_counterexample` (`c08y_hist`) delivers one and the same `MsgReadIndex` to
node 1 at step 16 and at step 40 -/
theorem C08_cluster_forwarded_counterexample_violates_once :
    ∃ (m : Message), m.msgType = .msgReadIndex ∧
      DeliverAt c08y_hist 16 1 m ∧ DeliverAt c08y_hist 40 1 m :=
  ⟨c08y_fwd, c08y_fwd_type, c08y_deliver16, c08y_deliver40⟩

/-- … hence it is not a history of the new bundle: `once` excludes exactly F17's mechanism -/
theorem C08_cluster_forwarded_counterexample_not_rdHypF (cfg : JointConfig) (c0 : Nat) :
    ¬ RdHypF cfg c0 c08y_hist := fun H => by
  have := H.once 16 40 1 c08y_fwd c08y_fwd_type c08y_deliver16 c08y_deliver40
  omega

set_option maxRecDepth 100000 in
/-- the premises of the statements are inhabited (kernel-evaluated, in F17's history, which satisfies
`Hyp3w` and `safe`; its steps before the second delivery are an honest run): step 14 is a forwarding
`read_index([9])` call on follower 2 (`FwdAt`), step 16 delivers the forwarded message to leader 1, which
registers `[9]` with read index 1 (`FwdRegAt`), and the leader-side half applies to it -/
theorem C08_cluster_forwarded_partial_inhabited :
    Hyp3w c02x_cfg 0 c08y_hist ∧
    (∀ s ∈ c08y_hist, ∀ i st, s.node i = some st → st.raft.readOnly.option = .safe) ∧
    FwdAt c08y_hist 14 2 [9] ∧
    ∃ m, FwdRegAt c08y_hist 16 1 m [9] 1 ∧ reqCtx m = some [9] ∧ m.frm = 2 :=
  ⟨c08y_hyp3.toHyp3w, c08y_safe, c08y_fwdAt, c08y_fwd, c08y_fwdRegAt, by decide, by decide⟩

end RaftProps.C08
