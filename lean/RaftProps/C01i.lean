import RaftProps.C01h
import RaftProofs.ClusterSnap5Y

/-!
# C01 / C03 / C04, cluster level, with compaction, snapshots between nodes **and `request_snapshot`** (partial: `noreq` replaced by the invariant `reqok`)

The statements of `RaftProps/C01h.lean` under the bundle **`Snap5.Hyp3r_partial`** (= `Snap5.Hyp3w`,
`RaftProofs/ClusterSnap5W.lean` / `5Y.lean`) = `Snap2.Hyp3w` with the proof gap

    noreq : ∀ s ∈ h, ∀ i st, s.node i = some st → st.raft.pendingRequestSnapshot = 0

**replaced by the strictly weaker, invariant-shaped**

    reqok : ∀ s ∈ h, ∀ i st, s.node i = some st →
      st.raft.pendingRequestSnapshot ≠ 0 → st.raft.raftLog.lastIndex ≤ st.raft.pendingRequestSnapshot

so the histories covered include those in which followers call `request_snapshot`
(`NodeOp.requestSnapshot`), send `MsgAppendResponse`s that carry `request_snapshot ≠ 0`, leaders record
the request in `Progress.pending_request_snapshot` and serve it with a `MsgSnapshot`, and the follower
restores the served snapshot **even though its log holds the snapshot's last entry**
(`C01i_request_snapshot_nonvacuous`, `C01i_request_snapshot_exercised`: a kernel-evaluated 42-state
history in which all of this happens; `C01i_reqok_strictly_weaker`).

**What `noreq` was used for, and what replaces it.**  `noreq` had exactly one use in the 10 k lines of
the snapshot layer: `Raft.CC.restore_full` (`ClusterSnap2A`), the description of `Raft::restore`, where
it guarantees that a snapshot whose last entry the log holds is *never* restored (`SnapCase.restored`
carries `match_term ≠ true`), which the main induction needs twice (`ClusterSnap2O`: an acknowledged
entry beyond the snapshot index would be dropped).  With a request pending, `Raft::restore` (with fix
F10: only for a snapshot **not older than the requested index**) does replace a matching log.
`Snap5.restore_full` / `Snap5.snap_call` (`ClusterSnap5A`) describe `Raft::restore` for every value of
`pending_request_snapshot`; `Snap5.SnapCase.restored` carries `match_term ≠ true ∨ last_index ≤
snapshot index`, and under `reqok` the second alternative is what a pending request yields
(`last_index ≤ pending_request_snapshot ≤ snapshot index`); the two places of the induction then argue
"the acknowledged entry lies within the log, hence within the snapshot".  Everything else — the
per-call relations for `handle_append_response` with `request_snapshot ≠ 0`, `maybe_send_append` /
`prepare_send_snapshot` with a pending request, `handle_append_entries` / `handle_heartbeat` of a
follower with a pending request — never depended on `noreq`.  The development `Snap5`
(`ClusterSnap5C–5X`) is a copy of `Snap2` (`ClusterSnap2C–2V`, `4J–4K`) with these changes.

**No new storage hypothesis is needed**: `SnapSend` (unchanged) already pins a queued `MsgSnapshot` to
the storage's own snapshot (`snapshotCore`, not relabelled to `request_index`); that a served snapshot
is not older than the request is *not* assumed — an older one is fast-forwarded or ignored by
`Raft::restore` (fix F10), which is what `Snap5.restore_full` proves.  Without fix F10 (upstream
`raft-rs`) the theorems would need the storage contract "`snapshot(request_index).index ≥
request_index`" *and* freshness of the request message.

**Partial**: `reqok` is still a hypothesis.  It is an invariant of the model (the request index is
`last_index` at the time of the call; `handle_append_entries` refuses to append while a request is
pending; `become_candidate` / `become_leader` clear the request, so no node with a pending request
appends as leader; a successful restore clears it), checked state by state on the example history, but
deriving it needs a per-call relation that tracks `pending_request_snapshot` and `last_index` through
every `NodeOp` (the analogue of `Raft.CS.call_pr`, est. 1–1.5 k lines).  All other hypotheses are
those of C01h.
-/
namespace RaftProps.C01i
open RaftModel RaftModel.Cluster RaftModel.Node RaftModel.Raft RaftModel.Raft.CC

/-- **the ghost logs**: in every state of a history, the logical log and the stored log of every node
have uncompacted versions `FL` / `FS` (`Snap.Full`), which hold the same entries up to the node's
snapshot point unless a snapshot is pending (restored, not yet installed in the storage); any two
uncompacted versions of one log hold the same entries. -/
theorem C01i_ghost_log_partial (cfg : JointConfig) (c0 : Nat) (h : List Sys) (H : Snap5.Hyp3r_partial cfg c0 h)
    (m : Nat) (s : Sys) (hm : h[m]? = some s) (v : Nat) (st : NState) (hv : s.node v = some st) :
    Snap.Full (Snap.HistChain h) c0 st.raft.raftLog.abs (Snap.FL h c0 st) ∧
    Snap.Full (Snap.HistChain h) c0 (storeLog st.raft.raftLog.store) (Snap.FS h c0 st) ∧
    (st.raft.raftLog.unstable.snapshot = none → ∀ k, k ≤ st.raft.raftLog.abs.snapIdx →
      (Snap.FL h c0 st).entryAt k = (Snap.FS h c0 st).entryAt k) ∧
    (∀ g F F', Snap.Full (Snap.HistChain h) c0 g F → Snap.Full (Snap.HistChain h) c0 g F' →
      ∀ k, F.entryAt k = F'.entryAt k) :=
  RaftProps.C01i.Aux.C01i_ghost_log cfg c0 h H.toHyp3a m s hm v st hv

/-- **C04 `cluster_leader_commit_rule`** with compaction and snapshots — the commit rule with **durable
acknowledgements**: whenever a step `h[n] → h[n+1]` takes the commit index of a node `l` that is leader
of term `t` after the step from `c` to `c' > c`, the entry at `c'` in its log carries term `t`, and
there is a joint quorum `Q` of `cfg` such that every `j ∈ Q` is

* `l` itself, with `persisted ≥ c'` — and its storage holds its log up to `c'`; or
* the sender of an accepting `MsgAppendResponse` `x` for term `t` with `index ≥ c'` that is in the
  transport before the step, **and in every state of the history whose transport holds `x` the
  storage of `j` reaches `c'` and holds `l`'s log up to `c'`** — the uncompacted versions are equal up
  to `c'`, hence so are the logs at every index both still retain. -/
theorem C04_cluster_leader_commit_rule_partial (cfg : JointConfig) (c0 : Nat) (h : List Sys)
    (H : Snap5.Hyp3r_partial cfg c0 h)
    (n : Nat) (a b : Sys) (ha : h[n]? = some a) (hb : h[n + 1]? = some b)
    (l : Nat) (sta stb : NState) (hla : a.node l = some sta) (hlb : b.node l = some stb)
    (t : Nat) (hs : stb.raft.state = .leader) (ht : stb.raft.term = t)
    (hc : sta.raft.raftLog.committed < stb.raft.raftLog.committed) :
    stb.raft.raftLog.term stb.raft.raftLog.committed = .ok t ∧
    ∃ Q, IsJointQuorum cfg Q ∧ ∀ j ∈ Q,
      (j = l ∧ stb.raft.raftLog.committed ≤ stb.raft.raftLog.persisted ∧
        ∀ k, k ≤ stb.raft.raftLog.committed →
          (storeLog stb.raft.raftLog.store).entryAt k = stb.raft.raftLog.abs.entryAt k) ∨
      ∃ x ∈ a.net, x.msgType = .msgAppendResponse ∧ x.reject = false ∧ x.frm = j ∧ x.term = t ∧
        stb.raft.raftLog.committed ≤ x.index ∧
        ∀ (m : Nat) (s : Sys) (stj : NState), h[m]? = some s → x ∈ s.net → s.node j = some stj →
          stb.raft.raftLog.committed ≤ (storeLog stj.raft.raftLog.store).lastIndex ∧
          (∀ k, k ≤ stb.raft.raftLog.committed →
            (Snap.FS h c0 stj).entryAt k = (Snap.FL h c0 stb).entryAt k) ∧
          ∀ k, k ≤ stb.raft.raftLog.committed →
            (storeLog stj.raft.raftLog.store).snapIdx < k → stb.raft.raftLog.abs.snapIdx < k →
            (storeLog stj.raft.raftLog.store).entryAt k = stb.raft.raftLog.abs.entryAt k :=
  RaftProps.C01i.Aux.C04_cluster_leader_commit_rule cfg c0 h H.toHyp3a n a b ha hb l sta stb hla hlb t hs ht hc

/-- **C03 `cluster_leader_completeness`** with compaction and snapshots — every entry a leader has committed is in
the log of every leader of a later term: if a step `h[n] → h[n+1]` takes the commit index of `l`, leader
of term `t` after the step, to `c'`, then the log of any node that leads a term `t' > t` in any state
`h[m]` of the history reaches `c'` and holds, at every index up to `c'`, the entry `l` held there — in
the uncompacted versions, hence wherever both logs retain the index. -/
theorem C03_cluster_leader_completeness_partial (cfg : JointConfig) (c0 : Nat) (h : List Sys)
    (H : Snap5.Hyp3r_partial cfg c0 h)
    (n : Nat) (a b : Sys) (ha : h[n]? = some a) (hb : h[n + 1]? = some b)
    (l : Nat) (sta stb : NState) (hla : a.node l = some sta) (hlb : b.node l = some stb)
    (hs : stb.raft.state = .leader)
    (hc : sta.raft.raftLog.committed < stb.raft.raftLog.committed)
    (m : Nat) (s : Sys) (hm : h[m]? = some s) (l' : Nat) (st' : NState)
    (hl' : s.node l' = some st') (hs' : st'.raft.state = .leader)
    (ht : stb.raft.term < st'.raft.term) :
    stb.raft.raftLog.committed ≤ st'.raft.raftLog.abs.lastIndex ∧
    (∀ k, k ≤ stb.raft.raftLog.committed →
      (Snap.FL h c0 st').entryAt k = (Snap.FL h c0 stb).entryAt k) ∧
    ∀ k, k ≤ stb.raft.raftLog.committed →
      st'.raft.raftLog.abs.snapIdx < k → stb.raft.raftLog.abs.snapIdx < k →
      st'.raft.raftLog.abs.entryAt k = stb.raft.raftLog.abs.entryAt k :=
  RaftProps.C01i.Aux.C03_cluster_leader_completeness cfg c0 h H.toHyp3a n a b ha hb l sta stb hla hlb hs hc m s hm l' st' hl' hs' ht

/-- **C04 `cluster_follower_commit_sound`** with compaction and snapshots — *every* commit index is sound: in every
state `h[m]`, what a node `v` has marked committed is at most the common initial snapshot point `c0`,
or it was committed by a leader: there is an earlier step `h[n] → h[n+1]` (`n < m`) that took the commit
index of a node `l`, leader of a term `t ≤ term(v)` after the step, to some `c' ≥ committed(v)`, and the
log of `v` equals the log `l` had then up to `committed(v)` — in the uncompacted versions, hence
wherever both retain the index. -/
theorem C04_cluster_follower_commit_sound_partial (cfg : JointConfig) (c0 : Nat) (h : List Sys)
    (H : Snap5.Hyp3r_partial cfg c0 h) (m : Nat) (s : Sys) (hm : h[m]? = some s) (v : Nat) (st : NState)
    (hv : s.node v = some st) :
    st.raft.raftLog.committed ≤ c0 ∨
    ∃ (n : Nat) (a b : Sys) (l : Nat) (sta stb : NState), n < m ∧ h[n]? = some a ∧
      h[n + 1]? = some b ∧ a.node l = some sta ∧ b.node l = some stb ∧
      stb.raft.state = .leader ∧ sta.raft.raftLog.committed < stb.raft.raftLog.committed ∧
      st.raft.raftLog.committed ≤ stb.raft.raftLog.committed ∧ stb.raft.term ≤ st.raft.term ∧
      (∀ k, k ≤ st.raft.raftLog.committed →
        (Snap.FL h c0 st).entryAt k = (Snap.FL h c0 stb).entryAt k) ∧
      ∀ k, k ≤ st.raft.raftLog.committed →
        st.raft.raftLog.abs.snapIdx < k → stb.raft.raftLog.abs.snapIdx < k →
        st.raft.raftLog.abs.entryAt k = stb.raft.raftLog.abs.entryAt k :=
  RaftProps.C01i.Aux.C04_cluster_follower_commit_sound cfg c0 h H.toHyp3a m s hm v st hv

/-- … and so is every **stored** commit index (what a restarted node starts from): it is not ahead of
the commit index, and it is covered by a leader's commit of a term not above the stored term, with the
stored entries. -/
theorem C04_cluster_stored_commit_sound_partial (cfg : JointConfig) (c0 : Nat) (h : List Sys)
    (H : Snap5.Hyp3r_partial cfg c0 h) (m : Nat) (s : Sys) (hm : h[m]? = some s) (v : Nat) (st : NState)
    (hv : s.node v = some st) :
    st.raft.raftLog.store.hardState.commit ≤ st.raft.raftLog.committed ∧
    (st.raft.raftLog.store.hardState.commit ≤ c0 ∨
     ∃ (n : Nat) (a b : Sys) (l : Nat) (sta stb : NState), n < m ∧ h[n]? = some a ∧
      h[n + 1]? = some b ∧ a.node l = some sta ∧ b.node l = some stb ∧
      stb.raft.state = .leader ∧ sta.raft.raftLog.committed < stb.raft.raftLog.committed ∧
      st.raft.raftLog.store.hardState.commit ≤ stb.raft.raftLog.committed ∧
      stb.raft.term ≤ st.raft.raftLog.store.hardState.term ∧
      (∀ k, k ≤ st.raft.raftLog.store.hardState.commit →
        (Snap.FS h c0 st).entryAt k = (Snap.FL h c0 stb).entryAt k) ∧
      ∀ k, k ≤ st.raft.raftLog.store.hardState.commit →
        (storeLog st.raft.raftLog.store).snapIdx < k → stb.raft.raftLog.abs.snapIdx < k →
        (storeLog st.raft.raftLog.store).entryAt k = stb.raft.raftLog.abs.entryAt k) :=
  RaftProps.C01i.Aux.C04_cluster_stored_commit_sound cfg c0 h H.toHyp3a m s hm v st hv

/-- **C01 `cluster_state_machine_safety`, ghost form** — the uncompacted logs of any two nodes, in any
two states of the history (the same node before and after a restart or a compaction included), hold the
same entry at every index both have marked committed. -/
theorem C01_cluster_state_machine_safety_ghost_partial (cfg : JointConfig) (c0 : Nat) (h : List Sys)
    (H : Snap5.Hyp3r_partial cfg c0 h)
    (m1 : Nat) (s1 : Sys) (hm1 : h[m1]? = some s1) (v1 : Nat) (st1 : NState)
    (hv1 : s1.node v1 = some st1)
    (m2 : Nat) (s2 : Sys) (hm2 : h[m2]? = some s2) (v2 : Nat) (st2 : NState)
    (hv2 : s2.node v2 = some st2)
    (k : Nat) (hk1 : k ≤ st1.raft.raftLog.committed) (hk2 : k ≤ st2.raft.raftLog.committed) :
    (Snap.FL h c0 st1).entryAt k = (Snap.FL h c0 st2).entryAt k :=
  RaftProps.C01i.Aux.C01_cluster_state_machine_safety_ghost cfg c0 h H.toHyp3a m1 s1 hm1 v1 st1 hv1 m2 s2 hm2 v2 st2 hv2 k hk1 hk2

/-- **C01 `cluster_state_machine_safety`** with compaction and snapshots — any two nodes, in any two
states of the history (the same node before and after a restart or a compaction included), hold the same entry at
every index both have marked committed **and both still retain** (`snapIdx < k`; a compacted log
answers `none` below its snapshot point). -/
theorem C01_cluster_state_machine_safety_partial (cfg : JointConfig) (c0 : Nat) (h : List Sys)
    (H : Snap5.Hyp3r_partial cfg c0 h)
    (m1 : Nat) (s1 : Sys) (hm1 : h[m1]? = some s1) (v1 : Nat) (st1 : NState)
    (hv1 : s1.node v1 = some st1)
    (m2 : Nat) (s2 : Sys) (hm2 : h[m2]? = some s2) (v2 : Nat) (st2 : NState)
    (hv2 : s2.node v2 = some st2)
    (k : Nat) (hk1 : k ≤ st1.raft.raftLog.committed) (hk2 : k ≤ st2.raft.raftLog.committed)
    (hr1 : st1.raft.raftLog.abs.snapIdx < k) (hr2 : st2.raft.raftLog.abs.snapIdx < k) :
    st1.raft.raftLog.abs.entryAt k = st2.raft.raftLog.abs.entryAt k :=
  RaftProps.C01i.Aux.C01_cluster_state_machine_safety cfg c0 h H.toHyp3a m1 s1 hm1 v1 st1 hv1 m2 s2 hm2 v2 st2 hv2 k hk1 hk2 hr1 hr2

/-- … in particular for the **applied** entries of two nodes whose applied index is within their
commit index (`AppliedOk`, which holds outside the restart window — `raft_log.rs:44-46`). -/
theorem C01_cluster_state_machine_safety_applied_partial (cfg : JointConfig) (c0 : Nat) (h : List Sys)
    (H : Snap5.Hyp3r_partial cfg c0 h)
    (m1 : Nat) (s1 : Sys) (hm1 : h[m1]? = some s1) (v1 : Nat) (st1 : NState)
    (hv1 : s1.node v1 = some st1) (ha1 : st1.raft.raftLog.AppliedOk)
    (m2 : Nat) (s2 : Sys) (hm2 : h[m2]? = some s2) (v2 : Nat) (st2 : NState)
    (hv2 : s2.node v2 = some st2) (ha2 : st2.raft.raftLog.AppliedOk)
    (k : Nat) (hk1 : k ≤ st1.raft.raftLog.applied) (hk2 : k ≤ st2.raft.raftLog.applied)
    (hr1 : st1.raft.raftLog.abs.snapIdx < k) (hr2 : st2.raft.raftLog.abs.snapIdx < k) :
    st1.raft.raftLog.abs.entryAt k = st2.raft.raftLog.abs.entryAt k :=
  RaftProps.C01i.Aux.C01_cluster_state_machine_safety_applied cfg c0 h H.toHyp3a m1 s1 hm1 v1 st1 hv1 ha1 m2 s2 hm2 v2 st2 hv2 ha2 k hk1 hk2 hr1 hr2

/-- **a compacted prefix is a committed prefix** (`C15`-style, for compaction points): in every state,
the snapshot point of every node — of its logical log and of its storage, which coincide unless a
snapshot is pending — is not below the common initial snapshot point `c0` and not above the node's
commit index; and every other
node, in any state, whose commit index reaches an index `k` up to that snapshot point holds, in its
uncompacted log, exactly the entry the compacting node's uncompacted log holds at `k`. -/
theorem C01_cluster_compacted_prefix_committed_partial (cfg : JointConfig) (c0 : Nat) (h : List Sys)
    (H : Snap5.Hyp3r_partial cfg c0 h)
    (m1 : Nat) (s1 : Sys) (hm1 : h[m1]? = some s1) (v1 : Nat) (st1 : NState)
    (hv1 : s1.node v1 = some st1) :
    c0 ≤ st1.raft.raftLog.abs.snapIdx ∧
    (st1.raft.raftLog.unstable.snapshot = none →
      (storeLog st1.raft.raftLog.store).snapIdx = st1.raft.raftLog.abs.snapIdx) ∧
    st1.raft.raftLog.abs.snapIdx ≤ st1.raft.raftLog.committed ∧
    ∀ (m2 : Nat) (s2 : Sys) (v2 : Nat) (st2 : NState), h[m2]? = some s2 → s2.node v2 = some st2 →
      ∀ k, k ≤ st1.raft.raftLog.abs.snapIdx → k ≤ st2.raft.raftLog.committed →
        (Snap.FL h c0 st1).entryAt k = (Snap.FL h c0 st2).entryAt k :=
  RaftProps.C01i.Aux.C01_cluster_compacted_prefix_committed cfg c0 h H.toHyp3a m1 s1 hm1 v1 st1 hv1

/-- **a released snapshot is a committed prefix**: every `MsgSnapshot` `x` in the transport of a state
`h[m]` names an index `i > c0` and a term `t` such that there is an earlier step `h[n] → h[n+1]`
(`n < m`) that took the commit index of a node `l`, leader of a term `≤ x.term` after the step, to some
`c' ≥ i`, and the uncompacted log of `l` after that step holds an entry of term `t` at `i` — in its real
log, if that still retains `i`. -/
theorem C01_cluster_snapshot_committed_prefix_partial (cfg : JointConfig) (c0 : Nat) (h : List Sys)
    (H : Snap5.Hyp3r_partial cfg c0 h) (m : Nat) (s : Sys) (hm : h[m]? = some s) (x : Message)
    (hx : x ∈ s.net) (hty : x.msgType = .msgSnapshot) :
    c0 < x.snapshot.metadata.index ∧
    ∃ (n : Nat) (a b : Sys) (l : Nat) (sta stb : NState), n < m ∧ h[n]? = some a ∧
      h[n + 1]? = some b ∧ a.node l = some sta ∧ b.node l = some stb ∧
      stb.raft.state = .leader ∧ sta.raft.raftLog.committed < stb.raft.raftLog.committed ∧
      x.snapshot.metadata.index ≤ stb.raft.raftLog.committed ∧ stb.raft.term ≤ x.term ∧
      Has (Snap.FL h c0 stb) x.snapshot.metadata.index x.snapshot.metadata.term ∧
      (stb.raft.raftLog.abs.snapIdx < x.snapshot.metadata.index →
        Has stb.raft.raftLog.abs x.snapshot.metadata.index x.snapshot.metadata.term) :=
  RaftProps.C01i.Aux.C01_cluster_snapshot_committed_prefix cfg c0 h H.toHyp3a m s hm x hx hty

/-- **snapshot-point term agreement**: if the log of a node `v1` (in any state) starts at a snapshot
point `i > c0` whose term `t` it knows — after it restored a snapshot (pending or installed), or after
a restart —, then `i` is within `v1`'s commit index, and every node `v2`, in any state, whose commit
index reaches `i` holds an entry of term `t` at `i` in its uncompacted log: in its real log if that
retains `i`, and as the term of its own snapshot point if that is `i` and it knows the term.  (With
`C01_cluster_state_machine_safety_ghost`: the prefix a snapshot stands for is the committed prefix of
every node.) -/
theorem C01_cluster_snapshot_point_agreement_partial (cfg : JointConfig) (c0 : Nat) (h : List Sys)
    (H : Snap5.Hyp3r_partial cfg c0 h)
    (m1 : Nat) (s1 : Sys) (hm1 : h[m1]? = some s1) (v1 : Nat) (st1 : NState)
    (hv1 : s1.node v1 = some st1) (t : Nat) (ht : st1.raft.raftLog.abs.snapTerm = some t)
    (hi : c0 < st1.raft.raftLog.abs.snapIdx) :
    st1.raft.raftLog.abs.snapIdx ≤ st1.raft.raftLog.committed ∧
    ∀ (m2 : Nat) (s2 : Sys) (v2 : Nat) (st2 : NState), h[m2]? = some s2 → s2.node v2 = some st2 →
      st1.raft.raftLog.abs.snapIdx ≤ st2.raft.raftLog.committed →
      Has (Snap.FL h c0 st2) st1.raft.raftLog.abs.snapIdx t ∧
      (st2.raft.raftLog.abs.snapIdx < st1.raft.raftLog.abs.snapIdx →
        Has st2.raft.raftLog.abs st1.raft.raftLog.abs.snapIdx t) ∧
      (st2.raft.raftLog.abs.snapIdx = st1.raft.raftLog.abs.snapIdx →
        ∀ t', st2.raft.raftLog.abs.snapTerm = some t' → t' = t) :=
  RaftProps.C01i.Aux.C01_cluster_snapshot_point_agreement cfg c0 h H.toHyp3a m1 s1 hm1 v1 st1 hv1 t ht hi

/-- **a restored snapshot never drops a committed entry, and installs a committed prefix**: in every
state, a node with a pending snapshot `sn` (restored from a `MsgSnapshot`, not yet installed in its
storage) has commit index `sn.index > c0`, an empty unstable log, and nothing persisted beyond
`sn.index`; and its stored commit index never exceeds its commit index. -/
theorem C01_cluster_pending_snapshot_partial (cfg : JointConfig) (c0 : Nat) (h : List Sys)
    (H : Snap5.Hyp3r_partial cfg c0 h) (m : Nat) (s : Sys) (hm : h[m]? = some s) (v : Nat) (st : NState)
    (hv : s.node v = some st) (sn : Snapshot) (hp : st.raft.raftLog.unstable.snapshot = some sn) :
    st.raft.raftLog.unstable.entries = [] ∧ st.raft.raftLog.committed = sn.metadata.index ∧
    c0 < sn.metadata.index ∧ st.raft.raftLog.persisted ≤ sn.metadata.index ∧
    st.raft.raftLog.store.hardState.commit ≤ st.raft.raftLog.committed :=
  RaftProps.C01i.Aux.C01_cluster_pending_snapshot cfg c0 h H.toHyp3a m s hm v st hv sn hp

/-- **every `MsgAppend` is anchored inside its sender's log** (the former gap `anch`): in every state
of a history, every `MsgAppend` in the transport, and every one queued at a node, has `log_term ≠ 0` or
`index ≤ c0` -/
theorem C01i_appends_anchored_partial (cfg : JointConfig) (c0 : Nat) (h : List Sys)
    (H : Snap5.Hyp3r_partial cfg c0 h) (n : Nat) (s : Sys) (hn : h[n]? = some s) :
    (∀ x ∈ s.net, x.msgType = .msgAppend → x.logTerm ≠ 0 ∨ x.index ≤ c0) ∧
    (∀ i st, s.node i = some st → ∀ x ∈ st.raft.msgs, x.msgType = .msgAppend →
      x.logTerm ≠ 0 ∨ x.index ≤ c0) :=
  ⟨(Snap5.ci_all H n s hn).na, (Snap5.ci_all H n s hn).qa⟩

/-- **a leader's progress lies within its log, the `Snapshot` state included**: in every state of a
history, every progress of a leader has `matched ≤ last_index`, `next_idx ≤ last_index + 1`, and — in
the `Snapshot` state — `pending_snapshot ≤ last_index`; and every `MsgSnapshot` a node has queued names
an index within that node's commit index -/
theorem C01i_progress_within_log_partial (cfg : JointConfig) (c0 : Nat) (h : List Sys)
    (H : Snap5.Hyp3r_partial cfg c0 h) (n : Nat) (s : Sys) (hn : h[n]? = some s) (i : Nat) (st : NState)
    (hi : s.node i = some st) :
    (st.raft.state = .leader → ∀ p ∈ st.raft.prs.progress,
      p.2.matched ≤ st.raft.raftLog.lastIndex ∧ p.2.nextIdx ≤ st.raft.raftLog.lastIndex + 1 ∧
      (p.2.state = .snapshot → p.2.pendingSnapshot ≤ st.raft.raftLog.lastIndex)) ∧
    (∀ x ∈ st.raft.msgs, x.msgType = .msgSnapshot →
      x.snapshot.metadata.index ≤ st.raft.raftLog.committed) :=
  ⟨((Snap5.ci_all H n s hn).node i st hi).po, ((Snap5.ci_all H n s hn).node i st hi).qs⟩

/-- **where a `MsgReadIndexResp` comes from** (the former gap `norir` / `rirs`): in every state `h[n]`,
every `MsgReadIndexResp` in the transport or queued at a node carries the term of a node that led that
term in some state `h[n0]`, `n0 ≤ n`, with `committed ≥ index`; and every pending read index of a
leader is at most its commit index -/
theorem C01i_read_index_resp_source_partial (cfg : JointConfig) (c0 : Nat) (h : List Sys)
    (H : Snap5.Hyp3r_partial cfg c0 h) (n : Nat) (s : Sys) (hn : h[n]? = some s) :
    (∀ x, (x ∈ s.net ∨ ∃ i st, s.node i = some st ∧ x ∈ st.raft.msgs) →
      x.msgType = .msgReadIndexResp →
      ∃ n0 s0 w stw, n0 ≤ n ∧ h[n0]? = some s0 ∧ s0.node w = some stw ∧
        stw.raft.state = .leader ∧ stw.raft.term = x.term ∧ x.index ≤ stw.raft.raftLog.committed) ∧
    (∀ i st, s.node i = some st → st.raft.state = .leader →
      ∀ p ∈ st.raft.readOnly.pendingReadIndex, p.2.index ≤ st.raft.raftLog.committed) := by
  have c := Snap5.ci_all H n s hn
  refine ⟨fun x hx hty => ?_, fun i st hi => (c.node i st hi).rd⟩
  rcases hx with d | ⟨i, st, hi, d⟩
  · exact c.nr x d hty
  · exact c.qr i st hi x d hty


/-- the hypotheses of this file imply those of `RaftProps/C01g2.lean` for the development `Snap5`:
`anch` and `rirs` are theorems -/
theorem C01i_derives_anch_rirs_partial (cfg : JointConfig) (c0 : Nat) (h : List Sys)
    (H : Snap5.Hyp3r_partial cfg c0 h) : Snap5.Hyp3a cfg c0 h := Snap5.Hyp3w.toHyp3a H

/-- **the hypotheses of `RaftProps/C01h.lean` imply the hypotheses of this file**: `Snap5.KStep` is
`Snap2.KStep`, and a node without a pending request satisfies `reqok` -/
theorem C01i_subsumes_C01h (cfg : JointConfig) (c0 : Nat) (h : List Sys)
    (H : Snap2.Hyp3w cfg c0 h) : Snap5.Hyp3r_partial cfg c0 h := Snap5.Hyp3w.of_snap2 H

/-- the new bundle, field by field: the hypotheses of C01h with `noreq` replaced by `reqok` -/
theorem C01i_bundle_partial (cfg : JointConfig) (c0 : Nat) (h : List Sys) :
    Snap5.Hyp3r_partial cfg c0 h ↔
    (History h ∧ (∀ s ∈ h, FixedCfg cfg s) ∧ cfg.incoming ≠ [] ∧ cfg.incoming.Nodup ∧
      cfg.outgoing.Nodup ∧ (∀ s : Sys, h[0]? = some s → InitOk s) ∧
      (∀ (n : Nat) (a b : Sys), h[n]? = some a → h[n + 1]? = some b → Snap2.KStep a b) ∧
      (∀ s ∈ h, NoBatch s) ∧
      (∀ s ∈ h, ∀ i st, s.node i = some st → st.raft.pendingRequestSnapshot ≠ 0 →
        st.raft.raftLog.lastIndex ≤ st.raft.pendingRequestSnapshot)) ∧
    (∀ i Q, IsJointQuorum cfg Q → ∃ k ∈ Q, k ≠ i) ∧
    (∀ s : Sys, h[0]? = some s → ∀ i st, s.node i = some st →
      st.raft.raftLog.store.firstIndex = c0 + 1) ∧
    (∀ s : Sys, h[0]? = some s → ∀ i st, s.node i = some st → st.raft.raftLog.committed = c0) ∧
    (∀ s : Sys, h[0]? = some s → ∀ i st, s.node i = some st →
      st.raft.raftLog.unstable.snapshot = none) ∧
    (∀ s0, h[0]? = some s0 → ∀ i sti, s0.node i = some sti → ∀ t0,
      sti.raft.raftLog.abs.snapTerm = some t0 → ∀ j stj, s0.node j = some stj → t0 ≤ stj.raft.term) ∧
    (∀ s ∈ h, ∀ x ∈ s.net, x.msgType = .msgSnapshot → c0 < x.snapshot.metadata.index) := by
  constructor
  · intro H
    exact ⟨⟨H.hist, H.fix, H.ne, H.nd1, H.nd2, H.init,
      fun n a b ha hb => (H.steps n a b ha hb).to_snap2, H.nb, H.reqok⟩,
      H.nolone, H.first0, H.initc, H.pend0, H.snapt0, H.snapidx⟩
  · rintro ⟨⟨h1, h2, h3, h4, h5, h6, h7, h8, h9⟩, g1, g2, g3, g4, g5, g6⟩
    exact { hist := h1, fix := h2, ne := h3, nd1 := h4, nd2 := h5, init := h6,
            steps := fun n a b ha hb => Snap5.KStep.of_snap2 (h7 n a b ha hb), nb := h8, reqok := h9,
            nolone := g1, first0 := g2, initc := g3, pend0 := g4, snapt0 := g5, snapidx := g6 }

/-- **`Raft::restore` on a follower, whatever its pending snapshot request** (the per-call fact that
replaces the only use of `noreq`): the snapshot is not applied (`b = false`: the log is kept, the commit
index stays or is fast-forwarded to a snapshot index the log holds with the snapshot's term, and the
pending request stays), or the log is replaced by the snapshot (`b = true`) — then the snapshot is not
below the commit index, **the log does not hold the snapshot's last entry or a request is pending and
the snapshot is not older than the requested index**, and the request is cleared. -/
theorem C01i_restore_any_request (r r' : Raft) (snap : Snapshot) (b : Bool)
    (hf : r.state = .follower) (h : r.restore snap = .ok (r', b)) :
    r'.msgs = r.msgs ∧ r'.term = r.term ∧ r'.state = r.state ∧ r'.id = r.id ∧
    r'.raftLog.store = r.raftLog.store ∧
    ((b = false ∧ r'.raftLog.unstable = r.raftLog.unstable ∧
        r'.raftLog.persisted = r.raftLog.persisted ∧ r'.raftLog.applied = r.raftLog.applied ∧
        (r'.raftLog.committed = r.raftLog.committed ∨
          (r.raftLog.committed ≤ snap.metadata.index ∧
            r'.raftLog.committed = snap.metadata.index ∧
            r.raftLog.matchTerm snap.metadata.index snap.metadata.term = .ok true ∧
            snap.metadata.index ≤ r.raftLog.lastIndex)) ∧
        r'.pendingRequestSnapshot = r.pendingRequestSnapshot) ∨
     (b = true ∧ r.raftLog.committed ≤ snap.metadata.index ∧
        (r.raftLog.matchTerm snap.metadata.index snap.metadata.term ≠ .ok true ∨
          (r.pendingRequestSnapshot ≠ 0 ∧ r.pendingRequestSnapshot ≤ snap.metadata.index)) ∧
        r.raftLog.restore snap = .ok r'.raftLog ∧ r'.pendingRequestSnapshot = 0)) :=
  Snap5.restore_full hf h

/-- towards `reqok` (1): **`Raft::request_snapshot`, completely** — dropped (nothing changes), or, on a
non-leader without a pending request, the request index is the last index of the (untouched) log and
one message is queued -/
theorem C01i_request_snapshot_call (r r' : Raft) (e : Option RaftError)
    (h : r.requestSnapshot = .ok (r', e)) :
    r' = r ∨
    (r.state ≠ .leader ∧ r.pendingRequestSnapshot = 0 ∧
      r'.pendingRequestSnapshot = r.raftLog.lastIndex ∧ r'.raftLog = r.raftLog ∧
      r'.state = r.state ∧ ∃ x, r'.msgs = r.msgs ++ [x]) :=
  Snap5.requestSnapshot_out h

/-- towards `reqok` (2): **a follower with a pending snapshot request does not append** -/
theorem C01i_pending_request_blocks_append (r r' : Raft) (m : Message)
    (hp : r.pendingRequestSnapshot ≠ 0) (h : r.handleAppendEntries m = .ok r') :
    r'.raftLog = r.raftLog ∧ r'.pendingRequestSnapshot = r.pendingRequestSnapshot ∧
    r'.state = r.state ∧ ∃ x, r'.msgs = r.msgs ++ [x] :=
  Snap5.handleAppendEntries_req hp h

/-- non-vacuity: the 42-state history `Snap5.rx_hist` — the 34-state snapshot history of C01e / C01h,
continued by: follower 2 learns commit index 2, **calls `request_snapshot`**, sends; leader 1 is
delivered the `MsgAppendResponse` that carries the request, **queues a `MsgSnapshot`**, sends; follower
2 restores the snapshot, installs it, sends — satisfies the new bundle -/
theorem C01i_request_snapshot_nonvacuous :
    Snap5.Hyp3r_partial RaftProps.C02.c02x_cfg 0 Snap5.rx_hist :=
  Snap5.Hyp3a.toHyp3w (Snap5.Hyp3.toHyp3a Snap5.rx_hyp3)

/-- … and that history really exercises `request_snapshot` (kernel-evaluated): the call at node 2
succeeds and sets `pending_request_snapshot = 2`; some state has a node with a pending request; the
transport holds a rejecting `MsgAppendResponse` with `request_snapshot ≠ 0`; a leader has a progress
with `pending_request_snapshot ≠ 0` in the `Snapshot` state and a `MsgSnapshot` for that follower in its
queue; a `MsgSnapshot` for node 2 is in the transport; node 2 restores it **although its log holds the
snapshot's last entry** (`match_term = true`; no snapshot pending before, this one after), and the
request is cleared. -/
theorem C01i_request_snapshot_exercised :
    (∃ res, Node.call Snap5.rx_b10 none .requestSnapshot = .ok (res, Snap5.rx_b11)) ∧
    Snap5.rx_b10.raft.pendingRequestSnapshot = 0 ∧ Snap5.rx_b11.raft.pendingRequestSnapshot = 2 ∧
    Snap5.rx_hist.any Snap5.reqPendingIn = true ∧
    Snap5.rx_hist.any (fun s => s.net.any (fun x => x.msgType == .msgAppendResponse && x.reject &&
      decide (x.requestSnapshot ≠ 0))) = true ∧
    Snap5.rx_hist.any Snap5.reqServedIn = true ∧
    Snap5.rx_hist.any (fun s => s.net.any (fun x => x.msgType == .msgSnapshot && x.to == 2)) = true ∧
    Snap5.rx_b12.raft.raftLog.matchTerm Snap5.rx_snap.snapshot.metadata.index
      Snap5.rx_snap.snapshot.metadata.term = .ok true ∧
    Snap5.rx_b12.raft.raftLog.unstable.snapshot = none ∧
    Snap5.rx_b13.raft.raftLog.unstable.snapshot = some Snap5.rx_snap.snapshot ∧
    Snap5.rx_b13.raft.pendingRequestSnapshot = 0 :=
  Snap5.rx_exercised

/-- `reqok` is strictly weaker than `noreq`: `Snap5.rx_hist` satisfies the new bundle but not `noreq`
(so it is outside the scope of `RaftProps/C01h.lean`) -/
theorem C01i_reqok_strictly_weaker :
    Snap5.Hyp3r_partial RaftProps.C02.c02x_cfg 0 Snap5.rx_hist ∧
    ¬ Snap2.Hyp3w RaftProps.C02.c02x_cfg 0 Snap5.rx_hist :=
  ⟨C01i_request_snapshot_nonvacuous, fun H => Snap5.rx_not_noReq H.noreq⟩

end RaftProps.C01i
