import RaftProofs.RaftNode

/-!
# RN — node-local sanity theorems about the executable model of the Raft node

`RN` is not one of the properties: it is the shared engine that ties the model of `src/raft.rs`,
`src/tracker.rs`, `src/tracker/progress.rs`, `src/read_only.rs`, `src/config.rs` and the
`RawNode::step` filter (`RaftModel.Raft*`) to the code by a free-running correspondence
(`rvh raftnode` ⇄ `rvm`, component token `rn`).  The theorems below are node-local lemmas from
DESIGN.md §7 (C16, C17, C09, C08, C15, C20, C02) that are cheap on this model; they hold for ALL
states and messages (no reachability hypothesis), which also documents that the model has the
shape the later property proofs need.
-/
namespace RaftProps.RN
open RaftModel RaftModel.Raft

/-- **C16 `prevote_request_changes_nothing`.**  Whatever the state, whatever the pre-vote request
(any term, any sender, any log position, with or without the transfer context): stepping it never
changes `term` or `vote`. -/
theorem prevote_request_changes_nothing (r r' : Raft) (m : Message) (res : Option RaftError)
    (hm : m.msgType = .msgRequestPreVote) (h : r.step m = .ok (r', res)) :
    r'.term = r.term ∧ r'.vote = r.vote := by
  unfold Raft.step at h
  split at h
  · cases h
  · cases h
  · rename_i r1 ht
    cases h; exact stepTerm_prevote r r' m false hm ht
  · rename_i r1 ht
    have h1 := stepTerm_prevote r r1 m true hm ht
    simp only [hm] at h
    split at h
    · rename_i r2 hv
      cases h
      have h2 := stepVote_prevote r1 r' m hm hv
      exact ⟨h2.1.trans h1.1, h2.2.trans h1.2⟩
    · cases h
    · cases h

/-- **C16 `lease_ignores`.**  With `check_quorum`, a known leader and an unexpired lease, a
higher-term vote or pre-vote request that is not a leadership transfer leaves the node exactly as it
was: no term change, no vote, no response. -/
theorem lease_ignores (r : Raft) (m : Message)
    (hty : m.msgType = .msgRequestVote ∨ m.msgType = .msgRequestPreVote)
    (hterm : r.term < m.term) (hcq : r.checkQuorum = true) (hl : r.leaderId ≠ 0)
    (he : r.electionElapsed < r.electionTimeout) (hctx : m.context ≠ campaignTransfer) :
    r.step m = .ok (r, none) := by
  have h0 : m.term ≠ 0 := by omega
  unfold Raft.step Raft.stepTerm
  simp [h0, hterm, hty, hcq, hl, he, hctx]

example : ∃ (r : Raft) (m : Message), (m.msgType = .msgRequestVote ∨ m.msgType = .msgRequestPreVote) ∧
    r.term < m.term ∧ r.checkQuorum = true ∧ r.leaderId ≠ 0 ∧
    r.electionElapsed < r.electionTimeout ∧ m.context ≠ campaignTransfer :=
  ⟨{ raftLog := default, checkQuorum := true, leaderId := 2, electionTimeout := 10, term := 3 },
   { msgType := .msgRequestVote, term := 4, frm := 3 }, by decide⟩

/-- **C20 `rawnode_step_rejects` (local messages).**  `RawNode::step` refuses the five local
message types with `StepLocalMsg` and leaves the node untouched. -/
theorem rawnode_step_rejects_local (r : Raft) (m : Message) (h : isLocalMsg m.msgType = true) :
    RawNode.step r m = .ok (r, some .stepLocalMsg) := by
  unfold RawNode.step; simp [h]

/-- **C20 `rawnode_step_rejects` (unknown peer).**  A response-type message from a peer without a
`Progress` is refused with `StepPeerNotFound` and leaves the node untouched. -/
theorem rawnode_step_rejects_unknown_peer (r : Raft) (m : Message)
    (hl : isLocalMsg m.msgType = false) (hr : isResponseMsg m.msgType = true)
    (hp : r.prs.get m.frm = none) :
    RawNode.step r m = .ok (r, some .stepPeerNotFound) := by
  unfold RawNode.step; simp [hl, hr, hp]

/-- the two tables are the ones of raw_node.rs:62-83 (19 message types, checked exhaustively) -/
theorem local_and_response_tables :
    (∀ t, isLocalMsg t = true ↔ t = .msgHup ∨ t = .msgBeat ∨ t = .msgUnreachable ∨
        t = .msgSnapStatus ∨ t = .msgCheckQuorum) ∧
    (∀ t, isResponseMsg t = true ↔ t = .msgAppendResponse ∨ t = .msgRequestVoteResponse ∨
        t = .msgHeartbeatResponse ∨ t = .msgUnreachable ∨ t = .msgRequestPreVoteResponse) := by
  constructor <;> intro t <;> cases t <;> simp [isLocalMsg, isResponseMsg]

/-- **C17 `proposals_refused_while_transferring`.**  A leader with a transfer in progress drops
every (non-empty) proposal with `ProposalDropped` and does not change. -/
theorem proposals_refused_while_transferring (r : Raft) (m : Message)
    (hm : m.msgType = .msgPropose) (hne : m.entries ≠ []) (hself : (r.prs.get r.id).isSome)
    (ht : r.leadTransferee.isSome) :
    r.stepLeader m = .ok (r, some .proposalDropped) := by
  unfold Raft.stepLeader
  simp only [hm]
  have h1 : m.entries.isEmpty = false := by
    cases hme : m.entries with
    | nil => exact absurd hme hne
    | cons _ _ => rfl
  have h2 : (r.prs.get r.id).isNone = false := by
    cases hg : r.prs.get r.id with
    | none => rw [hg] at hself; cases hself
    | some _ => rfl
  simp [h1, h2, ht]

/-- **C17 `transfer_request_validation`.**  A transfer request naming an unknown peer, a learner,
or the target of the transfer already in progress changes nothing. -/
theorem transfer_request_validation (r : Raft) (m : Message)
    (h : r.prs.get m.frm = none ∨ r.prs.conf.learners.contains m.frm = true ∨
         r.leadTransferee = some m.frm) :
    r.handleTransferLeader m = .ok r := by
  unfold Raft.handleTransferLeader
  cases hg : r.prs.get m.frm with
  | none => rfl
  | some pr =>
    simp only
    by_cases hl : r.prs.conf.learners.contains m.frm = true
    · have hl' : m.frm ∈ r.prs.conf.learners := by simpa using hl
      simp [hl']
    · have hl' : ¬ m.frm ∈ r.prs.conf.learners := by simpa using hl
      rcases h with h | h | h
      · rw [hg] at h; cases h
      · exact absurd h hl
      · simp [hl', h]

/-- **C09 `non_promotable_never_campaigns` (timeout path).**  A node that is not promotable only
counts the tick: no campaign, no message, no term change, whatever the elapsed time. -/
theorem non_promotable_never_campaigns_on_tick (r : Raft) (hs : r.state ≠ .leader)
    (hp : r.promotable = false) :
    r.tick = .ok ({ r with electionElapsed := r.electionElapsed + 1 }, false) := by
  unfold Raft.tick
  have : r.tickElection = .ok ({ r with electionElapsed := r.electionElapsed + 1 }, false) := by
    unfold Raft.tickElection; simp [hp]
  cases hst : r.state <;> simp_all

/-- **C09 (`MsgTimeoutNow` path).**  A follower that is not promotable ignores `MsgTimeoutNow`. -/
theorem non_promotable_ignores_timeout_now (r : Raft) (m : Message)
    (hm : m.msgType = .msgTimeoutNow) (hp : r.promotable = false) :
    r.stepFollower m = .ok (r, none) := by
  unfold Raft.stepFollower; simp [hm, hp]

/-- **C09 `hup_blocked_by_unapplied_conf`.**  While a configuration change sits between `applied`
and `committed`, `hup` (timeout, explicit campaign and transfer alike) is a no-op. -/
theorem hup_blocked_by_unapplied_conf (r : Raft) (transfer : Bool)
    (h : r.hasUnappliedConfChanges r.hupScanLow (r.raftLog.committed + 1) = .ok true) :
    r.hup transfer = .ok r := by
  unfold Raft.hup
  split
  · rfl
  · split
    · rfl
    · rw [h]

/-- **C08 `readIndex_requires_own_term_commit`.**  A leader that has not committed an entry of its
own term drops `MsgReadIndex` without recording or answering anything. -/
theorem readIndex_requires_own_term_commit (r : Raft) (m : Message)
    (hm : m.msgType = .msgReadIndex) (hc : r.commitToCurrentTerm = .ok false) :
    r.stepLeader m = .ok (r, none) := by
  unfold Raft.stepLeader; simp [hm, hc]

/-- **C15 `restore_decision` (stale part).**  A snapshot below the commit index is never
installed and changes nothing. -/
theorem stale_snapshot_rejected (r : Raft) (snap : Snapshot)
    (h : snap.metadata.index < r.raftLog.committed) : r.restore snap = .ok (r, false) := by
  unfold Raft.restore; simp [h]

/-- **C02 `vote_reset_only_on_term_change`.**  `reset` keeps the vote exactly when the term does
not change (so `become_leader`, a lost election and a check-quorum step-down keep it), and the
new term is the argument. -/
theorem vote_reset_only_on_term_change (r : Raft) (t : Nat) :
    (r.reset t).term = t ∧ (r.reset t).vote = if r.term ≠ t then 0 else r.vote :=
  reset_term_vote r t

/-- **C02 `canVote_sound`.**  A real vote request (not a pre-vote) can only be granted when the
node has not voted for anyone else in its term: `can_vote` implies `vote = from ∨ vote = none`. -/
theorem canVote_sound (r : Raft) (m : Message) (hm : m.msgType = .msgRequestVote)
    (h : r.canVote m = true) : r.vote = m.frm ∨ (r.vote = 0 ∧ r.leaderId = 0) := by
  unfold Raft.canVote at h
  simp [hm] at h
  rcases h with h | h
  · exact Or.inl h
  · exact Or.inr h

/-- **Finding F13 (genuine defect of raft-rs, repaired by a `fix:` commit).**  A node at term 0 that
*rejects* a pre-vote request used to panic: the rejection carries `term = self.term = 0` and `send`
was fatal for every (pre-)vote response without a term.  With priorities this is reachable in a
fresh cluster (every node at term 0 with an empty log, the receiver's priority higher than the
candidate's).  After the repair a rejected pre-vote response is sent whatever its term
(replay: `corpus/RN/F13-prevote-reject-term0.trace`). -/
theorem prevote_reject_is_always_sent (r : Raft) (m' : Message)
    (h1 : m'.msgType = .msgRequestPreVoteResponse) (h2 : m'.reject = true) :
    r.send m' = .ok { r with msgs := r.msgs ++ [r.sendFill m'] } := by
  simp [Raft.send, isVoteMsg, h1, h2]

end RaftProps.RN
