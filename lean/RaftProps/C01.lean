import RaftProofs.ProtoC

/-!
# C01 — State-machine safety: every node commits/applies the same entry at an index

Proved here on the abstract protocol P, for **every history** (any number of nodes, any interleaving,
message loss / duplication / reordering, crash at any point and restart from the durable image,
leader changes, snapshots, **membership changes** — the voter configuration is part of the events):

* in every reachable state, any two nodes agree on every entry both report committed
  (`C01_state_machine_safety`), also against what any node holds durably and against every released
  snapshot (`C01_agree_durable`, `C01_snapshot_agrees`);
* across time: whatever any node reports committed at an index — through its commit index, durably,
  or inside a snapshot — is an entry of the ghost *committed log* (`C01_reported_is_committed`), the
  committed log holds at most one entry per index (`C01_committed_unique`) and a committed entry stays
  committed along every continuation of the history (`C01_committed_stable`); hence no node ever
  reports a different entry at an index that was reported before, by itself or by anybody else
  (`C01_never_reports_differently`).

The proof is the classical one, carried through crash/recovery and asynchronous persistence: a
leader commit is backed by a quorum of *released* (= durably covered) acknowledgements of its term;
a later leader is backed by a quorum of grants; quorum intersection gives a voter whose log, recorded
when it decided its vote, retained the acknowledged prefix; the up-to-date rule then forces the new
leader's log to contain it (Leader Completeness, `RaftProofs/ProtoC4.lean`), and every commit index
of every node points into such a prefix (commit soundness, `RaftProofs/ProtoC3.lean`).

The tie to the code: every implementation history produced by the cluster harness is checked, event
by event, to be a history of P (each commit advance, append, vote, snapshot, persist/release of the
real nodes must be accepted by `applyEvent`, and the P state must equal the node's view after every
call), and the monitors compare everything handed to the application across nodes.

Membership changes are covered: the voter configuration in force is part of every `win`,
`commitLeader` and read event and may change along the history.  P does not derive a node's
configuration from its log (component theorems C09/C12 do); its guards demand that the
configurations of a leader commit and of an election that have to agree are *adjacent* (`adjOk`: equal,
or one simple / joint membership-change step apart — a decidable check proved to imply that their
deciding quorums meet, `adj_intersect`) and otherwise that the agreement is exhibited directly when
the later of the two events happens.  The implementation has to meet these demands on every trace.
-/
namespace RaftProps.C01
open RaftModel.P

/-- **State Machine Safety** in every reachable state: two nodes hold the same entry at every index
both report committed -/
theorem C01_state_machine_safety (s : PSys)
    (hr : Reach s) (i j k : Nat) (hk : 0 < k) (hi : k ≤ (s.nodes i).commit) (hj : k ≤ (s.nodes j).commit) :
    (s.nodes i).log[k - 1]? = (s.nodes j).log[k - 1]? := by
  have I := invAll_reachR s hr
  exact getElem?_of_take_eq (sm_safety I.b I.c i j k hi hj) (by omega)

/-- the committed prefixes of any two nodes are comparable: they agree up to the smaller commit index -/
theorem C01_committed_prefixes_agree (s : PSys)
    (hr : Reach s) (i j : Nat) :
    (s.nodes i).log.take (min (s.nodes i).commit (s.nodes j).commit) =
      (s.nodes j).log.take (min (s.nodes i).commit (s.nodes j).commit) := by
  have I := invAll_reachR s hr
  exact sm_safety I.b I.c i j _ (Nat.min_le_left _ _) (Nat.min_le_right _ _)

/-- what a node would restart from agrees with what any node reports committed -/
theorem C01_agree_durable (s : PSys)
    (hr : Reach s) (i j k : Nat) (hi : k ≤ (s.nodes i).commit) (hj : k ≤ (s.nodes j).dcommit) :
    (s.nodes i).log.take k = (s.nodes j).dlog.take k := by
  have I := invAll_reachR s hr
  exact sm_safety_durable I.b I.c i j k hi hj

/-- a released snapshot is exactly the committed prefix of every node that has committed that far -/
theorem C01_snapshot_agrees (s : PSys)
    (hr : Reach s) (m : Snap) (hm : m ∈ s.snaps) (i : Nat) (hi : m.idx ≤ (s.nodes i).commit) :
    (s.nodes i).log.take m.idx = m.pre := by
  have I := invAll_reachR s hr
  exact snapshot_committed I.b I.c m hm i hi

/-! ### across time -/

/-- a node (or a snapshot) reports entry `e` as committed at index `k` -/
def Reports (s : PSys) (k : Nat) (e : LEntry) : Prop :=
  0 < k ∧ ((∃ i, k ≤ (s.nodes i).commit ∧ (s.nodes i).log[k - 1]? = some e) ∨
           (∃ i, k ≤ (s.nodes i).dcommit ∧ (s.nodes i).dlog[k - 1]? = some e) ∨
           (∃ m ∈ s.snaps, k ≤ m.idx ∧ m.pre[k - 1]? = some e))

/-- continuations of a history -/
inductive Steps : PSys → PSys → Prop where
  | refl (s : PSys) : Steps s s
  | tail {s s' s'' : PSys} (e : Event) : Steps s s' → applyEvent s' e = .ok s'' → Steps s s''

theorem reach_of_steps {s s' : PSys} (hr : Reach s) (h : Steps s s') : Reach s' := by
  induction h with
  | refl => exact hr
  | tail e _ hs ih => exact .step e ih hs

/-- every reported entry is an entry of the committed log -/
theorem C01_reported_is_committed (s : PSys)
    (hr : Reach s) (k : Nat) (e : LEntry) (h : Reports s k e) : Committed s k e := by
  have I := invAll_reachR s hr
  obtain ⟨hk, h⟩ := h
  rcases h with ⟨i, hi, he⟩ | ⟨i, hi, he⟩ | ⟨m, hm, hi, he⟩
  · obtain ⟨x, hx, hc⟩ := reported_is_committed I.c i k hk hi
    rw [hx] at he; injection he with he; subst he; exact hc
  · obtain ⟨x, hx, hc⟩ := durable_is_committed I.c i k hk hi
    rw [hx] at he; injection he with he; subst he; exact hc
  · obtain ⟨x, hx, hc⟩ := snapshot_is_committed I.b I.c m hm k hk hi
    rw [hx] at he; injection he with he; subst he; exact hc

/-- the committed log holds at most one entry per index -/
theorem C01_committed_unique (s : PSys)
    (hr : Reach s) (k : Nat) (e e' : LEntry) (h : Committed s k e) (h' : Committed s k e') : e = e' := by
  have I := invAll_reachR s hr
  exact committed_unique I.b I.c h h'

/-- a committed entry stays committed along every continuation of the history -/
theorem C01_committed_stable (s s' : PSys)
    (hr : Reach s) (hs : Steps s s') (k : Nat) (e : LEntry) (h : Committed s k e) : Committed s' k e := by
  induction hs with
  | refl => exact h
  | tail ev hst hstep ih =>
    rename_i s1 s2
    have hr1 := reach_of_steps hr hst
    have I := invAll_reachR s1 hr1
    exact committed_step I.c (grow_step s1 s2 ev I.v I.l hstep) ev hstep ih

/-- **No index is ever reported with two different entries**: if anybody reports `e` at index `k` at
some point of a history and anybody reports `e'` at `k` at the same or any later point, then `e = e'` -/
theorem C01_never_reports_differently (s s' : PSys)
    (hr : Reach s) (hs : Steps s s') (k : Nat) (e e' : LEntry)
    (h : Reports s k e) (h' : Reports s' k e') : e = e' := by
  have hr' := reach_of_steps hr hs
  have c1 := C01_committed_stable s s' hr hs k e (C01_reported_is_committed s hr k e h)
  have c2 := C01_reported_is_committed s' hr' k e' h'
  exact C01_committed_unique s' hr' k e e' c1 c2

theorem steps_head {s s1 s' : PSys} (e : Event) (h1 : applyEvent s e = .ok s1) (h : Steps s1 s') : Steps s s' := by
  induction h with
  | refl => exact .tail e (.refl s) h1
  | tail e' _ hs ih => exact .tail e' ih hs

theorem steps_of_run : ∀ (es : List Event) (s s' : PSys), run s es = .ok s' → Steps s s' := by
  intro es
  induction es with
  | nil => intro s s' h; simp only [run] at h; cases h; exact .refl s
  | cons e es ih =>
    intro s s' h
    simp only [run] at h
    split at h
    · rename_i s1 h1; exact steps_head e h1 (ih s1 s' h)
    · cases h

/-- the statement of the earlier rounds (`C01_full_statement`: the voter configuration changing along
the history) is now a theorem -/
theorem C01_full : ∀ (s s' : PSys), Reach s → (∃ es, run s es = .ok s') → ∀ k e e',
    Reports s k e → Reports s' k e' → e = e' := by
  intro s s' hr ⟨es, hes⟩ k e e' h h'
  exact C01_never_reports_differently s s' hr (steps_of_run es s s' hes) k e e' h h'

/-! ### non-vacuity: in a three-voter history the leader and a follower both commit entry 1, a third
node installs a snapshot of it, and all three report the same entry -/

def c3 : Cfg := ⟨[1, 2, 3], []⟩
def e1 : LEntry := ⟨1, 0, 7⟩

def hist : List Event :=
  [.bump 1 1, .campaign 1, .rdy 1, .persist 1 1, .release 1 (.grant 1 1 1 {}), .release 1 (.voteReq 1 1 0 0),
   .bump 2 1, .grant 2 1, .rdy 2, .persist 2 1, .release 2 (.grant 1 2 1 {}), .win 1 c3 [1, 2],
   .leaderAppend 1 e1, .ackSelf 1 1, .rdy 1, .persist 1 1, .release 1 (.ack 1 1 1 []), .sendApp 1 ⟨1, 1, 0, 0, [e1], 0⟩,
   .recvApp 2 ⟨1, 1, 0, 0, [e1], 0⟩, .rdy 2, .persist 2 1, .release 2 (.ack 1 2 1 []),
   .commitLeader 1 1 c3 [1, 2], .sendHB 1 2 1, .commitHB 2 1 ⟨1, 2, 1⟩, .sendSnap 1 1, .bump 3 1, .installSnap 3 1 1 1]

example : (match run init hist with
    | .ok s => [((s.nodes 1).commit, (s.nodes 1).log), ((s.nodes 2).commit, (s.nodes 2).log),
                ((s.nodes 3).commit, (s.nodes 3).log)]
    | .error _ => []) = [(1, [e1]), (1, [e1]), (1, [e1])] := by decide

/-- the leader cannot commit before the follower's acknowledgement is released -/
example : (match run init (hist.take 21 ++ [.commitLeader 1 1 c3 [1, 2]]) with
    | .ok _ => "committed" | .error _ => "refused") = "refused" := by decide

end RaftProps.C01
